#!/bin/sh
# Build the framework from files on disk only (offline): Go harness against /repo, full Coq .vo build.
set -e
cd "$(dirname "$0")"
export GOFLAGS=-mod=mod GOPROXY=off
unset GOTOOLCHAIN GOSUMDB || true
mkdir -p run evidence
cp /repo/go.sum harness/go.sum
(cd harness && go build -tags verif -o ../run/nghx .)
# regenerate the tables printed from the Go source (translator sub-commands listed under `gen` in lib/props/*.py)
python3 - <<'PY'
import sys, subprocess, os
sys.path.insert(0, 'lib')
from props import PROPS
import vf
done = set()
for pid, cfg in sorted(PROPS.items()):
    for g in cfg.get('gen', []):
        key = tuple(g)
        if key in done:
            continue
        done.add(key)
        rc = subprocess.run([vf.NGHX] + list(g), cwd=vf.VERIF, env=vf.goenv()).returncode
        print('gen', ' '.join(g), 'rc', rc)
PY
python3 lib/mkcoqproject.py
(cd coq && coq_makefile -f _CoqProject -o Makefile >/dev/null && (timeout 3000 make -k -j16 || echo "setup: some Coq targets failed (each check rebuilds and reports its own)"))
echo setup-ok
