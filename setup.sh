#!/bin/sh
# Build the framework from files on disk only (offline): Go harness against /repo, full Coq .vo build.
set -e
cd "$(dirname "$0")"
export GOFLAGS=-mod=mod GOPROXY=off
unset GOTOOLCHAIN GOSUMDB || true
mkdir -p run evidence
cp /repo/go.sum harness/go.sum
(cd harness && go build -tags verif -o ../run/nghx .)
if [ -x run/nghx ] && run/nghx gen-tables -out coq/gen >/dev/null 2>&1; then :; fi
python3 lib/mkcoqproject.py
(cd coq && coq_makefile -f _CoqProject -o Makefile >/dev/null && (timeout 3000 make -k -j16 || echo "setup: some Coq targets failed (each check rebuilds and reports its own)"))
echo setup-ok
