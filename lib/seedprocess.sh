#!/bin/bash
# lib/seedprocess.sh <round-letter> [jobs] : collect finished seeds of a round from /tmp/seed<r>-Cxx/_seed, run them against the
# checks and confirm them (up to <jobs> seeds at a time); one log per seed under run/seedlog/
r=$1; j=${2:-3}; cd /verif; mkdir -p run/seedlog
one() { id=$1; p=$2; d=$3
  { lib/seedrun.py $id 2>&1 | grep -E "^==|VIOLATION|PATCH" | head -3; lib/seedconfirm.sh $id $p $d; } > run/seedlog/$id.log 2>&1
  grep -hE "^==|^confirmed" run/seedlog/$id.log; }
for d in /tmp/seed$r-C*; do
  p=$(basename $d | sed "s/seed$r-//"); id=seed-$p-$r
  [ -f $d/_seed/README.md ] && [ -f $d/_seed/patch.diff ] || continue
  [ -f seeded/$id/patch.diff ] && continue
  mkdir -p seeded/$id; cp $d/_seed/patch.diff seeded/$id/; cp $d/_seed/zz_seed_demo_test.go seeded/$id/zz_seed_demo_test.go.txt 2>/dev/null; cp $d/_seed/README.md seeded/$id/
  [ -f seeded/$id/meta.json ] || echo "{\"id\":\"$id\",\"property\":\"$p\"}" > seeded/$id/meta.json
  while [ $(jobs -r | wc -l) -ge $j ]; do sleep 5; done
  one $id $p $d &
done
wait
