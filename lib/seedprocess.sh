#!/bin/bash
# lib/seedprocess.sh <round-letter> : collect finished seeds of a round from /tmp/seed<r>-Cxx/_seed, run them against the checks, confirm them
r=$1; cd /verif
for d in /tmp/seed$r-C*; do
  p=$(basename $d | sed "s/seed$r-//"); id=seed-$p-$r
  [ -f $d/_seed/README.md ] && [ -f $d/_seed/patch.diff ] || continue
  [ -f seeded/$id/patch.diff ] && continue
  mkdir -p seeded/$id; cp $d/_seed/patch.diff seeded/$id/; cp $d/_seed/zz_seed_demo_test.go seeded/$id/zz_seed_demo_test.go.txt 2>/dev/null; cp $d/_seed/README.md seeded/$id/
  [ -f seeded/$id/meta.json ] || echo "{\"id\":\"$id\",\"property\":\"$p\"}" > seeded/$id/meta.json
  lib/seedrun.py $id 2>&1 | grep -E "^==|VIOLATION|PATCH" | head -2
  lib/seedconfirm.sh $id $p $d
done
