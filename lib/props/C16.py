def _on_proof_failure(checker):
    """A theorem of Properties/C16.v no longer compiles (typically: a required-flags entry of the system-call or
    native-method table was weakened in the Go source, so a table obligation broke).  Look for a concrete failing
    input: the dynamic sweep runs every table entry under all 16 flag sets on a live chain and observes storage
    diff / events / nested calls, so a weakened entry shows up as e.g. `storage changed by a frame without
    WriteStates` with a replayable case.  The evaluator module (Harness/C16.v) depends only on the generated tables
    and the model definitions, not on the proofs, so it still builds."""
    import vf
    ok, _ = vf.coq_build([m.replace(".v", ".vo") for m in checker.cfg.get("harness_mods", [])])
    if not ok:
        return
    before = len(checker.violations)
    checker.step_correspondence(widen=False)
    if len(checker.violations) > before:
        # concrete replay found: the generic widened pass would only repeat it
        checker.cfg = dict(checker.cfg, runs=[])


PROP = dict(
    properties="Properties/C16.v",
    harness_mods=["Harness/C16.v"],
    gen=[["gen-auth-tables", "-out", "coq/gen"]],
    runs=[dict(cmd="c16", quick=1, thorough=1), dict(cmd="c16r", quick=150, thorough=3000)],
    on_proof_failure=_on_proof_failure,
    trusted_base=[
        "translator harness/c16gen.go (prints pkg/core/interops.go systemInterops via core.SpawnVM and the native method tables via native.NewDefaultContracts/HFSpecificContractMD into coq/gen/*.v on every run; reads exported values only)",
        "hand-written classification coq/Auth/Classify.v (which table entries write / notify / call) - cross-checked dynamically on every run (an effect from an unlisted entry is reported; witnessed entries are listed in the evidence under x_witnessed)",
        "hand-written Gallina models coq/Auth/Flags.v (flag propagation, the two gates, effect machine) and coq/Auth/Permission.v (IsAllowed/CanCall/callInternal), tied by exhaustive correspondence",
    ],
    assumptions=[
        "hashes and group keys are abstracted to numbers (the code only compares them for equality)",
        "the effect machine gives each table entry the effects of the classification list; the native method bodies themselves are not modelled",
        "pre-Aspidochelone relaxation of Management deploy/update flags is not modelled (tables and harness use the latest hard-fork set; table theorems also cover the per-hard-fork tables)",
    ],
    modelled="flag propagation, gates and permission matching are modelled and proved; the tables are generated from the source; effects of system calls / native methods are observed on a live chain for every entry x 16 flag sets, not derived from the Go bodies",
)
META = dict(
    text="Proved in Coq: flags only shrink along any call chain; over the tables GENERATED from the Go source on every run, every system call / native method (every hard-fork) classified as state-changing requires WriteStates, notifying requires AllowNotify (from Faun on), calling requires AllowCall; on the model machine no write/notification/call happens in a frame lacking the flag, safe methods and dynamic scripts are read-only; CanCall <=> some permission matches callee (wildcard/hash/group) AND method; the stored (stack item) form of permissions round-trips, so a restarted node allows exactly what the deploying node allowed. Tied to the code by an exhaustive sweep (every table entry x 16 flag sets on a live neotest chain; every single permission x callee x method, also on the stored forms (item, manifest, serialized contract state) and through real cross-contract calls before and after a node restart over the same LevelDB). Partial: two open findings - F6 (group permission ignores its method list; model follows the repaired code, patch ready) and F39 (NeoToken.vote, PolicyContract.blockAccount, ContractManagement.destroy start the voter's onNEP17Payment without AllowCall; frame-level no-call theorem is stated with the guard f39_free, full statement kept and refuted).",
    note="Trusted: Coq kernel/vm_compute, the translator, the classification list (cross-checked dynamically), the Go harness and orchestration. The hand models are tied by correspondence, not by translation. Native method bodies are observed, not modelled.",
)
