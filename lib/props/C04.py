PROP = dict(
    code3_is_violation=True,
    properties="Properties/C04.v",
    harness_mods=["Harness/C04.v"],
    runs=[dict(cmd="c04", quick=750, thorough=30000)],
    trusted_base=[
        "hand-written Gallina mechanism model coq/Exec/CallTree.v of callExFromNative/unloadContext/handleException/"
        "ContractHasTryBlock/dao layers and native caches (Policy, NEO)/storeBlock persist-iff-halt/VM reuse across a block "
        "(tied by correspondence)",
        "hand-written ideal semantics coq/Exec/Spec.v (the specification); the storage effect of NEO.transfer and of a GAS mint "
        "(neo_eff, mint_eff) is one function used by both the machine and the specification",
        "the NeoVM interpreter contract and entry-script compiler of harness/c04vm.go (they decide what the real chain is asked to do)",
        "hooks (tag verif, add-only, /repo commit 8d67573): Blockchain.VerifNeoVotesChanged reads the NEO cache's votesChanged flag",
    ],
    assumptions=[
        "theorems C04_*_partial hold under the SEMANTIC guard that the machine's ghost flag stays down: no layered call frame and no "
        "payment callback returned while an exception was pending (clean = true); contract calls in finally blocks entered by normal "
        "completion are inside the guard; outside it the statement is refuted in Coq (W2) and on the real chain (known finding F40); "
        "for the pre-repair policy Lazy the syntactic condition g1 is needed in addition (F13, repaired in /repo, W1)",
        "the GAS a NEO account is minted when its balance is touched (calculateBonus) is an input of the model, read from the chain "
        "(CalculateClaimable at the case block); gas accounting, witness checks, manifest permissions, contract deployment inside a "
        "transaction, NEO vote/registration as tree operations are not part of the model",
    ],
    modelled="block position (one reused VM, VM.Reset per transaction: block = fold of single transactions, fees burnt per sender first), "
             "layering decision, unload callbacks, exception unwinding with the pending-exception register, notification truncation, "
             "copy-on-write Policy and NEO caches, GAS transfer and NEO transfer (balances, candidate votes, voters count, votesChanged, "
             "GAS claims to both sides) with payment callbacks, persist-iff-halt: modelled and tied to the Go code by differential "
             "evaluation (storage dump, GAS/NEO balances, votes, Policy value via cache and storage, votesChanged via hook, VM state, "
             "notification list, payer's balance) and by replica comparison of state roots; not verified by translation",
)
META = dict(
    text="Proved in Coq for all call trees (structural induction, no bound): a transaction that does not halt leaves the block-level "
         "state exactly as after the fee deduction from its sender (unconditional); the lower store layers and notification prefix are "
         "never touched by an execution (frame lemma, unconditional); a read-only callee changes nothing (unconditional); a block run on "
         "one reused VM with the per-transaction reset is the fold of single transactions after every fee has been burnt from its own "
         "sender, and a transaction that does not halt is, at any block position, as if it were not there (unconditional). Partial: "
         "equality of the lazy-layering machine with ideal transactional frames (storage incl. GAS and NEO balances, candidate votes, "
         "voters count, GAS claims; Policy value and NEO votesChanged cache flag; notifications; halt/fault), 'a failed call leaves no "
         "trace' and 'before and after are kept' are proved under a semantic guard - no layered call frame and no payment callback "
         "returns while an exception is pending - which admits contract calls in finally blocks entered normally, and are refuted "
         "without it by a witness reproduced on the real chain (known finding F40, same rule as the reference implementation). The "
         "earlier finding F13 is repaired in /repo; the pre-repair machine is kept as policy Lazy with its own witness. The model is tied "
         "to the Go code by running random and fault-injected call trees as real transactions (NeoVM interpreter contracts, TRY/THROW, "
         "call flags, GAS and NEO transfers with payment callbacks that write or throw, voters, Policy setter, three different payers) "
         "on two replica chains and comparing with the model inside Coq (single transactions with read-only neighbours, and blocks of "
         "2-4 transactions from different senders whose earlier members end in every way), plus state-root equality with the block "
         "that carries a no-op twin instead of the faulted transaction and with the same transactions spread one per block.",
    note="Trusted: Coq kernel and vm_compute, the Go harness incl. its NeoVM interpreter contract, the orchestration script, one "
         "read-only hook; model and specification are hand-written and tied by correspondence only. Not modelled: gas, witnesses, "
         "permissions, the size of a GAS claim (input), deployment/update inside a transaction, Storage.Find iterators, NEO transfers "
         "inside multi-transaction block cases (claims depend on the height).",
)
