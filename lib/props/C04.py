PROP = dict(
    properties="Properties/C04.v",
    harness_mods=["Harness/C04.v"],
    runs=[dict(cmd="c04", quick=900, thorough=60000)],
    trusted_base=[
        "hand-written Gallina mechanism model coq/Exec/CallTree.v of callExFromNative/unloadContext/handleException/"
        "ContractHasTryBlock/dao layers and native cache/storeBlock persist-iff-halt (tied by correspondence)",
        "hand-written ideal semantics coq/Exec/Spec.v (the specification)",
        "the NeoVM interpreter contract and entry-script compiler of harness/c04vm.go (they decide what the real chain is asked to do)",
    ],
    assumptions=[
        "theorems C04_*_partial hold under the syntactic guard `guard pol p`: no finally block contains a contract call (g2) and, "
        "for the code as it is, a catch block followed by a finally block makes no un-layered call (g1); outside the guards the "
        "statements are refuted in Coq (W1, W2) and the same witnesses are replayed on the real chain (known findings F13, F40)",
        "gas accounting, witness checks, manifest permissions, NEO token, contract deployment inside a transaction are not part of the model",
    ],
    modelled="block position (one reused VM, VM.Reset per transaction: block = fold of single transactions), layering decision, unload callbacks, exception unwinding with the pending-exception register, notification truncation, "
             "copy-on-write Policy cache, GAS transfer with payment callback, persist-iff-halt: modelled and tied to the Go code by "
             "differential evaluation (storage dump, balances, Policy value via cache and via storage, VM state, notification list) and by "
             "replica comparison of state roots; not verified by translation",
)
META = dict(
    text="Proved in Coq for all call trees (structural induction, no bound): a transaction that does not halt leaves the block-level "
         "state exactly as after the fee deduction (unconditional); the lower store layers and notification prefix are never touched by an "
         "execution (frame lemma, unconditional); a read-only callee changes nothing (unconditional); a block run on one reused VM with the "
         "per-transaction reset is the fold of single transactions, and a transaction that does not halt is, at any block position, as if it "
         "were not there (unconditional). Partial: equality of the lazy-layering "
         "machine with ideal transactional frames (storage, native setting, notifications, halt/fault), 'a failed call leaves no trace' and "
         "'before and after are kept' are proved under a syntactic guard (no contract call inside a finally block; for the code as it is also "
         "no un-layered call in a catch block that has a finally block) and refuted without it by two witnesses that are reproduced on the real "
         "chain (known findings F13: callee effects visible to the finally block change HALT into FAULT; F40: effects of a call made from an "
         "exception-entered finally block are dropped). The model is tied to the Go code by running random and fault-injected call trees as "
         "real transactions (NeoVM interpreter contracts, TRY/THROW, call flags, GAS transfers with payment callbacks, Policy setter) on two "
         "replica chains and comparing with the model inside Coq (single transactions with read-only neighbours, and blocks of 2-4 "
         "transactions whose earlier members end in HALT / uncaught throw / ABORT / ASSERT / fault in a callee / fault or swallowed exception "
         "in a finally block / out of gas, compared per transaction and against the same transactions one per block), plus state-root equality with the block that carries a no-op twin instead of "
         "the faulted transaction.",
    note="Trusted: Coq kernel and vm_compute, the Go harness incl. its NeoVM interpreter contract, the orchestration script; model and "
         "specification are hand-written and tied by correspondence only. Not modelled: gas, witnesses, permissions, NEO token distribution, "
         "deployment/update inside a transaction, multi-transaction interaction beyond read-only neighbours, Storage.Find iterators.",
)
