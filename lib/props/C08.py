PROP = dict(
    properties="Properties/C08.v",
    harness_mods=["Harness/C08.v"],
    runs=[dict(cmd="c08", quick=700, thorough=24000)],
    trusted_base=[
        "hand-written Gallina model coq/Mempool/Model.v of pkg/core/mempool/mem_pool.go (tied by correspondence on the public API, not by translation)",
        "coq/Harness/C08.v: the specification of the property text evaluated on the observations (obs_inv, add_ok_spec)",
        "harness/c08.go, c08conc.go: stub Feer, transaction universe builder, direct evaluation of the invariant on the getters; for concurrent cases the goroutine-dump test for 'parked at the pool lock' and the hook pkg/core/mempool/verif_hooks.go",
    ],
    assumptions=[
        "hashes identify transactions; no two transactions name each other or themselves in Conflicts (pre-image resistance); no duplicate Conflicts attribute in one transaction (verifyTxAttributes); unique signers (Transaction.isValid)",
        "SystemFee + NetworkFee < 2^64 per transaction, balances < 2^255; int64 sums of network fees do not overflow",
        "the Feer's answers (balances, fee per byte) change only when RemoveStale runs (Blockchain.storeBlock calls it under the chain lock)",
        "a Notary-sent transaction has at least two signers (NotaryAssisted rules of verifyAndPoolTx)",
        "every public operation is ONE region of the pool's RWMutex (Mempool/Conc.v: then every interleaving is a sequential order); tied by forced interleavings of 2-3 goroutines (lock held from the harness through a hook, Feer callbacks as rendezvous) with a linearizability check against the real pool and the model; sync.RWMutex itself (queued readers admitted before the next writer) is trusted; the data payload, events and metrics are not modelled; blockStamp is a table beside the pool",
        "the stored fee per byte follows increases only OR every change (repair F57): both behaviours are proved and one of them must explain a whole case",
    ],
    modelled="mempool.Pool (Add, Remove, RemoveStale, Verify, HasConflicts) modelled by hand and proved; the Go code is tied to the model by differential evaluation of operation sequences through the public getters only (fees/conflicts/oracleResp tables are observed indirectly through Verify, HasConflicts and later Adds)",
)
META = dict(
    text="Proved in Coq for all operation sequences (induction over the sequence) on a mechanism-level model of mempool.Pool with the repairs F4/F5: the invariant (no duplicates, slice/map bijection, length <= capacity, priority order, per-payer fee sum = sum of pooled fees <= balance incl. notary depositors, exact Conflicts reverse index, no two pooled transactions in conflict, exact oracle index hence at most one response per request) is reachable-closed; no nil dereference is reachable; a successful Add removes only conflicting transactions, the replaced oracle response and the strictly lower last entry of a full pool; a failed Add leaves the state unchanged up to a cached balance, and states equal in that sense answer every later operation identically (congruence proved); RemoveStale's resend decision (SetResendThreshold) changes nothing in the pool and hands exactly the due kept items to the callback. The unrepaired code is refuted in Coq by two witnesses (F4, F5), which the correspondence check rediscovers on the implementation. Concurrent callers: with every operation one lock region, every schedule of concurrently issued operations is a sequential order of them and the invariant holds whenever the lock is free (proved; a check-then-act split of Add is refuted). The Go code is tied to the model by random operation sequences compared after every step through the public API, by forced interleavings of 2-3 goroutines checked for linearizability (against the real pool run sequentially and against the model) with readers queued behind every write region, and the invariant is evaluated directly on what the getters and those readers return. Finding F59: Verify writes the fee table under the read lock.",
    note="Trusted: Coq kernel and vm_compute, the hand-written model and its tie by differential testing through public getters only, the Go harness with its stub Feer, the orchestration script. Assumed: collision/pre-image resistance of hashes (abstract ids, no mutual Conflicts), fee and balance magnitudes far from the integer limits, Feer answers constant between RemoveStale calls, every operation one lock region (modelled as such; interleavings of regions are linearizable by theorem and checked on forced schedules; sync.RWMutex trusted).",
)
