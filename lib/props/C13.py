PROP = dict(
    properties="Properties/C13.v",
    harness_mods=["Harness/C13.v"],
    gen=[["gen-vm-tables", "-out", "coq/gen"]],
    runs=[dict(cmd="c13", quick=400, thorough=40000)],
    trusted_base=[
        "hand-written Gallina executable specification of NeoVM: coq/VM/{Arith,Items,Decode,Data,Model}.v (the property's "
        "'independent executable specification'; its internal consistency is proved, its agreement with vm.go is by correspondence)",
        "generated tables coq/gen/{Opcodes,OpcodePrices,VMLimits}.v printed by `nghx gen-vm-tables` from the exported values of "
        "pkg/vm/opcode, pkg/core/fee, pkg/vm, pkg/vm/stackitem (translator harness/c12gen.go)",
        "canonical stack serialisation written twice (coq/VM/Obs.v, harness/c13obs.go)",
    ],
    assumptions=[
        "bare VM: SYSCALL and CALLT fault (no interop layer); all hard-forks enabled (vm.New default); no read-only items",
        "price getter fee.Opcode(base, op) installed, gas limit set",
    ],
    modelled="the whole instruction set without external effects is modelled (not translated) and compared with the real VM "
             "on generated scripts; math/big is trusted to implement the integers",
)
META = dict(
    text="The Gallina model coq/VM/Model.v is an executable specification of NeoVM over unbounded integers with explicit "
         "256-bit checks (constants, flow control incl. TRY/CATCH/FINALLY, stack, slots, splice, bitwise, arithmetic incl. "
         "POW/SQRT/MODMUL/MODPOW with the -1 exponent, comparison, compound types with a heap for sharing and mutation, "
         "types/CONVERT, reference counter, gas). Proved in Coq for all operands: every arithmetic result is within "
         "[-2^255, 2^255) or FAULT; truncated DIV/MOD laws and the exact fault condition of DIV; SHR floor, SHL; SQRT bracket; "
         "POW = range-checked power; MODPOW = truncated remainder of the power, modular inverse for -1; MODMUL; "
         "integer<->bytestring and boolean conversion round-trips; determinism. The real VM (built from the working tree) is "
         "compared with the specification per instruction on a boundary lattice, on zero/maximum-length byte strings, on "
         "compound/control-flow templates and short sequences: state, stack (with sharing), gas; every script is run twice on fresh VMs and a third time after Reset() on a VM that has just executed one or two other "
         "scripts ending in every way (HALT with values on stack and in slots, unhandled THROW, faults inside try/catch/finally, "
         "ABORT, out of gas, depth and stack-size limits, fault in a nested call): outcome and a per-instruction trace (offset, "
         "opcode, item counter, gas, stack/invocation/try depth) must equal the fresh run's; init_state is the specification of "
         "what Reset re-establishes (C13_reset_is_init). Slot initialisation: all ordered pairs (and random triples) of INITSSLOT/INITSLOT "
         "with counts from {0,1,2,255} in one context and across CALL, followed by loads/stores at index 0, n-1, n; two scripts "
         "loaded on one VM (statics per script); exact fault conditions proved (C13_initslot_once, C13_initsslot_once). Aliasing: every script runs from the same byte slice "
         "(bytes compared afterwards); producer x boundary operand x in-place mutator templates with second references read back; "
         "freshness of results proved (C13_results_keep_buffers, C13_mutator_one_buffer, C13_buffer_results_fresh).",
    note="Correspondence, not translation: vm.go is tied to the specification only on the generated scripts. Trusted: the "
         "hand-written specification, the generated tables' translator, the two serialisers, Coq kernel/vm_compute, the harness.",
)
