PROP = dict(
    properties="Properties/C12.v",
    harness_mods=["Harness/C12.v"],
    gen=[["gen-vm-tables", "-out", "coq/gen"]],
    runs=[dict(cmd="c12", quick=300, thorough=30000)],
    trusted_base=[
        "hand-written Gallina model of pkg/vm (coq/VM/{Arith,Items,Decode,Data,Model}.v) incl. the hand-adjusted reference "
        "counter of vm.go/ref_counter.go; tied to the code by stepping the real VM (state, stack, gas, VM.refs before every instruction)",
        "generated tables coq/gen/{Opcodes,OpcodePrices,VMLimits}.v (translator harness/c12gen.go, reads exported values only)",
        "independent Go walk of the real stacks and slots (harness/c12walk.go) and its Coq twin VM/Reach.v",
        "hooks (build tag verif, add-only pkg/vm/verif_hooks.go): VM.VerifRefs, VM.VerifGasPico, Context.VerifTryStack (read-only)",
    ],
    assumptions=[
        "finite gas limit and a price getter with factor >= 1 installed (as every ledger execution does); a bare vm.New() without "
        "prices can spin on JMP 0 and is outside the property's premise",
        "bare VM: SYSCALL/CALLT fault; Go runtime memory safety of math/big, slices and maps is assumed",
    ],
    modelled="vm.go and scparser.IsScriptCorrect are modelled, not translated; refs_never_undercount is proved in Coq only for "
             "executions that create no Array/Struct/Map (there the counter is exact); for the compound-type instructions it is "
             "checked on the real VM and on the model at every step of every generated execution",
)
META = dict(
    text="Proved in Coq on the VM model for every script and state: totality (every execution under a finite gas limit with "
         "prices >= 1 ends in HALT or FAULT; measure 2*(limit-consumed)+depth; premise on the price table re-checked against "
         "the generated table on every run), HALT => consumed <= limit, and the limits after every non-faulting instruction "
         "(item counter <= MaxStackSize, integers within 256 bits and byte strings/buffers <= MaxSize everywhere in stacks, "
         "slots, heap and pending exception, <= 1024 contexts, <= 16 try blocks per context). Direct checks on the real VM "
         "stepped through arbitrary byte strings and deep well-typed programs (shared/nested compounds, all collection "
         "instructions, calls, exceptions, unloading): no panic escapes Run, HALT => GasConsumed <= GasLimit, item counter >= "
         "independent walk at every step and == while no cycle was built, limits; refs trace, state, stack and gas equal the "
         "model's; soundness of the static script check (model of scparser.IsScriptCorrect, compared with it on every case): a "
         "script that passes never stands at a non-boundary offset - proved in Coq and checked directly on the real VM. "
         "Partial: counter soundness (reach_count <= refs) is proved in Coq only as exactness on compound-free executions "
         "(all instructions except the nine that create an Array/Struct/Map); for the compound-type instructions it is only "
         "checked at every step of every generated execution (real VM: counter vs independent walk; model: walk vs the "
         "counter the real VM showed).",
    note="The model is hand-written and tied to vm.go by differential execution only. Trusted: model, translator of the tables, "
         "Go walk, hooks, Coq kernel/vm_compute, harness and orchestration.",
)
