PROP = dict(
    properties="Properties/C12.v",
    harness_mods=["Harness/C12.v"],
    gen=[["gen-vm-tables", "-out", "coq/gen"]],
    runs=[dict(cmd="c12", quick=300, thorough=30000)],
    trusted_base=[
        "hand-written Gallina model of pkg/vm (coq/VM/{Arith,Items,Decode,Data,Model}.v) incl. the hand-adjusted reference "
        "counter of vm.go/ref_counter.go; tied to the code by stepping the real VM (state, stack, gas, VM.refs before every instruction)",
        "generated tables coq/gen/{Opcodes,OpcodePrices,VMLimits}.v (translator harness/c12gen.go, reads exported values only)",
        "independent Go walk of the real stacks and slots (harness/c12walk.go) and its Coq twin VM/Reach.v",
        "hooks (build tag verif, add-only pkg/vm/verif_hooks.go): VM.VerifRefs, VM.VerifGasPico, Context.VerifTryStack (read-only)",
    ],
    assumptions=[
        "finite gas limit and a price getter with factor >= 1 installed (as every ledger execution does); a bare vm.New() without "
        "prices can spin on JMP 0 and is outside the property's premise",
        "bare VM: SYSCALL/CALLT fault; Go runtime memory safety of math/big, slices and maps is assumed",
    ],
    modelled="vm.go and scparser.IsScriptCorrect are modelled, not translated; both halves of the accounting statement "
             "(never under-counts; exact while no cycle was built) are proved in Coq for every instruction of the bare VM (one "
             "script context) and tied to the code by comparing VM.refs before every instruction with the model and with an "
             "independent walk of the real stacks and slots",
)
META = dict(
    text="Proved in Coq on the VM model for every script and state: totality (every execution under a finite gas limit with "
         "prices >= 1 ends in HALT or FAULT; measure 2*(limit-consumed)+depth; premise on the price table re-checked against "
         "the generated table on every run), HALT => consumed <= limit, and the limits after every non-faulting instruction "
         "(item counter <= MaxStackSize, integers within 256 bits and byte strings/buffers <= MaxSize everywhere in stacks, "
         "slots, heap and pending exception, <= 1024 contexts, <= 16 try blocks per context). Direct checks on the real VM "
         "stepped through arbitrary byte strings and deep well-typed programs (shared/nested compounds, all collection "
         "instructions, calls, exceptions, unloading): no panic escapes Run, HALT => GasConsumed <= GasLimit, item counter >= "
         "independent walk at every step and == while no cycle was built, limits; refs trace, state, stack and gas equal the "
         "model's; soundness of the static script check (model of scparser.IsScriptCorrect, compared with it on every case): a "
         "script that passes never stands at a non-boundary offset, also when entered at a method offset accepted with a methods bit "
         "field (as Management.checkScriptAndMethods calls it) - proved in Coq and checked directly on the real VM. "
         "Counter soundness (reach_count <= refs after every instruction of every execution and at HALT, any script) is "
         "proved in Coq through an in-degree invariant of the per-compound counts, preserved by every instruction family "
         "(creation, growth, readers, spreading, removal/SETITEM, slots and stack shuffles, CALL/RET/unloading, TRY/THROW "
         "unwinding) - on the model whose REMOVE follows the repair F50: the proof attempt found that vm.go's REMOVE on a Map "
         "under-counted (finding F50, reproduced on the real VM: counter -1 with an empty stack; fixed in the tree). Exactness "
         "(reach_count == refs after every instruction while no instruction ever closed a cycle) is proved as well: on an acyclic "
         "heap every compound with a count > 0 is reachable from a root, the walk completes and equals the counter, and no "
         "instruction leaks a count (SETITEM needs acyclicity for that: un-counting the replaced element cannot reach the container).",
    note="Seventh round: contexts are pushed through every VM entry point (LoadScript*, LoadDynamicScript, LoadNEFMethod with/without _initialize and with native callbacks, the contract call with moved arguments, Call); nestings of 1021..1025 built by a mix of them; C12_depth_bounded_all_loaders, C12_run_with_limits. Sixth round: several scripts on one VM (SYSCALL loader as for contract calls), exceptions across script boundaries with static slots, counter vs walk of all contexts at every step and refs traces against the model (CMulti); finding F58 (stack of a script abandoned by an exception stays counted). The Coq theorems on the counter cover any number of script contexts (C12_refs_never_undercount_multi, C12_refs_exact_acyclic_multi: loader as SYSCALL handler, static slot released at the last context, stack of an abandoned script un-counted = repair F58). The model is hand-written and tied to vm.go by differential execution only. Trusted: model, translator of the tables, "
         "Go walk, hooks, Coq kernel/vm_compute, harness and orchestration.",
)
