PROP = dict(
    properties="Properties/C17.v",
    harness_mods=["Harness/C17.v"],
    runs=[dict(cmd="c17", quick=120, thorough=3000, timeout=1500),
          dict(cmd="c17x", quick=160, thorough=6000, no_coq=True, timeout=1500),
          dict(cmd="c17t", quick=160, thorough=6000, no_coq=True, timeout=1500)],
    trusted_base=["hand-written Gallina models coq/Codec/{Wire,TxCodec,ItemCodec}.v of pkg/io, pkg/core/transaction, pkg/core/block (shape), pkg/vm/stackitem/serialization.go (tied by correspondence)",
                  "coq/Common/Sha256.v (executable SHA-256, compared with crypto/sha256 through every transaction/header hash of the run)",
                  "the guarded child process of the harness (time limit, allocation accounting via runtime.MemStats)"],
    assumptions=["public keys are 33 opaque bytes in the model: curve membership / decompression are not modelled (inputs rejected by Go for elliptic-curve reasons are checked directly only)",
                 "Go pointer identity of stack items (sharing, cycles) is not modelled: items are trees"],
    modelled="reader/writer primitives, transaction (signers, rules, conditions, attributes, witnesses), header, block shape and stack-item serialisation are modelled and proved; "
             "P2P/consensus payloads, state roots, MPT nodes, NEF, manifests, notifications and all JSON forms are tied by direct round-trip and decoder-robustness checks only (no model)",
)
META = dict(
    text="Proved in Coq for all values and all byte strings: reader/writer primitives (var-uint incl. acceptance of non-minimal forms, var-bytes with maxima checked before allocation, fixed-width integers, arrays) and the binary codecs of witness, attributes, witness conditions (recursive, nesting limit), signer, transaction (both decode paths), header, block shape and stack-item serialisation (count/size/depth limits): decode(encode v) = v for well-formed v, everything a decoder accepts re-encodes (never longer) to bytes that decode to the same value, size = length of the encoding, every successful decode consumes input (no stuck case, no amplification), and a transaction's identity (hashed bytes, size) is a function of the decoded value - with the witness that it cannot be taken from the received bytes. The models follow the Go mechanism (same field order, limits and validity checks) and are tied to the code by differential evaluation including SHA-256 of the hashable part computed inside Coq. Partial: P2P/consensus payloads, state roots, MPT nodes, NEF, manifests, notifications and all JSON forms have no model - for them round trip, size, fixpoint, identity and decoder robustness (no panic, hang or unbounded allocation, each decode in a guarded child process) are checked on generated, mutated and boundary inputs only. Ten defects of the unchanged tree are reported as known findings (F9, F11, F12, F16, F17, F18, F19, F28, F33, F34) with patches on file.",
    note="Trusted: Coq kernel and vm_compute, hand-written models tied by correspondence only, Common/Sha256.v (compared with Go on every hash of the run), the Go harness and its guarded child process, the orchestration script. Public keys are opaque 33-byte values in the model (curve checks not modelled); Go pointer identity of stack items is not modelled.",
)
