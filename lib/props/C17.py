PROP = dict(
    properties="Properties/C17.v",
    harness_mods=["Harness/C17.v"],
    runs=[dict(cmd="c17", quick=120, thorough=3000, timeout=1500),
          dict(cmd="c17x", quick=160, thorough=6000, no_coq=True, timeout=1500),
          dict(cmd="c17t", quick=160, thorough=6000, no_coq=True, timeout=1500)],
    trusted_base=["hand-written Gallina models coq/Codec/{Wire,TxCodec,ItemCodec}.v of pkg/io, pkg/core/transaction, pkg/core/block (shape), pkg/vm/stackitem/serialization.go (tied by correspondence)",
                  "coq/Common/Sha256.v (executable SHA-256, compared with crypto/sha256 through every transaction/header hash of the run)",
                  "the guarded child process of the harness (time limit, allocation accounting via runtime.MemStats)"],
    assumptions=["public keys are 33 opaque bytes in the model: curve membership / decompression are not modelled (inputs rejected by Go for elliptic-curve reasons are checked directly only)",
                 "Go pointer identity of stack items (sharing, cycles) is not modelled: items are trees"],
    modelled="reader/writer primitives, transaction (signers, rules, conditions, attributes, witnesses), header, block shape and stack-item serialisation are modelled and proved; "
             "P2P/consensus payloads, state roots, MPT nodes, NEF, manifests, notifications and all JSON forms are tied by direct round-trip and decoder-robustness checks only (no model)",
)
META = dict(
    text="(draft)",
    note="(draft)",
)
