PROP = dict(
    properties="Properties/C05.v",
    harness_mods=["Harness/C05.v"],
    runs=[dict(cmd="c05", quick=48, thorough=600, timeout=3000)],
    trusted_base=[
        "hand-written Gallina model coq/Tokens/Model.v of native_nep17.go / native_gas.go / native_neo.go / notary.go / policy.go "
        "(tied by block-by-block comparison of storage dumps, Transfer events and transaction results; not by translation)",
        "harness/c05*.go: neotest chain driver, storage dump decoding with the state types, Go-side evaluation of the invariants",
        "harness/c05lim.go: helper contracts compiled from Go source (notifier: NotifyN / a callback emitting amount mod 1000 notifications; aborter; looper), the scripts of the lim operations "
        "(balanceOf before / transfer / balanceOf after packed into one result) and the Go-side per-execution clauses transfer_result / post_effect; pre-Echidna histories are evaluated in Go only (case CDirect)",
        "behaviour probes c05Probe (which of the repaired behaviours F7/F23/F47 the tree has; sets three model flags)",
    ],
    assumptions=[
        "cfg_wf: the Notary contract is the only account of kind Notary and differs from the NEO contract, the validators' address and every key address (checked on every case by cfg_wf_b)",
        "blocks_ok: no script sees the witness of the Notary contract: a transaction sent by the Notary contract carries the NotaryAssisted attribute and names a payer other than the contract "
        "(Notary.verify refuses anything else; the contract signs with scope None)",
        "committee size and validator count constant; hard-forks Aspidochelone..Echidna on from genesis (Faun, Gorgon as flags)",
        "deployed contracts other than the three callback contracts do not hold or move NEO/GAS",
    ],
    modelled="NEO/GAS/Notary/Policy accounting and governance are modelled by hand and proved; the VM, witness checking (reduced to 'signer = from'), "
             "GAS metering (reduced to 'register price <= system fee') and Oracle/Treasury are not modelled; NotaryAssisted transactions are modelled in their fee flow "
             "(fees of Notary-sent transactions burnt from the contract and charged to the payer's deposit, (NKeys+1) x fee per key withheld from the primary and minted in equal floor shares to the designated P2PNotary nodes)",
)
META = dict(
    text="Proved in Coq for every block history of the model (induction over any list of blocks of any transactions, faulting ones rolled back): "
         "NEO supply = 100,000,000 = sum of balances; GAS supply = sum of balances; candidate votes = NEO of its voters; voters count; Notary GAS = sum of deposits; "
         "non-negativity; per-account balance change = net Transfer events; a native movement whose post-effect fails (the 513th notification of an execution since Echidna: Transfer, Vote, CandidateStateChanged, a notification of the receiver's callback or of the calling contract before / after the call) faults the execution with NOTHING changed, otherwise the execution is the native method's own outcome (all-or-nothing theorem; the reading drop the event, keep the balances, answer false is refuted); and hypothesis H3 decided: every voted key has a candidate record, so crediting cannot fail "
         "after the debit and a 'false' transfer changes nothing. The model follows the code's mechanism (updateAccBalance/increaseBalance/ModifyAccountVotes/"
         "dropCandidateIfZero/PostPersist rewards, GAS.OnPersist and Notary.OnPersist with the NotaryAssisted fee flow) and is tied to the real chain by comparing, after EVERY block of random neotest histories, the decoded NEO/GAS/"
         "Notary/Policy storage, Transfer events and transaction results with the model, plus direct evaluation of every clause on the real dump. Histories contain executions with 505..552 notifications of a helper contract before and after a NEO / GAS transfer (incl. to contracts whose onNEP17Payment accepts, throws, aborts, never returns, is missing or emits up to 999 notifications itself), a vote and a registration by payment, so that the 513th notification falls before, on and after every post-effect; for these the script returns balanceOf before / answer / balanceOf after and the harness evaluates per execution: answer true iff the sender was debited by the amount iff the Transfer event was emitted; histories on a chain without Echidna (no limit: must halt with true) are evaluated in Go only. One history in eight is built around two receiver contracts whose onNEP17Payment re-enters the native contract in progress as configured in their storage (deposit the GAS just received to Notary for the withdrawing / another account, pass the same token on or back, vote / unvote, withdraw their own deposit), placed as receivers of Notary.withdraw, NEO / GAS transfers and GAS claims; every clause is evaluated on the raw dump after every block (Go only, case CDirect: the model does not follow contract code; an abstract Notary ledger with arbitrary callbacks is proved, theorems _partial). "
         "Partial: Oracle and Treasury flows are not modelled.",
    note="Trusted: Coq kernel + vm_compute, the hand-written model (tied by differential comparison only), the Go harness and its storage decoding, ./check. "
         "Assumed: configuration well-formedness (checked per case), Notary-sent transactions carry the NotaryAssisted attribute with a payer other than the contract, constant committee size.",
)
