PROP = dict(
    properties="Properties/C18.v",
    harness_mods=["Harness/C18.v"],
    runs=[dict(cmd="c18", quick=100, thorough=3000, timeout=1500)],
    trusted_base=["hand-written Gallina models coq/Codec/{Bigint,Base58,Radix,Fixed,UintStr,Merkle,Multisig}.v (tied by correspondence)",
                  "coq/Common/Sha256.v (executable SHA-256; compared with the Go double SHA-256 through every Merkle root and Base58Check checksum of the run)",
                  "Base58 is modelled at specification level (radix conversion with leading zeros), not mr-tron/base58's limb arithmetic"],
    assumptions=["ECDSA (P-256, RFC 6979), scrypt, AES, SHA-256 and RIPEMD-160 implementations are neither modelled nor verified: their laws are checked on generated keys and messages only",
                 "the multi-signature theorems take verify : key -> signature -> bool as a total function: public keys are well-formed (with a malformed key the real checker is schedule-dependent: finding F42)",
                 "goroutine scheduling is modelled as an arbitrary order of delivery of worker results to the main loop (channels are FIFO per sender; capacities are proved sufficient)"],
    modelled="integer codec, Base58/Base58Check/address, fixed-point decimals, Uint160/256 forms, Merkle root (in-place and tree builders) and the two-ended parallel multi-signature checker are modelled and proved; "
             "tied to Go by differential evaluation; elliptic-curve arithmetic, WIF, NEP-2 and script builders/parsers are checked directly against the implementation only",
)
META = dict(
    text="(draft)",
    note="(draft)",
)
