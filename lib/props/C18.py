PROP = dict(
    properties="Properties/C18.v",
    harness_mods=["Harness/C18.v"],
    runs=[dict(cmd="c18", quick=120, thorough=4000)],
    trusted_base=["hand-written Gallina model coq/Codec/Bigint.v of pkg/encoding/bigint (tied by correspondence)"],
    assumptions=["ECDSA/scrypt/AES/RIPEMD-160/SHA-256 implementations are neither modelled nor verified"],
    modelled="bigint codec modelled and proved; tied to Go by differential evaluation only",
)
META = dict(
    text="Proved in Coq for all integers and byte strings: VM integer codec round-trip, two's-complement meaning of the decoder, minimality and canonical form, 256-bit range = 32 bytes. The Gallina model follows the mechanism of pkg/encoding/bigint and is tied to the Go code by differential evaluation on a boundary lattice. Partial: ECDSA/WIF/NEP-2 are not modelled.",
    note="Trusted: Coq kernel and vm_compute, the Go harness, the orchestration script; the model is hand-written and tied to the code by correspondence only (not by translation). Elliptic-curve arithmetic, scrypt, AES, SHA-256/RIPEMD-160 implementations are neither modelled nor verified.",
)
