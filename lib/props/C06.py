PROP = dict(
    properties="Properties/C06.v",
    harness_mods=["Harness/C06.v"],
    runs=[dict(cmd="c06", quick=8, thorough=120, timeout=2400)],
    trusted_base=[
        "hand-written Gallina model coq/Node/Accept.v of AddBlock / addHeaders / verifyHeader / storeBlock (decision order and order of effects), tied by correspondence: verdict class and heights after every single corruption of the valid next block",
        "the harness' corruption generator, error classification and before/after comparison of database, mempool and heights (harness/c06*.go, sharing the chain builder of harness/c02.go)",
        "hook commit in /repo: pkg/core/verif_hooks.go (VerifPersist, used to flush before/after for the database comparison)",
    ],
    assumptions=[
        "oracles of the model, evaluated by the real code on every case: the consensus witness verifies (VerifyWitness against the previous block's NextConsensus), every transaction is admitted by the per-block scratch pool, the block executes",
        "the header found by its hash is the tip or an older header (older_ok): stored header hashes are unique per height",
        "the on-chain conflict record table answers the declarative question (C07: Admission/Conflicts.v conflict_records_exact, proved there)",
    ],
    modelled="the decision procedure and its frame are modelled and proved; signature verification, transaction admission (C07/C08) and execution are oracles; ECDSA and the VM are neither modelled nor verified here",
)
META = dict(
    text="Proved in Coq for all states and block descriptions: a block is accepted iff it satisfies the conjunction the property lists (in the real order of checks), a rejected block leaves height, tip, state root and mempool unchanged and the header chain unchanged unless its header alone was valid (then exactly that header is appended), and the valid block is accepted afterwards. Soundness for the two clauses the pinned code does not enforce (consensus witness when the header is already recorded, F36; mutually exclusive transactions inside one block, F35) is proved for the repaired variant and refuted by witnesses for the code as it stands. Over several blocks (Node/AcceptPool.v): with the mempool refresh of storeBlock evaluated at the new height and keeping only what a fresh verification admits, every transaction of an accepted block is valid at the time of the offer whether the node held it in its mempool or not; refuted for a refresh against the old height and for a refresh that re-checks less (F46: Policy block list). Tied to the Go code by applying every single corruption of the valid next block at generated chain states to fresh replicas and comparing verdict, full database dump, mempool and heights, plus the stale-pool family (pool at H, intervening block, offer at H+2, pooled and not pooled). On-chain Conflicts (Node/AcceptConflicts.v over C07's record-table model): for every sequence of offered blocks an accepted block contains no transaction named in the Conflicts attribute of an earlier accepted transaction inside the MaxTraceableBlocks window that shares ANY signer with it (refuted for the variant that asks with the sender only); checked on the real code with 2-3-signer transactions, the conflicting signer in every position, signed by none (control), pooled and fresh, at distances 1, MTB and MTB+1. Partial: witness verification, transaction admission and execution are oracles.",
    note="Trusted: Coq kernel and vm_compute, the Go harness (corruptions, classification, dumps), orchestration. Oracles: VerifyWitness, scratch-pool admission, block execution (evaluated by the real code per case).",
)
