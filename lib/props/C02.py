PROP = dict(
    properties="Properties/C02.v",
    harness_mods=["Harness/C02.v"],
    runs=[dict(cmd="c02", quick=4, thorough=40, timeout=1500)],
    trusted_base=[
        "hand-written Gallina model coq/Node/Crash.v + coq/Node/Stages.v of the database traffic of pkg/core/blockchain.go, headerhashes.go, dao.go (tied by correspondence: recorded batch structure and the outcome of re-opening every batch prefix)",
        "the harness' recording storage.Store wrapper and its abstraction of concrete keys to record classes (harness/c02*.go)",
        "slow-store mode (harness/c02gate.go): the recording store lets a write through only when every goroutine running node code is parked or waiting at the store (read off runtime.Stack), and takes both orders where two writes wait together",
        "hook commits in /repo: pkg/core/verif_hooks.go (VerifPersist, VerifPersistGC), pkg/core/verif_hooks_c02.go (VerifSetPersistInterval)",
    ],
    assumptions=[
        "a backend batch (PutChangeSet / SeekGC commit of BoltDB, LevelDB) is atomic and durable: the database after a crash is the result of a prefix of the issued batches",
        "executing a block is a function of the state and the block (Section variable exec; shared with C01)",
        "reading contract storage back through the trie of a retained state root returns that state (Section hypothesis unroot_root; C03)",
        "garbage collection removes only trie nodes / transfer batches that the retained states do not need (gc_set; C11)",
    ],
    modelled="block persistence, start-up, the full collector (historic trie nodes, transfer batches, untraceable block records, header-hash pages), Reset and state-jump stage machines and the atomic restoration of a synchronised trie node are modelled and proved; the rest of the synchronisation traffic before the jump (header and block fetching) is exercised by the harness at every batch boundary but not modelled",
)
META = dict(
    text="Proved in Coq for all operation sequences and all crash points k: every batch boundary leaves either an empty database or exactly a node at some height h not above the last accepted block (everything a block writes travels with the tip pointer), re-opening never fails, the recovered node holds the history's state and every later root is the history's root; GC batches preserve this; Reset and state jump as stage machines: with the repairs F20-F22 every interruption is resumed to the same database, for the code as it stands the three failing crash windows are exhibited as refuted statements and the rest proved under the guard. Tied to the Go code by exhaustive crash-point enumeration on real Blockchain instances over memory/LevelDB/BoltDB. The full collector (untraceable block records through the write cache, header-hash pages by their own commit) keeps every boundary recoverable (repaired page bound; the pinned bound is refuted, F48); after Reset(h) the database equals, key by key, that of a node that only synchronised to h except the trie nodes of the removed blocks; a synchronised trie node restored as one batch is complete at every boundary (written Put by Put it is not: H1 = F49). Contract-storage-based synchronisation (item batches with checkpoints) resumes from every boundary to the same database when batch and checkpoint are persisted together (refuted for the late-checkpoint variant). Reset's two writers (stage batches persisted by a helper goroutine, the old contract storage collected directly on the store): for every order the unbuffered hand-over admits and every boundary, the reset marker is on disk or the database is the pre-reset one, and start-up resumes to the same database (refuted for the variant where the direct operation can overtake the marker batch); checked on the real code with a gated (slow) store, all orders, every prefix. Partial: header and block fetching before the jump is exercised at every boundary but not modelled.",
    note="Trusted: Coq kernel and vm_compute, the Go harness (recording store, key abstraction), orchestration. Assumed: backend batch atomicity, determinism of block execution, trie read-back (C03), GC soundness (C11).",
)
