PROP = dict(
    properties="Properties/C09.v",
    harness_mods=["Harness/C09.v"],
    runs=[dict(cmd="c09", quick=36, thorough=1200, timeout=6000)],
    trusted_base=[
        "hand-written Gallina model coq/Store/Model.v + Store/Conc.v of pkg/core/storage (MemCachedStore, MemoryStore, Bolt/LevelDB range seeks) "
        "and of dao.Simple.Seek/SeekAsync and the Storage.Find iterator keys (tied by correspondence only); it describes the code with "
        "fixes/F1 and fixes/F2 applied",
        "hook /repo/pkg/core/storage/verif_hooks_leveldb.go (commit da60e0f): VerifCompactAll/VerifProperty; the harness waits out goleveldb's background compaction after every LevelDB base write and labels deviations that heal on close+reopen (finding F51)",
        "hook /repo/pkg/core/storage/verif_hooks.go (build tag verif, commit 82737bf): VerifRLock/VerifRUnlock/VerifWriterPending, used to queue a Persist and a reader on the store's lock in a known order; goroutine wait states read through runtime.Stack",
        "harness gate store (parks goroutines at the entry of Seek and entry/exit of PutChangeSet of the base store to play a chosen schedule; delegates unchanged)",
        "Go-side ordered-map oracle in harness/c09*.go: only labels the shape of a deviation for known_findings matching; the verdict is Coq's",
    ],
    assumptions=[
        "lock regions of MemCachedStore are atomic; a Bolt read transaction, a LevelDB iterator and MemoryStore.seek are atomic snapshots",
        "bbolt and goleveldb implement ordered byte-string maps",
        "reader/Persist interleavings: one shared layer over a base store, full-depth seeks; private layers are not written while a seek on them is pending (violated by F10, not checked)",
    ],
    modelled="layered store, base range seeks, dao trimming and Persist lock regions modelled and proved; tied to Go by differential evaluation "
             "(op histories on three backends, forced schedules); Go maps as sorted association lists, cont/ctx protocol as a lazily consumed list; two-map split, SeekGC, two shared layers and depth-limited readers are modelled (extension round)",
)
META = dict(
    text="(Extension round: also proved — the mem/stor two-map mechanism is simulated by the one-map model (Seek needs a non-empty prefix, as the code does); SeekGC on the three backends and on a cache layer (= filter of the old map, atomic for readers); reader atomicity on two shared layers with the middle layer's Persist in flight and for depth-limited seeks; F41 bounded: every reported pair was that key's value at some instant of the reader's interval. New finding F51: LevelDB loses sight of a committed batch after a background compaction, third-party.) Proved in Coq for all stacks (any number of shared/private layers), all three backends, all op sequences and all ranges "
         "(prefix, start, direction, search depth, trimming on/off): Get and Seek/SeekAsync/dao.Seek/dao.SeekAsync/Storage.Find keys equal lookup / range_query on ONE "
         "ordered map (sorted, duplicate-free, nothing omitted); MemoryStore, LevelDB and Bolt seeks agree; every flush (each of Persist's three lock regions, PersistPrivate) "
         "leaves that map and hence every full-depth answer unchanged. The model follows the mechanism of performSeek and is tied to the Go code by differential "
         "evaluation of op histories on MemoryStore/BoltDB/LevelDB and of forced reader/writer/Persist schedules (gate in the base store; and, through the store's own lock, a reader queued behind a queued Persist while the flush is in flight). *Partial*: reader atomicity is proved only for schedules "
         "without a new Persist swap between the reader's snapshot and its lower-store read; with one the statement is false for the code (finding F41, listed, reproduced "
         "deterministically). Findings F1 and F2 are rediscovered by the check and listed until their patches (fixes/F1-*.diff, fixes/F2-*.diff, verified) are committed; the model "
         "describes the repaired code. The F10 data race is not checked.",
    note="Trusted: Coq kernel and vm_compute, the Go harness (incl. its gate store used to force schedules), the orchestration script; the model is hand-written and tied to the code by "
         "correspondence only. Assumed: atomicity of lock regions, snapshot semantics of Bolt transactions/LevelDB iterators, correctness of bbolt/goleveldb. Interleavings are at "
         "lock-region granularity for one shared layer over a base store; real goroutine schedules beyond the forced ones are not covered.",
)
