PROP = dict(
    properties="Properties/C09.v",
    harness_mods=["Harness/C09.v"],
    runs=[dict(cmd="c09", quick=36, thorough=1200)],
    trusted_base=["hand-written Gallina model coq/Store/Model.v of pkg/core/storage + dao.Simple.Seek/SeekAsync (tied by correspondence)"],
    assumptions=["lock regions of MemCachedStore are atomic; a Bolt read transaction / LevelDB iterator is a snapshot"],
    modelled="layered store modelled and proved; tied to Go by differential evaluation only",
)
META = dict(
    text="(draft)",
    note="(draft)",
)
