"""Per-property configuration of ./check: one module lib/props/Cxx.py per claimed property, each defining

PROP = dict(
  properties   = "Properties/Cxx.v",        # Coq file with the property theorems (statements + exact + Print Assumptions)
  harness_mods = ["Harness/Cxx.v", ...],    # Coq modules the generated cases_<k>.v import (built before the cases are evaluated)
  runs         = [dict(cmd="cxx", quick=N, thorough=N, [extra=[...]], [no_coq=True], [race=True], [timeout=s])],
  gen          = [["gen-tables", "-out", "coq/gen"]],   # optional: translator invocations (arguments of nghx, cwd=/verif) run before the Coq build
  trusted_base = [...], assumptions = [...], modelled = "...",
  on_proof_failure = callable(checker) | None,   # optional property-specific search for a failing input when a theorem breaks
)
META = dict(text=..., note=..., [technique=...], [design_ref=...])   # MANIFEST level_claimed.text / level_note
"""
import importlib, os, pkgutil

PROPS, META = {}, {}
for _m in sorted(pkgutil.iter_modules([os.path.dirname(os.path.abspath(__file__))]), key=lambda m: m.name):
    if _m.name.startswith("C"):
        _mod = importlib.import_module("props." + _m.name)
        PROPS[_m.name] = _mod.PROP
        META[_m.name] = _mod.META
