PROP = dict(
    properties="Properties/C20.v",
    harness_mods=["Harness/C20.v"],
    runs=[dict(cmd="c20", quick=1500, thorough=10000),
          dict(cmd="c20sync", quick=100, thorough=700, timeout=6000),
          dict(cmd="c20crash", quick=6, thorough=24, timeout=6000),
          dict(cmd="c20race", quick=30, thorough=300, race=True)],
    trusted_base=[
        "hand-written Gallina model coq/Sync/Queue.v of pkg/network/bqueue (lock regions as atomic actions), tied by serialised schedules of the real queue",
        "hand-written Gallina model coq/Sync/Restore.v of statesync.Module.AddMPTNodes/restoreNode/defineSyncStage, statesync.Pool and the restore part of mpt.Billet, tied by differential runs of the real module",
        "goroutine-dump based detection of the parked drainer in harness/c20queue.go (runtime.Stack)",
    ],
    assumptions=[
        "block indices do not wrap around uint32; Blocking queue mode (1 s ticker) is not modelled",
        "hash collision freedom: bytes delivered under a hash of the source trie are that node (genuine_op)",
        "crashes are placed at flush boundaries between operations, at the module's own flushes and at every batch of the state jump; a flush BETWEEN two Puts of one AddMPTNodes call cannot be placed without editing MemCachedStore.Put (H1, see notes/C20.md)",
        "the syncing node of the crash runs is configured with a trusted header (as a real light node): on a chain shorter than one page of header hashes the jump removes the genesis block a restart would walk back to",
        "ContractStorageBased (NeoFS) synchronisation mode and header/block fetchers are not covered",
    ],
    modelled="block queue and MPT-based state restore modelled and proved; Billet's in-memory tree is represented by the pool's (path, hash) pairs; jumpToState, header verification and block storage are exercised by the harness only",
)
META = dict(
    text="Proved in Coq, for all traces: (queue) for every interleaving of Put (any index, duplication, stale height reading), drainer steps, additions by other sources and Discard, the chain accepts exactly h0+1..height in order, each once; no lost wake-up; at rest the node has reached the highest contiguous block effectively given (window and early-drop premises stated); (state sync, repaired mechanism) for every delivery order/batching/duplication, foreign, undecodable and non-canonical data and restarts at any point, the run never fails, the pool empties exactly when every trie node is stored, then the restored (path, node) pairs are exactly the trie's occurrences; foreign data changes nothing. For the code as it is the two failing classes of the mechanism are exhibited as refuted lemmas: F8 (inline-child node accepted, sync completes with nodes missing) and F38 (restart panics once a node is stored at two paths); a third defect, F45 (data decoding to an EmptyNode panics AddMPTNodes), is found by the harness directly. Tie: real bqueue.Queue under serialised schedules compared step by step with the model (AddItem attempts, lengths, LastQueued) plus concurrent stress also under -race; real statesync.Module on LevelDB against neotest source chains (random sync points, delivery orders, wrong data, restarts), pool compared with the model after every operation, final state root, storage dump, own trie and lock-step continuation compared with the source. Blocks stage (added after the third mutation round): blocks of the traceable window offered under the genuine header with a stripped / shortened / reordered / foreign transaction list, or under another header, must be refused and the window read back after the jump must equal the source's blocks with their transactions; proved for the model of AddBlock: accepted implies header hash = synchronised header's and Merkle(delivered transactions) = header's Merkle root. Restart exactness (fourth round): source tries with shared interior nodes, a node stored at several paths before its children followed by a restart at single-node granularity, reference counts on disk compared with occurrences; proved: after a restart at any point the pool holds exactly every path of every missing node below every restored occurrence of its parent (refuted for the overwriting traversal). Partial: crash (non-clean) restarts, storage-item sync mode, uint32 wrap-around.",
    note="Trusted: Coq kernel, the Go harness, ./check; models are hand-written and tied by correspondence. Known findings F8, F38 and F45 are listed until their fixes (fixes/F8-*.diff, fixes/F38-*.diff, fixes/F45-*.diff) are committed.",
)
