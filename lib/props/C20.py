PROP = dict(
    properties="Properties/C20.v",
    harness_mods=["Harness/C20.v"],
    runs=[dict(cmd="c20", quick=1500, thorough=20000), dict(cmd="c20sync", quick=100, thorough=3000),
          dict(cmd="c20race", quick=30, thorough=600, race=True)],
    trusted_base=["hand-written Gallina models coq/Sync/Queue.v (bqueue.Queue) and coq/Sync/Restore.v (statesync.Module/Pool, mpt.Billet restore), tied by correspondence"],
    assumptions=[],
    modelled="",
)
META = dict(text="", note="")
