PROP = dict(
    properties="Properties/C11.v",
    harness_mods=["Harness/C11.v"],
    runs=[dict(cmd="c11", quick=40, thorough=1700)],
    trusted_base=[
        "hand-written Gallina model coq/TrieRC/Model.v of mpt.Trie's reference counting (addRef/removeRef, getFromStore's cache side effect, Flush, updateRefCount) and of stateroot.Module (AddMPTBatch struct copy, UpdateCurrentLocal, GC), tied to the Go code by correspondence on whole histories (every DataMPT key after every event)",
        "the harness's own node parser and occurrence counter (harness/c11.go c11Parse/c11WalkRoot), independent of pkg/core/mpt",
        "hook pkg/core/mpt/verif_hooks_c11.go (build tag verif, read-only copy of the refcount map)",
    ],
    assumptions=[
        "interface hypothesis on the concrete trie (clause 2 of evs_ok; to be discharged by the C10 model coq/Trie: refcount bookkeeping of Put/Delete/PutBatch): for every hash the addRef/removeRef calls of a block net to occurrences(new trie) - occurrences(trie held in memory); checked on the real code for every generated block through the hook",
        "hash identifies content: every reference operation carries the serialization nb(h) of the node its hash names, and a node's bytes name its children (wf) - i.e. no double-SHA-256 collision among the nodes that occur",
        "counters are unbounded integers in the model (Go: int32)",
        "a GC pass is never asked for a height above the current one (blockchain.go tryRunGC: target = persisted height - MaxTraceableBlocks)",
        "the theorems speak about the module as it stands since the repair of finding F30 (/repo commit cb1c052: trie re-read from the committed root after a dropped block); the pre-fix semantics is kept in the model (reset=false) only to record the refutation C11_uncommitted_harmless_before_fix_refuted",
    ],
    modelled="the trie is abstract (a tree of hashes with child lists); the placement of addRef/removeRef inside trie.go/batch.go is not modelled but observed (hook) and checked against the walker's recount on every block; in-place aliasing of byte slices (H6) is outside the value-semantics model and is checked by the harness only",
)
META = dict(
    text="Proved in Coq for every sequence of committed blocks, dropped blocks, GC passes and Collapse calls in each trie mode: ModeLatest table = exactly the occurrences of the latest trie; ModeGC: active = occurrences, left-at-block-b = inactive with stamp b, nothing else; ModeAll complete; every retained trie reads back node for node; GC(G) removes nothing a height >= G needs; any root reads as NotFound or as exactly its own tree; Flush is independent of map order and never panics. The model is tied to the real mpt.Trie and stateroot.Module by whole-history correspondence with an independent recount. Dropped blocks are harmless (finding F30, reproduced on the real stateroot.Module, was repaired in /repo; the pre-fix semantics is kept refuted as a record). Partial: the concrete trie is abstracted behind one interface hypothesis (net reference change = change of occurrences), checked at run time on every block.",
    note="Trusted: Coq kernel and vm_compute, the hand-written model (tied by correspondence, not by translation), the Go harness with its own node parser, the orchestration script. Assumed: no hash collision among occurring nodes; the interface hypothesis on the concrete trie (C10).",
)
