PROP = dict(
    properties="Properties/C11.v",
    harness_mods=["Harness/C11.v"],
    runs=[dict(cmd="c11", quick=40, thorough=1700), dict(cmd="c11gc", quick=30, thorough=600)],
    trusted_base=[
        "hand-written Gallina model coq/TrieRC/Model.v of mpt.Trie's reference counting (addRef/removeRef, getFromStore's cache side effect, Flush, updateRefCount) and of stateroot.Module (AddMPTBatch struct copy, UpdateCurrentLocal, GC), tied to the Go code by correspondence on whole histories (every DataMPT key after every event)",
        "the harness's own node parser and occurrence counter (harness/c11.go c11Parse/c11WalkRoot), independent of pkg/core/mpt",
        "hook pkg/core/mpt/verif_hooks_c11.go (build tag verif, read-only copy of the refcount map); hook pkg/core/verif_hooks_c11.go (VerifTryRunGC: the GC half of a Run tick without the flush)",
    ],
    assumptions=[
        "the general theorems carry the interface hypothesis evs_ok (per block: the reference operations net, for every hash, to occurrences(new trie) - occurrences(trie held in memory)); coq/TrieRC/Concrete.v DISCHARGES it against the concrete trie of C10 for Trie.Put, Trie.Delete and Trie.PutBatch with the addRef/removeRef placements of trie.go and batch.go transcribed as traces (C11_put_refs_net, C11_delete_refs_net, C11_put_batch_refs_net, C11_interface_discharged), so C11_latest_exact_concrete / C11_gc_mode_exact_concrete have no reference-counting hypothesis; that the transcribed placements are the calls the Go code makes is tied by the harness (hook: real deltas of every generated block = change of occurrences counted by an independent walker)",
        "hash identifies content: a node is named by its hash and an operation carries that node's serialization (nb = identity on the hash token; wf for reading back) - i.e. no double-SHA-256 collision among the nodes that occur",
        "counters are unbounded integers in the model (Go: int32)",
        "a GC pass is never asked for a height above the current one (blockchain.go tryRunGC: target = persisted height - MaxTraceableBlocks)",
        "the theorems speak about the module as it stands since the repair of finding F30 (/repo commit cb1c052); the pre-fix semantics is kept in the model (reset=false) only to record the refutation C11_uncommitted_harmless_before_fix_refuted",
        "concrete layer: operations have well-formed arguments (nibble paths; batches sorted and duplicate-free, as MapToMPTBatch builds them); tries are expanded (HashRef children = collapsed sub-tries are outside put/delete/put_batch of the C10 model: Flush/Collapse/reload are the identity there)",
    ],
    modelled="the trie is abstract (a tree of hashes with child lists); the placement of addRef/removeRef inside trie.go/batch.go is not modelled but observed (hook) and checked against the walker's recount on every block; in-place aliasing of byte slices (H6) is outside the value-semantics model and is checked by the harness only",
)
META = dict(
    text="Proved in Coq for every sequence of committed blocks, dropped blocks, GC passes and Collapse calls in each trie mode: ModeLatest table = exactly the occurrences of the latest trie; ModeGC: active = occurrences, left-at-block-b = inactive with stamp b, nothing else; ModeAll complete; every retained trie reads back node for node; GC(G) removes nothing a height >= G needs; any root reads as NotFound or as exactly its own tree; Flush is independent of map order and never panics. The model is tied to the real mpt.Trie and stateroot.Module by whole-history correspondence with an independent recount. Dropped blocks are harmless (finding F30, reproduced on the real stateroot.Module, was repaired in /repo; the pre-fix semantics is kept refuted as a record). The interface hypothesis (net reference change of a block = change of occurrences) is proved against the concrete trie of C10 for Put, Delete and PutBatch with the real addRef/removeRef placements, and still checked at run time on every generated block.",
    note="Trusted: Coq kernel and vm_compute, the hand-written model (tied by correspondence, not by translation), the Go harness with its own node parser, the orchestration script. Assumed: no hash collision among occurring nodes; the interface hypothesis on the concrete trie (C10).",
)
