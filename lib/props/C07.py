PROP = dict(
    properties="Properties/C07.v",
    harness_mods=["Harness/C07.v"],
    gen=[["gen-fee-table", "-out", "coq/gen"], ["gen-vm-tables", "-out", "coq/gen"], ["gen-auth-tables", "-out", "coq/gen"]],
    runs=[dict(cmd="c07", quick=300, thorough=6000)],
    trusted_base=[
        "translator harness/c07gen.go (prints fee.Opcode coefficients, fee.ECDSAVerifyPrice, vm.ExecFeeFactorMultiplier, emit.Int opcodes, transaction limits into coq/gen/FeeTable.v on every run)",
        "hand-written Gallina models coq/Admission/Fee.v (fee.Calculate, VM charges for standard witnesses, gas loop of verifyTxWitnesses) and coq/Admission/Admit.v (ordered checks of verifyAndPoolTx, ApplyPolicyToTxSet), tied by correspondence",
        "harness/c07*.go: neotest chain + replica fed with serialised blocks; the facts of an admit case are known by construction (which defect was planted), sizes/fees/heights are read from the objects",
    ],
    assumptions=[
        "witness oracle: per signer the picoGAS its execution consumes and whether it leaves true; the VM, ECDSA and script parsing (scparser.IsScriptCorrect) are not modelled here",
        "Policy block list, the full-transaction record of the DAO and the attribute rules (verifyTxAttributes) enter as boolean facts; the conflict records are modelled (Admission/Conflicts.v)",
        "standard scripts are those of smartcontract.CreateSignatureRedeemScript / CreateMultiSigRedeemScript with PUSHDATA1 signatures; their opcode sequences are compared with the model per shape in the correspondence",
        "C08's hypotheses for everything that concerns the pool",
    ],
    modelled="admission order, fee calculator, gas loop and block packing are modelled and proved; the VM run of a witness is an oracle (its cost is tied to the model by comparing Blockchain.VerifyWitness gas per shape); ledger acceptance of the packed block is observed on a replica, not proved (C06)",
)
META = dict(
    text="Partial. Proved in Coq: the admission checks pass iff every condition of the property holds (ordered model of verifyAndPoolTx over oracle facts), a refusal leaves the pool unchanged (with C08); fee.Calculate equals the sum of the opcode prices of the standard invocation+verification scripts plus the signature checks, for signature accounts and all m-of-n (closed forms over the price table generated from the source for 1<=m,n<=1024), and the same on the executable NeoVM model run on the builders' BYTES with a CheckSig/CheckMultisig handler: halts with true consuming exactly fee.Calculate, faults with one Datoshi less (needs m+n+2 <= MaxStackSize); the gas loop of verifyTxWitnesses accepts exactly from the sum of the rounded witness costs on (accepted with the calculated fee, rejected with one Datoshi less) provided each witness fits MaxVerificationGas; the DAO's conflict-record table (newest index per hash and per (hash, signer)) answers exactly 'named by a traceable on-chain transaction sharing a signer' for every on-chain history; the refresh after a block keeps only transactions all of whose witnesses verify in the new state (witness oracle indexed by the chain state; standard signature/multisig witnesses assumed state-independent); ApplyPolicyToTxSet returns a prefix of the pool order within MaxTransactionsPerBlock/MaxBlockSize/MaxBlockSystemFee for the header estimate it uses, and the prefix inherits C08's invariants. Missing: the VM execution of witnesses and attribute/DAO rules are oracles; acceptance of the packed block by the ledger is only observed (replica fed with the serialised block). Correspondence: all shapes to 8-of-8 (thorough: to 200 keys) at fee-1/0/+1 on a real chain, transactions defective in 1-2 planted respects, multi-block conflict-record histories on a chain with a small MaxTraceableBlocks, packing under binding limits, incl. two-signer transactions with Conflicts against transactions paid by someone else and balances that bind (the pool premise of the packing theorem is evaluated on the real pool). Finding: with StateRootInHeader the header estimate is 32 bytes short.",
    note="Trusted: Coq kernel and vm_compute, the table translator, the hand-written models tied by differential testing on a neotest chain, the Go harness. Assumed: VM/ECDSA/script parsing, DAO conflict records, Policy and attribute rules as oracle facts; C08's hypotheses for the pool.",
)
