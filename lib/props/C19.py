PROP = dict(
    properties="Properties/C19.v",
    harness_mods=["Harness/C19.v"],
    runs=[dict(cmd="c19d", quick=6, thorough=60), dict(cmd="c19", quick=24, thorough=400, timeout=3000)],
    trusted_base=[
        "hand-written Gallina model coq/Consensus/Dbft.v of a dBFT 2.0 validator at one height (github.com/nspcc-dev/dbft is a dependency: modelled, not verified)",
        "trace checker coq/Harness/C19.v (guards of the abstract validator evaluated on what each real service had been handed; transcription of verifyRequest/verifyBlock for crafted proposals)",
        "hand-written model coq/Consensus/Witness.v of getBlockWitness over the dBFT commit table; hook pkg/consensus/verif_hooks.go (VerifDriver: the harness plays the event loop of a not-started service)",
    ],
    assumptions=[
        "at most f = (n-1)/3 validators deviate; a validator can only send under its own index (payload signatures; the harness hands payloads to OnPayload directly, the network layer's witness check is not exercised)",
        "dBFT runs on its real timers: a schedule is reproduced statistically, not exactly",
    ],
    modelled="abstract dBFT node modelled and proved safe; the real dbft library + pkg/consensus glue are tied to it only through the traces of in-process 4- and 7-validator networks; liveness only as round-progress lemmas",
)
META = dict(
    text="PARTIAL. Proved in Coq for every n >= 3f+1, every trace, any network behaviour and any behaviour of up to f validators: agreement of the abstract dBFT 2.0 validator (quorum intersection + commit lock), validity of accepted blocks (M matching commits over a proposal an honest committer checked), commit-once; round-progress lemmas and, by evaluation, completion of the synchronous view-0 round for 4, 7, 10 validators. Tie: in-process networks of the REAL consensus.Service (4 and 7 validators, real ledgers, real dbft library, real timers) under seeded delay/reorder/duplication/drop, changing silent sets and differing mempools; checked directly: no two ledgers differ at any height, every committed block is accepted by its own and every other ledger, with full delivery blocks keep coming and include all pending transactions; checked in Coq on the trace: every broadcast and every block acceptance of every service satisfies the guards of the abstract validator. Added after the first independent mutation round: directed, timer-free schedules of hand-driven real services (commit in view v by k<=f validators, view change, decision in view v+1 with the old commits in the table; every choice of the stale validators, 4 and 7 validators) with the witness checked by two real ledgers and by the Coq model of the witness assembly (proved: built from current-view commits it passes the multisig check; refuted without the view test), and crafted PrepareRequests against a real backup covering every refusing clause of verifyRequest/verifyBlock. Missing: liveness in general; dbft's recovery logic is covered only through the traces.",
    note="Trusted: Coq kernel, the Go harness (scheduler, trace recorder), ./check. The abstract validator is hand-written; the library is not verified. Payload signature verification by the network layer is outside the harness.",
)
