PROP = dict(
    properties="Properties/C03.v",
    harness_mods=["Harness/C03.v"],
    runs=[dict(cmd="c03", quick=16, thorough=400), dict(cmd="c03seek", quick=30, thorough=1500), dict(cmd="c03drop", quick=8, thorough=300)],
    trusted_base=[
        "hand-written Gallina model coq/StateRoot/Model.v of the block's change map and mpt.MapToMPTBatch (tied by correspondence: the batch the real function builds from every block's change set)",
        "the Go harness's flat range-query specification (harness/c03.go c03Range; the same definition is evaluated in Coq as sm_range on every 'seek' case) against which FindStates/SeekStates/GetState, mpt.TrieStore.Seek driven directly and the historic DAO Seek are compared",
        "hook pkg/core/mpt/verif_hooks_c11.go (Batch.VerifC11BatchKV, read-only) and pkg/core/verif_hooks.go (VerifPersist/VerifPersistGC)",
    ],
    assumptions=[
        "the abstract theorems quantify over an interface (iface_base: invariant, empty content, PutBatch = change of content; root_canonical; seek_spec; proof_complete / proof_sound); the *_concrete theorems have NO such premise: coq/StateRoot/Concrete.v instantiates the interface with the concrete trie of C10 (coq/Trie/Model.v) and proves every premise from C10's theorems (C03_interface_discharged)",
        "what the concrete theorems still assume about their inputs: every write of a block is admissible (cok: the key is a byte string of at most 68 bytes, a value at most 65539 bytes - what Trie.Put accepts and contract storage can hold); for the proof theorems the hash function has 32-byte digests, and the conclusion carries C10's disjunct 'or a collision of H o H / a preimage of the all-zero root is exhibited'",
        "historic execution = live execution additionally assumes that VM and native contracts are a function of (script, storage view, block context) - shared with C01; compared on generated read-only invocations only",
    ],
    modelled="put/delete/PutBatch, traversal and proofs of the concrete trie are C10's model (imported, not re-modelled); the chain-level claims (trie content at root_h = storage_h, reads, seeks, proofs, historic invocations) are carried by direct comparison on the real node at every retained height",
)
META = dict(
    text="Proved in Coq: the MPT batch of a block does not depend on map iteration order and is the block's change map in key order with nibble paths (nibbles preserve the byte order); applying it equals applying the block's writes in execution order; by induction over blocks content(trie_h) = storage_h, hence root_h is a function of storage_h, reads/ranges/proofs at root_h are those of storage_h - first over an abstract trie interface, then premise-free over the concrete trie model of C10 (every interface premise proved from C10's theorems in StateRoot/Concrete.v). Tied to the real node by neotest chains in four retention configurations: at every retained height the trie is compared key for key with the live dump (FindStates, SeekStates, GetState, proofs incl. tampered ones, TrieStore-backed historic DAO Seek both directions, historic invocations vs live). Defects found on the real code by this check (F25=F31 TrieStore start comparison, F32 historic VM under RemoveUntraceableBlocks; F3 shared with C10) are repaired in /repo. Partial: historic execution = live execution is compared, not proved.",
    note="Trusted: Coq kernel and vm_compute, the hand-written model, the Go harness and its flat specification, the orchestration script. Assumed: the trie interface hypotheses (C10), determinism of VM and natives.",
)
