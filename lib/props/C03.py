PROP = dict(
    properties="Properties/C03.v",
    harness_mods=["Harness/C03.v"],
    runs=[dict(cmd="c03", quick=20, thorough=400), dict(cmd="c03seek", quick=40, thorough=1500)],
    trusted_base=[
        "hand-written Gallina model coq/StateRoot/Model.v of the block's change map and mpt.MapToMPTBatch (tied by correspondence: the batch the real function builds from every block's change set)",
        "the Go harness's flat range-query specification (harness/c03.go c03Range; the same definition is evaluated in Coq as sm_range on every 'seek' case) against which FindStates/SeekStates/GetState, mpt.TrieStore.Seek driven directly and the historic DAO Seek are compared",
        "hook pkg/core/mpt/verif_hooks_c11.go (Batch.VerifC11BatchKV, read-only) and pkg/core/verif_hooks.go (VerifPersist/VerifPersistGC)",
    ],
    assumptions=[
        "interface hypotheses on the abstract trie, quantified in each theorem statement and to be discharged by the C10 model coq/Trie: seek_spec (C10_seek_spec: TrieStore.Seek = range query on the entries), batch_content (PutBatch of a sorted duplicate-free batch changes the content as the batch says), root_canonical (NF_unique + NF preservation), proof_complete, proof_sound up to an exhibited double-SHA-256 collision",
        "historic execution = live execution additionally assumes that VM and native contracts are a function of (script, storage view, block context) - shared with C01; compared on generated read-only invocations only",
    ],
    modelled="put/delete/PutBatch, traversal and proofs of the concrete trie are not modelled here (C10); the chain-level claims (trie content at root_h = storage_h, reads, seeks, proofs, historic invocations) are carried by direct comparison on the real node at every retained height",
)
META = dict(
    text="Proved in Coq: the MPT batch of a block does not depend on map iteration order and is the block's change map in key order with nibble paths (nibbles preserve the byte order); applying it equals applying the block's writes in execution order; by induction over blocks content(trie_h) = storage_h, hence root_h is a function of storage_h, reads/ranges/proofs at root_h are those of storage_h - over an abstract trie interface whose hypotheses are the theorems of C10. Tied to the real node by neotest chains in four retention configurations: at every retained height the trie is compared key for key with the live dump (FindStates, SeekStates, GetState, proofs incl. tampered ones, TrieStore-backed historic DAO Seek both directions, historic invocations vs live). Partial: the concrete trie is C10's; three defects found on the real code are listed as known findings (F3/F25 backward/start seek on TrieStore, F32 historic VM under RemoveUntraceableBlocks).",
    note="Trusted: Coq kernel and vm_compute, the hand-written model, the Go harness and its flat specification, the orchestration script. Assumed: the trie interface hypotheses (C10), determinism of VM and natives.",
)
