PROP = dict(
    properties="Properties/C15.v",
    harness_mods=["Harness/C15.v"],
    runs=[dict(cmd="c15", quick=1, thorough=1), dict(cmd="c15r", quick=120, thorough=4000)],
    trusted_base=[
        "hand-written Gallina model coq/Auth/Witness.v of runtime/witness.go (CheckHashedWitness, checkScope, getContractGroups, scopeContext) and transaction/witness_condition.go (Match), tied by exhaustive correspondence over a 98-context universe",
        "the harness builds VM invocation stacks with vm.LoadScriptWithHash/LoadNEFMethod and a stub contract table to realise each context for the real CheckHashedWitness; the stub MatchContext used for the exported Match",
    ],
    assumptions=[
        "script hashes, accounts and group keys are abstracted to numbers (the code only compares them for equality); 0 is the zero hash",
        "the entry relation (vm.Context.IsCalledByEntry) and the calling/current hashes are inputs of the model (they are produced by the VM, exercised by the live-chain cases)",
        "signature verification of the transaction witnesses themselves is out of scope (C07); the property is about scopes of signers already accepted",
    ],
    modelled="witness.go and the Match methods are modelled and proved equal to the declarative predicate; tied to Go by differential evaluation (exhaustive over the universe for trees of height <= 2 and their unary wrappers and for all scope-bit combinations; random beyond; a live-chain sample through System.Runtime.CheckWitness)",
)
META = dict(
    text="Proved in Coq for every signer list, call context and condition tree of any nesting: the model of CheckHashedWitness/checkScope/Match grants exactly where the declarative predicate of the property holds (caller is the account, or the first signer entry for the account allows the context by Global / CalledByEntry / listed contract / listed group / first matching rule = Allow); it faults only for an empty signer list or a group lookup without ReadStates; an account without signer entry passes only as the caller; Not flips; the first matching rule and the first signer entry decide. Tied to the Go code by exhaustive differential evaluation of the real CheckHashedWitness and Match over a 4-contract/2-group universe (98 call contexts) and by System.Runtime.CheckWitness inside deployed contracts on a neotest chain (entry, called by entry, deeper, dynamic script, native caller).",
    note="Trusted: Coq kernel/vm_compute, the Go harness (context construction, stub contract table), orchestration. The model is hand-written and tied by correspondence, not by translation; the entry relation and script hashes are produced by the VM and only exercised, not modelled.",
)
