PROP = dict(
    properties="Properties/C10.v",
    harness_mods=["Harness/C10.v"],
    runs=[dict(cmd="c10", quick=40, thorough=1500)],
    trusted_base=["hand-written Gallina model coq/Trie/Model.v of pkg/core/mpt (tied by correspondence)",
                  "coq/Common/Sha256.v (executable SHA-256, compared with crypto/sha256 on every run, not proved against FIPS 180-4)"],
    assumptions=["collision resistance of double SHA-256 appears only as the disjunct 'or a collision is exhibited'"],
    modelled="trie operations modelled on expanded tries; flush/collapse/reload are the identity in the model and tied by correspondence",
)
META = dict(
    text="(in progress)",
    note="(in progress)",
)
