PROP = dict(
    properties="Properties/C10.v",
    harness_mods=["Harness/C10.v"],
    runs=[dict(cmd="c10", quick=24, thorough=1000)],
    trusted_base=[
        "hand-written Gallina model coq/Trie/Model.v of pkg/core/mpt (put, delete, put_batch, get, traverse/Seek/Find, GetProof, VerifyProof, node codec), tied to the Go code by differential evaluation only",
        "the model is a VALUE: that results handed out by the trie (Get values, proof elements, Find/Seek keys and values) and argument buffers (keys, proof lists) do not alias its internal buffers is not a theorem but checked by the harness's scribble discipline (every such slice is overwritten after the call, the history continues)",
        "coq/Common/Sha256.v: executable SHA-256, not proved against FIPS 180-4, compared with crypto/sha256 on every run; no theorem depends on it (theorems are over an arbitrary H)",
    ],
    assumptions=[
        "Merkle-proof theorems assume only that H returns 32 bytes; collision resistance of double SHA-256 is not assumed: the statements end in '... or two different byte strings with the same double hash exist'",
        "the store theorems assume a well-keyed store that has an entry for every node hash of the trie (what Flush produces: C10_flush_store); reference counting and GC records are not modelled (C11)",
    ],
    modelled="pkg/core/mpt is modelled (same case split as trie.go/batch.go/billet.go/proof.go), not translated; reference counting, GC and the store itself are not modelled (C11)",
)
META = dict(
    text="Proved in Coq for all tries/keys/operation sequences and any hash function: Put/Delete/PutBatch update the content like a finite map and keep the normal form of doc.go; the normal form is unique, so any two histories of puts, deletes and batches with the same final content give the same tree and root (= root of a fresh trie built from the content); collapsing keeps the root; Get, the sorted listing, ordered traversal in both directions with any start point, TrieStore.Seek and Trie.Find equal the range query on the content; a membership proof of a present key verifies, and whatever byte strings are supplied a verified value is the stored one, unless two different strings with the same double hash are exhibited. The model follows the mechanism of pkg/core/mpt and is tied to the real mpt.Trie / TrieStore / VerifyProof by differential evaluation (histories with Flush/Collapse/reopen in three storage modes, tampered proofs, malformed node encodings) with byte-equal state roots through an executable SHA-256. Flush, Collapse, lazy expansion of hash nodes and reopening from the root are modelled over a node store and proved transparent: every operation on any partial collapse of a flushed trie (Get, Put, Delete, PutBatch, GetProof, Seek) returns what it returns on the expanded trie, with the same root, up to an exhibited collision; the decoder inverts the encoder. Five defects of the unchanged code are reported as known findings (F3, F24, F25, F26, F27); the model specifies the repaired behaviour.",
    note="Trusted: Coq kernel and vm_compute, the hand-written model (tie is differential, not by translation), Sha256.v as a correspondence-checked component, the Go harness, ./check. Assumed: digest length 32 bytes; nothing else about the hash.",
)
