PROP = dict(
    properties="Properties/C01.v",
    harness_mods=["Harness/C01.v"],
    runs=[dict(cmd="c01", quick=6, thorough=50, timeout=3000)],
    trusted_base=[
        "hand-written Gallina models coq/Node/Layers.v (store layers, flush, prune, restart; the interpreter is a parameter), coq/Node/FlushFail.v (one cache map, batch of a flush in progress, success / failure of the write) and "
        "coq/Tokens/Model.v + coq/Node/Gov.v (NEO/Policy/Designate/Management caches as derived state, reinit = InitializeCache), tied by differential comparison only",
        "harness/c01.go + c05chain.go: source node + replicas on real Blockchain instances (memory/LevelDB/BoltDB), observation through public getters, "
        "SeekStorage, GetAppExecResults, GetStateRoot and read-only contract invocations",
        "hook pkg/core/verif_hooks.go (VerifPersist / VerifPersistGC): one synchronous flush of the write cache at a block boundary",
        "harness/c01fault.go: a wrapping lower store whose PutChangeSet can be blocked and made to fail; hooks VerifPersistAsTimer (a flush without addLock, as the timer of Run), "
        "VerifWriteCache + MemCachedStore.VerifRLock / VerifPendingChanges (read-only: what the cache holds, for the coverage counters x_fault_*)",
        "behaviour probes c05Probe (which of the repaired behaviours F7/F23/F47 the tree has; sets three model flags)",
    ],
    assumptions=[
        "exec (VM + native contracts other than the modelled NEO/GAS/Policy/Notary/Designate/Management parts) is a deterministic function of the state keys and the block: carried by the replica differential only",
        "cfg_wf, blocks_ok as for C05; committee size constant and positive",
        "the governance theorems are for the repaired code (fix_block_dirty, fix_gpv_drop, fix_whitelist); counter-examples are proved for the unrepaired settings",
        "protocol parameters (explicit allow-list c01ProtocolParams in harness/c01.go) are equal on all replicas; NeoFS fetcher options are not varied",
    ],
    modelled="store layering and the NEO/Policy/Designate/Management caches (role -> latest (height, keys) with historic look-up in storage; contract hash -> id/update counter/permissions/groups/safe methods with the stored stack-item form of the permissions (Auth/PermStore.v), "
             "id index, next id, blocked hash of a destroyed contract, CleanWhitelist on update/destroy) are modelled and proved; NEP-11/17 lists of Management, Oracle/Notary settings caches, the MPT, "
             "the mempool and the real goroutine schedule are covered by the replica differential only",
)
META = dict(
    text="Proved in Coq: a flush at any time changes no answer; a flush whose write FAILS (the batch put back under whatever the cache received while it was being written: any keys, values, deletions, more or fewer than the batch) changes no answer and not the database, a node under any schedule of begun / succeeded / failed flushes with blocks in between agrees with every other replica, and the wrong merges (older wins, bigger map as target, batch dropped, newer deletions lost) are refuted; replicas fed the same blocks under any flush/prune/restart schedules agree on all state keys, results and height "
         "(interpreter = any function of state keys); for every block history the incrementally maintained NEO, Policy, Designate and Management caches (committee, next-epoch committee, votesChanged, "
         "gas-per-vote, gas-per-block, register price, blocked accounts, fee settings, whitelisted fees, latest designation per role, contract states) are coherent with storage after every block, and a restart after ANY block (any number of restarts) "
         "leaves the storage of the modelled contracts and every committee / validator / policy / getDesignatedByRole(role, any index) / getContract / whitelisted-fee answer unchanged after ANY continuation (simulation proof), including GetGASPerBlock(index) for every index and the holder-reward sum over the gas-per-block history, whose cache may hold several records of one index (last appended wins; the reading first-of-equal-indices is refuted by theorem) — for the repaired code; for the unrepaired code the three counter-example histories (findings F7, F23, F47) are theorems. "
         "Tied to the real node by a replica differential: the same blocks on memory/LevelDB/BoltDB replicas with random flush points (hook VerifPersist), KeepOnlyLatestState, "
         "RemoveUntraceableBlocks+GC, SkipBlockVerification, VerifyTransactions off, every further bool/int node-local option found by reflection over config.Blockchain (SaveInvocations, SaveStorageBatch, GarbageCollectionPeriod, MemPoolSize, MempoolSubscriptionsEnabled, ...) toggled singly and in combinations, mempool junk and a restart at every height, four replicas per history on a lower store whose PutChangeSet is blocked while the next 0-5 blocks are added and then fails 1-3 times (batch = one block or up to five; the blocks added meanwhile overwrite and delete keys of the batch and re-create keys it deleted, waves of contract keys put / swept / put again in consecutive blocks; compared while the flush hangs, after each failure, after the next flush that succeeds and after a restart), histories including designations of several roles across blocks queried at historic heights, contract deploy/update/whitelist/destroy/redeploy sequences, NotaryAssisted transactions, Storage.Find / getAllCandidates / getContractHashes manifests of every optional shape (empty / explicit / wildcard method lists, hash / group / wildcard descriptors, groups, trusts, safe methods, standards, extra) followed by calls, writes and CheckWitness that depend on each detail, settings updated several times within one block and used in the next, iterators whose values are held across Next (every option class, items flushed or re-read after a restart, the same read twice), calls with unusual arguments (iterators, pointers, self-referencing and deeply nested items, buffers around MaxSize), comparing state root, full contract storage, execution results and "
         "all getters at every height, and on every node the iterator answers against a plain Seek dump of the same node; plus the governance model against the source node's getters. Partial: the interpreter (VM, natives outside NEO/GAS/Policy/Notary/Designate/Management) is a parameter of the store theorems; "
         "the NEP-11/17 lists of Management and the Oracle/Notary settings caches are not modelled (compared on the real replicas only).",
    note="Trusted: Coq kernel + vm_compute, the hand-written models (tied by differential comparison only), the Go harness, the VerifPersist hook, ./check. "
         "Assumed: VM/native determinism as a function of storage and block (checked only by the differential).",
)
