PROP = dict(
    properties="Properties/C14.v",
    harness_mods=["Harness/C14.v"],
    runs=[dict(cmd="c14", quick=480, thorough=20000, timeout=3000)],
    trusted_base=[
        "hand-written Gallina source semantics coq/Lang/MiniGo.v of the fragment (ints, bools, scoped locals, && || short-circuit, if/for/break/continue/return, calls, recursion); tied to the Go toolchain by the 'frag' runs (go build of the printed program)",
        "hand-written Gallina target machine coq/Lang/Target.v (subset of NeoVM); tied to pkg/vm by running the real compiler's bytecode on both in the 'frag' runs",
        "hand-written model compiler coq/Lang/Compile.v following pkg/compiler/codegen.go; tied to the real compiler by instruction-sequence equality on every generated fragment program",
        "harness/c14frag.go: printer of MiniGo programs as Go source and as Coq terms, decoder of NeoVM bytecode (byte offsets of jumps/calls resolved to instruction indices, short and long forms identified)",
        "harness/c14gen.go: generator of dialect programs (what it leaves out is listed in notes/C14.md); harness/c14exec.go: type-directed canonical rendering of results on both sides",
        "the Go toolchain (go build) as the reference semantics of Go",
    ],
    assumptions=[
        "no intermediate integer leaves 64 bits (undefined in the source semantics; generated programs are bounded by construction)",
        "VM resource limits (2048 stack items, 1024 frames, gas) are not modelled: generated programs stay far below them",
        "observable = result stack after invoking a method offset with the arguments on the stack, _initialize first (what the compiler tests and the node do); fault/halt",
        "Go's unspecified evaluation order (call vs. variable read in one expression) and randomised map iteration order are avoided by the generator",
    ],
    modelled="theorem: the MiniGo fragment through the model compiler to the target machine; correspondence only: real compiler = model compiler on generated fragment programs, and the whole rest of the dialect (strings, byte slices, slices, maps, structs, pointers, methods, switch, range, labels, multiple results, globals/init, defer/recover, inlining, lambdas) by differential testing against go build; manifest/debug info by direct checks",
)
META = dict(
    text="PARTIAL. Proved in Coq (no axioms): a model compiler that follows codegen.go's scheme (slot allocation, condition jumps incl. && || chains, loop labels for break/continue, call convention with argument reversal and INITSLOT) for a fragment of the dialect (unbounded-range-checked ints, bools, block-scoped locals and arguments, arithmetic/comparison/short-circuit expressions, assignment forms, if/else, three-clause for, break, continue, return, calls with recursion) is correct: for every program, function and argument tuple, if the big-step source run is defined (value or division by zero, no 64-bit overflow) the compiled code on the NeoVM-subset machine halts with exactly that value, and faults iff the source faults; source results do not depend on fuel. Carried by correspondence only (not by theorem): that the real compiler emits the model compiler's instruction sequence and that the Coq machine agrees with pkg/vm (checked per generated fragment program), and the whole rest of the documented dialect - strings and byte slices, slices, maps, structs through pointers and methods, switch/range/labels, multiple results, globals and init order, defer/recover, inlined helpers, lambdas - which is checked only by differential testing of compiler+VM against `go build` of the same source, plus direct manifest/debug-info checks (offsets are instruction boundaries, INITSLOT arity = parameter count, ABI types). Thirteen defects of the unchanged compiler found by this check (F141-F153: lambda argument order, switch default/fallthrough, struct value copies, string ordering, absent map keys, initialisation order, four defer/recover/init defects, concatenated strings being Buffers, an inliner scoping defect) are recorded as known findings with reproductions in corpus/C14 (repairs ready for three) and the constructs are excluded from generation.",
    note="Trusted: Coq kernel and vm_compute; the hand-written MiniGo semantics, target machine and model compiler (tied to go build, pkg/vm and pkg/compiler by the correspondence only); the Go harness (generator, bytecode decoder, canonical result rendering); the Go toolchain as reference. Assumes no 64-bit overflow, VM resource limits not reached, deterministic programs (Go's unspecified evaluation orders avoided). Non-termination is not covered by the theorem (forward simulation for terminating runs only).",
)
