#!/usr/bin/env python3
"""lib/markfixed.py <Fid> <commit> — move every known_findings.json entry with that id to the 'fixed' list
(a fixed entry suppresses nothing: 'fixed: property=<id> <commit> <what failed>')"""
import json, sys, fcntl
fid, commit = sys.argv[1], sys.argv[2]
p = '/verif/known_findings.json'
with open(p, 'r+') as f:
    fcntl.flock(f, fcntl.LOCK_EX)
    k = json.load(f)
    keep, moved = [], []
    for e in k.get('findings', []):
        eid = str(e.get('id', ''))
        if eid == fid or eid.startswith(fid + ' ') or eid.startswith(fid + '(') :
            moved.append(e)
        else:
            keep.append(e)
    k['findings'] = keep
    seen = {(x['property'], x['id']) for x in k.get('fixed', [])}
    for e in moved:
        if (e['property'], fid) not in seen:
            seen.add((e['property'], fid))
            k.setdefault('fixed', []).append({'property': e['property'], 'id': fid, 'commit': commit, 'what': e['what'],
                                             'line': 'fixed: property=%s %s %s' % (e['property'], commit, e['what'][:160])})
    f.seek(0); f.truncate(); json.dump(k, f, indent=1)
print('moved', len(moved), 'entries of', fid)
