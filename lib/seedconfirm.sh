#!/bin/bash
# lib/seedconfirm.sh <seed-id> <property> <seed-worktree>  — independent confirmation of a seeded change:
# (1) demo passes on unmodified HEAD, (2) change compiles, (3) demo fails with the change,
# (4) the existing suite (whole repository, demo excluded) passes with the change.  Writes seeded/<id>/confirm.log + meta.json
id=$1; prop=$2; src=$3
export GOFLAGS=-mod=mod GOPROXY=off
d=/verif/seeded/$id; wt=/tmp/sc-$id
demo=$(cd $src && git status --short | grep zz_seed_demo_test.go | grep -v ' _seed/' | awk '{print $2}' | head -1)
if [ -z "$demo" ] && [ -f $d/meta.json ]; then demo=$(python3 -c "import json;print(json.load(open('$d/meta.json'))['demo_package'])")/zz_seed_demo_test.go; fi
pkgdir=$(dirname $demo)
git -C /repo worktree remove --force $wt 2>/dev/null
git -C /repo worktree add -q $wt HEAD
cp $d/zz_seed_demo_test.go.txt $wt/$demo
log=$d/confirm.log; : > $log
cd $wt
echo "## demo on unmodified HEAD $(git rev-parse --short HEAD): go test -count=1 -run 'Seed' ./$pkgdir" >> $log
go test -count=1 -run 'Seed' ./$pkgdir >> $log 2>&1; r1=$?
git apply $d/patch.diff >> $log 2>&1; ra=$?
echo "## go build ./... with the change" >> $log
go build ./... >> $log 2>&1; r2=$?
echo "## demo with the change" >> $log
go test -count=1 -run 'Seed' ./$pkgdir >> $log 2>&1; r3=$?
rm $wt/$demo
echo "## whole suite with the change: go test -count=1 -vet=off ./..." >> $log
go test -count=1 -vet=off ./... 2>&1 | grep -v '^ok\|no test files' >> $log; 
fails=$(grep -c '^FAIL\|^--- FAIL' $log)
suite_fail=$(grep '^--- FAIL' $log | grep -v 'Seed\|TestUT ' | head -5)
cd /; git -C /repo worktree remove --force $wt
python3 - <<PY
import json, os
_old = json.load(open("$d/meta.json")) if os.path.exists("$d/meta.json") else {}
_old.update({"id":"$id","property":"$prop","demo_package":"$pkgdir",
 "confirmed":{"demo_passes_without_change":$r1==0,"patch_applies":$ra==0,"builds_with_change":$r2==0,"demo_fails_with_change":$r3!=0,
 "existing_suite_failures_other_than_TestUT_submodule":"""$suite_fail"""},
 "what_was_run":"lib/seedconfirm.sh: fresh worktree of /repo HEAD; demo test alone; git apply patch.diff; go build ./...; demo test again; go test -count=1 -vet=off ./... (demo removed). pkg/vm TestUT fails on the unmodified tree too (neo-vm submodule not checked out offline)."})
json.dump(_old, open("$d/meta.json","w"),indent=1)
PY
echo "confirmed $id: demo_without=$r1 apply=$ra build=$r2 demo_with=$r3 suite_fail=[$suite_fail]"
