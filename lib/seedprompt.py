#!/usr/bin/env python3
"""prints the prompt given to an independent 'seeding' sub-agent for one property (property text only, nothing from /verif)"""
import json, sys
pid, wt = sys.argv[1], sys.argv[2]
variant = sys.argv[3] if len(sys.argv) > 3 else ""
for l in open('/verif/properties.jsonl'):
    p = json.loads(l)
    if p['id'] == pid:
        break
print(f"""You are a senior Go engineer helping to test a verification tool by mutation. The repository nspcc-dev/neo-go (a full Neo N3 blockchain node in Go) is checked out for you as a scratch git worktree at {wt} (its own copy; work ONLY there — never touch /repo or /verif, and do not read anything under /verif). Go environment for every shell call that runs go: `export GOFLAGS=-mod=mod GOPROXY=off` and do NOT set GOTOOLCHAIN or GOSUMDB (the machine is offline; the needed toolchain go1.25 is cached and selected automatically).

The following semantic property is supposed to hold for this code base:

PROPERTY {p['id']} — {p['title']}
{p['statement']}
It is quantified over: {p['quantifier']['text']}
Code it is anchored in: {', '.join(p['anchors']['files'])}

YOUR TASK: produce ONE realistic change to the repository's non-test Go source (the kind of regression a plausible refactoring, optimisation or "simplification" could introduce) that BREAKS this property while (a) still compiling, (b) still passing the existing test suite unchanged, and (c) needing something SPECIFIC to manifest — a particular interleaving, a crash or fault at a particular point, a multi-step sequence of operations, an unusual input or boundary value, or two cooperating sites that each look fine alone — not something ordinary use would expose at once. {variant}
Deliver in the directory {wt}/_seed/ (create it):
  1. patch.diff — `git diff` of your change (source files only; no test edits; keep it small, at most ~30 changed lines).
  2. a demonstration: a Go test file (place it inside the relevant package directory of the worktree so it can use internals, name it zz_seed_demo_test.go, and copy it into _seed/ as well) that PASSES on the unmodified code and FAILS with your change applied, and fails BECAUSE the property is violated (say in a comment which clause of the property).
  3. README.md — what the change is, why it breaks the property, what is needed for it to manifest, exactly which commands you ran and their results.
You must verify yourself, in this order: with the change applied `go build ./...` succeeds; the existing tests of every package you touched and of the packages that depend on it most directly pass (`go test -count=1 ./pkg/<touched>/... ` plus `go test -count=1 ./pkg/core/...` when you touched anything under pkg/core, pkg/vm, pkg/io, pkg/crypto or pkg/smartcontract; run the whole suite `go test -count=1 -vet=off ./...` if time allows, it takes about 5–10 minutes); the demonstration fails with the change and passes after reverting the source change (do NOT use `git stash`: the stash is shared by all worktrees of this repository and other engineers are working in sibling worktrees — use `git diff > /tmp/x.diff; git apply -R /tmp/x.diff` and `git apply /tmp/x.diff` instead) (run it both ways and paste both outputs into README.md). If an existing test catches your change, pick a different change. Leave the worktree with the change APPLIED and the demo test file in place. Reply in AT MOST 12 lines: the file and function changed, one sentence on what the change is, one on what it needs to manifest, and the test results (everything else belongs in README.md).""")
