#!/usr/bin/env python3
"""lib/seedresult.py <seed-id> <text> — append the state after strengthening to a seed's result_against_checks"""
import json, sys
f = '/verif/seeded/%s/meta.json' % sys.argv[1]; m = json.load(open(f))
m['result_against_checks'] = m.get('result_against_checks', '') + '; ' + sys.argv[2]
json.dump(m, open(f, 'w'), indent=1); print(m['id'], m['result_against_checks'][:200])
