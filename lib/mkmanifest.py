#!/usr/bin/env python3
"""Regenerates MANIFEST.json from lib/props.py (claimed properties) and lib/manifest_meta.py."""
import json, os, sys
sys.path.insert(0, os.path.dirname(os.path.abspath(__file__)))
from props import PROPS, META
from manifest_meta import NOT_APPLICABLE, HOOK_COMMITS, ENGINES

ALL = ["C%02d" % i for i in range(1, 21)]
checks = []
for pid in ALL:
    if pid not in PROPS:
        continue
    m = META[pid]
    checks.append({
        "property_id": pid,
        "quick_cmd": "./check %s --tier quick" % pid,
        "thorough_cmd": "./check %s --tier thorough" % pid,
        "evidence_file": "/verif/evidence/%s.json" % pid,
        "replay_cmd_template": "./check %s --replay {path}" % pid,
        "engine": "coq-proof+correspondence",
        "level_claimed": {"category": "proof", "text": m["text"], "design_ref": m.get("design_ref", "DESIGN.md section 8, " + pid)},
        "level_note": m["note"],
        "technique": m.get("technique", "machine-checked proof in Coq 8.16.1 of a Gallina model + differential correspondence (model evaluated by vm_compute against the Go implementation)"),
    })
na = [{"property_id": p, "reason": NOT_APPLICABLE[p]} for p in ALL if p not in PROPS]
man = {
    "version": 1,
    "setup_cmd": "./setup.sh",
    "hooks": {
        "guard": "verif",
        "enable": "go build -tags verif (the harness module /verif/harness replaces github.com/nspcc-dev/neo-go by /repo)",
        "baseline_off_cmd": "cd /repo && go test -json -vet=off -count=1 -timeout 25m ./...",
        "source_commits": HOOK_COMMITS,
        "add_only": True,
    },
    "engines": ENGINES,
    "checks": checks,
    "not_applicable": na,
    "notes": "Every check rebuilds the Go harness from /repo's working tree, rebuilds the Coq development (full .vo), recompiles the property theorems and evaluates the correspondence cases inside Coq. See DESIGN.md.",
}
json.dump(man, open(os.path.join(os.path.dirname(os.path.dirname(os.path.abspath(__file__))), "MANIFEST.json"), "w"), indent=1)
print("MANIFEST.json: %d checks, %d not claimed" % (len(checks), len(na)))
