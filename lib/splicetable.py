#!/usr/bin/env python3
"""rewrites the table of DESIGN.md section 16 from seeded/*/meta.json (lib/mkseedtable.py)"""
import subprocess, os, re
V = os.path.dirname(os.path.dirname(os.path.abspath(__file__)))
t = subprocess.run(['python3', os.path.join(V, 'lib', 'mkseedtable.py')], capture_output=True, text=True, check=True).stdout.strip()
d = open(os.path.join(V, 'DESIGN.md')).read()
a = d.index('| id | property | the change |')
b = d.index('## 17.')
d = d[:a] + t + '\n\n\n' + d[b:]
open(os.path.join(V, 'DESIGN.md'), 'w').write(d)
print('rows', t.count('\n') - 1)
