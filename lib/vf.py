"""Orchestration for ./check: build harness and Coq development from /repo's working tree,
run the correspondence, decide, shrink, write evidence.  Python stdlib only."""
import fcntl, glob, json, os, re, shutil, subprocess, sys, time
from concurrent.futures import ThreadPoolExecutor

VERIF = os.path.dirname(os.path.dirname(os.path.abspath(__file__)))
REPO = os.environ.get("VERIF_REPO", "/repo")
COQ = os.path.join(VERIF, "coq")
HARNESS = os.path.join(VERIF, "harness")
RUN = os.path.join(VERIF, "run")
EVIDENCE = os.path.join(VERIF, "evidence")
ALT = REPO != "/repo"
if ALT:
    # alternate source tree (a scratch worktree with a candidate change): nothing under /verif proper is touched;
    # harness, Coq tree (with its generated tables), run files and evidence live under run/alt-<hash>/
    import hashlib
    RUN = os.path.join(VERIF, "run", "alt-" + hashlib.sha1(os.path.abspath(REPO).encode()).hexdigest()[:8])
    os.makedirs(RUN, exist_ok=True)
    subprocess.run(["rsync", "-a", "--delete", "--exclude", "go.sum", HARNESS + "/", os.path.join(RUN, "harness") + "/"], check=True)
    subprocess.run(["rsync", "-a", "--exclude", "*.aux", COQ + "/", os.path.join(RUN, "coq") + "/"], check=True)
    HARNESS = os.path.join(RUN, "harness")
    COQ = os.path.join(RUN, "coq")
    EVIDENCE = os.path.join(RUN, "evidence")
    _gm = open(os.path.join(HARNESS, "go.mod")).read().replace("=> /repo", "=> " + os.path.abspath(REPO))
    open(os.path.join(HARNESS, "go.mod"), "w").write(_gm)
NGHX = os.path.join(RUN, "nghx")
WHITELIST_AXIOMS = {
    "functional_extensionality_dep", "propositional_extensionality", "proof_irrelevance",
    "classic", "Eqdep.Eq_rect_eq.eq_rect_eq", "Eq_rect_eq.eq_rect_eq", "JMeq_eq", "JMeq.JMeq_eq",
    "FunctionalExtensionality.functional_extensionality_dep", "ClassicalFacts.proof_irrelevance",
    "Classical_Prop.classic", "ProofIrrelevance.proof_irrelevance",
}
FORBIDDEN = re.compile(r"\b(Admitted|admit|Axiom|Axioms|Parameter|Parameters|Conjecture|Admit Obligations)\b|"
                       r"Unset\s+Guard|Unset\s+Positivity|Unset\s+Universe|bypass_check|type-in-type|impredicative-set|"
                       r"^\s*(Variable|Variables|Hypothesis|Hypotheses)\b")


def goenv():
    e = dict(os.environ)
    e["GOFLAGS"] = "-mod=mod"
    e["GOPROXY"] = "off"
    if ALT:
        # scratch trees get their own build cache under run/alt-<hash>/ (removed with it): the shared cache would
        # otherwise keep a full copy of the compiled repository per tried change
        e["GOCACHE"] = os.path.join(RUN, "gocache")
    e.pop("GOTOOLCHAIN", None)   # this repository needs the cached go1.25 toolchain (auto switch)
    e.pop("GOSUMDB", None)
    return e


class Lock:
    def __init__(self, name):
        os.makedirs(RUN, exist_ok=True)
        self.path = os.path.join(RUN, name + ".lock")
    def __enter__(self):
        self.f = open(self.path, "w")
        fcntl.flock(self.f, fcntl.LOCK_EX)
    def __exit__(self, *a):
        fcntl.flock(self.f, fcntl.LOCK_UN)
        self.f.close()


def sh(cmd, cwd=None, env=None, timeout=3600, stdin=None):
    p = subprocess.run(cmd, cwd=cwd, env=env, timeout=timeout, input=stdin,
                       stdout=subprocess.PIPE, stderr=subprocess.STDOUT, text=True)
    return p.returncode, p.stdout


def build_harness(race=False):
    """go build of the harness against /repo's current working tree, hooks on (-tags verif).
    The harness is one Go package with one file set per property; when a file of ANOTHER property does not compile
    (work in progress, or a change to /repo broke only that file's API use) the build is retried without the offending
    files, so that one property's breakage does not take the other checks down (its own sub-command is then missing)."""
    with Lock("harness"):
        shutil.copyfile(os.path.join(REPO, "go.sum"), os.path.join(HARNESS, "go.sum"))
        out = NGHX + ("-race" if race else "")
        cmd = ["go", "build", "-tags", "verif"] + (["-race"] if race else []) + ["-o", out, "."]
        rc, log = sh(cmd, cwd=HARNESS, env=goenv(), timeout=1500)
        if rc != 0:
            bad = set(re.findall(r"^\./([A-Za-z0-9_]+\.go):\d+", log, re.M)) - {"main.go", "util.go"}
            tries = 0
            fb = os.path.join(RUN, "harness-fallback")
            while rc != 0 and bad and tries < 4:
                tries += 1
                subprocess.run(["rsync", "-a", "--delete", HARNESS + "/", fb + "/"], check=True)
                for b in bad:
                    try:
                        os.remove(os.path.join(fb, b))
                    except OSError:
                        pass
                rc, log2 = sh(cmd, cwd=fb, env=goenv(), timeout=1500)
                log += "\n[retry without %s]\n%s" % (",".join(sorted(bad)), log2)
                more = set(re.findall(r"^\./([A-Za-z0-9_]+\.go):\d+", log2, re.M)) - {"main.go", "util.go"}
                if not more - bad:
                    break
                bad |= more
        return rc == 0, log, out


def coq_makefile():
    sh([sys.executable, os.path.join(VERIF, "lib", "mkcoqproject.py"), COQ])
    mk = os.path.join(COQ, "Makefile")
    cp = os.path.join(COQ, "_CoqProject")
    if not os.path.exists(mk) or os.path.getmtime(mk) < os.path.getmtime(cp):
        sh(["coq_makefile", "-f", "_CoqProject", "-o", "Makefile"], cwd=COQ)


def coq_build(targets, timeout=2400):
    """full .vo build (never -vos) of the given targets and everything they depend on."""
    with Lock("coq"):
        coq_makefile()
        rc, log = sh(["timeout", str(timeout), "make", "-j16"] + targets, cwd=COQ, timeout=timeout + 30)
        return rc == 0, log


def coq_closure(targets):
    """.v files the given .v targets depend on (transitively), by coqdep"""
    files = sorted(os.path.relpath(f, COQ) for f in glob.glob(os.path.join(COQ, "**", "*.v"), recursive=True))
    rc, out = sh(["coqdep", "-Q", ".", "NG"] + files, cwd=COQ)
    deps = {}
    for line in out.split("\n"):
        if ":" not in line:
            continue
        lhs, rhs = line.split(":", 1)
        tv = [x for x in lhs.split() if x.endswith(".vo")]
        if not tv:
            continue
        v = tv[0][:-1]
        deps[v] = [x[:-1] for x in rhs.split() if x.endswith(".vo") and not x.startswith("/")]
    seen, todo = set(), [os.path.normpath(t) for t in targets]
    while todo:
        t = todo.pop()
        if t in seen:
            continue
        seen.add(t)
        todo += [os.path.normpath(d) for d in deps.get(t, [])]
    return seen


def scan_forbidden(targets=None):
    """no Admitted/admit/Axiom/Parameter/... and no switched-off kernel check in the development.
    Returns (offending lines inside the dependency closure of targets, offending lines elsewhere)."""
    closure = coq_closure(targets) if targets else None
    bad, elsewhere = [], []
    for f in glob.glob(os.path.join(COQ, "**", "*.v"), recursive=True):
        in_section = 0
        rel = os.path.normpath(os.path.relpath(f, COQ))
        text = open(f, encoding="utf-8", errors="replace").read()
        text = re.sub(r"\(\*.*?\*\)", lambda m: re.sub(r"[^\n]", " ", m.group(0)), text, flags=re.S)
        for i, code in enumerate(text.split("\n"), 1):
            if re.match(r"\s*Section\b", code):
                in_section += 1
            if re.match(r"\s*End\b", code) and in_section > 0:
                in_section -= 1
            m = FORBIDDEN.search(code)
            if m:
                word = m.group(0).strip()
                if re.match(r"(Variable|Variables|Hypothesis|Hypotheses)", word) and in_section > 0:
                    continue
                item = "coq/%s:%d: %s" % (rel, i, code.strip()[:100])
                (bad if closure is None or rel in closure else elsewhere).append(item)
    return bad, elsewhere


def compile_properties(prop_file):
    """(Re)compile Properties/Cxx.v alone to capture its Print Assumptions output.
    Returns (ok, log, theorems, discharged, axioms_by_theorem, failing_theorem)."""
    src = open(os.path.join(COQ, prop_file)).read()
    theorems = re.findall(r"^\s*Theorem\s+([A-Za-z0-9_']+)", src, re.M)
    with Lock("coq"):
        rc, log = sh(["timeout", "900", "coqc", "-Q", ".", "NG", prop_file], cwd=COQ, timeout=930)
    axioms = {}
    # output order follows the Print Assumptions commands
    blocks = re.split(r"(?=Closed under the global context|Axioms:)", log)
    pa = re.findall(r"Print Assumptions\s+([A-Za-z0-9_']+)", src)
    bi = 0
    for b in blocks:
        if b.startswith("Closed under the global context"):
            if bi < len(pa):
                axioms[pa[bi]] = []
            bi += 1
        elif b.startswith("Axioms:"):
            names = re.findall(r"^([A-Za-z0-9_'.]+)\s*:", b[len("Axioms:"):], re.M)
            if bi < len(pa):
                axioms[pa[bi]] = names
            bi += 1
    failing = None
    discharged = len(theorems)
    if rc != 0:
        m = re.search(r'line (\d+), characters', log)
        discharged = 0
        if m:
            ln = int(m.group(1))
            lines = src.split("\n")
            cur = None
            done = []
            for i, l in enumerate(lines, 1):
                mm = re.match(r"\s*(Theorem|Example|Lemma)\s+([A-Za-z0-9_']+)", l)
                if mm:
                    cur = mm.group(2)
                    if i <= ln:
                        failing = cur
                if re.match(r"\s*Qed\.", l) and i < ln and cur in theorems:
                    done.append(cur)
            discharged = len(set(done))
        else:
            failing = "(dependency)"
    return rc == 0, log, theorems, discharged, axioms, failing


def parse_M(out):
    m = re.search(r"M\s*=\s*(\[.*?\])\s*:\s*list", out, re.S)
    if not m:
        return None
    body = re.sub(r"\s+", "", m.group(1))
    return [(int(a), int(b)) for a, b in re.findall(r"\((\d+)(?:%N)?,(\d+)(?:%N)?\)", body)]


def eval_cases(dirpath, timeout=1800):
    """coqc every cases_<k>.v of the directory in parallel; returns (ok, mismatches[(index, code)], log)"""
    files = sorted(glob.glob(os.path.join(dirpath, "cases_*.v")))
    def one(f):
        rc, out = sh(["timeout", str(timeout), "coqc", "-Q", COQ, "NG", os.path.basename(f)], cwd=dirpath, timeout=timeout + 30)
        return f, rc, out
    res = []
    ok = True
    log = ""
    with ThreadPoolExecutor(max_workers=12) as ex:
        for f, rc, out in ex.map(one, files):
            mm = parse_M(out) if rc == 0 else None
            if mm is None:
                ok = False
                log += "%s: rc=%d\n%s\n" % (f, rc, out[-3000:])
            else:
                res += mm
    for f in glob.glob(os.path.join(dirpath, "cases_*.vo*")) + glob.glob(os.path.join(dirpath, "cases_*.glob")) + glob.glob(os.path.join(dirpath, ".cases_*.aux")):
        try:
            os.remove(f)
        except OSError:
            pass
    return ok, sorted(res), log


def load_cases(dirpath):
    recs = []
    p = os.path.join(dirpath, "cases.jsonl")
    if os.path.exists(p):
        for l in open(p):
            recs.append(json.loads(l))
    return recs


def run_harness(sub, outdir, seed, n, tier, replay=None, extra=None, timeout=3000, binary=None):
    os.makedirs(outdir, exist_ok=True)
    cmd = [binary or NGHX, sub, "-seed", str(seed), "-n", str(n), "-out", outdir, "-tier", tier]
    if replay:
        cmd += ["-replay", replay]
    if extra:
        cmd += extra
    try:
        rc, log = sh(cmd, cwd=outdir, env=goenv(), timeout=timeout)
    except subprocess.TimeoutExpired as e:
        # a harness that does not finish is reported (the property is no longer shown to hold), never waited for forever
        return 124, "harness %s did not finish within %d s\n%s" % (sub, timeout, (e.stdout or "")[-3000:] if isinstance(e.stdout, str) else "")
    return rc, log


def load_known():
    p = os.path.join(VERIF, "known_findings.json")
    if not os.path.exists(p):
        return {"findings": [], "fixed": []}
    return json.load(open(p))


def match_known(prop, rec):
    """a violation record matches a listed finding when kind matches and the regex matches its JSON text"""
    text = json.dumps(rec, sort_keys=True)
    for f in load_known().get("findings", []):
        if f.get("property") != prop:
            continue
        m = f.get("match", {})
        if "kind" in m and m["kind"] != rec.get("kind"):
            continue
        if "regex" in m and not re.search(m["regex"], text):
            continue
        return f
    return None


def write_json(path, obj):
    os.makedirs(os.path.dirname(path), exist_ok=True)
    tmp = path + ".tmp"
    with open(tmp, "w") as f:
        json.dump(obj, f, indent=1, sort_keys=True, default=str)
    os.replace(tmp, path)
