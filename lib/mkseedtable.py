#!/usr/bin/env python3
"""prints the markdown table of seeded changes (DESIGN.md section 16) from seeded/*/meta.json"""
import json, glob, os
V = os.path.dirname(os.path.dirname(os.path.abspath(__file__)))
rows = []
for p in sorted(glob.glob(os.path.join(V, 'seeded', '*', 'meta.json'))):
    m = json.load(open(p))
    c = m.get('confirmed', {})
    ok = c and c.get('demo_passes_without_change') and c.get('builds_with_change') and c.get('demo_fails_with_change') and not c.get('existing_suite_failures_other_than_TestUT_submodule')
    conf = 'yes' if ok else ('yes; ' + m['confirm_note'] if m.get('confirm_note') else 'see confirm.log')
    rows.append('| %s | %s | %s | %s | %s | %s |' % (m['id'], m['property'], m.get('what_the_change_is', '').replace('|', '/'), m.get('needs_in_order_to_manifest', '').replace('|', '/'),
                conf, m.get('result_against_checks', '').replace('|', '/')))
print('| id | property | the change | what it needs to manifest | confirmed (builds, suite passes, demo fails with / passes without) | result of `./check` |')
print('|---|---|---|---|---|---|')
print('\n'.join(rows))
