#!/usr/bin/env python3
"""Regenerates coq/_CoqProject from the .v files present (so that adding a file never needs a shared edit)."""
import glob, os, sys
coq = sys.argv[1] if len(sys.argv) > 1 else os.path.join(os.path.dirname(os.path.dirname(os.path.abspath(__file__))), "coq")
files = sorted(os.path.relpath(f, coq) for f in glob.glob(os.path.join(coq, "**", "*.v"), recursive=True))
txt = "-Q . NG\n-arg -w -arg -notation-overridden,-deprecated-hint-without-locality,-deprecated-instance-without-locality\n" + "\n".join(files) + "\n"
p = os.path.join(coq, "_CoqProject")
if not os.path.exists(p) or open(p).read() != txt:
    open(p, "w").write(txt)
    print("_CoqProject regenerated:", len(files), "files")
