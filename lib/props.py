"""Per-property configuration of ./check.
properties   : Coq file with the property theorems (statements + exact + Print Assumptions)
harness_mods : Coq modules the generated cases_<k>.v import
runs         : harness sub-commands with quick/thorough volumes
gen          : table-translator invocations (arguments of nghx) run before the Coq build
"""

PROPS = {}

PROPS["C18"] = dict(
    properties="Properties/C18.v",
    harness_mods=["Harness/C18.v"],
    runs=[dict(cmd="c18", quick=120, thorough=4000)],
    trusted_base=["hand-written Gallina model coq/Codec/Bigint.v of pkg/encoding/bigint (tied by correspondence)"],
    assumptions=["ECDSA/scrypt/AES/RIPEMD-160/SHA-256 implementations are neither modelled nor verified"],
    modelled="bigint codec modelled and proved; tied to Go by differential evaluation only",
)
