#!/usr/bin/env python3
"""lib/seedrun.py <seed-id> [--tier quick|thorough] [--props C09,C10]
Applies seeded/<id>/patch.diff to a scratch worktree of /repo's HEAD, runs the check(s) of the property it breaks
against it (VERIF_REPO mode: nothing in /repo or the committed /verif tree is touched), prints DETECTED / MISSED."""
import json, os, subprocess, sys, shutil, hashlib
V = os.path.dirname(os.path.dirname(os.path.abspath(__file__)))
sid = sys.argv[1]
tier = "quick"
props = None
a = sys.argv[2:]
while a:
    if a[0] == "--tier": tier = a[1]; a = a[2:]
    elif a[0] == "--props": props = a[1].split(","); a = a[2:]
    else: a = a[1:]
d = os.path.join(V, "seeded", sid)
meta = json.load(open(os.path.join(d, "meta.json")))
props = props or [meta["property"]]
wt = "/tmp/sr-" + sid
subprocess.run(["git", "-C", "/repo", "worktree", "remove", "--force", wt], capture_output=True)
subprocess.run(["git", "-C", "/repo", "worktree", "add", "-q", wt, "HEAD"], check=True)
try:
    r = subprocess.run(["git", "-C", wt, "apply", os.path.join(d, "patch.diff")], capture_output=True, text=True)
    if r.returncode != 0:
        print("PATCH-DOES-NOT-APPLY", sid, r.stderr[:500]); sys.exit(3)
    res = {}
    for p in props:
        env = dict(os.environ, VERIF_REPO=wt)
        r = subprocess.run([os.path.join(V, "check"), p, "--tier", tier], cwd=V, env=env, capture_output=True, text=True)
        out = r.stdout + r.stderr
        det = r.returncode == 1 and ("VIOLATION property=%s" % p) in out
        res[p] = det
        print("==", sid, p, "exit", r.returncode, "DETECTED" if det else "MISSED")
        print("\n".join(out.strip().split("\n")[-12:]))
finally:
    subprocess.run(["git", "-C", "/repo", "worktree", "remove", "--force", wt], capture_output=True)
    alt = os.path.join(V, "run", "alt-" + hashlib.sha1(wt.encode()).hexdigest()[:8])
    if "--keep" not in sys.argv:
        shutil.rmtree(alt, ignore_errors=True)
sys.exit(0 if all(res.values()) else 1)
