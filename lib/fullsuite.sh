#!/bin/bash
# runs the repository's whole test suite (guard off) on a scratch worktree of /repo HEAD and compares with BASELINE.json's stable set
export GOFLAGS=-mod=mod GOPROXY=off
wt=/tmp/fullsuite-wt; git -C /repo worktree remove --force $wt 2>/dev/null
git -C /repo worktree add -q $wt HEAD; cd $wt
go test -json -vet=off -count=1 -timeout 25m ./... > /tmp/fullsuite.json 2>/tmp/fullsuite.err
python3 - <<'PY'
import json
b=json.load(open('/root/.vp/BASELINE.json')); stable=set(b['stable_pass'])
res={}
for l in open('/tmp/fullsuite.json'):
    try: e=json.loads(l)
    except Exception: continue
    if e.get('Test') and e.get('Action') in ('pass','fail','skip'):
        res[e['Package']+'::'+e['Test']]=e['Action']
bad=[t for t in stable if res.get(t)!='pass']
print('HEAD', open('/tmp/fullsuite-wt/.git').read().strip()[-20:], 'stable', len(stable), 'passed', sum(1 for t in stable if res.get(t)=='pass'), 'not-passed', len(bad))
for t in sorted(bad)[:40]: print('  ', t, res.get(t))
PY
cd /; git -C /repo worktree remove --force $wt
