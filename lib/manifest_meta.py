"""Texts for MANIFEST.json."""
# hook commits in /repo (add-only files guarded by //go:build verif); found at run time so the list cannot go stale
import subprocess
def _hook_commits():
    try:
        out = subprocess.run(["git", "-C", "/repo", "log", "--format=%H %s"], capture_output=True, text=True).stdout
        return [l.split()[0] for l in out.splitlines() if " verif hook:" in " " + l.split(" ", 1)[1] or l.split(" ", 1)[1].startswith("verif hook")]
    except Exception:
        return []
HOOK_COMMITS = _hook_commits()
ENGINES = [
    {"name": "coq", "path": "/verif/coq", "serves_properties": [], "kind_free_text": "Coq 8.16.1 development: models, proofs, property theorems (Properties/Cxx.v), case evaluators (Harness/Cxx.v)"},
    {"name": "nghx", "path": "/verif/harness", "serves_properties": [], "kind_free_text": "Go harness built against /repo's working tree with -tags verif; drives the implementation, prints observations as Coq terms; table translator"},
    {"name": "check", "path": "/verif/check", "serves_properties": [], "kind_free_text": "python3 orchestration: build, proof check, assumption scan, correspondence, shrinking, known findings, evidence"},
]
NOT_BUILT = "not yet built in this round: model, theorems and harness for this property are planned in DESIGN.md section 8 but no check exists yet, so it is not claimed"
NOT_APPLICABLE = {("C%02d" % i): NOT_BUILT for i in range(1, 21)}
