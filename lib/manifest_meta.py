"""Texts for MANIFEST.json."""
HOOK_COMMITS = []
ENGINES = [
    {"name": "coq", "path": "/verif/coq", "serves_properties": [], "kind_free_text": "Coq 8.16.1 development: models, proofs, property theorems (Properties/Cxx.v), case evaluators (Harness/Cxx.v)"},
    {"name": "nghx", "path": "/verif/harness", "serves_properties": [], "kind_free_text": "Go harness built against /repo's working tree with -tags verif; drives the implementation, prints observations as Coq terms; table translator"},
    {"name": "check", "path": "/verif/check", "serves_properties": [], "kind_free_text": "python3 orchestration: build, proof check, assumption scan, correspondence, shrinking, known findings, evidence"},
]
NOT_BUILT = "not yet built in this round: model, theorems and harness for this property are planned in DESIGN.md section 8 but no check exists yet, so it is not claimed"
NOT_APPLICABLE = {("C%02d" % i): NOT_BUILT for i in range(1, 21)}
META = {}
META["C18"] = dict(
    text="Proved in Coq for all integers and byte strings: VM integer codec round-trip, two's-complement meaning of the decoder, minimality and canonical form, 256-bit range = 32 bytes. The Gallina model follows the mechanism of pkg/encoding/bigint and is tied to the Go code by differential evaluation on a boundary lattice. Partial: ECDSA/WIF/NEP-2 are not modelled.",
    note="Trusted: Coq kernel and vm_compute, the Go harness, the orchestration script; the model is hand-written and tied to the code by correspondence only (not by translation). Elliptic-curve arithmetic, scrypt, AES, SHA-256/RIPEMD-160 implementations are neither modelled nor verified.",
)
