(* C02 - one block's writes and the WRITE CACHE.

   Anchors: pkg/core/blockchain.go storeBlock (two private layers: `cache` - contract storage, trie nodes, state
   root; `aerCache` - block, transactions, execution results, transfer logs, tip pointer; both merged into the
   shared write cache by ONE call, dao.PersistPrivate(aerCache, cache) -> MemCachedStore.PersistPrivate: one
   critical section of the cache's lock), persist() (MemCachedStore.Persist: the cache's maps are swapped out under
   the same lock - an atomic snapshot - and need no block-level lock: the timer of Run flushes whenever it fires,
   also in the middle of a block addition).

   So what reaches the database in one batch is whatever the cache holds at the instant of the snapshot; a batch is
   block-aligned because every block reaches the cache in one step.  Events: pushes (atomic cache transactions)
   and flushes in any interleaving. *)
From NG Require Import Common.Tactics Node.Crash Node.CrashProofs Node.Stages Node.StagesProofs.
Open Scope N_scope.

Section BlockCache.
  Context {St Rt : Type}.
  Variable exec : St -> N -> St.
  Variable root : St -> Rt.
  Variable ntx : N -> N.

  Notation val := (val St Rt).
  Notation batch := (list (key * option (Crash.val St Rt))).

  (* the two private layers of storeBlock for block i on state s under prefix p *)
  Definition aer_layer (i : N) : batch :=
    [(KCurBlock, Some (VNum i)); (KExec i, Some VBlk)] ++
    (if ntx i =? 0 then [] else [(KTxs i, Some VUnit)]) ++ [(KXfer i, Some VUnit)].
  Definition state_layer (p : bool) (s : St) (i : N) : batch :=
    [(KState p, Some (VSt (exec s i))); (KRoot i, Some (VRoot (root (exec s i)))); (KMpt i, Some VUnit)].

  Inductive cev := CPush (ws : batch) | CFlush.

  (* the batches that reach the database *)
  Fixpoint emit (cache : batch) (evs : list cev) : list batch :=
    match evs with
    | [] => []
    | CPush ws :: t => emit (cache ++ ws) t
    | CFlush :: t => match cache with [] => emit [] t | _ => cache :: emit [] t end
    end.

  (* storeBlock as it is: one push; the variant with separated merges: two (in either order) *)
  Definition blk_atomic (p : bool) (s : St) (i : N) : list cev := [CPush (aer_layer i ++ state_layer p s i)].
  Definition blk_split (p : bool) (s : St) (i : N) : list cev := [CPush (aer_layer i); CPush (state_layer p s i)].

  (* ---- block alignment ---- *)
  Definition is_blk_of (i : N) (w : key * option val) : bool :=
    match w with (KExec j, Some VBlk) => i =? j | _ => false end.
  Definition is_root_of (i : N) (w : key * option val) : bool :=
    match w with (KRoot j, Some _) => i =? j | _ => false end.
  Definition is_tip_of (i : N) (w : key * option val) : bool :=
    match w with (KCurBlock, Some (VNum j)) => i =? j | _ => false end.
  Definition is_state (w : key * option val) : bool :=
    match w with (KState _, Some _) | (KMpt _, Some _) => true | _ => false end.

  (* a batch carries the record of block i iff it carries the state root of height i, a tip pointer only together
     with its block, contract storage / trie nodes only together with some block *)
  Definition aligned (b : batch) : Prop :=
    (forall i, existsb (is_blk_of i) b = existsb (is_root_of i) b) /\
    (forall i, existsb (is_tip_of i) b = true -> existsb (is_blk_of i) b = true) /\
    (existsb is_state b = true -> exists i, existsb (is_blk_of i) b = true).

  (* pushes that keep alignment: header transactions, and whole blocks *)
  Definition neutral (ws : batch) : Prop :=
    (forall i, existsb (is_blk_of i) ws = false) /\ (forall i, existsb (is_root_of i) ws = false) /\
    (forall i, existsb (is_tip_of i) ws = false) /\ existsb is_state ws = false.

  Lemma aligned_nil : aligned [].
  Proof. repeat split; simpl; intros; try discriminate; auto. Qed.

  Lemma aligned_app a b : aligned a -> aligned b -> aligned (a ++ b).
  Proof.
    intros (A1 & A2 & A3) (B1 & B2 & B3). repeat split; intros.
    - rewrite !existsb_app, A1, B1. reflexivity.
    - rewrite existsb_app in H. rewrite existsb_app. apply orb_true_iff in H as [H|H].
      + rewrite (A2 i H). reflexivity.
      + rewrite (B2 i H). apply orb_true_r.
    - rewrite existsb_app in H. apply orb_true_iff in H as [H|H].
      + destruct (A3 H) as (i & Hi). exists i. rewrite existsb_app, Hi. reflexivity.
      + destruct (B3 H) as (i & Hi). exists i. rewrite existsb_app, Hi. apply orb_true_r.
  Qed.

  Lemma neutral_aligned ws : neutral ws -> aligned ws.
  Proof.
    intros (N1 & N2 & N3 & N4). repeat split; intros.
    - rewrite N1, N2. reflexivity.
    - rewrite N3 in H. discriminate.
    - rewrite N4 in H. discriminate.
  Qed.

  Lemma block_push_aligned p s i : aligned (aer_layer i ++ state_layer p s i).
  Proof.
    unfold aer_layer, state_layer. repeat split; intros.
    - rewrite !existsb_app. destruct (ntx i =? 0); simpl; rewrite ?orb_false_r; destruct (i0 =? i); reflexivity.
    - rewrite !existsb_app in *. destruct (ntx i =? 0); simpl in *; rewrite ?orb_false_r in *; destruct (i0 =? i); auto.
    - exists i. simpl. rewrite N.eqb_refl. reflexivity.
  Qed.

  Lemma hdr_writes_neutral PS i : neutral (hdr_writes St Rt PS i).
  Proof.
    unfold hdr_writes. repeat split; intros;
      destruct (((i + 1) mod PS =? 0) && (PS <=? i + 1)); reflexivity.
  Qed.

  (* every push of the list is a header transaction or a whole block *)
  Definition push_ok (e : cev) : Prop :=
    match e with CFlush => True | CPush ws => aligned ws end.

  (* block_reaches_cache_atomically: pushes that are aligned one by one (header transactions, whole blocks), flushes
     anywhere between them - every batch that reaches the database is block-aligned *)
  Theorem block_reaches_cache_atomically (evs : list cev) :
    Forall push_ok evs -> forall cache, aligned cache -> Forall aligned (emit cache evs).
  Proof.
    induction 1 as [|e t He Ht IH]; intros cache Hc; simpl; [constructor|].
    destruct e as [ws|]; simpl in He.
    - apply IH, aligned_app; auto.
    - destruct cache; [apply IH, aligned_nil|]. constructor; auto. apply IH, aligned_nil.
  Qed.

  (* a history of whole-block pushes with flushes anywhere *)
  Corollary atomic_blocks_aligned (l : list (list cev)) :
    (forall x, In x l -> x = [CFlush] \/ (exists p s i, x = blk_atomic p s i) \/
                         (exists PS i, x = [CPush (hdr_writes St Rt PS i)])) ->
    Forall aligned (emit [] (concat l)).
  Proof.
    intros H. apply block_reaches_cache_atomically; [|apply aligned_nil].
    apply Forall_concat. apply Forall_forall. intros x Hx.
    destruct (H x Hx) as [->|[(p & s & i & ->)|(PS & i & ->)]].
    - repeat constructor.
    - constructor; [exact (block_push_aligned p s i)|constructor].
    - constructor; [exact (neutral_aligned _ (hdr_writes_neutral PS i))|constructor].
  Qed.

  (* the one push of storeBlock writes what the model's add_block writes (Crash.blk_writes), key by key *)
  Lemma layers_are_block (d : db St Rt) p s i :
    db_eq (apply d (aer_layer i ++ state_layer p s i)) (apply d (blk_writes St Rt exec root ntx p s i)).
  Proof.
    intros k. rewrite !get_apply. unfold aer_layer, state_layer, blk_writes.
    destruct (ntx i =? 0); destruct k; simpl; try reflexivity;
      repeat match goal with |- context [?a =? ?b] => destruct (a =? b) end; try reflexivity;
      destruct (Bool.eqb _ _); reflexivity.
  Qed.
End BlockCache.

(* ---- the variant with separated merges: a flush between them writes a torn batch ---- *)
Definition wev : list (@cev N N) :=
  blk_split (fun _ i => i) (fun s => s) (fun _ => 1) false 0 1 ++ [CFlush].
Definition wev_torn : list (@cev N N) :=
  [CPush (aer_layer (fun _ => 1) 1); CFlush; CPush (state_layer (fun _ i => i) (fun s => s) false 0 1); CFlush].

Definition alignedb (b : list (key * option (val N N))) : bool :=
  forallb (fun i => Bool.eqb (existsb (is_blk_of i) b) (existsb (is_root_of i) b)) [0; 1; 2].

Lemma split_merges_refuted :
  (* flushed after both merges the batch is aligned, flushed between them it is not: the first batch moves the tip
     pointer to block 1 and carries its record without the state root of height 1 *)
  map alignedb (emit [] wev) = [true] /\ map alignedb (emit [] wev_torn) = [false; false] /\
  ~ Forall aligned (emit [] wev_torn).
Proof.
  split; [vm_compute; reflexivity|]. split; [vm_compute; reflexivity|].
  intros H. inversion H as [|b t (A & _) _]; subst. specialize (A 1). vm_compute in A. discriminate.
Qed.

(* ... and the database after that batch is no node of the model: the conclusion of block_batch_atomic fails *)
Definition wgen : db N N := apply [] (genesis_writes N N (fun s => s) 0 (fun _ => 1)).
Definition wtorn : db N N := apply wgen (aer_layer (fun _ => 1) 1).
Lemma torn_is_no_node :
  forall p h hh, ~ Inv (fun _ i => i) (fun s => s) 0 (fun _ => 1) 2000 wtorn p h hh.
Proof.
  intros p h hh I.
  pose proof (i_curblock _ _ _ _ _ _ _ _ _ I) as C. vm_compute in C. injection C as <-.
  pose proof (i_root _ _ _ _ _ _ _ _ _ I 1) as R. vm_compute in R. discriminate.
Qed.

(* ---- a flush that FAILS ----
   Anchors: pkg/core/storage/memcached_store.go persist: the cache's two maps are swapped out (the batch in flight),
   pushes go to fresh maps meanwhile; when PutChangeSet returns an error the batch is put back UNDER what was pushed
   meanwhile - maps.Copy(tempstore.mem, s.mem), maps.Copy(tempstore.stor, s.stor): newer values win, for both maps -
   and the next flush writes the union.  A batch is a list in writing order (later entries win), so "the failed batch
   under the newer pushes" is [old ++ new].  Flushes are serialised (plock): nothing else flushes while one is in
   flight. *)
Section FailFlush.
  Context {St Rt : Type}.
  Notation batch := (list (key * option (Crash.val St Rt))).

  Inductive fev := FPush (ws : batch) | FFlush | FBegin | FFail.
  (* what the cache holds after a failed flush: merge (batch in flight) (pushed meanwhile) *)
  Variable merge : batch -> batch -> batch.

  Fixpoint femit (infl : option batch) (cache : batch) (evs : list fev) : list batch :=
    match evs with
    | [] => []
    | FPush ws :: t => femit infl (cache ++ ws) t
    | FFlush :: t => match cache with [] => femit infl [] t | _ => cache :: femit infl [] t end
    | FBegin :: t => femit (Some cache) [] t
    | FFail :: t => match infl with Some old => femit None (merge old cache) t | None => femit None cache t end
    end.

  (* flushes are serialised: a flush begins or succeeds only when none is in flight, and only one in flight fails *)
  Fixpoint fwf (infl : bool) (evs : list fev) : bool :=
    match evs with
    | [] => true
    | FPush _ :: t => fwf infl t
    | FFlush :: t => negb infl && fwf false t
    | FBegin :: t => negb infl && fwf true t
    | FFail :: t => infl && fwf false t
    end.

  (* the same history with the failing flushes left out *)
  Fixpoint erase (evs : list fev) : list (@cev St Rt) :=
    match evs with
    | [] => []
    | FPush ws :: t => CPush ws :: erase t
    | FFlush :: t => CFlush :: erase t
    | _ :: t => erase t
    end.
End FailFlush.

Section FailFlushGood.
  Context {St Rt : Type}.
  Notation batch := (list (key * option (Crash.val St Rt))).
  Definition merge_good (old new : batch) : batch := old ++ new.

  Lemma femit_good_gen (evs : list (@fev St Rt)) : forall infl cache,
    fwf (match infl with Some _ => true | None => false end) evs = true ->
    femit merge_good infl cache evs = emit (match infl with Some old => old ++ cache | None => cache end) (erase evs).
  Proof.
    induction evs as [|e t IH]; intros infl cache W; [reflexivity|].
    destruct e as [ws| | |]; simpl in *.
    - rewrite IH by assumption. destruct infl; [rewrite app_assoc|]; reflexivity.
    - destruct infl; [discriminate|]. simpl in W.
      destruct cache; rewrite (IH None []) by assumption; reflexivity.
    - destruct infl; [discriminate|]. simpl in W.
      rewrite (IH (Some cache) []) by assumption. rewrite app_nil_r. reflexivity.
    - destruct infl; [|discriminate]. simpl in W.
      rewrite (IH None (merge_good l cache)) by assumption. reflexivity.
  Qed.

  (* failed_flush_transparent: with the failed batch put back under the newer pushes, a history with failing flushes
     hands the database EXACTLY the batches of the same history without them - keys and values *)
  Theorem failed_flush_transparent (evs : list (@fev St Rt)) cache :
    fwf false evs = true -> femit merge_good None cache evs = emit cache (erase evs).
  Proof. intros W. exact (femit_good_gen evs None cache W). Qed.

  Definition fpush_ok (e : @fev St Rt) : Prop := match e with FPush ws => aligned ws | _ => True end.

  Lemma erase_ok (evs : list (@fev St Rt)) : Forall fpush_ok evs -> Forall push_ok (erase evs).
  Proof.
    induction 1 as [|e t He Ht IH]; simpl; [constructor|].
    destruct e; simpl in *; auto; constructor; auto.
  Qed.

  (* ... so every later durable state is block-aligned as before *)
  Corollary failed_flush_aligned (evs : list (@fev St Rt)) :
    Forall fpush_ok evs -> fwf false evs = true -> Forall aligned (femit merge_good None [] evs).
  Proof.
    intros P W. rewrite failed_flush_transparent by assumption.
    apply block_reaches_cache_atomically; [apply erase_ok; assumption|apply aligned_nil].
  Qed.
End FailFlushGood.

(* ---- the wrong merges.  Contract storage lives in a map of its own (KState); a merge that lets the OLDER value win
   there, and the newer one everywhere else: ---- *)
Definition is_stor_w {St Rt : Type} (w : key * option (val St Rt)) : bool :=
  match w with (KState _, _) => true | _ => false end.
Definition merge_stor_wrong {St Rt : Type} (old new : list (key * option (val St Rt))) :=
  filter (fun w => negb (is_stor_w w)) (old ++ new) ++ filter is_stor_w (new ++ old).
Definition merge_dropped {St Rt : Type} (old new : list (key * option (val St Rt))) := new.

(* block 1 pushed, a flush begins, block 2 is pushed while it hangs, it fails, the next flush succeeds *)
Definition wblk (i : N) : list (key * option (val N N)) :=
  aer_layer (fun _ => 1) i ++ state_layer (fun _ i => i) (fun s => s) false (i - 1) i.
Definition wfail : list (@fev N N) := [FPush (wblk 1); FBegin; FPush (wblk 2); FFail; FFlush].
Definition wdb (mg : _ -> _ -> _) : db N N := apply_all wgen (femit mg None [] wfail).

Lemma failed_flush_wrong_merge_refuted :
  fwf false wfail = true /\
  (* the right merge: tip 2, state root 2, contract storage of block 2 *)
  (get (wdb merge_good) KCurBlock = Some (VNum 2) /\ get (wdb merge_good) (KRoot 2) = Some (VRoot 2) /\
   get (wdb merge_good) (KState false) = Some (VSt 2)) /\
  (* the older value wins in the storage map: ONE batch, block-aligned key by key, tip 2, state root 2 - and the
     contract storage of block 1 *)
  (map alignedb (femit merge_stor_wrong None [] wfail) = [true] /\
   get (wdb merge_stor_wrong) KCurBlock = Some (VNum 2) /\ get (wdb merge_stor_wrong) (KRoot 2) = Some (VRoot 2) /\
   get (wdb merge_stor_wrong) (KState false) = Some (VSt 1)) /\
  (forall p h hh, ~ Inv (fun _ i => i) (fun s => s) 0 (fun _ => 1) 2000 (wdb merge_stor_wrong) p h hh) /\
  (* the failed batch dropped: tip 2 without the record of block 1 *)
  (forall p h hh, ~ Inv (fun _ i => i) (fun s => s) 0 (fun _ => 1) 2000 (wdb merge_dropped) p h hh).
Proof.
  split; [reflexivity|]. split; [vm_compute; repeat split|]. split; [vm_compute; repeat split|]. split.
  - intros p h hh I.
    pose proof (i_curblock _ _ _ _ _ _ _ _ _ I) as C. vm_compute in C. injection C as <-.
    pose proof (i_version _ _ _ _ _ _ _ _ _ I) as V. vm_compute in V. injection V as <-.
    pose proof (i_state _ _ _ _ _ _ _ _ _ I) as S. vm_compute in S. discriminate.
  - intros p h hh I.
    pose proof (i_curblock _ _ _ _ _ _ _ _ _ I) as C. vm_compute in C. injection C as <-.
    pose proof (i_exec _ _ _ _ _ _ _ _ _ I 1) as E. vm_compute in E. discriminate.
Qed.
