(* C02 - ONE change set inside the persistent backend.

   Anchors: pkg/core/storage/boltdb_store.go PutChangeSet (ONE bbolt read-write transaction, db.Update, for both
   maps), leveldb_store.go PutChangeSet (ONE goleveldb transaction: OpenTransaction ... Commit).  Crash.v applies a
   batch to the database in one step ([apply]) and the durable states of a run are the [crash bs k]; that is a
   property OF THE BACKEND, made explicit here: a backend cuts every change set it is handed into its own
   transactions ([plan]); each of them is durable by itself, and the durable states of a run are the states after
   every backend transaction.  [backend_atomic]: one transaction per change set. *)
From NG Require Import Common.Tactics Node.Crash Node.CrashProofs Node.BlockCache.
Open Scope N_scope.

Section Backend.
  Context {St Rt : Type}.
  Notation batch := (list (key * option (Crash.val St Rt))).
  Notation db := (list (key * option (Crash.val St Rt))).

  (* how the backend cuts a change set into its own transactions, in commit order *)
  Definition plan := batch -> list batch.
  (* ... all of the change set and nothing else *)
  Definition plan_sound (pl : plan) : Prop := forall b, concat (pl b) = b.
  (* THE premise: one backend transaction per change set *)
  Definition backend_atomic (pl : plan) : Prop := forall b, pl b = [b].

  Definition btxs (pl : plan) (bs : list batch) : list batch := flat_map pl bs.
  (* the database after j backend transactions of a run that handed the change sets bs to the backend *)
  Definition durable (pl : plan) (bs : list batch) (j : nat) : db := apply_all [] (firstn j (btxs pl bs)).

  Lemma atomic_sound pl : backend_atomic pl -> plan_sound pl.
  Proof. intros A b. rewrite A. simpl. apply app_nil_r. Qed.

  Lemma atomic_btxs pl bs : backend_atomic pl -> btxs pl bs = bs.
  Proof. intros A. unfold btxs. induction bs as [|b t IH]; simpl; [reflexivity|]. rewrite A, IH. reflexivity. Qed.

  (* with an atomic backend the durable states are exactly the crash points of Crash.v *)
  Lemma atomic_durable pl bs j : backend_atomic pl -> durable pl bs j = crash bs j.
  Proof. intros A. unfold durable, crash. rewrite atomic_btxs by assumption. reflexivity. Qed.

  Lemma apply_all_app (d : db) l1 l2 : apply_all d (l1 ++ l2) = apply_all (apply_all d l1) l2.
  Proof. unfold apply_all. apply fold_left_app. Qed.

  Lemma apply_all_concat (l : list batch) : forall d : db, apply_all d l = apply d (concat l).
  Proof.
    induction l as [|x t IH]; intros d; simpl; [reflexivity|].
    change (apply_all d (x :: t)) with (apply_all (apply d x) t). rewrite IH.
    unfold apply. rewrite rev_app_distr, <- app_assoc. reflexivity.
  Qed.

  (* a sound backend, atomic or not, is at a crash point of Crash.v whenever a change set is complete *)
  Lemma sound_whole pl : plan_sound pl -> forall bs (d : db), apply_all d (btxs pl bs) = apply_all d bs.
  Proof.
    intros S bs. induction bs as [|b t IH]; intros d; [reflexivity|].
    unfold btxs in *. simpl. rewrite apply_all_app, IH, (apply_all_concat (pl b)), S. reflexivity.
  Qed.

  Lemma sound_boundary pl bs k :
    plan_sound pl -> durable pl bs (length (btxs pl (firstn k bs))) = crash bs k.
  Proof.
    intros S. unfold durable, crash.
    assert (E : btxs pl bs = btxs pl (firstn k bs) ++ btxs pl (skipn k bs)).
    { unfold btxs. rewrite <- flat_map_app, firstn_skipn. reflexivity. }
    rewrite E, firstn_app, Nat.sub_diag, firstn_all. simpl. rewrite app_nil_r.
    apply sound_whole; assumption.
  Qed.

  (* how many writes of a change set are durable after each backend transaction (what the harness counts on the
     real backends by reading every key of the change set back after every backend commit) *)
  Fixpoint counts (acc : nat) (txs : list batch) : list nat :=
    match txs with
    | [] => []
    | t :: r => (acc + length t)%nat :: counts (acc + length t) r
    end.
  Lemma atomic_counts pl b : backend_atomic pl -> counts 0 (pl b) = [length b].
  Proof. intros A. rewrite A. reflexivity. Qed.
  (* nothing or everything: the only count an atomic backend ever shows is the whole change set *)
  Lemma atomic_none_or_all pl b c : backend_atomic pl -> In c (counts 0 (pl b)) -> c = length b.
  Proof. intros A I. rewrite atomic_counts in I by assumption. destruct I as [<-|[]]. reflexivity. Qed.

  (* cutting a change set in two *)
  Definition plan_cut (n : nat) : plan := fun b => [firstn n b; skipn n b].
  Lemma plan_cut_sound n : plan_sound (plan_cut n).
  Proof. intros b. unfold plan_cut. simpl. rewrite app_nil_r. apply firstn_skipn. Qed.
End Backend.

(* ---- the crash theorem with the premise spelled out ---- *)
Section BackendCrash.
  Context {St Rt : Type}.
  Variable exec : St -> N -> St.
  Variable root : St -> Rt.
  Variable genesis : St.
  Variable ntx : N -> N.
  Variable PS : N.
  Variable gc_on : bool.
  Variable gcp mtb : N.
  Variable gc_set : N -> list N.
  Variable trusted : N.
  Hypothesis PS_big : 1 < PS.

  Notation run := (run St Rt exec root ntx PS gc_on gcp mtb gc_set).
  Notation fresh := (fresh St Rt root genesis ntx).
  Notation recover := (recover St Rt root genesis ntx PS trusted).
  Notation WF := (WF exec root genesis ntx PS).

  Definition crash_prefix_backend_statement (pl : @plan St Rt) : Prop :=
    forall ops n bs j, run fresh ops = (n, bs) ->
      exists nk, recover (durable pl bs j) = RNode nk /\ WF false nk /\ height nk <= height n.

  Theorem crash_prefix_backend pl : backend_atomic pl -> crash_prefix_backend_statement pl.
  Proof.
    intros A ops n bs j Hr. rewrite atomic_durable by assumption.
    exact (crash_prefix exec root genesis ntx PS gc_on gcp mtb gc_set trusted PS_big ops n bs j Hr).
  Qed.
End BackendCrash.

(* ---- a backend that is sound but not atomic: block 1 flushed, the change set cut after its fourth write ---- *)
Definition bw_run := run N N (fun _ i => i) (fun s => s) (fun _ => 1) 2000 false 0 0 (fun _ => [])
                         (fresh N N (fun s => s) 0 (fun _ => 1)) [OBlk; OFlush].
Definition bw_state (pl : @plan N N) (j : nat) := durable pl (snd bw_run) j.
Definition bw_reopens (pl : @plan N N) (j : nat) : bool :=
  match recover N N (fun s => s) 0 (fun _ => 1) 2000 0 (bw_state pl j) with
  | RNode _ => true
  | _ => false
  end.
Definition bw_atomic : @plan N N := fun b => [b].

Lemma bw_atomic_is_atomic : backend_atomic bw_atomic.
Proof. intros b. reflexivity. Qed.

(* the flush of block 1 (with the genesis block: 18 writes).  Cut after the first write: the database holds the
   version record alone and does not open.  Cut after the 13th: tip pointer 1 and the record of block 1 are durable,
   the contract storage is still that of block 0 and there is no state root of height 1 - it opens, and it is a node
   of the model at no height.  The atomic backend: every durable state opens. *)
Lemma backend_split_refuted :
  plan_sound (@plan_cut N N 1) /\ plan_sound (@plan_cut N N 13) /\
  bw_reopens (plan_cut 1) 1 = false /\
  bw_reopens (plan_cut 13) 1 = true /\
  (forall p h hh, ~ Inv (fun _ i => i) (fun s => s) 0 (fun _ => 1) 2000 (bw_state (plan_cut 13) 1) p h hh) /\
  forallb (bw_reopens bw_atomic) (seq 0 3) = true.
Proof.
  split; [apply plan_cut_sound|]. split; [apply plan_cut_sound|].
  split; [vm_compute; reflexivity|]. split; [vm_compute; reflexivity|].
  split; [|vm_compute; reflexivity].
  intros p h hh I.
  pose proof (i_curblock _ _ _ _ _ _ _ _ _ I) as C. vm_compute in C. injection C as <-.
  pose proof (i_root _ _ _ _ _ _ _ _ _ I 1) as R. vm_compute in R. discriminate.
Qed.

Theorem crash_prefix_backend_split_refuted :
  ~ (forall pl : @plan N N, plan_sound pl ->
       crash_prefix_backend_statement (fun _ i => i) (fun s => s) 0 (fun _ => 1) 2000 false 0 0 (fun _ => []) 0 pl).
Proof.
  intros H. specialize (H (plan_cut 1) (plan_cut_sound 1)).
  destruct (H [OBlk; OFlush] (fst bw_run) (snd bw_run) 1%nat) as (nk & R & _).
  { unfold bw_run. apply surjective_pairing. }
  assert (F : bw_reopens (plan_cut 1) 1 = false) by (vm_compute; reflexivity).
  unfold bw_reopens, bw_state in F. rewrite R in F. discriminate.
Qed.
