(* C06 - admission of a transaction as TWO steps (verify at the tip; insert into the pool) racing block application.
   Anchors: Blockchain.PoolTx holds bc.lock.RLock over verifyAndPoolTx (verification and mempool.Add), storeBlock takes
   bc.lock.Lock: no block is applied between the two steps. *)
From NG Require Import Common.Tactics Node.AcceptPool Node.AcceptPoolProofs.
Open Scope N_scope.

Section Race.
  Variable tx_valid relevant : N -> N -> bool.
  Variable verify : bool.
  Inductive rop := RVerify (t : N) | RInsert | ROffer (txs : list N).
  (* state: height, pool, the admission in progress (verified, not yet inserted) *)
  Definition rstep (st : N * list N * option N) (o : rop) : N * list N * option N :=
    let '(n, pool, pend) := st in
    match o with
    | RVerify t => (n, pool, if tx_valid n t && negb (in_pool pool t) then Some t else None)
    | RInsert => match pend with Some t => (n, t :: pool, None) | None => (n, pool, None) end
    | ROffer txs => let '(n', pool') := pstep tx_valid relevant verify true (n, pool) (OfferBlock txs) in (n', pool', pend)
    end.
  Definition rrun st ops := fold_left rstep ops st.

  (* no block between a verification and its insertion *)
  Fixpoint atomic (ops : list rop) : bool :=
    match ops with
    | [] => true
    | RVerify _ :: RInsert :: t => atomic t
    | ROffer _ :: t => atomic t
    | _ => false
    end.
  Fixpoint compile (ops : list rop) : list pop :=
    match ops with
    | RVerify t :: RInsert :: r => PoolTx t :: compile r
    | ROffer txs :: r => OfferBlock txs :: compile r
    | _ => []
    end.

  Lemma atomic_is_pooltx : forall n ops st, (length ops <= n)%nat -> atomic ops = true ->
    rrun (fst st, snd st, None) ops =
    (fst (prun tx_valid relevant verify true st (compile ops)), snd (prun tx_valid relevant verify true st (compile ops)), None).
  Proof.
    induction n as [|n IH]; intros ops [h pool] L A.
    - destruct ops; [reflexivity|simpl in L; lia].
    - destruct ops as [|o r]; [reflexivity|]. destruct o as [t| |txs]; simpl in A; try discriminate.
      + destruct r as [|o2 r2]; [discriminate|]. destruct o2; try discriminate.
        simpl in L. simpl. unfold prun at 1 2. simpl.
        destruct (tx_valid h t && negb (in_pool pool t)); simpl;
          apply (IH r2 (_, _)); simpl; try lia; assumption.
      + simpl in L. simpl. unfold prun at 1 2. simpl.
        destruct (block_ok tx_valid verify h pool txs); simpl;
          apply (IH r (_, _)); simpl; try lia; assumption.
  Qed.

  Hypothesis relevant_sound : forall h t, relevant h t = true -> tx_valid h t = true.

  (* admission_atomic_pool_sound: histories in which no block is applied between a verification and its insertion
     keep the pool sound *)
  Theorem admission_atomic_pool_sound ops n0 :
    atomic ops = true ->
    let st := rrun (n0, [], None) ops in forall t, In t (snd (fst st)) -> tx_valid (fst (fst st)) t = true.
  Proof.
    intros A st t I. unfold st in *.
    pose proof (atomic_is_pooltx (length ops) ops (n0, []) (le_n _) A) as E. simpl in E.
    rewrite E in I |- *. simpl in *.
    exact (pool_sound tx_valid relevant verify relevant_sound (compile ops) n0 t I).
  Qed.
End Race.

(* a block between the two steps: T (valid up to height 1) verified at 1, block 2 applied, T inserted, block 3 with T *)
Lemma admission_race_refuted :
  rrun wp_valid wp_valid true (1, [], None) [RVerify 7; ROffer []; RInsert; ROffer [7]] = (3, [], None) /\
  wp_valid 2 7 = false /\
  rrun wp_valid wp_valid true (1, [], None) [RVerify 7; RInsert; ROffer []; ROffer [7]] = (2, [], None).
Proof. repeat split. Qed.
