(* C02 - proofs about Node/Crash.v: every batch boundary leaves a consistent prefix. *)
From NG Require Import Common.Tactics Node.Crash.
Open Scope N_scope.

Lemma key_eqb_refl k : key_eqb k k = true.
Proof. destruct k; simpl; auto using N.eqb_refl, Bool.eqb_reflx. Qed.

Lemma key_eqb_eq a b : key_eqb a b = true <-> a = b.
Proof.
  split; [|intros ->; apply key_eqb_refl].
  destruct a, b; simpl; try discriminate; try reflexivity;
    try (intros H; apply N.eqb_eq in H; congruence).
  intros H; apply Bool.eqb_prop in H; congruence.
Qed.

Lemma key_eqb_neq a b : a <> b -> key_eqb a b = false.
Proof. intros H; destruct (key_eqb a b) eqn:E; auto. apply key_eqb_eq in E; contradiction. Qed.

Section Proofs.
  Context {St Rt : Type}.
  Variable exec : St -> N -> St.
  Variable root : St -> Rt.
  Variable genesis : St.
  Variable ntx : N -> N.
  Variable PS : N.
  Variable gc_on : bool.
  Variable gcp mtb : N.
  Variable gc_set : N -> list N.
  Variable trusted : N.
  Hypothesis PS_pos : 1 < PS.     (* a page holds more than one hash (2000 in the code) *)

  Notation val := (val St Rt).
  Notation db := (db St Rt).
  Notation batch := (batch St Rt).
  Notation node := (node St Rt).
  Notation st_at := (st_at St exec genesis).
  Notation hdr_writes := (hdr_writes St Rt PS).
  Notation hdrs_writes := (hdrs_writes St Rt PS).
  Notation blk_writes := (blk_writes St Rt exec root ntx).
  Notation step := (step St Rt exec root ntx PS gc_on gcp mtb gc_set).
  Notation run := (run St Rt exec root ntx PS gc_on gcp mtb gc_set).
  Notation fresh := (fresh St Rt root genesis ntx).
  Notation recover := (recover St Rt root genesis ntx PS trusted).
  Notation add_headers := (add_headers St Rt PS).
  Notation add_block := (add_block St Rt exec root ntx PS).
  Notation flush := (flush St Rt).

  (* ---- get / apply ---- *)
  Lemma get_app (l1 l2 : db) k :
    get (l1 ++ l2) k = if existsb (fun w => key_eqb k (fst w)) l1 then get l1 k else get l2 k.
  Proof.
    induction l1 as [|[k' v] l1 IH]; simpl; auto.
    destruct (key_eqb k k'); simpl; auto.
  Qed.

  Lemma apply_app (d : db) (b1 b2 : batch) : apply (apply d b1) b2 = apply d (b1 ++ b2).
  Proof. unfold apply. rewrite rev_app_distr, app_assoc. reflexivity. Qed.

  Lemma apply_nil (d : db) : apply d [] = d.
  Proof. reflexivity. Qed.

  Lemma get_apply_cons (d : db) (b : batch) k' v k :
    get (apply d ((k', v) :: b)) k = get (apply (((k', v) :: d)) b) k.
  Proof. unfold apply. simpl. rewrite <- app_assoc. reflexivity. Qed.

  Lemma apply_cons (d : db) (b : batch) w : apply d (w :: b) = apply (w :: d) b.
  Proof. unfold apply. simpl. rewrite <- app_assoc. reflexivity. Qed.

  (* a batch of deletions of keys [f j] *)
  Lemma get_apply_dels (d : db) (f : N -> key) (l : list N) k :
    get (apply d (map (fun j => (f j, None)) l)) k = get d k \/
    get (apply d (map (fun j => (f j, None)) l)) k = None.
  Proof.
    revert d; induction l as [|j l IH]; intros d; [left; reflexivity|].
    simpl map. rewrite apply_cons.
    destruct (IH (((f j, None) : write St Rt) :: d)) as [E|E]; rewrite E; auto.
    simpl. destruct (key_eqb k (f j)); auto.
  Qed.

  Lemma get_apply_dels_other (d : db) (f : N -> key) (l : list N) k :
    (forall j, k <> f j) -> get (apply d (map (fun j => (f j, None)) l)) k = get d k.
  Proof.
    intros H. revert d; induction l as [|j l IH]; intros d; [reflexivity|].
    simpl map. rewrite apply_cons, IH. simpl. rewrite key_eqb_neq; auto.
  Qed.

  (* ---- the ledger state after h blocks ---- *)
  Lemma st_at_succ h : st_at (h + 1) = exec (st_at h) (h + 1).
  Proof.
    unfold Crash.st_at. replace (N.to_nat (h + 1)) with (S (N.to_nat h)) by lia.
    simpl. f_equal. lia.
  Qed.

  Lemma st_at_0 : st_at 0 = genesis.
  Proof. reflexivity. Qed.

  (* ---- the consistency invariant of a database: "a node at height h with headers up to hh" ---- *)
  Record Inv (d : db) (p : bool) (h hh : N) : Prop := {
    i_version : get d KVersion = Some (VPrefix p);
    i_curblock : get d KCurBlock = Some (VNum h);
    i_curheader : get d KCurHeader = Some (VNum hh);
    i_le : h <= hh;
    i_exec : forall j, get d (KExec j) =
                         if j <=? h then Some VBlk else if j <=? hh then Some VHdr else None;
    i_txs : forall j, get d (KTxs j) =
                        if (j <=? h) && negb (ntx j =? 0) then Some VUnit else None;
    i_root : forall j, get d (KRoot j) =
                         if j <=? h then Some (VRoot (root (st_at j))) else None;
    i_state : get d (KState p) = Some (VSt (st_at h));
    i_other : get d (KState (negb p)) = None;
    i_stage : get d KStage = None;
    i_point : get d KSyncPoint = None;
    i_page : forall n, n mod PS = 0 -> n + PS <= hh + 1 -> get d (KPage n) = Some VUnit;
    i_future : forall j, h < j -> get d (KXfer j) = None
  }.

  (* two databases at the same height agree on everything the ledger consists of *)
  Definition ledger_key (h : N) (k : key) : bool :=
    match k with
    | KVersion | KCurBlock | KStage | KSyncPoint | KState _ | KRoot _ | KTxs _ => true
    | KExec j => j <=? h
    | _ => false
    end.

  Lemma inv_ledger d1 d2 p h hh1 hh2 :
    Inv d1 p h hh1 -> Inv d2 p h hh2 ->
    forall k, ledger_key h k = true -> get d1 k = get d2 k.
  Proof.
    intros A B k Hk. destruct k; simpl in Hk; try discriminate.
    - rewrite (i_version _ _ _ _ A), (i_version _ _ _ _ B); reflexivity.
    - rewrite (i_curblock _ _ _ _ A), (i_curblock _ _ _ _ B); reflexivity.
    - rewrite (i_stage _ _ _ _ A), (i_stage _ _ _ _ B); reflexivity.
    - rewrite (i_point _ _ _ _ A), (i_point _ _ _ _ B); reflexivity.
    - rewrite (i_exec _ _ _ _ A), (i_exec _ _ _ _ B), Hk; reflexivity.
    - rewrite (i_txs _ _ _ _ A), (i_txs _ _ _ _ B); reflexivity.
    - rewrite (i_root _ _ _ _ A), (i_root _ _ _ _ B); reflexivity.
    - destruct (Bool.eqb p0 p) eqn:E.
      + apply Bool.eqb_prop in E; subst. rewrite (i_state _ _ _ _ A), (i_state _ _ _ _ B); reflexivity.
      + assert (p0 = negb p) as -> by (destruct p0, p; simpl in *; congruence).
        rewrite (i_other _ _ _ _ A), (i_other _ _ _ _ B); reflexivity.
  Qed.

  Ltac kcase :=
    repeat match goal with
    | |- context [N.eqb ?a ?b] => destruct (N.eqb_spec a b); subst
    | |- context [N.leb ?a ?b] => destruct (N.leb_spec a b)
    | |- context [Bool.eqb ?a ?b] => destruct a, b; simpl
    end; simpl; try reflexivity; try congruence; try lia.

  (* one more header *)
  Lemma Inv_hdr d p h hh :
    Inv d p h hh -> Inv (apply d (hdr_writes (hh + 1))) p h (hh + 1).
  Proof.
    intros I. pose proof (i_le _ _ _ _ I) as Hle. unfold Crash.hdr_writes, apply.
    destruct (((hh + 1 + 1) mod PS =? 0) && (PS <=? hh + 1 + 1)) eqn:Epg; cbn [rev app].
    - apply andb_true_iff in Epg as [Em Ele]. apply N.eqb_eq in Em. apply N.leb_le in Ele.
      constructor; intros; cbn [get key_eqb]; try (apply I; assumption); try reflexivity; try lia.
      + rewrite (i_exec _ _ _ _ I). kcase.
      + destruct (N.eqb_spec n (hh + 1 + 1 - PS)); [reflexivity|].
        apply (i_page _ _ _ _ I); auto. lia.
    - constructor; intros; cbn [get key_eqb]; try (apply I; assumption); try reflexivity; try lia.
      + rewrite (i_exec _ _ _ _ I). kcase.
      + apply (i_page _ _ _ _ I); auto.
        assert (n + PS <> hh + 1 + 1).
        { intros E. apply andb_false_iff in Epg as [Epg|Epg].
          - apply N.eqb_neq in Epg. apply Epg. rewrite <- E.
            replace (n + PS) with (n + 1 * PS) by lia. rewrite N.mod_add by lia. auto.
          - apply N.leb_gt in Epg. lia. }
        lia.
  Qed.

  Lemma Inv_hdrs d p h hh c :
    Inv d p h hh -> Inv (apply d (hdrs_writes (hh + 1) c)) p h (hh + N.of_nat c).
  Proof.
    revert d hh; induction c as [|c IH]; intros d hh I.
    - simpl. rewrite apply_nil, N.add_0_r. auto.
    - cbn [Crash.hdrs_writes]. rewrite <- apply_app.
      replace (hh + N.of_nat (S c)) with (hh + 1 + N.of_nat c) by lia.
      apply IH, Inv_hdr, I.
  Qed.

  (* one more block: everything it writes lands together with the tip pointer *)
  Lemma get_blk d p s i k :
    get (apply d (blk_writes p s i)) k =
    match k with
    | KCurBlock => Some (VNum i)
    | KExec j => if j =? i then Some VBlk else get d k
    | KTxs j => if (j =? i) && negb (ntx i =? 0) then Some VUnit else get d k
    | KState q => if Bool.eqb q p then Some (VSt (exec s i)) else get d k
    | KRoot j => if j =? i then Some (VRoot (root (exec s i))) else get d k
    | KMpt j => if j =? i then Some VUnit else get d k
    | KXfer j => if j =? i then Some VUnit else get d k
    | _ => get d k
    end.
  Proof.
    unfold Crash.blk_writes, apply.
    destruct (ntx i =? 0); cbn [rev app]; destruct k; cbn [get key_eqb negb andb];
      rewrite ?andb_false_r, ?andb_true_r; reflexivity.
  Qed.

  Lemma Inv_blk d p h hh :
    Inv d p h hh -> h < hh ->
    Inv (apply d (blk_writes p (st_at h) (h + 1))) p (h + 1) hh.
  Proof.
    intros I Hlt.
    constructor; intros; rewrite ?get_blk, <- ?st_at_succ; try (apply I; assumption); try reflexivity; try lia.
    - rewrite (i_exec _ _ _ _ I). kcase.
    - rewrite (i_txs _ _ _ _ I).
      destruct (N.eqb_spec j (h + 1)) as [->|Hn]; simpl.
      + replace (h + 1 <=? h) with false by (symmetry; apply N.leb_gt; lia).
        rewrite N.leb_refl. simpl. destruct (ntx (h + 1) =? 0); reflexivity.
      + replace (j <=? h + 1) with (j <=? h); [reflexivity|].
        destruct (N.leb_spec j h), (N.leb_spec j (h + 1)); auto; lia.
    - rewrite (i_root _ _ _ _ I). kcase.
    - rewrite Bool.eqb_reflx. reflexivity.
    - replace (Bool.eqb (negb p) p) with false by (destruct p; reflexivity). apply I.
    - destruct (N.eqb_spec j (h + 1)); [lia|]. apply (i_future _ _ _ _ I). lia.
  Qed.

  (* garbage collection only deletes historic trie nodes / transfer batches *)
  Lemma Inv_gc d p h hh (f : N -> key) (l : list N) :
    (f = KMpt \/ f = KXfer) ->
    Inv d p h hh -> Inv (apply d (map (fun j => (f j, None)) l)) p h hh.
  Proof.
    intros Hf I.
    assert (O : forall k, (forall j, k <> KMpt j) -> (forall j, k <> KXfer j) ->
                          get (apply d (map (fun j => (f j, None)) l)) k = get d k).
    { intros k H1 H2. apply get_apply_dels_other. destruct Hf; subst; auto. }
    constructor; intros; try (rewrite O by congruence; apply I; auto).
    - apply I.
    - destruct (get_apply_dels d f l (KXfer j)) as [E|E]; rewrite E; auto. apply (i_future _ _ _ _ I); auto.
  Qed.

  (* ---- start-up on a consistent database ---- *)
  Lemma all_from_true (f : N -> bool) lo cnt :
    (forall j, lo <= j < lo + N.of_nat cnt -> f j = true) -> Crash.all_from f lo cnt = true.
  Proof.
    revert lo; induction cnt as [|c IH]; intros lo H; simpl; auto.
    rewrite H by lia. simpl. apply IH. intros j Hj. apply H. lia.
  Qed.

  Lemma stored_count_le hh : Crash.stored_count PS hh <= hh + 1.
  Proof. unfold Crash.stored_count. rewrite N.mul_comm. apply N.mul_div_le. lia. Qed.

  Lemma recover_inv d p h hh :
    Inv d p h hh -> recover d = RNode (mkNode d [] h hh).
  Proof.
    intros I. unfold Crash.recover.
    rewrite (i_version _ _ _ _ I), (i_curheader _ _ _ _ I), (i_curblock _ _ _ _ I).
    assert (Crash.headers_ok St Rt PS trusted d hh = true) as ->.
    { unfold Crash.headers_ok. apply andb_true_iff; split.
      - destruct (PS <=? Crash.stored_count PS hh) eqn:E; auto.
        apply N.leb_le in E.
        rewrite (i_page _ _ _ _ I); auto.
        + unfold Crash.stored_count in *.
          set (q := (hh + 1) / PS) in *.
          assert (1 <= q) by (destruct (N.eq_dec q 0) as [Z|Z]; [rewrite Z in E; lia|lia]).
          replace (q * PS - PS) with ((q - 1) * PS) by nia.
          apply N.mod_mul. lia.
        + pose proof (stored_count_le hh). lia.
      - apply all_from_true. intros j Hj.
        rewrite (i_exec _ _ _ _ I).
        assert (j <= hh).
        { destruct (N.le_gt_cases (Crash.walk_low PS trusted hh) (hh + 1)); lia. }
        destruct (j <=? h); auto. destruct (N.leb_spec j hh); auto. lia. }
    rewrite (i_stage _ _ _ _ I). reflexivity.
  Qed.

  (* ---- the run ---- *)
  Definition Empty (d : db) : Prop := forall k, get d k = None.
  (* what a database can be at a batch boundary: empty, or a consistent node at a height <= hm *)
  Definition DiskOk (p : bool) (d : db) (hm : N) : Prop :=
    Empty d \/ exists h hh, Inv d p h hh /\ h <= hm.

  Definition WF (p : bool) (n : node) : Prop :=
    Inv (view n) p (height n) (hheight n) /\ DiskOk p (disk n) (height n) /\
    (cache n = [] -> disk_height (disk n) = height n).

  Fixpoint Chain (p : bool) (d : db) (bs : list batch) (d' : db) (hm : N) : Prop :=
    match bs with
    | [] => d' = d
    | b :: t => DiskOk p (apply d b) hm /\ Chain p (apply d b) t d' hm
    end.

  Lemma DiskOk_mono p d h1 h2 : DiskOk p d h1 -> h1 <= h2 -> DiskOk p d h2.
  Proof. intros [E|(h & hh & I & L)] H; [left; auto|right; exists h, hh; split; auto; lia]. Qed.

  Lemma Chain_mono p d bs d' h1 h2 : Chain p d bs d' h1 -> h1 <= h2 -> Chain p d bs d' h2.
  Proof.
    revert d; induction bs as [|b t IH]; simpl; auto.
    intros d [A B] H. split; eauto using DiskOk_mono.
  Qed.

  Lemma Chain_app p d b1 d1 b2 d2 hm :
    Chain p d b1 d1 hm -> Chain p d1 b2 d2 hm -> Chain p d (b1 ++ b2) d2 hm.
  Proof.
    revert d; induction b1 as [|b t IH]; simpl; intros d.
    - intros ->; auto.
    - intros [A B] C; split; auto.
  Qed.

  Lemma view_push (n : node) ws : view (push n ws) = apply (view n) ws.
  Proof. unfold view, push; simpl. symmetry. apply apply_app. Qed.

  Lemma WF_add_headers p n c : WF p n -> WF p (add_headers n c) /\ height (add_headers n c) = height n
                                        /\ disk (add_headers n c) = disk n.
  Proof.
    intros (I & D & E). unfold Crash.add_headers. simpl.
    split; [|split; reflexivity].
    split; [|split]; simpl; auto.
    - unfold view; simpl. rewrite <- apply_app.
      replace (hheight n + c) with (hheight n + N.of_nat (N.to_nat c)) by lia.
      apply Inv_hdrs, I.
    - intros Hc. destruct (cache n); [|discriminate]. simpl in Hc.
      destruct (N.to_nat c) eqn:Ec; [auto|].
      exfalso. simpl in Hc. unfold Crash.hdr_writes in Hc. discriminate.
  Qed.

  Lemma cur_prefix_inv d p h hh : Inv d p h hh -> cur_prefix d = p.
  Proof. intros I. unfold cur_prefix. rewrite (i_version _ _ _ _ I). reflexivity. Qed.

  Lemma WF_add_block p n : WF p n -> WF p (add_block n) /\ height n <= height (add_block n)
                                     /\ disk (add_block n) = disk n.
  Proof.
    intros W. unfold Crash.add_block.
    set (n1 := if hheight n <? height n + 1 then add_headers n 1 else n).
    assert (W1 : WF p n1 /\ height n1 = height n /\ disk n1 = disk n /\ height n < hheight n1).
    { subst n1. destruct (N.ltb_spec (hheight n) (height n + 1)).
      - destruct (WF_add_headers p n 1 W) as (A & B & C). split; [|split; [|split]]; auto.
        unfold Crash.add_headers; simpl. destruct W as (I0 & _). pose proof (i_le _ _ _ _ I0). lia.
      - split; [|split; [|split]]; auto. lia. }
    destruct W1 as ((I1 & D1 & E1) & Hh & Hd & Hlt).
    rewrite (cur_prefix_inv _ _ _ _ I1), (i_state _ _ _ _ I1).
    split; [|split]; simpl; try lia; auto.
    split; [|split]; simpl.
    - unfold view; simpl. rewrite <- apply_app. unfold view in I1. rewrite Hh in *.
      apply Inv_blk; auto.
    - rewrite Hd. destruct W as (_ & D & _). eapply DiskOk_mono; eauto. lia.
    - intros Hc. exfalso. destruct (cache n1); simpl in Hc; [|discriminate].
      unfold Crash.blk_writes in Hc. discriminate.
  Qed.

  Lemma disk_height_inv d p h hh : Inv d p h hh -> disk_height d = h.
  Proof. intros I. unfold disk_height. rewrite (i_curblock _ _ _ _ I). reflexivity. Qed.

  Lemma WF_flush p n n' bs :
    WF p n -> flush n = (n', bs) ->
    WF p n' /\ height n' = height n /\ Chain p (disk n) bs (disk n') (height n') /\ cache n' = [].
  Proof.
    intros (I & D & E) F. unfold Crash.flush in F. destruct (cache n) as [|w c] eqn:Ec.
    - inv F. split; [|split; [|split]]; auto.
      + split; [|split]; auto.
      + simpl. reflexivity.
    - inv F. simpl. unfold view in I. rewrite Ec in I.
      assert (Dn : DiskOk p (apply (disk n) (w :: c)) (height n)).
      { right. exists (height n), (hheight n). split; auto. lia. }
      split; [|split; [|split]]; simpl; auto.
      split; [|split]; simpl; auto.
      intros _. eapply disk_height_inv; eauto.
  Qed.

  Lemma Empty_dels (d : db) (f : N -> key) (l : list N) : Empty d -> Empty (apply d (map (fun j => (f j, None)) l)).
  Proof.
    intros E k. destruct (get_apply_dels d f l k) as [H|H]; rewrite H; auto.
  Qed.

  Lemma DiskOk_gc p d hm (f : N -> key) (l : list N) :
    (f = KMpt \/ f = KXfer) -> DiskOk p d hm -> DiskOk p (apply d (map (fun j => (f j, None)) l)) hm.
  Proof.
    intros Hf [E|(h & hh & I & L)].
    - left. apply Empty_dels; auto.
    - right. exists h, hh. split; auto. apply Inv_gc; auto.
  Qed.

  Lemma step_ok p n o n' bs :
    WF p n -> step n o = (n', bs) ->
    WF p n' /\ height n <= height n' /\ Chain p (disk n) bs (disk n') (height n').
  Proof.
    intros W Hs. destruct o; simpl in Hs.
    - inv Hs. destruct (WF_add_headers p n n0 W) as (A & B & C).
      split; [|split]; auto; simpl; try lia; auto.
    - inv Hs. destruct (WF_add_block p n W) as (A & B & C).
      split; [|split]; auto; simpl; auto.
    - destruct (WF_flush p n n' bs W Hs) as (A & B & C & _).
      split; [|split]; auto; lia.
    - destruct (flush n) as [n1 b1] eqn:F.
      destruct (WF_flush p n n1 b1 W F) as (W1 & H1 & C1 & Ec1).
      destruct (Crash.gc_due gc_on gcp mtb (disk_height (disk n)) (disk_height (disk n1))).
      + inv Hs. simpl.
        set (t := Crash.gc_target gcp mtb (disk_height (disk n1))).
        destruct W1 as (I1 & D1 & E1).
        unfold view in I1. rewrite Ec1 in I1. rewrite apply_nil in I1.
        assert (I2 : Inv (apply (apply (disk n1) (map (fun j => (KXfer j, None)) (gc_set t)))
                                (map (fun j => (KMpt j, None)) (gc_set t))) p (height n1) (hheight n1)).
        { apply Inv_gc; auto. apply Inv_gc; auto. }
        split; [|split]; simpl; try lia.
        * split; [|split]; simpl.
          -- unfold view; simpl. rewrite Ec1, apply_nil. exact I2.
          -- right. exists (height n1), (hheight n1). split; auto. lia.
          -- intros _. eapply disk_height_inv; eauto.
        * eapply Chain_app; [exact C1|]. simpl. split; [|split]; auto.
          -- apply DiskOk_gc; auto.
          -- apply DiskOk_gc; auto. apply DiskOk_gc; auto.
      + inv Hs. split; [|split]; auto. lia.
  Qed.

  Lemma run_ok p ops : forall n n' bs,
    WF p n -> run n ops = (n', bs) ->
    WF p n' /\ height n <= height n' /\ Chain p (disk n) bs (disk n') (height n').
  Proof.
    induction ops as [|o t IH]; intros n n' bs W Hr; simpl in Hr.
    - inv Hr. split; [|split]; auto. lia. simpl. reflexivity.
    - destruct (step n o) as [n1 b1] eqn:Es. destruct (run n1 t) as [n2 b2] eqn:Er. inv Hr.
      destruct (step_ok p n o n1 b1 W Es) as (W1 & L1 & C1).
      destruct (IH n1 n' b2 W1 Er) as (W2 & L2 & C2).
      split; [|split]; auto; try lia.
      eapply Chain_app; eauto. eapply Chain_mono; eauto.
  Qed.

  Lemma chain_prefix p bs : forall d d' hm k,
    Chain p d bs d' hm -> DiskOk p d hm -> DiskOk p (apply_all d (firstn k bs)) hm.
  Proof.
    induction bs as [|b t IH]; intros d d' hm k C D.
    - rewrite firstn_nil. simpl. auto.
    - destruct k; simpl; auto. destruct C as [A B]. eapply IH; eauto.
  Qed.

  (* the fresh node: genesis waits in the cache *)
  Lemma WF_fresh : WF false fresh.
  Proof.
    unfold WF, Crash.fresh, view; simpl disk; simpl cache; simpl height; simpl hheight.
    split; [|split; [left; intros k; reflexivity|intros H; exfalso; unfold Crash.genesis_writes in H; discriminate]].
    unfold Crash.genesis_writes, apply.
    destruct (ntx 0 =? 0) eqn:En; cbn [rev app];
      (constructor; intros; cbn [get key_eqb]; try reflexivity; try lia).
    all: try (destruct (N.eqb_spec j 0); subst; kcase).
    all: try (rewrite En; reflexivity).
    all: try (exfalso; lia).
    all: try (destruct (ntx j =? 0); rewrite ?andb_false_r; reflexivity).
    all: try (destruct (N.eqb_spec j 0); subst; try lia; reflexivity).
  Qed.

  Lemma recover_empty d : Empty d -> recover d = RNode fresh.
  Proof. intros E. unfold Crash.recover. rewrite E. reflexivity. Qed.

  (* ================= the theorems ================= *)

  (* block_batch_atomic: at EVERY batch boundary of EVERY run the database is either empty or holds, for
     some h, exactly the records of blocks 0..h - block record, transactions, state root, the contract
     storage after block h and the tip pointer h - and headers only above h: no boundary ever separates
     anything a block writes from the tip pointer, and header-only records precede the block's batch. *)
  Theorem block_batch_atomic ops n bs k :
    run fresh ops = (n, bs) ->
    Empty (crash bs k) \/ exists h hh, Inv (crash bs k) false h hh /\ h <= height n.
  Proof.
    intros Hr. destruct (run_ok false ops fresh n bs WF_fresh Hr) as (W & L & C).
    unfold crash. eapply chain_prefix; eauto. left. intros k'. reflexivity.
  Qed.

  (* crash_prefix: re-opening the database after any k batches gives a node - never an error - that is
     well-formed at a height not above the last accepted block ... *)
  Theorem crash_prefix ops n bs k :
    run fresh ops = (n, bs) ->
    exists nk, recover (crash bs k) = RNode nk /\ WF false nk /\ height nk <= height n.
  Proof.
    intros Hr. destruct (block_batch_atomic ops n bs k Hr) as [E|(h & hh & I & L)].
    - exists fresh. split; [apply recover_empty; auto|]. split; [apply WF_fresh|]. simpl. lia.
    - exists (mkNode (crash bs k) [] h hh). split; [eapply recover_inv; eauto|].
      split; auto. unfold WF, view; simpl. rewrite apply_nil.
      split; auto. split; [right; exists h, hh; split; auto; lia|].
      intros _. eapply disk_height_inv; eauto.
  Qed.

  (* ... and whatever the recovered node and an uninterrupted node do afterwards (any further operations,
     crashes excluded), when they stand at the same height they hold the same ledger: same tip pointer,
     same contract storage, same state root for EVERY height, same block and transaction records. *)
  Theorem crash_resume_same ops n bs k nk ops1 ops2 m1 b1 m2 b2 :
    run fresh ops = (n, bs) -> recover (crash bs k) = RNode nk ->
    run nk ops1 = (m1, b1) -> run fresh ops2 = (m2, b2) -> height m1 = height m2 ->
    forall key, ledger_key (height m1) key = true -> get (view m1) key = get (view m2) key.
  Proof.
    intros Hr Hk H1 H2 Eh key Hkey.
    destruct (crash_prefix ops n bs k Hr) as (nk' & Hk' & Wk & _).
    rewrite Hk in Hk'. inv Hk'.
    destruct (run_ok false ops1 nk' m1 b1 Wk H1) as ((I1 & _) & _).
    destruct (run_ok false ops2 fresh m2 b2 WF_fresh H2) as ((I2 & _) & _).
    rewrite Eh in I1, Hkey. eapply inv_ledger; eauto.
  Qed.

  (* the recovered state IS the state of the history at that height, and every later root is the
     history's root: spelled out *)
  Theorem crash_state_is_history ops n bs k nk ops1 m1 b1 :
    run fresh ops = (n, bs) -> recover (crash bs k) = RNode nk -> run nk ops1 = (m1, b1) ->
    get (view m1) (KState false) = Some (VSt (st_at (height m1))) /\
    forall j, j <= height m1 -> get (view m1) (KRoot j) = Some (VRoot (root (st_at j))).
  Proof.
    intros Hr Hk H1.
    destruct (crash_prefix ops n bs k Hr) as (nk' & Hk' & Wk & _).
    rewrite Hk in Hk'. inv Hk'.
    destruct (run_ok false ops1 nk' m1 b1 Wk H1) as ((I1 & _) & _).
    split; [apply (i_state _ _ _ _ I1)|].
    intros j Hj. rewrite (i_root _ _ _ _ I1). destruct (N.leb_spec j (height m1)); auto. lia.
  Qed.

  (* gc_crash_safe: the batches of a garbage-collection run never change what start-up and block
     processing read: a consistent database stays consistent at the same height *)
  Theorem gc_crash_safe d p h hh t :
    Inv d p h hh ->
    Inv (apply d (map (fun j => (KXfer j, None)) (gc_set t))) p h hh /\
    Inv (apply_all d (Crash.gc_batches St Rt gc_set t)) p h hh.
  Proof.
    intros I. split; [apply Inv_gc; auto|].
    unfold Crash.gc_batches. simpl. apply Inv_gc; auto. apply Inv_gc; auto.
  Qed.

End Proofs.
