(* C06 - proofs about Node/AcceptPool.v *)
From NG Require Import Common.Tactics Node.Accept Node.AcceptPool.
Open Scope N_scope.

Section PoolProofs.
  Variable tx_valid : N -> N -> bool.
  Variable relevant : N -> N -> bool.
  Variable verify : bool.

  Notation PoolOK := (PoolOK tx_valid).
  Notation pstep := (pstep tx_valid relevant verify true).
  Notation prun := (prun tx_valid relevant verify true).
  Notation block_ok := (block_ok tx_valid verify).

  (* what the refresh keeps is what a fresh verification at that height would lets_in *)
  Hypothesis relevant_sound : forall h t, relevant h t = true -> tx_valid h t = true.

  Lemma in_pool_In pool t : in_pool pool t = true <-> In t pool.
  Proof.
    unfold in_pool. rewrite existsb_exists. split.
    - intros (x & Hx & E). apply N.eqb_eq in E. subst. auto.
    - intros H. exists t. split; auto. apply N.eqb_refl.
  Qed.

  Lemma pstep_ok st o : PoolOK st -> PoolOK (pstep st o).
  Proof.
    destruct st as [n pool]. intros H. destruct o as [t|txs]; simpl.
    - destruct (tx_valid n t) eqn:E; simpl; [|exact H].
      destruct (in_pool pool t); simpl; [exact H|].
      intros x [<-|Hx]; [exact E|apply H; exact Hx].
    - destruct (block_ok n pool txs); [|exact H].
      intros x Hx. simpl in *. unfold refresh in Hx. apply filter_In in Hx as [_ Hx].
      apply relevant_sound. exact Hx.
  Qed.

  Lemma prun_ok ops : forall st, PoolOK st -> PoolOK (prun st ops).
  Proof.
    induction ops as [|o t IH]; intros st H; simpl; auto. apply IH, pstep_ok, H.
  Qed.

  (* pool_sound: after ANY history of pooling and block offers (from an empty pool), every pooled
     transaction is valid at the current height ... *)
  Theorem pool_sound ops n0 : PoolOK (prun (n0, []) ops).
  Proof. apply prun_ok. intros t []. Qed.

  (* ... hence every transaction of an accepted block is valid AT THE TIME OF THE OFFER, whether the node
     held it in its mempool or not *)
  Theorem pooled_valid_at_offer ops n0 txs :
    verify = true ->
    let st := prun (n0, []) ops in
    block_ok (fst st) (snd st) txs = true ->
    forall t, In t txs -> tx_valid (fst st) t = true.
  Proof.
    intros Hv st Hb t Ht. pose proof (pool_sound ops n0) as P. fold st in P.
    unfold AcceptPool.block_ok in Hb. rewrite forallb_forall in Hb. specialize (Hb t Ht).
    unfold lets_in in Hb. rewrite Hv in Hb. simpl in Hb.
    apply orb_true_iff in Hb as [Hb|Hb]; auto. apply P. apply in_pool_In. exact Hb.
  Qed.
End PoolProofs.

(* ---- witnesses ---- *)
(* transaction 7 is valid up to height 1 (ValidUntilBlock = 2), not after *)
Definition wp_valid (h t : N) : bool := if t =? 7 then h <=? 1 else true.
Definition wp_ops := [PoolTx 7; OfferBlock []; OfferBlock [7]].

(* refresh evaluated against the OLD height: the expired transaction survives the refresh at block 2 and the
   block carrying it at height 2 is accepted *)
Lemma refresh_old_height_refuted :
  prun wp_valid wp_valid true false (1, []) wp_ops = (3, []) /\
  wp_valid 2 7 = false /\
  prun wp_valid wp_valid true true (1, []) wp_ops = (2, []).
Proof. repeat split. Qed.

(* a refresh that does not re-check everything a fresh verification checks (here: nothing is re-checked for
   transaction 7 - the pinned code does not re-check the Policy block list, F46) *)
Definition wp_relevant_weak (h t : N) : bool := true.
Lemma refresh_unsound_refuted :
  prun wp_valid wp_relevant_weak true true (1, []) wp_ops = (3, []) /\ wp_valid 2 7 = false.
Proof. repeat split. Qed.
