(* C02 - witness for the collector of the pinned code (fx_keep = false): with pages of 4 hashes,
   MaxTraceableBlocks = 1 and a collection after every block, the database cannot be re-opened after the
   21st batch (the page the start-up needs has been removed); the repaired collector never gets there. *)
From NG Require Import Common.Tactics Node.Crash Node.Stages Node.CrashGC.
Open Scope N_scope.

Definition gw_ops (i : nat) := concat (repeat [OBlk; OFlushGC] i).
Definition gw_run (keep : bool) :=
  grun N N (fun _ i => i) (fun s => s) (fun _ => 0) 4 1 1 (fun _ => []) keep
       (mkG (fresh N N (fun s => s) 0 (fun _ => 0)) 0 0) (gw_ops 12).
Definition gw_reopens (keep : bool) (k : nat) : bool :=
  match recover N N (fun s => s) 0 (fun _ => 0) 4 0 (crash (snd (gw_run keep)) k) with
  | RNode _ => true
  | _ => false
  end.

Lemma gc_unrepaired_refuted :
  gw_reopens false 21 = false /\ gw_reopens false 20 = true /\
  forallb (gw_reopens true) (seq 0 (S (length (snd (gw_run true))))) = true.
Proof. vm_compute. repeat split. Qed.
