(* The statements of Properties/C01.v assembled from Node/Gov.v, Node/GovProofs.v and Node/Witness.v. *)
From NG Require Import Common.Tactics Tokens.Model Tokens.Names Tokens.Inv Tokens.OpProofs Node.Gov Node.GovProofs Node.Restart Node.Witness Auth.Permission Auth.PermStore.
Open Scope Z_scope.

Lemma cache_coherent cfg : cfg_wf cfg -> fix_block_dirty cfg = true -> fix_gpv_drop cfg = true -> fix_whitelist cfg = true ->
  0 < csize cfg -> forall bs, blocks_ok cfg bs -> Coh cfg (reach cfg bs).
Proof. intros CW F7 F23 F47 CS bs OK. exact (proj1 (cache_coherent_reach cfg CW F7 F23 F47 CS bs OK)). Qed.

Lemma restart_transparent_partial cfg : cfg_wf cfg -> fix_block_dirty cfg = true -> fix_gpv_drop cfg = true -> fix_whitelist cfg = true ->
  0 < csize cfg -> forall bs, blocks_ok cfg bs ->
  obs cfg (reinit cfg (reach cfg bs)) = obs cfg (reach cfg bs)
  /\ (forall role index a, obsX (reinit cfg (reach cfg bs)) role index a = obsX (reach cfg bs) role index a)
  /\ sto (reinit cfg (reach cfg bs)) = sto (reach cfg bs)
  /\ Coh cfg (reinit cfg (reach cfg bs)).
Proof.
  intros CW F7 F23 F47 CS bs OK.
  pose proof (cache_coherent cfg CW F7 F23 F47 CS bs OK) as C.
  exact (conj (coherent_obs cfg _ C) (conj (fun role index a => coherent_obsX cfg _ role index a C) (conj (reinit_sto cfg _) (reinit_coh cfg CS _ C)))).
Qed.

Lemma restart_transparent_full cfg : cfg_wf cfg -> fix_block_dirty cfg = true -> fix_gpv_drop cfg = true -> fix_whitelist cfg = true ->
  0 < csize cfg -> forall bs bs', blocks_ok cfg bs -> blocks_ok cfg bs' ->
  sto (fold_left (step cfg) bs' (reinit cfg (reach cfg bs))) = sto (fold_left (step cfg) bs' (reach cfg bs))
  /\ obs cfg (fold_left (step cfg) bs' (reinit cfg (reach cfg bs))) = obs cfg (fold_left (step cfg) bs' (reach cfg bs))
  /\ (forall role index a, obsX (fold_left (step cfg) bs' (reinit cfg (reach cfg bs))) role index a
                           = obsX (fold_left (step cfg) bs' (reach cfg bs)) role index a).
Proof. intros CW F7 F23 F47 CS bs bs' OK OK'. exact (restart_transparent cfg CW F7 F23 F47 CS bs bs' OK OK'). Qed.

Lemma restarts_transparent_full cfg : cfg_wf cfg -> fix_block_dirty cfg = true -> fix_gpv_drop cfg = true -> fix_whitelist cfg = true ->
  0 < csize cfg -> forall es, blocks_ok cfg (gblocks es) ->
  sto (fold_left (gstep cfg) es (genesis cfg)) = sto (reach cfg (gblocks es))
  /\ obs cfg (fold_left (gstep cfg) es (genesis cfg)) = obs cfg (reach cfg (gblocks es))
  /\ (forall role index a, obsX (fold_left (gstep cfg) es (genesis cfg)) role index a = obsX (reach cfg (gblocks es)) role index a).
Proof. intros CW F7 F23 F47 CS es OK. exact (restarts_transparent cfg CW F7 F23 F47 CS es OK). Qed.

Lemma cache_coherent_refuted_F7 :
  let cfg := w_cfg false true in
  cfg_wf cfg /\ blocks_ok cfg w_f7
  /\ compute_next_validators cfg (reach cfg w_f7) <> compute_next_validators cfg (reinit cfg (reach cfg w_f7)).
Proof.
  split; [apply w_cfg_wf|split; [apply w_f7_ok|]].
  destruct f7_refuted as [E1 E2]. intros E. rewrite E1, E2 in E. discriminate.
Qed.

Lemma restart_refuted_F23 :
  let cfg := w_cfg true false in
  cfg_wf cfg /\ blocks_ok cfg w_f23
  /\ nlgpv (neo_acc (step cfg (reach cfg w_f23) w_f23_next) 1)
     <> nlgpv (neo_acc (step cfg (reinit cfg (reach cfg w_f23)) w_f23_next) 1).
Proof.
  split; [apply w_cfg_wf|split; [apply w_f23_ok|]].
  destruct f23_refuted as [E1 E2]. intros E. rewrite E1, E2 in E. discriminate.
Qed.

Lemma restart_refuted_F47 :
  let cfg := w_cfg47 false in
  cfg_wf cfg /\ blocks_ok cfg w_f47
  /\ whitelisted_fee (reach cfg w_f47) 2 <> whitelisted_fee (reinit cfg (reach cfg w_f47)) 2.
Proof.
  split; [apply w_cfg47_wf|split; [apply w_f47_ok|]].
  destruct f47_refuted as [E1 E2]. intros E. rewrite E1, E2 in E. discriminate.
Qed.

Lemma c01_example :
  let cfg := w_cfg true true in
  cfg_wf cfg /\ fix_block_dirty cfg = true /\ fix_gpv_drop cfg = true /\ fix_whitelist cfg = true /\ 0 < csize cfg /\ blocks_ok cfg w_f7
  /\ committee_sorted (reach cfg w_f7) = [1;2;3]%N
  /\ compute_next_validators cfg (reach cfg w_f7) = [0;1]%N
  /\ sto (step cfg (reach cfg w_f23) w_f23_next) = sto (step cfg (reinit cfg (reach cfg w_f23)) w_f23_next).
Proof.
  split; [apply w_cfg_wf|]. split; [reflexivity|]. split; [reflexivity|]. split; [reflexivity|]. split; [reflexivity|].
  split; [apply w_f7_ok|]. split; [vm_compute; reflexivity|]. split; [exact (proj1 f7_repaired)|exact f23_repaired].
Qed.

(* the gas-per-block history (an append-only slice in the cache, one record per index in storage) *)
Lemma gas_per_block_lookup_coherent cfg : cfg_wf cfg -> fix_block_dirty cfg = true -> fix_gpv_drop cfg = true -> fix_whitelist cfg = true ->
  0 < csize cfg -> forall bs idx, blocks_ok cfg bs ->
  gas_per_block (reinit cfg (reach cfg bs)) idx = gas_per_block (reach cfg bs) idx.
Proof. intros CW F7 F23 F47 CS bs idx OK. apply coherent_gas_per_block. exact (cache_coherent cfg CW F7 F23 F47 CS bs OK). Qed.

Lemma gas_per_block_restart_transparent_full cfg : cfg_wf cfg -> fix_block_dirty cfg = true -> fix_gpv_drop cfg = true -> fix_whitelist cfg = true ->
  0 < csize cfg -> forall bs bs' idx start en, blocks_ok cfg bs -> blocks_ok cfg bs' ->
  gas_per_block (fold_left (step cfg) bs' (reinit cfg (reach cfg bs))) idx = gas_per_block (fold_left (step cfg) bs' (reach cfg bs)) idx
  /\ gas_sum_over (fold_left (step cfg) bs' (reinit cfg (reach cfg bs))) start en = gas_sum_over (fold_left (step cfg) bs' (reach cfg bs)) start en.
Proof. intros CW F7 F23 F47 CS bs bs' idx start en OK OK'. exact (gas_per_block_restart_transparent cfg CW F7 F23 F47 CS bs bs' OK OK' idx start en). Qed.

Lemma gas_per_block_first_of_equal_refuted :
  let cfg := w_cfg true true in
  cfg_wf cfg /\ fix_block_dirty cfg = true /\ fix_gpv_drop cfg = true /\ fix_whitelist cfg = true /\ blocks_ok cfg w_gpb
  /\ gas_per_block (reach cfg w_gpb) 3 = gas_per_block (reinit cfg (reach cfg w_gpb)) 3
  /\ gpb_at_first (c_gpb (A (reach cfg w_gpb))) 3 <> gpb_at_first (c_gpb (A (reinit cfg (reach cfg w_gpb)))) 3.
Proof.
  split; [apply w_cfg_wf|]. split; [reflexivity|]. split; [reflexivity|]. split; [reflexivity|]. split; [apply w_gpb_ok|].
  destruct gpb_last_of_equal as (_ & _ & E1 & E2). split; [rewrite E1, E2; reflexivity|].
  destruct gpb_first_of_equal_refuted as [F1 F2]. intros E. rewrite F1, F2 in E. discriminate.
Qed.

(* the cached contract state (id, counters, permissions, groups, safe flags) of a restarted node is the running node's,
   field by field, after any continuation; hence Manifest.CanCall answers the same on both *)
Lemma contract_state_restart_transparent cfg : cfg_wf cfg -> fix_block_dirty cfg = true -> fix_gpv_drop cfg = true -> fix_whitelist cfg = true ->
  0 < csize cfg -> forall bs bs' a, blocks_ok cfg bs -> blocks_ok cfg bs' ->
  contract_of (fold_left (step cfg) bs' (reinit cfg (reach cfg bs))) a = contract_of (fold_left (step cfg) bs' (reach cfg bs)) a
  /\ (forall c m, can_call (mc_perms (contract_of (fold_left (step cfg) bs' (reinit cfg (reach cfg bs))) a)) c m
                  = can_call (mc_perms (contract_of (fold_left (step cfg) bs' (reach cfg bs)) a)) c m).
Proof.
  intros CW F7 F23 F47 CS bs bs' a OK OK'.
  destruct (restart_transparent cfg CW F7 F23 F47 CS bs bs' OK OK') as (_ & _ & HX).
  pose proof (HX 4%N 0 a) as E. unfold obsX in E.
  assert (Ec : contract_of (fold_left (step cfg) bs' (reinit cfg (reach cfg bs))) a = contract_of (fold_left (step cfg) bs' (reach cfg bs)) a)
    by congruence.
  split; [exact Ec|]. intros c m. rewrite Ec. reflexivity.
Qed.

Lemma manifest_empty_methods_as_wildcard_refuted :
  let cfg := w_cfg true true in
  let st := reach cfg w_mf in
  cfg_wf cfg /\ blocks_ok cfg w_mf
  /\ contract_of (reinit cfg st) 2 = contract_of st 2
  /\ can_call (mc_perms (contract_of st 2)) mgmt_callee m_update
     <> can_call (mc_perms (load_bug (aget ms0 (caddr 2) (mg_store (X st))))) mgmt_callee m_update.
Proof.
  split; [apply w_cfg_wf|]. split; [apply w_mf_ok|].
  destruct manifest_roundtrip_example as (_ & E0 & E1 & E2). split; [exact E0|].
  rewrite E1, E2. discriminate.
Qed.
