(* C02 - proofs about Node/Stages.v: Reset and the state jump are resumable at every batch boundary. *)
From NG Require Import Common.Tactics Node.Crash Node.CrashProofs Node.Stages.
Open Scope N_scope.

Section Tools.
  Context {St Rt : Type}.
  Notation val := (val St Rt).
  Notation db := (db St Rt).
  Notation batch := (list (key * option (Crash.val St Rt))).

  (* what a batch writes to a key: the last write wins *)
  Fixpoint sem (b : batch) (k : key) : option (option val) :=
    match b with
    | [] => None
    | (k', v) :: t =>
        match sem t k with
        | Some x => Some x
        | None => if key_eqb k k' then Some v else None
        end
    end.

  Lemma get_apply (d : db) (b : batch) k :
    get (apply d b) k = match sem b k with Some v => v | None => get d k end.
  Proof.
    revert d; induction b as [|[k' v] t IH]; intros d; [reflexivity|].
    unfold apply in *. simpl rev. rewrite <- app_assoc. simpl app. rewrite IH. simpl.
    destruct (sem t k); [reflexivity|]. destruct (key_eqb k k'); reflexivity.
  Qed.

  Lemma sem_app (a b : batch) k :
    sem (a ++ b) k = match sem b k with Some x => Some x | None => sem a k end.
  Proof.
    induction a as [|[k' v] t IH]; simpl.
    - destruct (sem b k); reflexivity.
    - rewrite IH. destruct (sem b k); reflexivity.
  Qed.

  Lemma sem_map_const (f : N -> key) (v : option val) (l : list N) k :
    sem (map (fun i => (f i, v)) l) k = if existsb (fun i => key_eqb k (f i)) l then Some v else None.
  Proof.
    induction l as [|i l IH]; simpl; [reflexivity|].
    rewrite IH. destruct (existsb (fun i0 => key_eqb k (f i0)) l); simpl.
    - rewrite orb_true_r. reflexivity.
    - rewrite orb_false_r. reflexivity.
  Qed.

  Lemma sem_map_keys (l : list key) k :
    sem (map (fun k' => (k', @None val)) l) k = if existsb (key_eqb k) l then Some None else None.
  Proof.
    induction l as [|i l IH]; simpl; [reflexivity|].
    rewrite IH. destruct (existsb (key_eqb k) l); simpl.
    - rewrite orb_true_r. reflexivity.
    - rewrite orb_false_r. reflexivity.
  Qed.

  Lemma existsb_false {A} (f : A -> bool) l : (forall x, f x = false) -> existsb f l = false.
  Proof. intros H; induction l; simpl; auto. rewrite H, IHl. reflexivity. Qed.

  (* ranges *)
  Lemma in_range j lo cnt : In j (range lo cnt) <-> lo <= j < lo + N.of_nat cnt.
  Proof.
    revert lo; induction cnt as [|c IH]; intros lo; simpl.
    - split; [tauto|lia].
    - rewrite IH. split; [intros [->|H]; lia|intros H].
      destruct (N.eq_dec lo j); [left; auto|right; lia].
  Qed.

  Lemma existsb_range (g : N -> N -> bool) j a b :
    (forall x y, g x y = true <-> x = y) ->
    existsb (g j) (irange a b) = (a <? j) && (j <=? b).
  Proof.
    intros Hg. unfold irange.
    destruct ((a <? j) && (j <=? b)) eqn:E.
    - apply existsb_exists. exists j. split; [|apply Hg; auto].
      apply andb_true_iff in E as [E1 E2]. apply N.ltb_lt in E1. apply N.leb_le in E2.
      apply in_range. lia.
    - destruct (existsb (g j) (range (a + 1) (N.to_nat (b - a)))) eqn:X; auto.
      apply existsb_exists in X as (x & Hin & Hx). apply Hg in Hx. subst x.
      apply in_range in Hin.
      apply andb_false_iff in E as [E|E]; [apply N.ltb_ge in E|apply N.leb_gt in E]; lia.
  Qed.

  (* scans *)
  Lemma in_nodup_keys (l : list key) k : In k (nodup_keys l) <-> In k l.
  Proof.
    induction l as [|x l IH]; simpl; [tauto|].
    destruct (existsb (key_eqb x) l) eqn:E.
    - rewrite IH. split; auto. intros [->|H]; auto.
      apply existsb_exists in E as (y & Hy & Ey). apply key_eqb_eq in Ey. subst; auto.
    - simpl. rewrite IH. tauto.
  Qed.

  Lemma present_in (d : db) k : present d k = true -> In k (map fst d).
  Proof.
    unfold present. induction d as [|[k' v] t IH]; simpl; [discriminate|].
    destruct (key_eqb k k') eqn:E.
    - apply key_eqb_eq in E. subst. auto.
    - intros H. right. apply IH. exact H.
  Qed.

  Lemma existsb_scan (P : key -> bool) (d : db) k :
    existsb (key_eqb k) (scan P d) = P k && present d k.
  Proof.
    unfold scan.
    destruct (P k && present d k) eqn:E.
    - apply existsb_exists. exists k. split; [|apply key_eqb_refl].
      apply filter_In. split; auto. apply in_nodup_keys, present_in.
      apply andb_true_iff in E; tauto.
    - destruct (existsb _ _) eqn:X; auto.
      apply existsb_exists in X as (x & Hin & Hx). apply key_eqb_eq in Hx. subst x.
      apply filter_In in Hin as [_ Hin]. congruence.
  Qed.

  (* pointwise equality of databases *)
  Definition db_eq (d1 d2 : db) : Prop := forall k, get d1 k = get d2 k.

  Lemma db_eq_apply d1 d2 b : db_eq d1 d2 -> db_eq (apply d1 b) (apply d2 b).
  Proof. intros H k. rewrite !get_apply. destruct (sem b k); auto. Qed.

  Lemma db_eq_apply_all d1 d2 bs : db_eq d1 d2 -> db_eq (apply_all d1 bs) (apply_all d2 bs).
  Proof.
    revert d1 d2; induction bs as [|b t IH]; intros d1 d2 H; simpl; auto.
    apply IH, db_eq_apply, H.
  Qed.

  Lemma thread_split (fs : list (db -> batch)) : forall (k : nat) (d : db),
    let dk := apply_all d (firstn k (thread fs d)) in
    apply_all d (thread fs d) = apply_all dk (thread (skipn k fs) dk).
  Proof.
    induction fs as [|f t IH]; intros k d; simpl.
    - destruct k; reflexivity.
    - destruct k; simpl; [reflexivity|]. apply IH.
  Qed.

  Lemma all_from_true' (f : N -> bool) lo cnt :
    (forall j, lo <= j < lo + N.of_nat cnt -> f j = true) -> Crash.all_from f lo cnt = true.
  Proof.
    revert lo; induction cnt as [|c IH]; intros lo H; simpl; auto.
    rewrite H by lia. simpl. apply IH. intros j Hj. apply H. lia.
  Qed.

  Lemma apply_all_app (d : db) a b : apply_all d (a ++ b) = apply_all (apply_all d a) b.
  Proof. unfold apply_all. apply fold_left_app. Qed.

  (* batches that write disjoint keys commute *)
  Lemma apply_comm (d : db) (a b : batch) :
    (forall k, sem a k = None \/ sem b k = None) ->
    db_eq (apply (apply d a) b) (apply (apply d b) a).
  Proof.
    intros H k. rewrite !get_apply. destruct (H k) as [E|E]; rewrite E; destruct (sem a k), (sem b k); try reflexivity; discriminate.
  Qed.

  (* a sequence of batches of which the first sets a key, and each later one sets it or leaves it alone *)
  Lemma get_apply_all_keeps (P : option val -> Prop) (k : key) (bs : list batch) (d : db) :
    P (get d k) ->
    (forall b, In b bs -> match sem b k with Some v => P v | None => True end) ->
    P (get (apply_all d bs) k).
  Proof.
    revert d; induction bs as [|b t IH]; intros d H0 H; simpl; auto.
    apply IH.
    - rewrite get_apply. specialize (H b (or_introl eq_refl)). destruct (sem b k); auto.
    - intros b' Hb. apply H. right; auto.
  Qed.
End Tools.

Section Reset.
  Context {St Rt : Type}.
  Variable exec : St -> N -> St.
  Variable root : St -> Rt.
  Variable genesis : St.
  Variable ntx : N -> N.
  Variable PS : N.
  Variable trusted : N.
  Variable unroot : Rt -> St.
  Variable fx : fixes.

  Notation val := (val St Rt).
  Notation db := (db St Rt).
  Notation batch := (list (key * option (Crash.val St Rt))).
  Notation b0 := (reset_b0 St Rt).
  Notation b1 := (reset_b1 St Rt ntx fx).
  Notation b2 := (reset_b2 St Rt unroot).
  Notation b3 := (reset_b3 St Rt PS).
  Notation b4 := (reset_b4 St Rt).
  Notation bgc := (reset_gc St Rt).
  Notation b5 := (reset_b5 St Rt).

  Lemma existsb_other (l : list N) (g : N -> bool) : (forall i, g i = false) -> existsb g l = false.
  Proof. apply existsb_false. Qed.

  Lemma existsb_cf {A} (l : list A) : existsb (fun _ => false) l = false.
  Proof. induction l; simpl; auto. Qed.

  Lemma eqb_iff x y : (x =? y) = true <-> x = y.
  Proof. apply N.eqb_eq. Qed.

  Lemma get_b0 h (x : db) k :
    get (apply x (b0 h x)) k =
    match k with
    | KSyncPoint => Some (VNum h)
    | KStage => Some (VStage true 2)
    | _ => get x k
    end.
  Proof. rewrite get_apply. destruct k; reflexivity. Qed.

  Lemma existsb_filter_range (P : N -> bool) j a b :
    existsb (N.eqb j) (filter P (irange a b)) = P j && ((a <? j) && (j <=? b)).
  Proof.
    destruct (P j && ((a <? j) && (j <=? b))) eqn:E.
    - apply andb_true_iff in E as [E1 E2].
      apply existsb_exists. exists j. split; [|apply N.eqb_refl].
      apply filter_In. split; auto.
      rewrite <- (existsb_range N.eqb j a b eqb_iff) in E2.
      apply existsb_exists in E2 as (y & Hy & Ey). apply N.eqb_eq in Ey. subst. auto.
    - destruct (existsb _ _) eqn:X; auto.
      apply existsb_exists in X as (y & Hy & Ey). apply N.eqb_eq in Ey. subst y.
      apply filter_In in Hy as [Hin HP].
      assert (existsb (N.eqb j) (irange a b) = true) by (apply existsb_exists; exists j; split; auto; apply N.eqb_refl).
      rewrite (existsb_range N.eqb j a b eqb_iff) in H. rewrite HP, H in E. discriminate.
  Qed.

  Lemma existsb_range_eqb j a b :
    existsb (fun i => j =? i) (irange a b) = (a <? j) && (j <=? b).
  Proof. apply (existsb_range N.eqb j a b eqb_iff). Qed.

  Lemma existsb_filter_range_eqb (P : N -> bool) j a b :
    existsb (fun i => j =? i) (filter P (irange a b)) = P j && ((a <? j) && (j <=? b)).
  Proof. apply existsb_filter_range. Qed.

  Lemma get_b1 h c (x : db) k :
    get (apply x (b1 h c x)) k =
    match k with
    | KExec j => if (h <? j) && (j <=? c) then (if fx_keep_headers fx then Some VHdr else None) else get x k
    | KTxs j => if negb (ntx j =? 0) && ((h <? j) && (j <=? c)) then None else get x k
    | KStage => Some (VStage true 8)
    | _ => get x k
    end.
  Proof.
    rewrite get_apply. unfold reset_b1. rewrite !sem_app, !sem_map_const.
    destruct k; simpl; rewrite ?existsb_cf; try reflexivity.
    - rewrite existsb_range_eqb. destruct ((h <? i) && (i <=? c)); reflexivity.
    - rewrite existsb_filter_range_eqb. destruct (negb (ntx i =? 0) && ((h <? i) && (i <=? c))); reflexivity.
  Qed.

  Lemma get_b2 h (x : db) k :
    get (apply x (b2 h x)) k =
    match k with
    | KState q =>
        match get x (KRoot h) with
        | Some (VRoot r) => if Bool.eqb q (negb (cur_prefix x)) then Some (VSt (unroot r)) else get x k
        | _ => get x k
        end
    | KStage => Some (VStage true 4)
    | _ => get x k
    end.
  Proof.
    rewrite get_apply. unfold reset_b2. rewrite sem_app.
    destruct (get x (KRoot h)) as [[]|]; destruct k; simpl; try reflexivity.
    destruct (Bool.eqb p (negb (cur_prefix x))); reflexivity.
  Qed.

  Lemma get_b3 h hh (x : db) k :
    get (apply x (b3 h hh x)) k =
    match k with
    | KExec j => if (h <? j) && (j <=? hh) then None else get x k
    | KPage n => if (h + 1) / PS * PS <=? n then None else get x k
    | KCurBlock => Some (VNum h)
    | KCurHeader => Some (VNum h)
    | KVersion => Some (VPrefix (negb (cur_prefix x)))
    | KStage => Some (VStage true 16)
    | _ => get x k
    end.
  Proof.
    rewrite get_apply. unfold reset_b3. rewrite !sem_app, sem_map_const, sem_map_keys, existsb_scan.
    destruct k; simpl; rewrite ?existsb_cf; try reflexivity.
    - rewrite existsb_range_eqb. destruct ((h <? i) && (i <=? hh)); reflexivity.
    - unfold present. destruct ((h + 1) / PS * PS <=? n); simpl; [|reflexivity].
      destruct (get x (KPage n)); reflexivity.
  Qed.

  Lemma get_b4 h (x : db) k :
    get (apply x (b4 h x)) k =
    match k with
    | KRoot j => if h <? j then None else get x k
    | KXfer j => if j =? h then Some VUnit else if h <? j then None else get x k
    | KStage => Some (VStage true 32)
    | _ => get x k
    end.
  Proof using St Rt.
    clear exec root genesis ntx unroot.
    rewrite get_apply. unfold reset_b4. rewrite !sem_app, !sem_map_keys, !existsb_scan.
    destruct k; simpl; try (destruct (get x (KRoot h)); reflexivity).
    - unfold present. destruct (N.ltb_spec h i); simpl;
        destruct (get x (KRoot h)) eqn:Gh; destruct (get x (KRoot i)) eqn:Gi; simpl; try reflexivity;
        try (destruct (N.eqb_spec i h); subst; simpl; try lia; congruence); congruence.
    - unfold present. destruct (N.eqb_spec i h); [subst; rewrite N.ltb_irrefl; reflexivity|].
      destruct (N.ltb_spec h i); simpl;
        destruct (get x (KRoot h)) eqn:Gh; destruct (get x (KXfer i)) eqn:Gi; simpl; try reflexivity; congruence.
  Qed.

  Lemma get_gc (x : db) k :
    get (apply x (bgc x)) k =
    match k with
    | KState q => if Bool.eqb q (negb (cur_prefix x)) then None else get x k
    | _ => get x k
    end.
  Proof. rewrite get_apply. unfold reset_gc. destruct k; simpl; try reflexivity.
         destruct (Bool.eqb p (negb (cur_prefix x))); reflexivity. Qed.

  Lemma get_b5 (x : db) k :
    get (apply x (b5 x)) k =
    match k with
    | KStage | KSyncPoint => None
    | _ => get x k
    end.
  Proof. rewrite get_apply. destruct k; reflexivity. Qed.

  (* what the stage batches write to the stage marker, and that only the collection touches contract storage
     of the old prefix while the state root / transfer stage touches no contract storage at all *)
  Lemma sem_b4_state h (x : db) q : sem (b4 h x) (KState q) = None.
  Proof using St Rt.
    clear exec root genesis ntx unroot.
    unfold reset_b4. rewrite !sem_app, !sem_map_keys, !existsb_scan. simpl.
    destruct (get x (KRoot h)); reflexivity.
  Qed.

  Lemma sem_gc_other (x : db) k : (forall q, k <> KState q) -> sem (bgc x) k = None.
  Proof. intros H. unfold reset_gc. destruct k; simpl; try reflexivity. exfalso. apply (H p). reflexivity. Qed.

  Lemma sem_gc_stage (x : db) : sem (bgc x) KStage = None.
  Proof. reflexivity. Qed.

End Reset.

Section ResetThm.
  Context {St Rt : Type}.
  Variable exec : St -> N -> St.
  Variable root : St -> Rt.
  Variable genesis : St.
  Variable ntx : N -> N.
  Variable PS : N.
  Variable trusted : N.
  Variable unroot : Rt -> St.
  Variable fx : fixes.
  Variable synced : db St Rt -> N -> bool.
  Variable mtb : N.
  Variable sync_root : N -> Rt.
  Hypothesis PS_big : 1 < PS.

  Notation val := (val St Rt).
  Notation db := (db St Rt).
  Notation st_at := (st_at St exec genesis).
  Notation Inv := (Inv exec root genesis ntx PS).
  Notation b0 := (reset_b0 St Rt).
  Notation b1 := (reset_b1 St Rt ntx fx).
  Notation b2 := (reset_b2 St Rt unroot).
  Notation b3 := (reset_b3 St Rt PS).
  Notation b4 := (reset_b4 St Rt).
  Notation bgc := (reset_gc St Rt).
  Notation b5 := (reset_b5 St Rt).
  Notation reset_batches := (reset_batches St Rt ntx PS unroot fx).
  Notation boot := (boot St Rt root genesis ntx PS trusted unroot fx synced mtb sync_root).
  Notation headers_ok := (headers_ok St Rt PS trusted).

  (* reading the storage of a retained height back through its trie gives that storage (C03) *)
  Hypothesis unroot_root : forall j, unroot (root (st_at j)) = st_at j.

  Variables (d : db) (p : bool) (c hh h : N).
  Hypothesis I : Inv d p c hh.
  Hypothesis Hh : h <= c.

  Definition x1 := apply d (b0 h d).
  Definition x2 := apply x1 (b1 h c x1).
  Definition x3 := apply x2 (b2 h x2).
  Definition x4 := apply x3 (b3 h hh x3).
  Definition x5 := apply x4 (b4 h x4).
  Definition x6 := apply x5 (bgc x5).
  Definition x7 := apply x6 (b5 x6).

  Lemma batches_unfold :
    reset_batches h c hh 1 d = [b0 h d; b1 h c x1; b2 h x2; b3 h hh x3; b4 h x4; bgc x5; b5 x6].
  Proof. reflexivity. Qed.

  Ltac gx := unfold x7, x6, x5, x4, x3, x2, x1;
             repeat (rewrite ?get_b5, ?get_gc, ?get_b4, ?get_b3, ?get_b2, ?get_b1, ?get_b0; unfold cur_prefix).

  Lemma lo_gt n : n mod PS = 0 -> n + PS <= h + 1 -> n < (h + 1) / PS * PS.
  Proof.
    intros Hm Hle.
    assert (En : n = PS * (n / PS)) by (apply N.div_exact; [lia|auto]).
    assert (n / PS + 1 <= (h + 1) / PS).
    { apply N.div_le_lower_bound; [lia|]. nia. }
    nia.
  Qed.

  Lemma hle : c <= hh.
  Proof. destruct I; auto. Qed.

  Lemma headers_ok_of (x : db) hh' :
    (forall n, n mod PS = 0 -> n + PS <= hh' + 1 -> is_some (get x (KPage n)) = true) ->
    (forall j, j <= hh' -> is_some (get x (KExec j)) = true) ->
    headers_ok x hh' = true.
  Proof.
    intros HP HE. unfold Crash.headers_ok. apply andb_true_iff; split.
    - destruct (PS <=? stored_count PS hh') eqn:E; auto.
      apply N.leb_le in E. apply HP.
      + unfold stored_count in *. set (q := (hh' + 1) / PS) in *.
        assert (1 <= q) by (destruct (N.eq_dec q 0) as [Z|Z]; [rewrite Z in E; lia|lia]).
        replace (q * PS - PS) with ((q - 1) * PS) by nia. apply N.mod_mul. lia.
      + assert (stored_count PS hh' <= hh' + 1).
        { unfold stored_count. rewrite N.mul_comm. apply N.mul_div_le. lia. }
        lia.
    - apply all_from_true'. intros j Hj. apply HE.
      destruct (N.le_gt_cases (walk_low PS trusted hh') (hh' + 1)); lia.
  Qed.

  (* ---- the database after the complete reset is a node at height h under the other prefix ---- *)
  Lemma reset_final_inv : Inv x7 (negb p) h h.
  Proof.
    pose proof hle as Hle.
    destruct I as [Iv Icb Ich Ile Iex Itx Irt Ist Iot Isg Ipt Ipg Ifu].
    constructor; intros.
    - gx. rewrite Iv. reflexivity.
    - gx. reflexivity.
    - gx. reflexivity.
    - lia.
    - gx. rewrite Iex.
      destruct (N.leb_spec j h), (N.ltb_spec h j), (N.leb_spec j hh), (N.leb_spec j c); simpl; try lia; try reflexivity;
        try (destruct (fx_keep_headers fx); reflexivity).
    - gx. rewrite Itx.
      destruct (N.leb_spec j h), (N.ltb_spec h j), (N.leb_spec j c), (ntx j =? 0); simpl; try lia; reflexivity.
    - gx. rewrite Irt.
      destruct (N.leb_spec j h), (N.ltb_spec h j), (N.leb_spec j c); simpl; try lia; reflexivity.
    - gx. rewrite Iv, Irt.
      destruct (N.ltb_spec h h); [lia|]. destruct (N.leb_spec h c); [|lia].
      rewrite negb_involutive.
      replace (Bool.eqb (negb p) p) with false by (destruct p; reflexivity).
      rewrite Bool.eqb_reflx, unroot_root. reflexivity.
    - gx. rewrite Iv. rewrite !negb_involutive, Bool.eqb_reflx. reflexivity.
    - gx. reflexivity.
    - gx. reflexivity.
    - gx. pose proof (lo_gt n H H0). destruct (N.leb_spec ((h + 1) / PS * PS) n); [lia|].
      apply Ipg; auto. lia.
    - gx. destruct (N.eqb_spec j h); [lia|]. destruct (N.ltb_spec h j); [reflexivity|lia].
  Qed.

  (* ---- start-up on the database after k batches of the reset ---- *)
  Lemma recover_resume (x : db) v hh' c' s :
    get x KVersion = Some v -> get x KCurHeader = Some (VNum hh') -> get x KCurBlock = Some (VNum c') ->
    headers_ok x hh' = true -> get x KStage = Some (VStage true s) -> get x KSyncPoint = Some (VNum h) ->
    recover St Rt root genesis ntx PS trusted x = RResume (mkNode x [] c' hh') true s h.
  Proof. intros A B C D E F. unfold recover. rewrite A, B, C, D, E, F. reflexivity. Qed.

  Lemma boot_resume (x : db) v hh' c' s :
    get x KVersion = Some v -> get x KCurHeader = Some (VNum hh') -> get x KCurBlock = Some (VNum c') ->
    headers_ok x hh' = true -> get x KStage = Some (VStage true s) -> get x KSyncPoint = Some (VNum h) ->
    get x (KExec h) = Some VBlk -> is_some (get x (KRoot h)) = true ->
    boot x = (if (s =? 32) && negb (fx_sr_init fx) then Broken else Up)
               (mkNode (apply_all x (reset_batches h c' hh' s x)) [] h h).
  Proof.
    intros A B C D E F G H. unfold Stages.boot. rewrite (recover_resume x v hh' c' s A B C D E F).
    unfold is_blk, present. rewrite G. simpl height. simpl hheight.
    destruct (get x (KRoot h)); [|discriminate]. simpl.
    destruct ((s =? 32) && negb (fx_sr_init fx)); reflexivity.
  Qed.

  Ltac inv_fields := destruct I as [Iv Icb Ich Ile Iex Itx Irt Ist Iot Isg Ipt Ipg Ifu].

  Lemma exec_h (x : db) :
    (forall j, j <= h -> get x (KExec j) = get d (KExec j)) -> get x (KExec h) = Some VBlk.
  Proof.
    inv_fields. intros H. rewrite H by lia. rewrite Iex.
    destruct (N.leb_spec h c); [reflexivity|lia].
  Qed.

  Lemma root_h : get d (KRoot h) = Some (VRoot (root (st_at h))).
  Proof. inv_fields. rewrite Irt. destruct (N.leb_spec h c); [reflexivity|lia]. Qed.

  (* pages and headers seen by start-up before the header stage (header height still hh) *)
  Lemma hok_early (x : db) :
    (forall n, get x (KPage n) = get d (KPage n)) ->
    (forall j, j <= hh -> is_some (get x (KExec j)) = true) ->
    headers_ok x hh = true.
  Proof.
    inv_fields. intros HP HE. apply headers_ok_of; auto.
    intros n Hm Hl. rewrite HP, Ipg; auto.
  Qed.

  (* ... and from the header stage on (header height h) *)
  Lemma hok_late (x : db) :
    (forall n, n < (h + 1) / PS * PS -> get x (KPage n) = get d (KPage n)) ->
    (forall j, j <= h -> get x (KExec j) = get d (KExec j)) ->
    headers_ok x h = true.
  Proof.
    pose proof hle. inv_fields. intros HP HE. apply headers_ok_of.
    - intros n Hm Hl. rewrite HP by (apply lo_gt; auto). rewrite Ipg; auto. lia.
    - intros j Hj. rewrite HE, Iex by auto. destruct (N.leb_spec j c); [reflexivity|lia].
  Qed.

  (* collecting the old storage twice is collecting it once *)
  Lemma gc_idem (y : db) :
    db_eq (apply (apply (apply y (bgc y)) (bgc (apply y (bgc y)))) (b5 (apply (apply y (bgc y)) (bgc (apply y (bgc y))))))
          (apply (apply y (bgc y)) (b5 (apply y (bgc y)))).
  Proof.
    intros key. rewrite !get_b5. destruct key; try reflexivity; rewrite get_gc; try reflexivity.
    assert (E : cur_prefix (apply y (bgc y)) = cur_prefix y) by (unfold cur_prefix; rewrite get_gc; reflexivity).
    rewrite E. destruct (Bool.eqb p0 (negb (cur_prefix y))) eqn:E2; [|reflexivity].
    rewrite get_gc, E2. reflexivity.
  Qed.

  Definition all_batches := reset_batches h c hh 1 d.
  Definition after (k : nat) : db := apply_all d (firstn k all_batches).

  Lemma after_7 : after 7 = x7. Proof. reflexivity. Qed.

  (* reset_resumable: for EVERY number k of batches of a Reset(h) that reached the disk, start-up resumes the
     reset and ends at height h in the same database content as the uninterrupted reset.  Guards: the two
     crash windows of the unrepaired code - k = 2, 3 needs the headers of the removed blocks (F20),
     k = 5, 6 needs the state root module to be initialised on resumption (F21). *)
  Theorem reset_resumable (k : nat) :
    (1 <= k <= 7)%nat ->
    ((k = 2 \/ k = 3)%nat -> fx_keep_headers fx = true) ->
    ((k = 5 \/ k = 6)%nat -> fx_sr_init fx = true) ->
    exists n, boot (after k) = Up n /\ height n = h /\ hheight n = h /\
              db_eq (disk n) (apply_all d all_batches).
  Proof.
    intros Hk Hkeep Hinit. pose proof hle as Hle. pose proof root_h as Hr.
    assert (K : (k = 1 \/ k = 2 \/ k = 3 \/ k = 4 \/ k = 5 \/ k = 6 \/ k = 7)%nat) by lia.
    destruct K as [K|[K|[K|[K|[K|[K|K]]]]]]; subst k.
    - (* after the start marker *)
      change (after 1) with x1. exists (mkNode x7 [] h h).
      rewrite (boot_resume x1 (VPrefix p) hh c 2).
      + simpl. repeat split; auto; intros key; reflexivity.
      + inv_fields. gx. auto.
      + inv_fields. gx. auto.
      + inv_fields. gx. auto.
      + apply hok_early; intros; gx; auto. inv_fields. rewrite Iex.
        destruct (j <=? c); auto. destruct (N.leb_spec j hh); auto. lia.
      + gx. reflexivity.
      + gx. reflexivity.
      + apply exec_h. intros; gx. reflexivity.
      + gx. rewrite Hr. reflexivity.
    - (* after the stale blocks are removed *)
      change (after 2) with x2. exists (mkNode x7 [] h h).
      rewrite (boot_resume x2 (VPrefix p) hh c 8).
      + simpl. repeat split; auto; intros key; reflexivity.
      + inv_fields. gx. auto.
      + inv_fields. gx. auto.
      + inv_fields. gx. auto.
      + apply hok_early; intros; gx; auto. inv_fields. rewrite Iex, Hkeep by auto.
        destruct ((h <? j) && (j <=? c)); auto.
        destruct (j <=? c); auto. destruct (N.leb_spec j hh); auto. lia.
      + gx. reflexivity.
      + gx. reflexivity.
      + apply exec_h. intros; gx. destruct (N.ltb_spec h j); [lia|reflexivity].
      + gx. rewrite Hr. reflexivity.
    - (* after the storage of h is copied *)
      change (after 3) with x3. exists (mkNode x7 [] h h).
      rewrite (boot_resume x3 (VPrefix p) hh c 4).
      + simpl. repeat split; auto; intros key; reflexivity.
      + inv_fields. gx. auto.
      + inv_fields. gx. auto.
      + inv_fields. gx. auto.
      + apply hok_early; intros; gx; auto. inv_fields. rewrite Iex, Hkeep by auto.
        destruct ((h <? j) && (j <=? c)); auto.
        destruct (j <=? c); auto. destruct (N.leb_spec j hh); auto. lia.
      + gx. reflexivity.
      + gx. reflexivity.
      + apply exec_h. intros; gx. destruct (N.ltb_spec h j); [lia|reflexivity].
      + gx. rewrite Hr. reflexivity.
    - (* after the header stage: pointers are at h, the other prefix is current *)
      change (after 4) with x4. exists (mkNode x7 [] h h).
      rewrite (boot_resume x4 (VPrefix (negb p)) h h 16).
      + simpl. repeat split; auto; intros key; reflexivity.
      + inv_fields. gx. rewrite Iv. reflexivity.
      + gx. reflexivity.
      + gx. reflexivity.
      + apply hok_late; intros; gx.
        * destruct (N.leb_spec ((h + 1) / PS * PS) n); [lia|reflexivity].
        * destruct (N.ltb_spec h j); [lia|reflexivity].
      + gx. reflexivity.
      + gx. reflexivity.
      + apply exec_h. intros; gx. destruct (N.ltb_spec h j); [lia|reflexivity].
      + gx. rewrite Hr. reflexivity.
    - (* after state roots and transfers are reset *)
      change (after 5) with x5. exists (mkNode x7 [] h h).
      rewrite (boot_resume x5 (VPrefix (negb p)) h h 32).
      + rewrite Hinit by auto. simpl. repeat split; auto; intros key; reflexivity.
      + inv_fields. gx. rewrite Iv. reflexivity.
      + gx. reflexivity.
      + gx. reflexivity.
      + apply hok_late; intros; gx.
        * destruct (N.leb_spec ((h + 1) / PS * PS) n); [lia|reflexivity].
        * destruct (N.ltb_spec h j); [lia|reflexivity].
      + gx. reflexivity.
      + gx. reflexivity.
      + apply exec_h. intros; gx. destruct (N.ltb_spec h j); [lia|reflexivity].
      + gx. rewrite N.ltb_irrefl, Hr. reflexivity.
    - (* after the old storage is collected: the collection is simply repeated *)
      change (after 6) with x6.
      exists (mkNode (apply_all x6 (reset_batches h h h 32 x6)) [] h h).
      rewrite (boot_resume x6 (VPrefix (negb p)) h h 32).
      + rewrite Hinit by auto. simpl. repeat split; auto. exact (gc_idem x5).
      + inv_fields. gx. rewrite Iv. reflexivity.
      + gx. reflexivity.
      + gx. reflexivity.
      + apply hok_late; intros; gx.
        * destruct (N.leb_spec ((h + 1) / PS * PS) n); [lia|reflexivity].
        * destruct (N.ltb_spec h j); [lia|reflexivity].
      + gx. reflexivity.
      + gx. reflexivity.
      + apply exec_h. intros; gx. destruct (N.ltb_spec h j); [lia|reflexivity].
      + gx. rewrite N.ltb_irrefl, Hr. reflexivity.
    - (* the reset is complete *)
      rewrite after_7. exists (mkNode x7 [] h h).
      unfold Stages.boot. rewrite (recover_inv exec root genesis ntx PS (fun _ => []) trusted PS_big x7 (negb p) h h reset_final_inv).
      simpl. replace (get x7 KSyncPoint) with (@None val) by (gx; reflexivity).
      repeat split; auto; intros key; reflexivity.
  Qed.

  (* ================= the order of Reset's two writers (Stages.reset_order) ================= *)
  Definition ordered (j k : nat) : db := apply_all d (firstn k (reset_order all_batches j)).
  Definition marker_on (x : db) : Prop := exists s, get x KStage = Some (VStage true s).

  Lemma order_5 : reset_order all_batches 5 = all_batches.
  Proof. reflexivity. Qed.
  Lemma order_4 :
    reset_order all_batches 4 = [b0 h d; b1 h c x1; b2 h x2; b3 h hh x3; bgc x5; b4 h x4; b5 x6].
  Proof. reflexivity. Qed.

  Lemma sem_b0_stage y (x : db) : sem (b0 y x) KStage = Some (Some (VStage true 2)).
  Proof. reflexivity. Qed.
  Lemma sem_b1_stage y z (x : db) : sem (b1 y z x) KStage = Some (Some (VStage true 8)).
  Proof. unfold reset_b1. rewrite !sem_app. reflexivity. Qed.
  Lemma sem_b2_stage y (x : db) : sem (b2 y x) KStage = Some (Some (VStage true 4)).
  Proof. unfold reset_b2. rewrite sem_app. reflexivity. Qed.
  Lemma sem_b3_stage y z (x : db) : sem (b3 y z x) KStage = Some (Some (VStage true 16)).
  Proof. unfold reset_b3. rewrite !sem_app. reflexivity. Qed.
  Lemma sem_b4_stage y (x : db) : sem (b4 y x) KStage = Some (Some (VStage true 32)).
  Proof. unfold reset_b4. rewrite !sem_app. reflexivity. Qed.

  (* Invariant of the order.  It needs ONE edge only: the direct operation reaches the store after the batch that
     carries the reset marker (j >= 1).  Then at every boundary either the marker is on disk (start-up resumes
     the reset, which rebuilds the contract storage from the trie), or nothing of the reset has happened, or all of it. *)
  Theorem reset_marker_or_intact (j k : nat) :
    (1 <= j <= 5)%nat -> (k <= 7)%nat ->
    marker_on (ordered j k) \/ db_eq (ordered j k) d \/ k = 7%nat.
  Proof.
    intros Hj Hk.
    assert (K : (k = 0 \/ k = 7 \/ (1 <= k <= 6))%nat) by lia.
    destruct K as [->|[->|K]]; [right; left; intros key; reflexivity|right; right; reflexivity|].
    left. unfold marker_on, ordered.
    assert (J : (j = 1 \/ j = 2 \/ j = 3 \/ j = 4 \/ j = 5)%nat) by lia.
    assert (K' : (k = 1 \/ k = 2 \/ k = 3 \/ k = 4 \/ k = 5 \/ k = 6)%nat) by lia.
    destruct J as [J|[J|[J|[J|J]]]]; subst j;
      destruct K' as [K'|[K'|[K'|[K'|[K'|K']]]]]; subst k;
      unfold reset_order, reset_queue, reset_direct, all_batches; rewrite batches_unfold;
      cbn [firstn skipn nth app]; cbn [apply_all fold_left];
      repeat (rewrite get_apply;
              rewrite ?sem_gc_stage, ?sem_b0_stage, ?sem_b1_stage, ?sem_b2_stage, ?sem_b3_stage, ?sem_b4_stage);
      eexists; reflexivity.
  Qed.

  (* the variant without the edge: the direct operation may come first; then the first boundary has neither *)
  Lemma no_edge_breaks :
    ~ marker_on (ordered 0 1) /\ get (ordered 0 1) (KState p) = None /\ get d (KState p) <> None.
  Proof.
    inv_fields. unfold ordered, marker_on.
    unfold reset_order, reset_queue, reset_direct, all_batches. rewrite batches_unfold.
    cbn [firstn skipn nth app]. cbn [apply_all fold_left].
    assert (E : cur_prefix x5 = negb p) by (unfold cur_prefix; gx; rewrite Iv; reflexivity).
    repeat split.
    - intros (s & Hs). rewrite get_apply, sem_gc_stage, Isg in Hs. discriminate.
    - rewrite get_apply. unfold reset_gc. rewrite E, negb_involutive. simpl. rewrite Bool.eqb_reflx. reflexivity.
    - rewrite Ist. discriminate.
  Qed.

  (* ---- resumability for the orders the code lets_in (unbuffered channel: j = 4 or 5) ---- *)
  Definition y5 := apply x4 (bgc x5).
  Definition y6 := apply y5 (b4 h x4).
  Definition y7 := apply y6 (b5 x6).

  Lemma gc_same : bgc x5 = bgc x4.
  Proof. unfold reset_gc, cur_prefix, x5. rewrite get_b4. reflexivity. Qed.

  Lemma y6_eq : db_eq y6 x6.
  Proof.
    unfold y6, y5, x6, x5. intros key.
    apply (apply_comm x4 (bgc (apply x4 (b4 h x4))) (b4 h x4)).
    intros k. destruct k; try (left; reflexivity). right. apply sem_b4_state.
  Qed.

  Lemma y7_eq : db_eq y7 x7.
  Proof. unfold y7, x7. apply db_eq_apply, y6_eq. Qed.

  Lemma Inv_db_eq (y x : db) q a b : db_eq y x -> Inv x q a b -> Inv y q a b.
  Proof.
    intros E [Iv Icb Ich Ile Iex Itx Irt Ist Iot Isg Ipt Ipg Ifu].
    constructor; intros; rewrite ?E; auto.
  Qed.

  (* resuming at transfersReset from any database that reads like x6 *)
  Lemma gc_again (y : db) :
    db_eq y x6 -> db_eq (apply (apply y (bgc y)) (b5 (apply y (bgc y)))) x7.
  Proof.
    intros E key. unfold x7. rewrite !get_b5.
    destruct key; try reflexivity; rewrite get_gc; try apply E.
    assert (C : cur_prefix y = cur_prefix x5).
    { unfold cur_prefix. rewrite (E KVersion). unfold x6. rewrite get_gc. reflexivity. }
    rewrite C, (E (KState p0)). unfold x6. rewrite get_gc.
    destruct (Bool.eqb p0 (negb (cur_prefix x5))); reflexivity.
  Qed.

  Theorem reset_resumable_ordered (j k : nat) :
    reset_admissible 0 j = true -> (1 <= k <= 7)%nat ->
    fx_keep_headers fx = true -> fx_sr_init fx = true ->
    exists n, boot (ordered j k) = Up n /\ height n = h /\ hheight n = h /\
              db_eq (disk n) (apply_all d all_batches).
  Proof.
    intros Hj Hk Hkeep Hinit.
    assert (J : (j = 4 \/ j = 5)%nat).
    { unfold reset_admissible in Hj. apply andb_true_iff in Hj as [A B].
      apply Nat.leb_le in A. apply Nat.leb_le in B. simpl in A. lia. }
    destruct J as [->| ->].
    2: { unfold ordered. rewrite order_5. apply reset_resumable; auto. }
    assert (K : (k <= 4 \/ k = 5 \/ k = 6 \/ k = 7)%nat) by lia.
    destruct K as [K|[K|[K|K]]].
    - (* before the direct operation both orders coincide *)
      replace (ordered 4 k) with (after k); [apply reset_resumable; auto; lia|].
      unfold ordered, after. rewrite order_4. unfold all_batches. rewrite batches_unfold.
      assert (K' : (k = 1 \/ k = 2 \/ k = 3 \/ k = 4)%nat) by lia.
      destruct K' as [->|[->|[->| ->]]]; reflexivity.
    - (* the old storage is collected, the transfersReset batch is not there: resumed from headersReset *)
      subst k. pose proof hle as Hle. pose proof root_h as Hr.
      change (ordered 4 5) with y5. unfold y5. rewrite gc_same.
      set (z := apply x4 (bgc x4)).
      assert (Z : forall key, get z key = match key with
                                           | KState q => if Bool.eqb q (negb (cur_prefix x4)) then None else get x4 key
                                           | _ => get x4 key end) by (intros; apply get_gc).
      exists (mkNode (apply_all z (reset_batches h h h 16 z)) [] h h).
      rewrite (boot_resume z (VPrefix (negb p)) h h 16).
      + simpl. repeat split; auto.
        change (reset_batches h h h 16 z) with
          [b4 h z; bgc (apply z (b4 h z)); b5 (apply (apply z (b4 h z)) (bgc (apply z (b4 h z))))].
        simpl apply_all. apply gc_again.
        intros key. unfold x6, x5. rewrite get_gc, !get_b4.
        assert (C2 : cur_prefix (apply x4 (b4 h x4)) = cur_prefix x4) by (unfold cur_prefix; rewrite get_b4; reflexivity).
        rewrite C2.
        destruct key; rewrite ?Z; reflexivity.
      + inv_fields. rewrite Z. gx. rewrite Iv. reflexivity.
      + rewrite Z. gx. reflexivity.
      + rewrite Z. gx. reflexivity.
      + apply hok_late; intros; rewrite Z; gx.
        * destruct (N.leb_spec ((h + 1) / PS * PS) n); [lia|reflexivity].
        * destruct (N.ltb_spec h j); [lia|reflexivity].
      + rewrite Z. gx. reflexivity.
      + rewrite Z. gx. reflexivity.
      + apply exec_h. intros; rewrite Z; gx. destruct (N.ltb_spec h j); [lia|reflexivity].
      + rewrite Z. gx. rewrite Hr. reflexivity.
    - (* both there, in the other order: reads like x6 *)
      subst k. pose proof hle as Hle. pose proof root_h as Hr. pose proof y6_eq as E.
      change (ordered 4 6) with y6.
      exists (mkNode (apply_all y6 (reset_batches h h h 32 y6)) [] h h).
      rewrite (boot_resume y6 (VPrefix (negb p)) h h 32).
      + rewrite Hinit. simpl. repeat split; auto. apply gc_again, E.
      + inv_fields. rewrite E. gx. rewrite Iv. reflexivity.
      + rewrite E. gx. reflexivity.
      + rewrite E. gx. reflexivity.
      + apply hok_late; intros; rewrite E; gx.
        * destruct (N.leb_spec ((h + 1) / PS * PS) n); [lia|reflexivity].
        * destruct (N.ltb_spec h j); [lia|reflexivity].
      + rewrite E. gx. reflexivity.
      + rewrite E. gx. reflexivity.
      + apply exec_h. intros; rewrite E; gx. destruct (N.ltb_spec h j); [lia|reflexivity].
      + rewrite E. gx. rewrite N.ltb_irrefl, Hr. reflexivity.
    - (* complete *)
      subst k. change (ordered 4 7) with y7.
      pose proof (Inv_db_eq y7 x7 (negb p) h h y7_eq reset_final_inv) as I7.
      pose proof y7_eq as E7.
      set (Y := y7) in *. clearbody Y.
      exists (mkNode Y [] h h).
      unfold Stages.boot. rewrite (recover_inv exec root genesis ntx PS (fun _ => []) trusted PS_big Y (negb p) h h I7).
      pose proof (i_point _ _ _ _ _ _ _ _ _ I7) as P7.
      simpl. rewrite P7.
      repeat split; auto.
  Qed.

  (* reset_indistinguishable (ledger level): the database after Reset(h) satisfies the invariant of a node
     that only ever synchronised to h (under the other storage prefix), hence start-up, every ledger record
     and everything the node does afterwards coincide with such a node; what is left behind are trie nodes
     of the removed blocks (not modelled: unreachable from the retained roots). *)
  Theorem reset_indistinguishable :
    Inv (apply_all d all_batches) (negb p) h h.
  Proof. exact reset_final_inv. Qed.

End ResetThm.

Section JumpThm.
  Context {St Rt : Type}.
  Variable exec : St -> N -> St.
  Variable root : St -> Rt.
  Variable genesis : St.
  Variable ntx : N -> N.
  Variable PS : N.
  Variable trusted : N.
  Variable unroot : Rt -> St.
  Variable fx : fixes.
  Variable synced : db St Rt -> N -> bool.
  Variable mtb : N.
  Variable sync_root : N -> Rt.
  Hypothesis PS_big : 1 < PS.

  Notation val := (val St Rt).
  Notation db := (db St Rt).
  Notation j0 := (jump_b0 St Rt).
  Notation j1 := (jump_b1 St Rt).
  Notation j2 := (jump_b2 St Rt ntx).
  Notation j3 := (jump_b3 St Rt).
  Notation jump_batches := (jump_batches St Rt ntx).
  Notation boot := (boot St Rt root genesis ntx PS trusted unroot fx synced mtb sync_root).
  Notation headers_ok := (headers_ok St Rt PS trusted).

  Lemma get_j0 (x : db) k :
    get (apply x (j0 x)) k = match k with KStage => Some (VStage false 2) | _ => get x k end.
  Proof. rewrite get_apply. destruct k; reflexivity. Qed.

  Lemma get_j1 (x : db) k :
    get (apply x (j1 x)) k =
    match k with
    | KVersion => Some (VPrefix (negb (cur_prefix x)))
    | KStage => Some (VStage false 4)
    | _ => get x k
    end.
  Proof. rewrite get_apply. destruct k; reflexivity. Qed.

  Lemma get_j2 P (x : db) k :
    get (apply x (j2 P mtb x)) k =
    match k with
    | KState q => if Bool.eqb q (negb (cur_prefix x)) then None else get x k
    | KExec j => if (mtb <? P) && (j =? 0) then None else get x k
    | KTxs j => if (mtb <? P) && (j =? 0) && negb (ntx 0 =? 0) then None else get x k
    | KXfer j => if mtb <? P then None else get x k
    | KCurBlock => Some (VNum P)
    | KStage => Some (VStage false 8)
    | _ => get x k
    end.
  Proof using St Rt.
    clear exec root genesis unroot synced sync_root.
    rewrite get_apply. unfold jump_b2. rewrite !sem_app.
    destruct (mtb <? P); [rewrite !sem_app, sem_map_keys, existsb_scan|];
      destruct (ntx 0 =? 0); destruct k; simpl; rewrite ?andb_false_r, ?andb_true_r; try reflexivity.
    all: try (destruct (Bool.eqb p (negb (cur_prefix x))); reflexivity).
    all: try (destruct (i =? 0); reflexivity).
    all: try (unfold present; destruct (get x (KXfer i)); reflexivity).
  Qed.

  Lemma get_j3 P r (x : db) k :
    get (apply x (j3 P r x)) k =
    match k with
    | KRoot j => if j =? P then Some (VRoot r) else get x k
    | KStage => None
    | _ => get x k
    end.
  Proof. rewrite get_apply. destruct k; simpl; try reflexivity. destruct (i =? P); reflexivity. Qed.

  (* the light node right before the jump: headers, the state of P (under the other prefix) and the blocks
     are in the database, the node itself is still at genesis *)
  Variables (d : db) (p : bool) (P hh : N).
  Hypothesis Dv : get d KVersion = Some (VPrefix p).
  Hypothesis Dcb : get d KCurBlock = Some (VNum 0).
  Hypothesis Dch : get d KCurHeader = Some (VNum hh).
  Hypothesis Dsp : get d KSyncPoint = Some (VNum P).
  Hypothesis Dst : get d KStage = None.
  Hypothesis HP : 0 < P < hh.
  Hypothesis Dpages : forall n, n mod PS = 0 -> n + PS <= hh + 1 -> is_some (get d (KPage n)) = true.
  Hypothesis Dhdrs : forall j, walk_low PS trusted hh <= j <= hh -> is_some (get d (KExec j)) = true.
  (* the jump drops the genesis block when P is beyond MaxTraceableBlocks: start-up must not need its header
     (a trusted header is configured, or more than one page of header hashes is stored) *)
  Hypothesis Dlow : mtb < P -> 0 < walk_low PS trusted hh.
  Hypothesis Dsynced : synced d P = true.

  Definition y1 := apply d (j0 d).
  Definition y2 := apply y1 (j1 y1).
  Definition y3 := apply y2 (j2 P mtb y2).
  Definition y4 := apply y3 (j3 P (sync_root P) y3).
  Definition jall := jump_batches P mtb (sync_root P) 1 d.
  Definition afterj (k : nat) : db := apply_all d (firstn k jall).

  Ltac gy := unfold y4, y3, y2, y1;
             repeat (rewrite ?get_j3, ?get_j2, ?get_j1, ?get_j0; unfold cur_prefix).

  Lemma headers_ok_low (x : db) :
    (forall n, get x (KPage n) = get d (KPage n)) ->
    (forall j, 0 < j -> get x (KExec j) = get d (KExec j)) ->
    (mtb < P \/ get x (KExec 0) = get d (KExec 0)) ->
    headers_ok x hh = true.
  Proof.
    intros Hp He H0. unfold Crash.headers_ok. apply andb_true_iff; split.
    - destruct (PS <=? stored_count PS hh) eqn:E; auto.
      apply N.leb_le in E. rewrite Hp. apply Dpages.
      + unfold stored_count in *. set (q := (hh + 1) / PS) in *.
        assert (1 <= q) by (destruct (N.eq_dec q 0) as [Z|Z]; [rewrite Z in E; lia|lia]).
        replace (q * PS - PS) with ((q - 1) * PS) by nia. apply N.mod_mul. lia.
      + assert (stored_count PS hh <= hh + 1).
        { unfold stored_count. rewrite N.mul_comm. apply N.mul_div_le. lia. }
        lia.
    - apply all_from_true'. intros j Hj.
      assert (walk_low PS trusted hh <= j <= hh).
      { destruct (N.le_gt_cases (walk_low PS trusted hh) (hh + 1)); lia. }
      destruct (N.eq_dec j 0) as [->|Hn].
      + destruct H0 as [H0|H0]; [pose proof (Dlow H0); lia|]. rewrite H0. apply Dhdrs; auto.
      + rewrite He by lia. apply Dhdrs; auto.
  Qed.

  Lemma boot_jump (x : db) v c' s :
    get x KVersion = Some v -> get x KCurHeader = Some (VNum hh) -> get x KCurBlock = Some (VNum c') ->
    headers_ok x hh = true -> get x KStage = Some (VStage false s) -> get x KSyncPoint = Some (VNum P) ->
    boot x = Up (mkNode (apply_all x (jump_batches P mtb (sync_root P) s x)) [] P hh).
  Proof.
    intros A B C D E F. unfold Stages.boot, recover. rewrite A, B, C, D, E, F. simpl.
    destruct (N.ltb_spec P hh); [reflexivity|lia].
  Qed.

  (* jump_resumable: for every number k of batches of the state jump that reached the disk (k = 0: everything
     is synchronised, the jump has not started) start-up performs / resumes the jump and ends at height P in
     the same database content as the uninterrupted jump.  Guard: k = 0 is the crash window of the unrepaired
     code (F22): the restarted synchronisation module reports completion without jumping. *)
  Theorem jump_resumable (k : nat) :
    (k <= 4)%nat -> (k = 0%nat -> fx_jump_on_restart fx = true) ->
    exists n, boot (afterj k) = Up n /\ height n = P /\ db_eq (disk n) (apply_all d jall).
  Proof.
    intros Hk Hjor.
    assert (K : (k = 0 \/ k = 1 \/ k = 2 \/ k = 3 \/ k = 4)%nat) by lia.
    destruct K as [K|[K|[K|[K|K]]]]; subst k.
    - change (afterj 0) with d. exists (mkNode y4 [] P hh).
      unfold Stages.boot, recover. rewrite Dv, Dch, Dcb, Dst.
      rewrite (headers_ok_low d) by auto. simpl. rewrite Dsp, Dsynced, Hjor by auto.
      destruct (N.ltb_spec 0 P); [|lia]. simpl. repeat split; auto; intros key; reflexivity.
    - change (afterj 1) with y1. exists (mkNode y4 [] P hh).
      rewrite (boot_jump y1 (VPrefix p) 0 2); try (gy; auto; fail).
      + simpl. repeat split; auto; intros key; reflexivity.
      + apply headers_ok_low; intros; try right; gy; reflexivity.
    - change (afterj 2) with y2. exists (mkNode y4 [] P hh).
      rewrite (boot_jump y2 (VPrefix (negb p)) 0 4); try (gy; auto; fail).
      + simpl. repeat split; auto; intros key; reflexivity.
      + gy. rewrite Dv. reflexivity.
      + apply headers_ok_low; intros; try right; gy; reflexivity.
    - change (afterj 3) with y3. exists (mkNode y4 [] P hh).
      rewrite (boot_jump y3 (VPrefix (negb p)) P 8); try (gy; auto; fail).
      + simpl. repeat split; auto; intros key; reflexivity.
      + gy. rewrite Dv. reflexivity.
      + apply headers_ok_low; intros; gy; try reflexivity.
        * destruct (N.eqb_spec j 0); [lia|]. rewrite andb_false_r. reflexivity.
        * destruct (N.ltb_spec mtb P); [left; auto|right; reflexivity].
    - change (afterj 4) with y4. exists (mkNode y4 [] P hh).
      unfold Stages.boot, recover.
      replace (get y4 KVersion) with (Some (@VPrefix St Rt (negb p))) by (gy; rewrite Dv; reflexivity).
      replace (get y4 KCurHeader) with (Some (@VNum St Rt hh)) by (gy; auto).
      replace (get y4 KCurBlock) with (Some (@VNum St Rt P)) by (gy; auto).
      replace (get y4 KStage) with (@None val) by (gy; auto).
      replace (get y4 KSyncPoint) with (Some (@VNum St Rt P)) by (gy; auto).
      rewrite (headers_ok_low y4).
      + cbv beta iota. simpl height. rewrite N.ltb_irrefl. simpl.
        repeat split; auto; intros key; reflexivity.
      + intros; gy; reflexivity.
      + intros; gy. destruct (N.eqb_spec j 0); [lia|]. rewrite andb_false_r. reflexivity.
      + gy. destruct (N.ltb_spec mtb P); [left; auto|right; reflexivity].
  Qed.

End JumpThm.
