(* C02 - Reset(h) against a node that only ever synchronised to h: exact comparison, key by key.

   [node_db p h hh] is the database of a node at height h with headers up to hh and current storage prefix
   p, written down as a function of the key: the model's uninterrupted archival node has exactly this
   database ([run_full]).  After Reset(h) the database equals [node_db (negb p) h h] on EVERY key except the
   trie nodes first written by the removed blocks, which stay behind.  In the model a trie node written by
   block j can only belong to the tries of roots i >= j; the retained roots are those of heights <= h, so
   the left-over set {KMpt j | h < j <= c} is exactly "DataMPT entries not reachable from any retained root". *)
From NG Require Import Common.Tactics Node.Crash Node.CrashProofs Node.Stages Node.StagesProofs Node.CrashGC Node.CrashGCProofs.
Open Scope N_scope.

Section Exact.
  Context {St Rt : Type}.
  Variable exec : St -> N -> St.
  Variable root : St -> Rt.
  Variable genesis : St.
  Variable ntx : N -> N.
  Variable PS : N.
  Variable unroot : Rt -> St.
  Variable fx : fixes.
  Hypothesis PS_big : 1 < PS.

  Notation val := (val St Rt).
  Notation db := (db St Rt).
  Notation st_at := (st_at St exec genesis).

  Definition node_db (p : bool) (h hh : N) (k : key) : option val :=
    match k with
    | KVersion => Some (VPrefix p)
    | KCurBlock => Some (VNum h)
    | KCurHeader => Some (VNum hh)
    | KStage | KSyncPoint | KSyncHeight => None
    | KExec j => if j <=? h then Some VBlk else if j <=? hh then Some VHdr else None
    | KTxs j => if (j <=? h) && negb (ntx j =? 0) then Some VUnit else None
    | KRoot j => if j <=? h then Some (VRoot (root (st_at j))) else None
    | KMpt j => if j <=? h then Some VUnit else None
    | KXfer j => if j <=? h then Some VUnit else None
    | KState q => if Bool.eqb q p then Some (VSt (st_at h)) else None
    | KPage n => if (n mod PS =? 0) && (n + PS <=? hh + 1) then Some VUnit else None
    end.

  Definition Full (d : db) (p : bool) (h hh : N) : Prop := forall k, get d k = node_db p h hh k.

  (* left over by Reset(h) of a node at height c: trie nodes of the removed blocks *)
  Definition garbage (h c : N) (k : key) : bool :=
    match k with KMpt j => (h <? j) && (j <=? c) | _ => false end.

  Lemma Full_Inv d p h hh : Full d p h hh -> h <= hh -> Inv exec root genesis ntx PS d p h hh.
  Proof.
    intros F Hle. constructor; intros; rewrite ?F; simpl; auto.
    - rewrite Bool.eqb_reflx. reflexivity.
    - destruct p; reflexivity.
    - replace (n mod PS =? 0) with true by (symmetry; apply N.eqb_eq; auto).
      destruct (N.leb_spec (n + PS) (hh + 1)); [reflexivity|lia].
    - destruct (N.leb_spec j h); [lia|reflexivity].
  Qed.

  Hypothesis unroot_root : forall j, unroot (root (st_at j)) = st_at j.

  Variables (d : db) (p : bool) (c hh h : N).
  Hypothesis F : Full d p c hh.
  Hypothesis Hch : c <= hh.
  Hypothesis Hh : h <= c.

  Notation b0 := (reset_b0 St Rt).
  Notation b1 := (reset_b1 St Rt ntx fx).
  Notation b2 := (reset_b2 St Rt unroot).
  Notation b3 := (reset_b3 St Rt PS).
  Notation b4 := (reset_b4 St Rt).
  Notation bgc := (reset_gc St Rt).
  Notation b5 := (reset_b5 St Rt).

  Definition e1 := apply d (b0 h d).
  Definition e2 := apply e1 (b1 h c e1).
  Definition e3 := apply e2 (b2 h e2).
  Definition e4 := apply e3 (b3 h hh e3).
  Definition e5 := apply e4 (b4 h e4).
  Definition e6 := apply e5 (bgc e5).
  Definition e7 := apply e6 (b5 e6).

  Lemma e7_is_reset : e7 = apply_all d (reset_batches St Rt ntx PS unroot fx h c hh 1 d).
  Proof. reflexivity. Qed.

  Ltac ge := unfold e7, e6, e5, e4, e3, e2, e1;
             repeat (rewrite ?get_b5, ?get_gc, ?get_b4, ?get_b3, ?get_b2, ?get_b1, ?get_b0; unfold cur_prefix);
             rewrite ?F; simpl node_db.

  Lemma page_iff n : n mod PS = 0 ->
    ((h + 1) / PS * PS <=? n) = negb (n + PS <=? h + 1).
  Proof.
    intros Hm.
    assert (En : n = PS * (n / PS)) by (apply N.div_exact; [lia|auto]).
    assert (Hq : (h + 1) / PS * PS <= h + 1) by (rewrite N.mul_comm; apply N.mul_div_le; lia).
    remember (n / PS) as m. remember ((h + 1) / PS) as q.
    destruct (N.leb_spec (q * PS) n), (N.leb_spec (n + PS) (h + 1)); simpl; auto.
    - exfalso. assert (m + 1 <= q).
      { subst q. apply N.div_le_lower_bound; [lia|]. nia. }
      nia.
    - exfalso. assert (m < q) by nia.
      assert ((h + 1) < (q + 1) * PS).
      { subst q. pose proof (N.mod_lt (h + 1) PS ltac:(lia)). pose proof (N.div_mod (h + 1) PS ltac:(lia)).
        remember ((h + 1) / PS) as q'. remember ((h + 1) mod PS) as r'. nia. }
      nia.
  Qed.

  (* reset_indistinguishable, exactly: on every key outside the left-over trie nodes the database after
     Reset(h) is the database of a node that only ever synchronised to h (other storage prefix) ... *)
  Theorem reset_exact : forall k, garbage h c k = false -> get e7 k = node_db (negb p) h h k.
  Proof.
    intros k Hg. destruct k; simpl in Hg; simpl node_db.
    - ge. reflexivity.
    - ge. reflexivity.
    - ge. reflexivity.
    - ge. reflexivity.
    - ge. reflexivity.
    - ge. reflexivity.
    - ge. destruct (N.leb_spec i h), (N.ltb_spec h i), (N.leb_spec i hh), (N.leb_spec i c); simpl; try lia; try reflexivity;
        destruct (fx_keep_headers fx); reflexivity.
    - ge. destruct (N.leb_spec i h), (N.ltb_spec h i), (N.leb_spec i c), (ntx i =? 0); simpl; try lia; reflexivity.
    - ge. destruct (N.leb_spec i h), (N.ltb_spec h i), (N.leb_spec i c); simpl; try lia; reflexivity.
    - ge. destruct (N.ltb_spec h i), (N.leb_spec i c), (N.leb_spec i h); simpl in *; try lia; try reflexivity; discriminate.
    - ge. destruct (N.eqb_spec i h); subst.
      + rewrite N.leb_refl. reflexivity.
      + destruct (N.ltb_spec h i), (N.leb_spec i h), (N.leb_spec i c); simpl; try lia; reflexivity.
    - ge. destruct (N.ltb_spec h h); [lia|]. destruct (N.leb_spec h c); [|lia].
      rewrite unroot_root. destruct p0, p; reflexivity.
    - ge. destruct (n mod PS =? 0) eqn:Em; simpl.
      + apply N.eqb_eq in Em. rewrite (page_iff n Em).
        destruct (N.leb_spec (n + PS) (h + 1)); simpl; [|reflexivity].
        destruct (N.leb_spec (n + PS) (hh + 1)); [reflexivity|lia].
      + destruct ((h + 1) / PS * PS <=? n); reflexivity.
  Qed.

  (* ... and the left-over keys are exactly there, untouched *)
  Theorem reset_leftover : forall j, h < j <= c -> get e7 (KMpt j) = Some VUnit.
  Proof.
    intros j Hj. ge. destruct (N.leb_spec j c); [reflexivity|lia].
  Qed.
End Exact.

(* ---- the uninterrupted archival node of the model has exactly the database [node_db] ---- *)
Section FullRun.
  Context {St Rt : Type}.
  Variable exec : St -> N -> St.
  Variable root : St -> Rt.
  Variable genesis : St.
  Variable ntx : N -> N.
  Variable PS : N.
  Variable gcp mtb : N.
  Variable gc_set : N -> list N.
  Hypothesis PS_big : 1 < PS.

  Notation db := (db St Rt).
  Notation node := (node St Rt).
  Notation st_at := (st_at St exec genesis).
  Notation Full := (Full exec root genesis ntx PS).
  Notation run := (run St Rt exec root ntx PS false gcp mtb gc_set).
  Notation step := (step St Rt exec root ntx PS false gcp mtb gc_set).
  Notation fresh := (fresh St Rt root genesis ntx).
  Notation hdr_writes := (hdr_writes St Rt PS).
  Notation hdrs_writes := (hdrs_writes St Rt PS).
  Notation blk_writes := (blk_writes St Rt exec root ntx).

  Lemma Full_hdr (d : db) p h hh : Full d p h hh -> h <= hh -> Full (apply d (hdr_writes (hh + 1))) p h (hh + 1).
  Proof.
    intros F Hle k. rewrite (get_hdr PS). destruct k; rewrite ?F; simpl; try reflexivity.
    - destruct (N.eqb_spec i (hh + 1)); subst.
      + destruct (N.leb_spec (hh + 1) h); [lia|]. rewrite N.leb_refl. reflexivity.
      + destruct (N.leb_spec i h); auto.
        destruct (N.leb_spec i hh), (N.leb_spec i (hh + 1)); auto; lia.
    - destruct (N.eqb_spec ((hh + 1 + 1) mod PS) 0) as [Em|Em]; simpl.
      + destruct (N.leb_spec PS (hh + 1 + 1)); simpl.
        * destruct (N.eqb_spec n (hh + 1 + 1 - PS)); subst.
          -- replace (hh + 1 + 1 - PS + PS) with (hh + 1 + 1) by lia. rewrite N.leb_refl, andb_true_r.
             replace ((hh + 1 + 1 - PS) mod PS =? 0) with true; [reflexivity|].
             symmetry. apply N.eqb_eq.
             replace (hh + 1 + 1) with (hh + 1 + 1 - PS + 1 * PS) in Em by lia. rewrite N.mod_add in Em by lia. auto.
          -- destruct (n mod PS =? 0); simpl; auto.
             destruct (N.leb_spec (n + PS) (hh + 1)), (N.leb_spec (n + PS) (hh + 1 + 1)); auto; lia.
        * destruct (n mod PS =? 0); simpl; auto.
          destruct (N.leb_spec (n + PS) (hh + 1)), (N.leb_spec (n + PS) (hh + 1 + 1)); auto; lia.
      + destruct (N.eqb_spec (n mod PS) 0) as [En|En]; simpl; auto.
        destruct (N.leb_spec (n + PS) (hh + 1)), (N.leb_spec (n + PS) (hh + 1 + 1)); auto; try lia.
        exfalso. assert (Heq : n + PS = hh + 1 + 1) by lia. apply Em. rewrite <- Heq.
        replace (n + PS) with (n + 1 * PS) by lia. rewrite N.mod_add by lia. auto.
  Qed.

  Lemma Full_hdrs (d : db) p h hh c :
    Full d p h hh -> h <= hh -> Full (apply d (hdrs_writes (hh + 1) c)) p h (hh + N.of_nat c).
  Proof.
    revert d hh; induction c as [|c IH]; intros d hh F Hle.
    - simpl. rewrite apply_nil, N.add_0_r. auto.
    - cbn [Crash.hdrs_writes]. rewrite <- apply_app.
      replace (hh + N.of_nat (S c)) with (hh + 1 + N.of_nat c) by lia.
      apply IH; [apply Full_hdr; auto|lia].
  Qed.

  Lemma Full_blk (d : db) p h hh :
    Full d p h hh -> h < hh -> Full (apply d (blk_writes p (st_at h) (h + 1))) p (h + 1) hh.
  Proof.
    intros F Hlt k. rewrite get_blk. destruct k; rewrite ?F; simpl; try reflexivity.
    - destruct (N.eqb_spec i (h + 1)); subst; [rewrite N.leb_refl; reflexivity|].
      destruct (N.leb_spec i h), (N.leb_spec i (h + 1)); try lia; reflexivity.
    - destruct (N.eqb_spec i (h + 1)); subst; simpl.
      + rewrite N.leb_refl. destruct (N.leb_spec (h + 1) h); [lia|]. simpl. destruct (ntx (h + 1) =? 0); reflexivity.
      + destruct (N.leb_spec i h), (N.leb_spec i (h + 1)); try lia; reflexivity.
    - destruct (N.eqb_spec i (h + 1)); subst.
      + rewrite N.leb_refl, (@st_succ St Rt exec genesis). reflexivity.
      + destruct (N.leb_spec i h), (N.leb_spec i (h + 1)); try lia; reflexivity.
    - destruct (N.eqb_spec i (h + 1)); subst; [rewrite N.leb_refl; reflexivity|].
      destruct (N.leb_spec i h), (N.leb_spec i (h + 1)); try lia; reflexivity.
    - destruct (N.eqb_spec i (h + 1)); subst; [rewrite N.leb_refl; reflexivity|].
      destruct (N.leb_spec i h), (N.leb_spec i (h + 1)); try lia; reflexivity.
    - destruct (Bool.eqb p0 p); [rewrite (@st_succ St Rt exec genesis)|]; reflexivity.
  Qed.

  Definition FullN (n : node) : Prop :=
    Full (view n) false (height n) (hheight n) /\ height n <= hheight n.

  Lemma Full_fresh : FullN fresh.
  Proof.
    split; [|simpl; lia]. intros k. unfold view, Crash.fresh, Crash.genesis_writes, apply; simpl disk; simpl cache.
    destruct (ntx 0 =? 0) eqn:En; cbn [rev app]; destruct k; cbn [get key_eqb]; simpl node_db; try reflexivity.
    all: try (destruct (N.eqb_spec i 0); subst; [rewrite ?En; reflexivity|]; destruct (N.leb_spec i 0); try lia; reflexivity).
    all: try (destruct p; reflexivity).
    all: destruct (n mod PS =? 0); simpl; auto; destruct (N.leb_spec (n + PS) 1); [exfalso; lia|reflexivity].
  Qed.

  Lemma Full_add_headers n c : FullN n -> FullN (add_headers St Rt PS n c) /\
                                          height (add_headers St Rt PS n c) = height n /\
                                          hheight (add_headers St Rt PS n c) = hheight n + c.
  Proof.
    intros (F & Hle). unfold Crash.add_headers. split; [|split; reflexivity].
    split; [|cbn [height hheight push]; lia]. unfold view, push. cbn [disk cache height hheight].
    rewrite <- apply_app.
    replace (hheight n + c) with (hheight n + N.of_nat (N.to_nat c)) by lia. apply Full_hdrs; auto.
  Qed.

  Lemma step_full n o n' bs : FullN n -> step n o = (n', bs) -> FullN n'.
  Proof.
    intros (F & Hle) Hs. destruct o; simpl in Hs.
    - inv Hs. apply Full_add_headers. split; auto.
    - inv Hs. unfold Crash.add_block.
      set (n1 := if hheight n <? height n + 1 then add_headers St Rt PS n 1 else n).
      assert (F1 : FullN n1 /\ height n1 = height n /\ height n < hheight n1).
      { subst n1. destruct (N.ltb_spec (hheight n) (height n + 1)).
        - destruct (Full_add_headers n 1 (conj F Hle)) as (A & B & C). split; [exact A|]. split; [exact B|]. rewrite C. lia.
        - split; [split; auto|split; auto; lia]. }
      destruct F1 as ((F1 & L1) & Hh & Hlt).
      assert (Ep : cur_prefix (view n1) = false) by (unfold cur_prefix; rewrite F1; reflexivity).
      rewrite Ep. rewrite (F1 (KState false)). simpl node_db. simpl.
      split; simpl; [|lia]. unfold view; simpl. rewrite <- apply_app. unfold view in F1. rewrite Hh in *.
      apply Full_blk; auto.
    - unfold Crash.flush in Hs. destruct (cache n) eqn:Ec; inv Hs; [split; auto|].
      split; simpl; auto. unfold view in *; simpl. rewrite Ec in F. rewrite apply_nil. exact F.
    - destruct (flush St Rt n) as [n1 b1] eqn:Fl. simpl in Hs. inv Hs.
      unfold Crash.flush in Fl. destruct (cache n) eqn:Ec; inv Fl; [split; auto|].
      split; simpl; auto. unfold view in *; simpl. rewrite Ec in F. rewrite apply_nil. exact F.
  Qed.

  (* an archival node that processed headers and blocks and flushed, in any order, holds exactly [node_db] *)
  Theorem run_full ops : forall n n' bs, FullN n -> run n ops = (n', bs) -> FullN n'.
  Proof.
    induction ops as [|o t IH]; intros n n' bs F Hr; simpl in Hr.
    - inv Hr. auto.
    - destruct (step n o) as [n1 b1] eqn:Es. destruct (run n1 t) as [n2 b2] eqn:Er. inv Hr.
      eapply IH; [|eauto]. eapply step_full; eauto.
  Qed.
End FullRun.
