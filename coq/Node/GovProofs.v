(* C01, governance part: cache coherence is an invariant of every block history (repaired code), hence a restart is
   unobservable; counter-examples for the two unrepaired behaviours (findings F7 and F23). *)
From NG Require Import Common.Tactics Tokens.Model Tokens.MapLemmas Tokens.Inv Tokens.GasProofs Tokens.NeoProofs Tokens.OpProofs Tokens.CfgCheck Node.Gov.
Open Scope Z_scope.

Lemma aset_same {V} (d : V) k v m : aget d k m = v -> v <> d -> aset k v m = m.
Proof.
  induction m as [|[k0 v0] m IH]; simpl; intros H Hv; [congruence|].
  destruct (N.eqb_spec k k0) as [->|Hk]; [congruence|]. rewrite IH; auto.
Qed.

Section GovProofs.
Variable cfg : config.
Hypothesis CW : cfg_wf cfg.
Hypothesis FIX7 : fix_block_dirty cfg = true.
Hypothesis FIX23 : fix_gpv_drop cfg = true.
Hypothesis FIX46 : fix_whitelist cfg = true.

Notation CohTx := (CohTx cfg).
Notation Coh := (Coh cfg).

Definition gpv_coh (a : aux) : Prop := forall k v, aget None k (c_gpv a) = Some v -> aget 0 k (s_gpv a) = v.

(* a step that leaves the aux part alone except that it may raise votes_changed and update gas-per-vote coherently *)
Record AuxStep (st st' : state) : Prop := mkAS {
  as_height : height (A st') = height (A st);
  as_committee : committee (A st') = committee (A st);
  as_ne : ne_committee (A st') = ne_committee (A st);
  as_sgpb : s_gpb (A st') = s_gpb (A st);
  as_cgpb : c_gpb (A st') = c_gpb (A st);
  as_sreg : s_regprice (A st') = s_regprice (A st);
  as_creg : c_regprice (A st') = c_regprice (A st);
  as_sblk : s_blocked (A st') = s_blocked (A st);
  as_cblk : c_blocked (A st') = c_blocked (A st);
  as_pst : p_store (A st') = p_store (A st);
  as_pca : p_cache (A st') = p_cache (A st);
  as_vc : votes_changed (A st) = true -> votes_changed (A st') = true;
  as_gpv : gpv_coh (A st) -> gpv_coh (A st');
  as_x : X st' = X st
}.

Definition same_inputs (st st' : state) : Prop :=
  l_cands (L st') = l_cands (L st) /\ l_voters (L st') = l_voters (L st) /\ l_neo_total (L st') = l_neo_total (L st).

Definition GStep (st st' : state) : Prop :=
  AuxStep st st' /\ (votes_changed (A st') = true \/ same_inputs st st').

Lemma AuxStep_refl st : AuxStep st st.
Proof. constructor; auto. Qed.

Lemma AuxStep_trans a b c : AuxStep a b -> AuxStep b c -> AuxStep a c.
Proof. intros [] []. constructor; try congruence; auto. Qed.

Lemma GStep_refl st : GStep st st.
Proof. split; [apply AuxStep_refl|right; repeat split]. Qed.

Lemma GStep_trans st st1 st2 : GStep st st1 -> GStep st1 st2 -> GStep st st2.
Proof.
  intros [X1 Y1] [X2 Y2]. split; [eapply AuxStep_trans; eassumption|].
  destruct Y2 as [Y2|[i1 [i2 i3]]]; [left; exact Y2|].
  destruct Y1 as [Y1|[j1 [j2 j3]]]; [left; apply (as_vc _ _ X2 Y1)|].
  right. repeat split; congruence.
Qed.

(* the aux part untouched, the inputs of the committee computation untouched *)
Lemma GStep_same st st' : A st' = A st -> X st' = X st -> same_inputs st st' -> GStep st st'.
Proof. intros E Ex H. split; [constructor; rewrite ?E; auto|right; exact H]. Qed.

Lemma CohTx_GStep st st' : GStep st st' -> CohTx st -> CohTx st'.
Proof.
  intros [X Y] [c1 c2 c3 c4 c5 c6 c7 c8]. destruct X. constructor; try congruence.
  - apply as_gpv0. exact c5.
  - intros Hv. destruct Y as [Y|[i1 [i2 i3]]]; [congruence|].
    assert (votes_changed (A st) = false) by (destruct (votes_changed (A st)); [rewrite as_vc0 in Hv; auto|reflexivity]).
    rewrite as_ne0, <- (c6 H). apply compute_committee_ext; auto.
Qed.

(* ---------- GAS pieces ---------- *)
Lemma gas_inc_balance_g st a amt chk st' : gas_inc_balance st a amt chk = Some st' -> GStep st st'.
Proof.
  unfold gas_inc_balance. destruct (amt =? 0).
  - destruct chk as [c|]; [destruct (gas_bal st a <? c)|]; intros H; inv H; apply GStep_refl.
  - destruct ((amt <? 0) && (gas_bal st a <? - amt)); intros H; inv H.
    apply GStep_same; [reflexivity|reflexivity|repeat split].
Qed.

Lemma gas_add_tokens_g st a amt st' : gas_add_tokens st a amt = Some st' -> GStep st st'.
Proof.
  unfold gas_add_tokens. destruct (amt =? 0); [intros H; inv H; apply GStep_refl|].
  destruct (gas_inc_balance st a amt None) as [st1|] eqn:E; [|discriminate]. intros H. inv H.
  eapply GStep_trans; [apply (gas_inc_balance_g _ _ _ _ _ E)|]. apply GStep_same; [reflexivity|reflexivity|repeat split].
Qed.

Lemma emit_g st e : GStep st (emit st e).
Proof. apply GStep_same; [reflexivity|reflexivity|repeat split]. Qed.

Lemma gas_mint_g st a amt call st' : gas_mint cfg st a amt call = Some st' -> GStep st st'.
Proof.
  unfold gas_mint. destruct (amt =? 0); [intros H; inv H; apply GStep_refl|].
  destruct (gas_add_tokens st a amt) as [st1|] eqn:E; [|discriminate].
  destruct (call && negb (plain_callback_ok cfg a)); intros H; inv H.
  eapply GStep_trans; [apply (gas_add_tokens_g _ _ _ _ E)|apply emit_g].
Qed.

Lemma gas_burn_g st a amt st' : gas_burn st a amt = Some st' -> GStep st st'.
Proof.
  unfold gas_burn. destruct (amt =? 0); [intros H; inv H; apply GStep_refl|].
  destruct (gas_add_tokens st a (- amt)) as [st1|] eqn:E; [|discriminate]. intros H. inv H.
  eapply GStep_trans; [apply (gas_add_tokens_g _ _ _ _ E)|apply emit_g].
Qed.

Lemma mint_opt_g st a d call st' : mint_opt cfg st a d call = Some st' -> GStep st st'.
Proof. unfold mint_opt. destruct d; [apply gas_mint_g|intros H; inv H; apply GStep_refl]. Qed.

(* ---------- candidates ---------- *)
Lemma AuxStep_sameAX s s' : A s' = A s -> X s' = X s -> AuxStep s s'.
Proof. intros E Ex. constructor; rewrite ?E; auto. Qed.

Lemma AuxStep_vc st s' : A s' = set_votes_changed (A st) true -> X s' = X st -> AuxStep st s'.
Proof. intros E Ex. constructor; rewrite ?E; simpl; auto. Qed.

Lemma drop_gpv_aux st k : AuxStep st (drop_gpv cfg st k).
Proof.
  unfold drop_gpv. rewrite FIX23. constructor; simpl; auto.
  unfold gpv_coh; simpl. intros H k0 v. rewrite !aget_aset. destruct (N.eqb k0 k); [discriminate|apply H].
Qed.

Lemma set_vc_aux st : AuxStep st (withA st (set_votes_changed (A st) true)).
Proof. constructor; simpl; auto. Qed.

Lemma modify_account_votes_g st v value is_new st1 :
  modify_account_votes cfg st v value is_new = Some st1 ->
  AuxStep st st1 /\ votes_changed (A st1) = true.
Proof.
  unfold modify_account_votes. destruct v as [k|]; [|intros H; inv H; split; [(apply AuxStep_vc; reflexivity)|reflexivity]].
  destruct (negb (cpresent (cand_of (withA st (set_votes_changed (A st) true)) k))); [discriminate|].
  match goal with |- context [if ?c then _ else _] => destruct c end; intros H; inv H.
  - split.
    + eapply AuxStep_trans; [apply set_vc_aux|].
      eapply AuxStep_trans; [|apply (drop_gpv_aux (cand_put (withA st (set_votes_changed (A st) true)) k cand0) k)].
      apply AuxStep_sameAX; reflexivity.
    + unfold drop_gpv. reflexivity.
  - split; [(apply AuxStep_vc; reflexivity)|reflexivity].
Qed.

Lemma neo_inc_balance_g st a acc amount check st' dist :
  neo_inc_balance cfg st a acc amount check = Some (st', dist) -> GStep st st'.
Proof.
  unfold neo_inc_balance.
  match goal with |- context [if ?c then None else _] => destruct c; [discriminate|] end.
  destruct (distribute_gas st acc) as [acc1 d].
  destruct (amount =? 0).
  - intros H. inv H. apply GStep_same; [reflexivity|reflexivity|repeat split].
  - destruct (modify_account_votes cfg st (nvote acc1) amount false) as [st1|] eqn:E; [|discriminate].
    destruct (modify_account_votes_g _ _ _ _ _ E) as [XS Hv].
    intros H. inv H. split; [|left].
    + eapply AuxStep_trans; [exact XS|]. destruct (nvote acc1); apply AuxStep_sameAX; reflexivity.
    + destruct (nvote acc1); exact Hv.
Qed.

Lemma neo_upd_acc_balance_g st a amount req st' dist :
  neo_upd_acc_balance cfg st a amount req = Some (st', dist) -> GStep st st'.
Proof.
  unfold neo_upd_acc_balance. destruct (nbal (neo_acc st a) =? 0); [|apply neo_inc_balance_g].
  destruct (amount <? 0); [discriminate|].
  match goal with |- context [if ?c then None else _] => destruct c; [discriminate|] end.
  destruct (amount =? 0); [intros H; inv H; apply GStep_refl|apply neo_inc_balance_g].
Qed.

Lemma neo_transfer_g st w from to amount st' r :
  neo_transfer cfg st w from to amount = Some (st', r) -> GStep st st'.
Proof.
  unfold neo_transfer, ok. destruct (amount <? 0); [discriminate|].
  destruct (negb w); [intros H; inv H; apply GStep_refl|].
  set (empty := N.eqb from to || (amount =? 0)).
  destruct (neo_upd_acc_balance cfg st from (if empty then 0 else - amount) (Some amount)) as [[st1 d1]|] eqn:E1;
    [|intros H; inv H; apply GStep_refl].
  pose proof (neo_upd_acc_balance_g _ _ _ _ _ _ E1) as G1.
  destruct (if empty then Some (st1, None) else neo_upd_acc_balance cfg st1 to amount None) as [[st2 d2]|] eqn:E2;
    [|intros H; inv H; exact G1].
  assert (G2 : GStep st1 st2).
  { destruct empty; [inv E2; apply GStep_refl|apply (neo_upd_acc_balance_g _ _ _ _ _ _ E2)]. }
  destruct (negb (plain_callback_ok cfg to)); [discriminate|].
  destruct (mint_opt cfg _ from d1 true) as [st4|] eqn:E4; [|discriminate].
  destruct (mint_opt cfg st4 to d2 true) as [st5|] eqn:E5; [|discriminate].
  intros H. inv H.
  eapply GStep_trans; [exact G1|]. eapply GStep_trans; [exact G2|]. eapply GStep_trans; [apply emit_g|].
  eapply GStep_trans; [apply (mint_opt_g _ _ _ _ _ E4)|apply (mint_opt_g _ _ _ _ _ E5)].
Qed.

Lemma register_internal_g st k : GStep st (register_internal st k).
Proof.
  unfold register_internal. set (c := cand_of st k).
  destruct (cpresent c && creg c) eqn:E.
  - apply andb_true_iff in E as [Ep Er]. rewrite Ep.
    assert (Hc : mkCand true true (cvotes c) = c) by (destruct c; simpl in *; congruence).
    rewrite Hc. unfold cand_put.
    rewrite (aset_same cand0 k c (l_cands (L st))); [|reflexivity|intros X; rewrite X in Ep; discriminate].
    apply GStep_same; [reflexivity|reflexivity|repeat split].
  - split; [(apply AuxStep_vc; reflexivity)|left; reflexivity].
Qed.

Lemma unregister_candidate_g st w k st' r : unregister_candidate cfg st w k = Some (st', r) -> GStep st st'.
Proof.
  unfold unregister_candidate, ok. destruct (negb w); [intros H; inv H; apply GStep_refl|].
  destruct (negb (cpresent (cand_of st k))); [intros H; inv H; apply GStep_refl|].
  destruct (cvotes (cand_of st k) =? 0); intros H; inv H.
  - split; [|left; unfold drop_gpv; reflexivity].
    eapply AuxStep_trans; [apply set_vc_aux|].
    eapply AuxStep_trans; [|apply (drop_gpv_aux (cand_put (withA st (set_votes_changed (A st) true)) k cand0) k)].
    apply AuxStep_sameAX; reflexivity.
  - split; [(apply AuxStep_vc; reflexivity)|left; reflexivity].
Qed.

(* vote: the error returns after a partial write are dead on a well-formed ledger *)
Lemma vote_internal_g st a k st' b :
  WF (L st) -> vote_internal cfg st a k = Some (st', b) -> GStep st st'.
Proof.
  intros Hwf. unfold vote_internal.
  set (acc := neo_acc st a).
  destruct (nbal acc =? 0); [intros H; inv H; apply GStep_refl|].
  match goal with |- context [if ?c then Some (st, false) else _] => destruct c eqn:Ek; [intros H; inv H; apply GStep_refl|] end.
  set (st1 := match nvote acc, k with
              | None, Some _ => modify_voter_turnout st (nbal acc)
              | Some _, None => modify_voter_turnout st (- nbal acc)
              | _, _ => st
              end).
  assert (HA1 : (A st1 = A st /\ X st1 = X st) /\ l_cands (L st1) = l_cands (L st))
    by (unfold st1; destruct (nvote acc), k; repeat split; reflexivity).
  destruct HA1 as [[HA1 HX1] Hc1].
  destruct (distribute_gas st1 acc) as [acc1 new_gas] eqn:Ed.
  destruct (distribute_gas_spec _ _ _ _ Ed) as [Hb1 Hv1].
  destruct (modify_account_votes cfg st1 (nvote acc1) (- nbal acc1) false) as [st2|] eqn:Em1.
  2:{ exfalso. destruct (modify_account_votes_none _ _ _ _ _ Em1) as [k1 [Ev1 Hp]].
      unfold cand_of in Hp. rewrite Hc1 in Hp. rewrite Hv1 in Ev1.
      rewrite (wf_present _ a k1 Hwf Ev1) in Hp. discriminate. }
  destruct (modify_account_votes_g _ _ _ _ _ Em1) as [X1 V1].
  destruct (modify_account_votes_frame _ _ _ _ _ _ Em1) as [_ [_ [_ [_ [_ [_ [_ [_ [_ F10]]]]]]]]].
  destruct (modify_account_votes cfg st2 k (nbal acc1) true) as [st3|] eqn:Em2.
  2:{ exfalso. destruct (modify_account_votes_none _ _ _ _ _ Em2) as [k2 [-> Hp]].
      apply orb_false_iff in Ek as [Ekp Ekr]. apply negb_false_iff in Ekp, Ekr.
      unfold cand_of in Hp, Ekp, Ekr. rewrite <- Hc1 in Ekp, Ekr.
      destruct (F10 k2 Ekp Ekr) as [Hp' _]. rewrite Hp' in Hp. discriminate. }
  destruct (modify_account_votes_g _ _ _ _ _ Em2) as [X2 V2].
  match goal with |- context [mint_opt cfg ?s a new_gas true] => destruct (mint_opt cfg s a new_gas true) as [st5|] eqn:Em; [|discriminate] end.
  intros H. inv H.
  eapply GStep_trans; [|apply (mint_opt_g _ _ _ _ _ Em)].
  split; [|left; exact V2].
  eapply AuxStep_trans; [apply (AuxStep_sameAX st st1 HA1 HX1)|].
  eapply AuxStep_trans; [exact X1|]. eapply AuxStep_trans; [exact X2|]. apply AuxStep_sameAX; reflexivity.
Qed.

Lemma vote_g st w a k st' r : WF (L st) -> vote cfg st w a k = Some (st', r) -> GStep st st'.
Proof.
  intros Hwf. unfold vote, ok. destruct (negb w); [intros H; inv H; apply GStep_refl|].
  destruct (vote_internal cfg st a k) as [[st1 b]|] eqn:E; [|discriminate].
  intros H. inv H. apply (vote_internal_g _ _ _ _ _ Hwf E).
Qed.

(* ---------- GAS.transfer, Notary ---------- *)
Lemma dep_put_g st a d : GStep st (dep_put st a d).
Proof. apply GStep_same; [reflexivity|reflexivity|repeat split]. Qed.

Lemma notary_on_payment_g st sender from amount d st' : notary_on_payment st sender from amount d = Some st' -> GStep st st'.
Proof.
  unfold notary_on_payment. destruct d as [|to0 till|]; try discriminate.
  repeat match goal with |- context [if ?c then None else _] => destruct c; [discriminate|] end.
  intros H. inv H. apply dep_put_g.
Qed.

Lemma gas_transfer_core_g st sender wit from to amount d st' r :
  gas_transfer_core cfg st sender wit from to amount d = Some (st', r) -> GStep st st'.
Proof.
  unfold gas_transfer_core, ok.
  set (empty := N.eqb from to || (amount =? 0)).
  destruct (gas_inc_balance st from (if empty then 0 else - amount) (Some amount)) as [st1|] eqn:E1;
    [|intros H; inv H; apply GStep_refl].
  pose proof (gas_inc_balance_g _ _ _ _ _ E1) as G1.
  destruct (if empty then Some st1 else gas_inc_balance st1 to amount None) as [st2|] eqn:E2; [|intros H; inv H; exact G1].
  assert (G2 : GStep st1 st2) by (destruct empty; [inv E2; apply GStep_refl|apply (gas_inc_balance_g _ _ _ _ _ E2)]).
  assert (G3 : GStep st (emit st2 (mkEv GAS (Some from) (Some to) amount))).
  { eapply GStep_trans; [exact G1|]. eapply GStep_trans; [exact G2|apply emit_g]. }
  destruct (kind_of cfg to); try discriminate.
  - intros H. inv H. exact G3.
  - intros H. inv H. exact G3.
  - destruct (notary_on_payment _ sender from amount d) as [st4|] eqn:E4; [|discriminate].
    intros H. inv H. eapply GStep_trans; [exact G3|apply (notary_on_payment_g _ _ _ _ _ _ E4)].
  - destruct d as [| |k]; try discriminate.
    repeat match goal with |- context [if ?c then None else _] => destruct c; [discriminate|] end.
    destruct (gas_burn _ (a_neo cfg) amount) as [st4|] eqn:E4; [|discriminate].
    intros H. inv H. eapply GStep_trans; [exact G3|]. eapply GStep_trans; [apply register_internal_g|apply (gas_burn_g _ _ _ _ E4)].
Qed.

Lemma gas_transfer_g st w sender wit from to amount d st' r :
  gas_transfer cfg st w sender wit from to amount d = Some (st', r) -> GStep st st'.
Proof.
  unfold gas_transfer, ok. destruct (amount <? 0); [discriminate|].
  destruct (negb w); [intros H; inv H; apply GStep_refl|apply gas_transfer_core_g].
Qed.

Lemma notary_withdraw_g st w sender wit from to0 st' r :
  notary_withdraw cfg st w sender wit from to0 = Some (st', r) -> GStep st st'.
Proof.
  unfold notary_withdraw, ok.
  repeat match goal with |- context [if ?c then Some (st, Some false) else _] => destruct c; [intros H; inv H; apply GStep_refl|] end.
  match goal with |- context [gas_transfer_core cfg ?s ?x ?y ?f ?t ?a ?d] =>
    destruct (gas_transfer_core cfg s x y f t a d) as [[st2 [[|]|]]|] eqn:E; try discriminate end.
  intros H. inv H. eapply GStep_trans; [apply dep_put_g|apply (gas_transfer_core_g _ _ _ _ _ _ _ _ _ E)].
Qed.

Lemma notary_lock_g st w a till st' r : notary_lock st w a till = Some (st', r) -> GStep st st'.
Proof.
  unfold notary_lock, ok.
  repeat match goal with |- context [if ?c then Some (st, Some false) else _] => destruct c; [intros H; inv H; apply GStep_refl|] end.
  intros H. inv H. apply dep_put_g.
Qed.

(* ---------- what a transaction keeps: the block-level fields, and coherence ---------- *)
Definition TxStep (st st' : state) : Prop :=
  height (A st') = height (A st) /\ committee (A st') = committee (A st) /\ ne_committee (A st') = ne_committee (A st)
  /\ (CohTx st -> CohTx st').

Lemma TxStep_of_G st st' : GStep st st' -> TxStep st st'.
Proof.
  intros G. pose proof G as [X _]. destruct X. split; [|split; [|split]]; auto. apply CohTx_GStep; exact G.
Qed.

Lemma TxStep_refl st : TxStep st st.
Proof. split; [|split; [|split]]; auto. Qed.

Lemma TxStep_trans st st1 st2 : TxStep st st1 -> TxStep st1 st2 -> TxStep st st2.
Proof. intros [a1 [a2 [a3 a4]]] [b1 [b2 [b3 b4]]]. split; [|split; [|split]]; try congruence. auto. Qed.

Lemma mark_dirty_vc st : votes_changed (A (mark_dirty cfg st)) = true.
Proof. unfold mark_dirty. rewrite FIX7. reflexivity. Qed.

Lemma block_account_t st a st' r : WF (L st) -> block_account cfg st a = Some (st', r) -> TxStep st st'.
Proof.
  intros Hwf. unfold block_account, ok.
  assert (Hgo : (if is_blocked st a then Some (st, Some false) else
                 match (if hf_faun cfg then vote_internal cfg st a None else Some (st, false)) with
                 | None => None
                 | Some (st1, _) =>
                     Some (mark_dirty cfg (withA st1 (set_blocked (A st1) (insert_N a (s_blocked (A st1))) (insert_N a (c_blocked (A st1))))), Some true)
                 end) = Some (st', r) -> TxStep st st').
  { destruct (is_blocked st a); [intros H; inv H; apply TxStep_refl|].
    destruct (if hf_faun cfg then vote_internal cfg st a None else Some (st, false)) as [[st1 b]|] eqn:E; [|discriminate].
    assert (G1 : GStep st st1).
    { destruct (hf_faun cfg); [apply (vote_internal_g _ _ _ _ _ Hwf E)|inv E; apply GStep_refl]. }
    intros H. inv H. eapply TxStep_trans; [apply (TxStep_of_G _ _ G1)|].
    unfold mark_dirty. rewrite FIX7. split; [|split; [|split]]; simpl; auto.
    intros [c1 c2 c3 c4 c5 c6 c7 c8]. constructor; simpl; auto; [congruence|discriminate]. }
  destruct (kind_of cfg a); try discriminate; exact Hgo.
Qed.

Lemma unblock_account_t st a st' r : unblock_account cfg st a = Some (st', r) -> TxStep st st'.
Proof.
  unfold unblock_account, ok. destruct (negb (is_blocked st a)); intros H; inv H; [apply TxStep_refl|].
  unfold mark_dirty. rewrite FIX7. split; [|split; [|split]]; simpl; auto.
  intros [c1 c2 c3 c4 c5 c6 c7 c8]. constructor; simpl; auto; [congruence|discriminate].
Qed.

Lemma policy_set_t st key v st' r : policy_set cfg st key v = Some (st', r) -> TxStep st st'.
Proof.
  unfold policy_set. destruct (negb (policy_in_range cfg key v)); intros H; inv H.
  split; [|split; [|split]]; simpl; auto. intros [c1 c2 c3 c4 c5 c6 c7 c8]. constructor; simpl; auto; try congruence.
  all: try (intros Hv; rewrite <- (c6 Hv); apply compute_committee_ext; reflexivity).
Qed.

Lemma whitelist_set_t st a fee st' r : whitelist_set cfg st a fee = Some (st', r) -> TxStep st st'.
Proof.
  unfold whitelist_set. rewrite FIX46, andb_false_r. destruct (fee <? 0); [discriminate|].
  destruct (negb (mc_present (contract_of st a))); intros H; inv H.
  split; [|split; [|split]]; simpl; auto. intros [c1 c2 c3 c4 c5 c6 c7 c8]. constructor; simpl; auto; try congruence.
  all: try (intros Hv; rewrite <- (c6 Hv); apply compute_committee_ext; reflexivity).
Qed.

Lemma whitelist_remove_t st a st' r : whitelist_remove st a = Some (st', r) -> TxStep st st'.
Proof.
  unfold whitelist_remove. destruct (negb (mc_present (contract_of st a))); [discriminate|].
  destruct (_ =? 0); intros H; inv H.
  split; [|split; [|split]]; simpl; auto. intros [c1 c2 c3 c4 c5 c6 c7 c8]. constructor; simpl; auto; try congruence.
  all: try (intros Hv; rewrite <- (c6 Hv); apply compute_committee_ext; reflexivity).
Qed.

Lemma designate_as_role_t st role ks st' r : designate_as_role st role ks = Some (st', r) -> TxStep st st'.
Proof.
  unfold designate_as_role.
  repeat match goal with |- context [if ?c then None else _] => destruct c; [discriminate|] end.
  intros H; inv H. split; [|split; [|split]]; simpl; auto.
  intros [c1 c2 c3 c4 c5 c6 c7 c8]. constructor; simpl; auto.
  all: try (intros Hv; rewrite <- (c6 Hv); apply compute_committee_ext; reflexivity).
  all: try (intros r0; rewrite !aget_aset; destruct (N.eqb r0 role); [reflexivity|apply c7]).
Qed.

Lemma mg_put_coh st h c ids next : CohTx st -> CohTx (mg_put st h c ids next).
Proof.
  intros [c1 c2 c3 c4 c5 c6 c7 c8]. constructor; simpl; auto.
  all: try (intros Hv; rewrite <- (c6 Hv); apply compute_committee_ext; reflexivity).
  all: try (intros h0; rewrite !aget_aset; destruct (N.eqb h0 h); [symmetry; apply load_store|apply c8]).
Qed.

Lemma mg_deploy_t st a m st' r : mg_deploy st a m = Some (st', r) -> TxStep st st'.
Proof.
  unfold mg_deploy.
  repeat match goal with |- context [if ?c then None else _] => destruct c; [discriminate|] end.
  intros H; inv H. split; [|split; [|split]]; simpl; auto. apply mg_put_coh.
Qed.

Lemma whitelist_clean_coh st a : CohTx st -> CohTx (whitelist_clean st a).
Proof.
  intros [c1 c2 c3 c4 c5 c6 c7 c8]. constructor; simpl; auto; try congruence.
  all: try (intros Hv; rewrite <- (c6 Hv); apply compute_committee_ext; reflexivity).
Qed.

Lemma mg_update_t st a m st' r : mg_update st a m = Some (st', r) -> TxStep st st'.
Proof.
  unfold mg_update.
  repeat match goal with |- context [if ?c then None else _] => destruct c; [discriminate|] end.
  intros H; inv H. split; [|split; [|split]]; simpl; auto. intros C. apply mg_put_coh, whitelist_clean_coh, C.
Qed.

Lemma dedup_put idx v c : gpb_store_put idx v (dedup c) = dedup ((idx, v) :: c).
Proof. simpl. unfold gpb_store_put. destruct (dedup c) as [|[j w] t]; reflexivity. Qed.

Lemma set_gas_per_block_t st v st' r : set_gas_per_block st v = Some (st', r) -> TxStep st st'.
Proof.
  unfold set_gas_per_block. destruct ((v <? 0) || (v >? 10 * 100000000)); intros H; inv H.
  split; [|split; [|split]]; simpl; auto. intros [c1 c2 c3 c4 c5 c6 c7 c8]. constructor; simpl; auto.
  all: try (rewrite c4; apply dedup_put).
  all: try (intros Hv; rewrite <- (c6 Hv); apply compute_committee_ext; reflexivity).
Qed.

Lemma set_register_price_t st v st' r : set_register_price st v = Some (st', r) -> TxStep st st'.
Proof.
  unfold set_register_price. destruct (v <=? 0); intros H; inv H.
  split; [|split; [|split]]; simpl; auto. intros [c1 c2 c3 c4 c5 c6 c7 c8]. constructor; simpl; auto.
  all: try (intros Hv; rewrite <- (c6 Hv); apply compute_committee_ext; reflexivity).
Qed.

Lemma register_candidate_g st k budget st' r : register_candidate st k budget = Some (st', r) -> GStep st st'.
Proof.
  unfold register_candidate, ok. destruct (c_regprice (A st) >? budget); [discriminate|].
  intros H. inv H. apply register_internal_g.
Qed.

Lemma mg_destroy_t st a st' r : WF (L st) -> mg_destroy cfg st a = Some (st', r) -> TxStep st st'.
Proof.
  intros Hwf. unfold mg_destroy.
  destruct (negb (mc_present (contract_of st a))); [discriminate|].
  match goal with |- context [if ?c then None else _] => destruct c; [discriminate|] end.
  destruct (block_account cfg st (caddr a)) as [[st1 r1]|] eqn:E; [|discriminate].
  pose proof (block_account_t _ _ _ _ Hwf E) as [h1 [m1 [n1 T1]]].
  intros H; inv H. split; [|split; [|split]]; simpl; auto. intros C. apply mg_put_coh, whitelist_clean_coh, T1, C.
Qed.

Lemma run_op_t st t st' r : WF (L st) -> run_op cfg st t = Some (st', r) -> TxStep st st'.
Proof.
  intros Hwf. unfold run_op. destruct (t_op t).
  - intros H. apply run_lim_some in H. unfold run_lop in H. destruct o.
    + apply TxStep_of_G, (neo_transfer_g _ _ _ _ _ _ _ H).
    + apply TxStep_of_G, (gas_transfer_g _ _ _ _ _ _ _ _ _ _ H).
    + apply TxStep_of_G, (vote_g _ _ _ _ _ _ Hwf H).
  - intros H. apply TxStep_of_G, (neo_transfer_g _ _ _ _ _ _ _ H).
  - intros H. apply TxStep_of_G, (gas_transfer_g _ _ _ _ _ _ _ _ _ _ H).
  - intros H. apply TxStep_of_G, (vote_g _ _ _ _ _ _ Hwf H).
  - intros H. apply TxStep_of_G, (register_candidate_g _ _ _ _ _ H).
  - intros H. apply TxStep_of_G, (unregister_candidate_g _ _ _ _ _ H).
  - intros H. apply TxStep_of_G, (notary_withdraw_g _ _ _ _ _ _ _ _ H).
  - intros H. apply TxStep_of_G, (notary_lock_g _ _ _ _ _ _ H).
  - destruct (committee_witness st t); [apply set_gas_per_block_t|discriminate].
  - destruct (committee_witness st t); [apply set_register_price_t|discriminate].
  - destruct (committee_witness st t); [apply block_account_t; exact Hwf|discriminate].
  - destruct (committee_witness st t); [apply unblock_account_t|discriminate].
  - destruct (committee_witness st t); [apply policy_set_t|discriminate].
  - destruct (committee_witness st t && hf_faun cfg); [|discriminate].
    destruct fee; [apply whitelist_set_t|apply whitelist_remove_t].
  - destruct (committee_witness st t); [apply designate_as_role_t|discriminate].
  - apply mg_deploy_t.
  - apply mg_update_t.
  - apply mg_destroy_t; exact Hwf.
  - destruct (i_halt t); intros H; inv H. split; [|split; [|split]]; simpl; auto.
    intros [c1 c2 c3 c4 c5 c6 c7 c8]. constructor; simpl; auto.
    all: try (intros Hv; rewrite <- (c6 Hv); apply compute_committee_ext; reflexivity).
  - discriminate.
  - destruct (i_halt t); intros H; inv H. apply TxStep_refl.
Qed.

Lemma fold_exec_t txs : forall st, WF (L st) -> Forall (tx_ok cfg) txs -> TxStep st (fold_left (exec_tx cfg) txs st).
Proof.
  induction txs as [|t r IH]; intros st Hwf Hok; simpl; [apply TxStep_refl|]. inv Hok.
  assert (T1 : TxStep st (exec_tx cfg st t)).
  { unfold exec_tx. destruct (run_op cfg st t) as [[st' r']|] eqn:E; [apply (run_op_t _ _ _ _ Hwf E)|apply TxStep_refl]. }
  eapply TxStep_trans; [exact T1|]. apply IH; auto.
  apply (e_wf _ _ _ _ _ _ _ (exec_tx_bal cfg CW st t Hwf H1) Hwf).
Qed.

(* ---------- block level ---------- *)
Lemma burn_fees_g txs : forall st st', burn_fees st txs = Some st' -> GStep st st'.
Proof.
  induction txs as [|t r IH]; intros st st'; simpl; [intros H; inv H; apply GStep_refl|].
  destruct (gas_burn st (t_signer t) (t_sysfee t + t_netfee t)) as [st1|] eqn:E; [|discriminate].
  intros H. eapply GStep_trans; [apply (gas_burn_g _ _ _ _ E)|apply (IH _ _ H)].
Qed.

Lemma gas_on_persist_g st txs st' : gas_on_persist cfg st txs = Some st' -> GStep st st'.
Proof.
  unfold gas_on_persist. destruct txs as [|t r]; [intros H; inv H; apply GStep_refl|].
  destruct (burn_fees st (t :: r)) as [st1|] eqn:E; [|discriminate].
  intros H. eapply GStep_trans; [apply (burn_fees_g _ _ _ E)|apply (gas_mint_g _ _ _ _ _ H)].
Qed.

Lemma charge_deposits_g txs : forall st st', charge_deposits cfg st txs = Some st' -> GStep st st'.
Proof.
  induction txs as [|t r IH]; intros st st'; simpl; [intros H; inv H; apply GStep_refl|].
  destruct (t_na t) as [[nk p]|]; [|apply IH].
  destruct (N.eqb (t_signer t) (a_notary cfg)); [|apply IH].
  destruct (negb (dpresent (dep_of st p))); [discriminate|].
  match goal with |- context [if ?c then None else _] => destruct c; [discriminate|] end.
  intros H. eapply GStep_trans; [apply dep_put_g|apply (IH _ _ H)].
Qed.

Lemma mint_each_g accts : forall st st' amount, mint_each cfg st accts amount = Some st' -> GStep st st'.
Proof.
  induction accts as [|a r IH]; intros st st' amount; simpl; [intros H; inv H; apply GStep_refl|].
  destruct (gas_mint cfg st a amount false) as [st1|] eqn:E; [|discriminate].
  intros H. eapply GStep_trans; [apply (gas_mint_g _ _ _ _ _ E)|apply (IH _ _ _ H)].
Qed.

Lemma notary_on_persist_g st txs st' : notary_on_persist cfg st txs = Some st' -> GStep st st'.
Proof.
  unfold notary_on_persist. destruct (charge_deposits cfg st txs) as [st1|] eqn:E; [|discriminate].
  pose proof (charge_deposits_g _ _ _ E) as G1.
  destruct (na_fees txs =? 0); [intros H; inv H; exact G1|].
  destruct (notary_nodes st1); [intros H; inv H; exact G1|].
  intros H. eapply GStep_trans; [exact G1|apply (mint_each_g _ _ _ _ H)].
Qed.

Lemma natives_on_persist_g st txs st' : natives_on_persist cfg st txs = Some st' -> GStep st st'.
Proof.
  unfold natives_on_persist. destruct (gas_on_persist cfg st txs) as [st1|] eqn:E; [|discriminate].
  intros H. eapply GStep_trans; [apply (gas_on_persist_g _ _ _ E)|apply (notary_on_persist_g _ _ _ H)].
Qed.

Lemma reward_voters_t cm : forall st i vr, GStep st (reward_voters cfg st cm i vr) /\ same_inputs st (reward_voters cfg st cm i vr)
                                            /\ votes_changed (A (reward_voters cfg st cm i vr)) = votes_changed (A st).
Proof.
  induction cm as [|[k v] t IH]; intros st i vr; simpl; [split; [apply GStep_refl|split; [repeat split|reflexivity]]|].
  match goal with |- context [reward_voters cfg ?s t (i + 1) vr] => set (st1 := s) end.
  assert (G1 : GStep st st1 /\ same_inputs st st1 /\ votes_changed (A st1) = votes_changed (A st)).
  { unfold st1. match goal with |- context [if ?c then _ else st] => destruct c end.
    - split; [|split; [repeat split|reflexivity]]. split; [|right; repeat split].
      constructor; simpl; auto.
      unfold gpv_coh; simpl. intros H k0 v0. rewrite !aget_aset. destruct (N.eqb k0 k); [intros E; inv E; reflexivity|apply H].
    - split; [apply GStep_refl|split; [repeat split|reflexivity]]. }
  destruct G1 as [G1 [[i1 [i2 i3]] V1]]. destruct (IH st1 (i + 1) vr) as [G2 [[j1 [j2 j3]] V2]].
  split; [eapply GStep_trans; eassumption|]. split; [repeat split; congruence|congruence].
Qed.

Hypothesis CSZ : 0 < csize cfg.

(* one block keeps the node coherent *)
Lemma run_block_coh st txs st' :
  Inv cfg (L st) -> Coh st -> Forall (tx_ok cfg) txs -> run_block cfg st txs = Some st' -> Coh st'.
Proof.
  intros I [C Cm Ce] Hok. unfold run_block.
  set (h := height (A st) + 1).
  set (st0 := withA st (set_height (A st) h)).
  assert (C0 : CohTx st0).
  { destruct C as [c1 c2 c3 c4 c5 c6 c7 c8]. constructor; simpl; auto.
    all: try (intros Hv; rewrite <- (c6 Hv); apply compute_committee_ext; reflexivity). }
  (* NEO.OnPersist *)
  set (stp := neo_on_persist cfg st0).
  assert (Cp : CohTx stp /\ height (A stp) = h /\ L stp = L st
               /\ ((h + 1) mod csize cfg <> 0 -> ne_committee (A stp) = committee (A stp))).
  { unfold stp, neo_on_persist. simpl. fold h.
    destruct (h mod csize cfg =? 0) eqn:Er.
    - split; [|split; [|split]]; simpl; auto.
      destruct C0 as [c1 c2 c3 c4 c5 c6 c7 c8]. simpl in *. constructor; simpl; auto.
      intros _. assert (Hr : (height (A st) + 1) mod csize cfg = 0) by (fold h; lia).
      rewrite (Ce Hr). apply compute_committee_ext; reflexivity.
    - split; [|split; [|split]]; auto. intros _. simpl. apply Cm. fold h. lia. }
  destruct Cp as [Cp [Hh [HLp Hmid]]].
  pose proof (inv_wf _ _ I) as Hwf.
  assert (Hwfp : WF (L stp)) by (rewrite HLp; exact Hwf).
  destruct (natives_on_persist cfg stp txs) as [st1|] eqn:E1; [|discriminate].
  pose proof (natives_on_persist_g _ _ _ E1) as G1.
  pose proof (TxStep_of_G _ _ G1) as [h1 [m1 [n1 T1]]].
  pose proof (e_wf _ _ _ _ _ _ _ (natives_on_persist_bal cfg CW _ _ _ Hwfp Hok E1) Hwfp) as Hwf1.
  pose proof (fold_exec_t txs st1 Hwf1 Hok) as [h2 [m2 [n2 T2]]].
  set (st2 := fold_left (exec_tx cfg) txs st1) in *.
  assert (C2 : CohTx st2) by auto.
  unfold neo_post_persist.
  match goal with |- context [gas_mint cfg st2 ?a ?g false] => destruct (gas_mint cfg st2 a g false) as [st3|] eqn:E3; [|discriminate] end.
  pose proof (gas_mint_g _ _ _ _ _ E3) as G3.
  pose proof (TxStep_of_G _ _ G3) as [h3 [m3 [n3 T3]]].
  assert (Hh2 : height (A st2) = h) by congruence.
  rewrite Hh2.
  set (st4 := if h mod csize cfg =? 0
              then reward_voters cfg st3 (committee (A st3)) 0 (80 * gpb_at (c_gpb (A st2)) (h + 1) * (100000000 * csize cfg) / (csize cfg + nval cfg) / 100)
              else st3).
  assert (G4 : GStep st3 st4 /\ same_inputs st3 st4 /\ votes_changed (A st4) = votes_changed (A st3)).
  { unfold st4. destruct (h mod csize cfg =? 0); [apply reward_voters_t|].
    split; [apply GStep_refl|split; [repeat split|reflexivity]]. }
  destruct G4 as [G4 [[i1 [i2 i3]] V4]].
  pose proof (TxStep_of_G _ _ G4) as [h4 [m4 [n4 T4]]].
  assert (C4 : CohTx st4) by auto.
  assert (Hh4 : height (A st4) = h) by congruence.
  assert (Hne4 : ne_committee (A st4) = ne_committee (A stp)) by congruence.
  assert (Hcm4 : committee (A st4) = committee (A stp)) by congruence.
  intros H. inv H.
  destruct (((h + 1) mod csize cfg =? 0) && votes_changed (A st4)) eqn:Erec.
  - apply andb_true_iff in Erec as [Er Ev].
    assert (Hc : compute_committee cfg (withA st4 (set_ne_committee (A st4) (compute_committee cfg st4))) = compute_committee cfg st4)
      by (apply compute_committee_ext; reflexivity).
    constructor.
    + destruct C4 as [c1 c2 c3 c4 c5 c6 c7 c8]. constructor; simpl; auto. all: try (intros _; exact Hc).
    + simpl. rewrite Hh4. intros X. lia.
    + simpl. intros _. symmetry. exact Hc.
  - constructor; [exact C4| |].
    + rewrite Hh4, Hne4, Hcm4. exact Hmid.
    + rewrite Hh4. intros Hr. assert (Ev : votes_changed (A st4) = false).
      { destruct (votes_changed (A st4)); [|reflexivity]. rewrite andb_true_r in Erec. lia. }
      symmetry. apply (ct_dirty _ _ C4 Ev).
Qed.

Lemma genesis_on_persist :
  neo_on_persist cfg (genesis_init cfg)
  = withA (genesis_init cfg) (set_votes_changed (set_committee (A (genesis_init cfg)) (ne_committee (A (genesis_init cfg)))) false).
Proof.
  unfold neo_on_persist. change (height (A (genesis_init cfg))) with 0. rewrite Zmod_0_l. reflexivity.
Qed.

Lemma genesis_compute : compute_committee cfg (genesis_init cfg) = map (fun k => (k, 0)) (standby cfg).
Proof.
  unfold compute_committee, genesis_init; simpl.
  induction (standby cfg) as [|k t IH]; simpl; [reflexivity|]. f_equal; try exact IH.
Qed.

Lemma genesis_coh : Coh (genesis cfg).
Proof.
  unfold genesis. rewrite genesis_on_persist.
  set (g0 := genesis_init cfg).
  set (gp := withA g0 (set_votes_changed (set_committee (A g0) (ne_committee (A g0))) false)).
  assert (Cgp : CohTx gp).
  { constructor; simpl; auto.
    all: try (intros k v; discriminate).
    all: try (intros _; rewrite <- genesis_compute; apply compute_committee_ext; reflexivity). }
  assert (Hne : ne_committee (A gp) = committee (A gp)) by reflexivity.
  assert (Hh : height (A gp) = 0) by reflexivity.
  assert (Hvc : votes_changed (A gp) = false) by reflexivity.
  destruct (neo_post_persist cfg gp) as [st|] eqn:E.
  2:{ constructor.
      - unfold g0, genesis_init. constructor; simpl; auto; try discriminate. all: try (intros k v; discriminate).
      - reflexivity.
      - simpl. intros _. symmetry. apply genesis_compute. }
  unfold neo_post_persist in E. rewrite Hh in E.
  match type of E with context [gas_mint cfg gp ?a ?g false] => destruct (gas_mint cfg gp a g false) as [st3|] eqn:E3; [|discriminate] end.
  pose proof (gas_mint_g _ _ _ _ _ E3) as G3.
  pose proof (TxStep_of_G _ _ G3) as [h3 [m3 [n3 T3]]].
  assert (V3 : votes_changed (A st3) = false).
  { unfold gas_mint in E3. destruct (_ =? 0) in E3; [inv E3; reflexivity|].
    destruct (gas_add_tokens gp _ _) as [s1|] eqn:Ea in E3; [|discriminate].
    destruct (false && _) in E3; [discriminate|]. inv E3.
    unfold gas_add_tokens in Ea. destruct (_ =? 0) in Ea; [inv Ea; reflexivity|].
    destruct (gas_inc_balance gp _ _ _) as [s2|] eqn:Eb in Ea; [|discriminate]. inv Ea.
    unfold gas_inc_balance in Eb. destruct (_ =? 0) in Eb; [inv Eb; reflexivity|].
    destruct (_ && _) in Eb; [discriminate|]. inv Eb. reflexivity. }
  rewrite Zmod_0_l in E. change (0 =? 0) with true in E. cbv iota in E.
  match type of E with context [reward_voters cfg st3 ?cm ?i ?vr] => destruct (reward_voters_t cm st3 i vr) as [G4 [[i1 [i2 i3]] V4]];
    set (st4 := reward_voters cfg st3 cm i vr) in * end.
  pose proof (TxStep_of_G _ _ G4) as [h4 [m4 [n4 T4]]].
  assert (C4 : CohTx st4) by auto.
  assert (Hvc4 : votes_changed (A st4) = false) by congruence.
  rewrite Hvc4, andb_false_r in E. inv E.
  constructor; [exact C4| |].
  - intros _. congruence.
  - intros _. symmetry. apply (ct_dirty _ _ C4 Hvc4).
Qed.

Theorem cache_coherent_reach bs : blocks_ok cfg bs -> Coh (reach cfg bs) /\ Inv cfg (L (reach cfg bs)).
Proof.
  unfold reach. intros Hok.
  assert (forall st, Coh st -> Inv cfg (L st) -> Coh (fold_left (step cfg) bs st) /\ Inv cfg (L (fold_left (step cfg) bs st))).
  { induction Hok as [|b r Hb Hr IH]; intros st C I; simpl; [split; assumption|].
    apply IH.
    - unfold step. destruct (run_block cfg st b) as [st'|] eqn:E; [|exact C]. apply (run_block_coh _ _ _ I C Hb E).
    - apply (Bal_Inv cfg _ _ (step_bal cfg CW st b (inv_wf _ _ I) Hb) I). }
  apply H; [apply genesis_coh|apply (genesis_inv cfg CW)].
Qed.

(* ---------- restart ---------- *)
Fixpoint adj_ok (l : list (Z * Z)) : Prop :=
  match l with
  | (i, _) :: (((j, _) :: _) as t) => (i =? j) = false /\ adj_ok t
  | _ => True
  end.

Lemma dedup_fix l : adj_ok l -> dedup l = l.
Proof.
  induction l as [|[i v] t IH]; simpl; [reflexivity|].
  destruct t as [|[j w] t2]; [reflexivity|].
  intros [Hij Hok]. rewrite (IH Hok). rewrite Hij. reflexivity.
Qed.

Lemma dedup_adj l : adj_ok (dedup l).
Proof.
  induction l as [|[i v] t IH]; simpl; [exact I|].
  destruct (dedup t) as [|[j w] t'] eqn:E; [exact I|].
  destruct (i =? j) eqn:Eij.
  - destruct t' as [|[k x] t'']; [exact I|]. simpl in IH. destruct IH as [Hjk Hok].
    simpl. split; [lia|exact Hok].
  - simpl. split; [exact Eij|exact IH].
Qed.

Lemma dedup_idem l : dedup (dedup l) = dedup l.
Proof. apply dedup_fix, dedup_adj. Qed.

Theorem reinit_coh st : Coh st -> Coh (reinit cfg st).
Proof.
  intros [[c1 c2 c3 c4 c5 c6 c7 c8] cm ce]. unfold reinit.
  set (a1 := mkA (height (A st)) (committee (A st)) (committee (A st)) true (s_gpv (A st)) [] (s_gpb (A st)) (s_gpb (A st))
                 (s_regprice (A st)) (s_regprice (A st)) (s_blocked (A st)) (s_blocked (A st)) (p_store (A st)) (p_store (A st))).
  assert (Hc : compute_committee cfg (mkSt (L st) a1 (reinit_ext (X st))) = compute_committee cfg st)
    by (apply compute_committee_ext; simpl; auto).
  destruct ((height (A st) + 1) mod csize cfg =? 0) eqn:E.
  - constructor; simpl.
    + constructor; simpl; auto; try discriminate.
      all: try (rewrite c4; symmetry; apply dedup_idem).
      all: try (intros role; apply aget_reinit_ds).
      all: try (intros h; apply aget_reinit_mg).
    + intros Hx. lia.
    + intros _. symmetry. apply compute_committee_ext; reflexivity.
  - constructor; simpl.
    + constructor; simpl; auto; try discriminate.
      all: try (rewrite c4; symmetry; apply dedup_idem).
      all: try (intros role; apply aget_reinit_ds).
      all: try (intros h; apply aget_reinit_mg).
    + reflexivity.
    + intros Hx. lia.
Qed.

End GovProofs.
