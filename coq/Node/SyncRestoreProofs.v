From NG Require Import Common.Tactics Node.Crash Node.CrashProofs Node.Stages Node.StagesProofs Node.SyncRestore.
Open Scope N_scope.

Section P.
  Context {St Rt : Type}.
  Notation write := (key * option (val St Rt))%type.
  Notation db := (db St Rt).
  Variable effects : N -> list write.
  Variable nkey : N -> key.
  (* the node's own record is among what its restoration writes, nothing is deleted, and restorations of
     different nodes do not write one another's record *)
  Hypothesis own : forall n, exists v, In (nkey n, Some v) (effects n).
  Hypothesis puts : forall n k, ~ In (k, None) (effects n).
  Hypothesis apart : forall n m k v, In (k, v) (effects m) -> k = nkey n -> m = n.

  Lemma sem_in (b : list write) k v : sem b k = Some v -> In (k, v) b.
  Proof.
    induction b as [|[k' v'] t IH]; simpl; [discriminate|].
    destruct (sem t k) eqn:E.
    - intros H. inv H. right. auto.
    - destruct (key_eqb k k') eqn:Ek; [|discriminate]. intros H. inv H. apply key_eqb_eq in Ek. subst. left. auto.
  Qed.

  Lemma in_sem (b : list write) k v : In (k, Some v) b -> (forall k', ~ In (k', None) b) -> exists v', sem b k = Some (Some v').
  Proof.
    intros Hin Hp. induction b as [|[k' v'] t IH]; simpl; [destruct Hin|].
    destruct (sem t k) as [[x|]|] eqn:E.
    - eauto.
    - exfalso. apply sem_in in E. apply (Hp k). right. auto.
    - destruct Hin as [Heq|Hin].
      + inv Heq. rewrite key_eqb_refl. eauto.
      + destruct IH as (x & Hx); auto. { intros k'' H. apply (Hp k''). right. auto. } congruence.
  Qed.

  Lemma get_mono (d : db) (b : list write) k : (forall k', ~ In (k', None) b) -> get d k <> None -> get (apply d b) k <> None.
  Proof.
    intros Hp H. rewrite get_apply. destruct (sem b k) as [[x|]|] eqn:E; auto; try discriminate.
    apply sem_in in E. exfalso. eapply Hp; eauto.
  Qed.

  (* restore_atomic_complete: when every restoration reaches the database as ONE batch, then after any
     number of batches every node whose record is present has everything its restoration writes *)
  Theorem restore_atomic_complete ns : forall k n,
    complete St Rt effects nkey (apply_all [] (firstn k (atomic_batches St Rt effects ns))) n.
  Proof.
    assert (G : forall ns (d : db) k n, complete St Rt effects nkey d n ->
                  complete St Rt effects nkey (apply_all d (firstn k (atomic_batches St Rt effects ns))) n).
    { induction ns0 as [|m t IH]; intros d k n C.
      - simpl. rewrite firstn_nil. exact C.
      - destruct k; [exact C|]. simpl. apply IH.
        intros Hn key v Hin. rewrite get_apply in Hn.
        destruct (sem (effects m) (nkey n)) as [x|] eqn:E.
        + apply sem_in in E. assert (m = n) by (eapply apart; eauto). subst m.
          destruct (in_sem (effects n) key v Hin (puts n)) as (v' & Hv). rewrite get_apply, Hv. discriminate.
        + apply get_mono; [apply puts|]. exact (C Hn key v Hin). }
    intros k n. apply G. intros H. exfalso. apply H. reflexivity.
  Qed.
End P.

(* without the repair the single writes are flushed one by one: the leaf record is there before its second
   effect; with the repair every boundary is fine *)
Lemma restore_single_refuted :
  sr_prefixes (single_batches N N sr_effects [1]) = [true; true; false; true] /\
  sr_prefixes (atomic_batches N N sr_effects [1]) = [true; true].
Proof. vm_compute. split; reflexivity. Qed.
