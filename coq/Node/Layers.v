(* C01, store part: a node = persistent map + write-cache layers + height + log of execution results.
   The transaction interpreter is a Section variable [exec] (a function of the view it is given and of the block):
   what is modelled is everything around it that could make two replicas differ — when layers are flushed, which
   history keys a node-local option prunes, restarts (persist everything, reopen).
   Theorems: a flush (any time) changes no answer; two replicas fed the same blocks under ANY flush / prune /
   restart schedules agree on every state key, on the height and on every execution result. *)
From NG Require Import Common.Tactics.

Section Layers.
Variables K V B R : Type.

Definition store := K -> option V.                 (* what Get answers *)
Definition overlay := K -> option (option V).      (* a write set: None = untouched, Some None = deleted, Some (Some v) = put *)

Definition apply (o : overlay) (s : store) : store :=
  fun k => match o k with Some x => x | None => s k end.

Record node := mkNode { db : store; layers : list overlay (* newest first *); nheight : nat; results : list R }.

Definition view_layers (ls : list overlay) (s : store) : store := fold_right apply s ls.
Definition view (n : node) : store := view_layers (layers n) (db n).

(* history keys (blocks, transactions, old state roots, old trie nodes): never read by the interpreter, and the only
   keys node-local options (KeepOnlyLatestState, RemoveUntraceableBlocks + GC) remove *)
Variable is_hist : K -> bool.
Definition state_eq (a b : store) : Prop := forall k, is_hist k = false -> a k = b k.

Variable exec : store -> B -> overlay * R.
Hypothesis exec_state_only : forall a b blk, state_eq a b -> exec a blk = exec b blk.

(* events of a node's life: a block arrives; the persist timer (or the hook VerifPersist) flushes the oldest layers
   into the database; a node-local option prunes some history keys; the node is stopped (everything persisted) and
   started again *)
Inductive event :=
| EBlock (b : B)
| EFlush (n : nat)                (* flush the n oldest layers *)
| EPrune (p : K -> bool)          (* delete the history keys selected by p from the database *)
| ERestart.

Definition add_block (n : node) (b : B) : node :=
  let '(o, r) := exec (view n) b in
  mkNode (db n) (o :: layers n) (S (nheight n)) (r :: results n).

Definition flush (k : nat) (n : node) : node :=
  let m := length (layers n) - k in
  mkNode (view_layers (skipn m (layers n)) (db n)) (firstn m (layers n)) (nheight n) (results n).

Definition prune (p : K -> bool) (n : node) : node :=
  mkNode (fun k => if is_hist k && p k then None else db n k) (layers n) (nheight n) (results n).

Definition restart (n : node) : node := mkNode (view n) [] (nheight n) (results n).

Definition do_event (n : node) (e : event) : node :=
  match e with
  | EBlock b => add_block n b
  | EFlush k => flush k n
  | EPrune p => prune p n
  | ERestart => restart n
  end.

Definition run (n : node) (es : list event) : node := fold_left do_event es n.

Fixpoint blocks_of (es : list event) : list B :=
  match es with
  | [] => []
  | EBlock b :: t => b :: blocks_of t
  | _ :: t => blocks_of t
  end.

(* the reference: one map, no layers, no options *)
Definition ideal_step (sr : store * list R) (b : B) : store * list R :=
  let '(o, r) := exec (fst sr) b in (apply o (fst sr), r :: snd sr).
Definition ideal (s : store) (bs : list B) : store * list R := fold_left ideal_step bs (s, []).

Lemma view_layers_app a b s : view_layers (a ++ b) s = view_layers a (view_layers b s).
Proof. unfold view_layers. apply fold_right_app. Qed.

(* a flush, whenever it happens and however many layers it takes, changes no answer at all *)
Theorem flush_transparent n k : forall key, view (flush k n) key = view n key.
Proof.
  intros key. unfold flush, view; simpl.
  rewrite <- view_layers_app, firstn_skipn. reflexivity.
Qed.

Theorem restart_keeps_view n : forall key, view (restart n) key = view n key.
Proof. reflexivity. Qed.

Lemma view_layers_state_eq ls a b : state_eq a b -> state_eq (view_layers ls a) (view_layers ls b).
Proof.
  intros H. induction ls as [|o t IH]; simpl; [exact H|].
  intros k Hk. unfold apply. destruct (o k); [reflexivity|apply IH; exact Hk].
Qed.

Lemma prune_state_eq p n : state_eq (view (prune p n)) (view n).
Proof.
  unfold view, prune; simpl. apply view_layers_state_eq.
  intros k Hk. rewrite Hk. reflexivity.
Qed.

(* the invariant tying a node to the reference run *)
Definition tied (n : node) (sr : store * list R) : Prop :=
  state_eq (view n) (fst sr) /\ results n = snd sr.

Lemma do_event_tied n sr e :
  tied n sr ->
  tied (do_event n e) (match e with EBlock b => ideal_step sr b | _ => sr end).
Proof.
  intros [Hv Hr]. destruct e as [b|k|p|]; simpl.
  - unfold add_block, ideal_step. rewrite (exec_state_only _ _ b Hv).
    destruct (exec (fst sr) b) as [o r]. split; simpl.
    + intros key Hk. unfold view; simpl. unfold apply. destruct (o key); [reflexivity|apply Hv; exact Hk].
    + congruence.
  - split; [|exact Hr]. intros key Hk. rewrite flush_transparent. apply Hv; exact Hk.
  - split; [|exact Hr]. intros key Hk. rewrite (prune_state_eq p n key Hk). apply Hv; exact Hk.
  - split; [|exact Hr]. exact Hv.
Qed.

Lemma run_tied es : forall n sr, tied n sr -> tied (run n es) (fold_left ideal_step (blocks_of es) sr).
Proof.
  induction es as [|e t IH]; intros n sr H; simpl; [exact H|].
  pose proof (do_event_tied n sr e H) as H'.
  destruct e; simpl; apply IH; exact H'.
Qed.

Lemma run_height es : forall n, nheight (run n es) = nheight n + length (blocks_of es).
Proof.
  induction es as [|e t IH]; intros n; simpl; [lia|].
  rewrite IH. destruct e; simpl; try lia.
  unfold add_block. destruct (exec (view n) b). simpl. lia.
Qed.

(* Replicas fed the same blocks agree, whatever their flush points, pruning options and restarts *)
Theorem replicas_agree (s0 : store) es1 es2 :
  blocks_of es1 = blocks_of es2 ->
  let n1 := run (mkNode s0 [] 0 []) es1 in
  let n2 := run (mkNode s0 [] 0 []) es2 in
  state_eq (view n1) (view n2) /\ results n1 = results n2 /\ nheight n1 = nheight n2.
Proof.
  intros Hb n1 n2.
  assert (T0 : tied (mkNode s0 [] 0 []) (s0, [])) by (split; [intros k _; reflexivity|reflexivity]).
  pose proof (run_tied es1 _ _ T0) as [V1 R1]. pose proof (run_tied es2 _ _ T0) as [V2 R2].
  rewrite Hb in V1, R1. fold n1 in V1, R1. fold n2 in V2, R2.
  repeat split.
  - intros k Hk. rewrite (V1 k Hk), (V2 k Hk). reflexivity.
  - congruence.
  - unfold n1, n2. rewrite !run_height, Hb. reflexivity.
Qed.

(* ... and each of them answers like the single-map reference *)
Theorem node_refines_ideal (s0 : store) es :
  let n := run (mkNode s0 [] 0 []) es in
  state_eq (view n) (fst (ideal s0 (blocks_of es))) /\ results n = snd (ideal s0 (blocks_of es)).
Proof.
  intros n. apply run_tied. split; [intros k _; reflexivity|reflexivity].
Qed.

End Layers.
