(* C06 - model of block acceptance (definitions only; everything computes).

   Anchors: pkg/core/blockchain.go AddBlock (1825-1881), addHeaders (1891-1947), verifyHeader (2885-2904),
   storeBlock (next header's PrevStateRoot check 2101-2113), pkg/core/headerhashes.go addHeaders.

   [add_block] is the decision procedure with the real ORDER of checks and effects: the header is recorded
   (header chain extended) BEFORE the body is looked at, so a block with a valid header and a bad body
   leaves exactly that header behind.  Signature verification, per-transaction admission in the per-block
   scratch pool and block execution are oracles carried by the block description.

   Two places where the code at the pinned commit accepts what the property excludes are switches
   ([afix]): [afix_none] is the code as it stands, [afix_all] the code with fixes/F23, F24. *)
From NG Require Import Common.Tactics.
Open Scope N_scope.

Record afix := mkAfix {
  fx_block_conflicts : bool;   (* F23: a block whose transactions evict one another from the scratch pool is refused *)
  fx_known_witness : bool      (* F24: the witness is verified also when the header is already recorded *)
}.
Definition afix_none := mkAfix false false.
Definition afix_all := mkAfix true true.

Inductive verdict :=
| VAccept
| VIndexAhead | VIndexBehind      (* not the next index *)
| VSetting                        (* state-root-in-header setting differs *)
| VPrevRoot                       (* PrevStateRoot differs from the local root *)
| VPrevUnknown                    (* no stored header has the previous hash *)
| VHdrIndex                       (* the previous hash names a header that is not the tip *)
| VTimestamp                      (* not later than the tip *)
| VWitness                        (* consensus witness does not verify *)
| VKnownHash                      (* a header is recorded for this height and it is another one *)
| VMerkle
| VTx                             (* a transaction is not accepted by the scratch pool *)
| VConflict                       (* transactions of the block exclude one another (repaired code only) *)
| VExec                           (* OnPersist / PostPersist fail *)
| VNextRoot                       (* the recorded next header commits to another state root *)
| VOther.

Definition verdict_eqb (a b : verdict) : bool :=
  match a, b with
  | VAccept, VAccept | VIndexAhead, VIndexAhead | VIndexBehind, VIndexBehind | VSetting, VSetting
  | VPrevRoot, VPrevRoot | VPrevUnknown, VPrevUnknown | VHdrIndex, VHdrIndex | VTimestamp, VTimestamp
  | VWitness, VWitness | VKnownHash, VKnownHash | VMerkle, VMerkle | VTx, VTx | VConflict, VConflict
  | VExec, VExec | VNextRoot, VNextRoot | VOther, VOther => true
  | _, _ => false
  end.

Record config := mkConfig { c_srih : bool; c_verify_txs : bool }.

(* a recorded header ahead of the tip: its hash and the state root it commits to for its predecessor *)
Definition khdr := (N * N)%type.

Record state := mkState {
  s_n : N;                 (* block height *)
  s_tip_hash : N;
  s_tip_ts : N;
  s_root : N;              (* local state root at s_n *)
  s_known : list khdr;     (* recorded headers s_n+1, s_n+2, ... *)
  s_pool : list N          (* mempool (transaction ids) *)
}.

Record blockd := mkBlock {
  b_index : N; b_prev : N; b_ts : N; b_merkle : N; b_sr : bool; b_prevroot : N; b_hash : N;
  b_prev_older : option N; (* index of the stored header with hash b_prev when that is not the tip *)
  b_sig_ok : bool;         (* oracle: the witness verifies against the designated consensus address *)
  b_txs_merkle : N;        (* Merkle root of the transaction list *)
  b_txs_ok : bool;         (* oracle: every transaction is accepted by the scratch pool, in order *)
  b_conflict_free : bool;  (* no transaction of the block names another one in a Conflicts attribute, none twice *)
  b_exec_ok : bool;        (* oracle: the block executes *)
  b_new_root : N;          (* oracle: state root after executing it *)
  b_txs : list N           (* transaction ids *)
}.

Definition hheight (st : state) : N := s_n st + N.of_nat (length (s_known st)).

Definition prev_index (st : state) (b : blockd) : option N :=
  if b_prev b =? s_tip_hash st then Some (s_n st) else b_prev_older b.

(* addHeaders(verify) for the single header of the block, next header unknown *)
Definition verify_header (cfg : config) (st : state) (b : blockd) : option verdict :=
  match prev_index st b with
  | None => Some VPrevUnknown
  | Some i =>
      if c_srih cfg && (i =? s_n st) && negb (b_prevroot b =? s_root st) then Some VPrevRoot
      else if negb (i + 1 =? b_index b) then Some VHdrIndex
      else if b_ts b <=? s_tip_ts st then Some VTimestamp
      else if negb (b_sig_ok b) then Some VWitness
      else None
  end.

Definition record_header (st : state) (b : blockd) : state :=
  mkState (s_n st) (s_tip_hash st) (s_tip_ts st) (s_root st) [(b_hash b, b_prevroot b)] (s_pool st).

Definition remove_all (xs ys : list N) : list N :=
  filter (fun y => negb (existsb (N.eqb y) xs)) ys.

(* storeBlock: the new tip; transactions of the block leave the mempool *)
Definition store (st : state) (b : blockd) : state :=
  mkState (b_index b) (b_hash b) (b_ts b) (b_new_root b) (tl (s_known st)) (remove_all (b_txs b) (s_pool st)).

Definition body (fx : afix) (cfg : config) (st : state) (b : blockd) : verdict * state :=
  if negb (b_merkle b =? b_txs_merkle b) then (VMerkle, st)
  else if c_verify_txs cfg && negb (b_txs_ok b) then (VTx, st)
  else if fx_block_conflicts fx && c_verify_txs cfg && negb (b_conflict_free b) then (VConflict, st)
  else if negb (b_exec_ok b) then (VExec, st)
  else
    match tl (s_known st) with
    | (_, pr) :: _ => if c_srih cfg && negb (pr =? b_new_root b) then (VNextRoot, st) else (VAccept, store st b)
    | [] => (VAccept, store st b)
    end.

Definition add_block (fx : afix) (cfg : config) (st : state) (b : blockd) : verdict * state :=
  if negb (b_index b =? s_n st + 1) then
    ((if s_n st + 1 <? b_index b then VIndexAhead else VIndexBehind), st)
  else if negb (Bool.eqb (c_srih cfg) (b_sr b)) then (VSetting, st)
  else
    match s_known st with
    | [] =>
        match verify_header cfg st b with
        | Some v => (v, st)
        | None => body fx cfg (record_header st b) b      (* the header is recorded first *)
        end
    | (kh, _) :: _ =>
        if negb (kh =? b_hash b) then (VKnownHash, st)
        else if fx_known_witness fx && negb (b_sig_ok b) then (VWitness, st)
        else body fx cfg st b
    end.

(* ---- the specification: what the property lists ---- *)
Definition header_valid (cfg : config) (st : state) (b : blockd) : Prop :=
  b_prev b = s_tip_hash st /\ s_tip_ts st < b_ts b /\ b_sig_ok b = true /\
  (c_srih cfg = true -> b_prevroot b = s_root st).

Definition next_root_ok (cfg : config) (st : state) (b : blockd) : Prop :=
  match tl (s_known st) with
  | (_, pr) :: _ => c_srih cfg = true -> pr = b_new_root b
  | [] => True
  end.

Definition valid (fx : afix) (cfg : config) (st : state) (b : blockd) : Prop :=
  b_index b = s_n st + 1 /\ b_sr b = c_srih cfg /\
  match s_known st with
  | [] => header_valid cfg st b
  | (kh, _) :: _ => kh = b_hash b /\ (fx_known_witness fx = true -> b_sig_ok b = true)
  end /\
  b_merkle b = b_txs_merkle b /\
  (c_verify_txs cfg = true -> b_txs_ok b = true) /\
  (fx_block_conflicts fx = true -> c_verify_txs cfg = true -> b_conflict_free b = true) /\
  b_exec_ok b = true /\
  next_root_ok cfg st b.
