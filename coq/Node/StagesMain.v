(* C02 - the statements about Reset and the state jump, in full strength, with their status for the code as
   it stands (fixes_none: refuted by a witness, proved under a guard) and for the repaired code (fixes_all). *)
From NG Require Import Common.Tactics Node.Crash Node.CrashProofs Node.Stages Node.StagesProofs Node.StagesWitness.
Open Scope N_scope.

(* Full statement: whatever number k of batches of Reset(h) reached the disk, start-up resumes the reset and
   ends at height h in the database content of the uninterrupted reset. *)
Definition reset_resumable_statement (fx : fixes) : Prop :=
  forall (St Rt : Type) (exec : St -> N -> St) (root : St -> Rt) (genesis : St) (ntx : N -> N)
         (PS trusted : N) (unroot : Rt -> St) (synced : db St Rt -> N -> bool) (mtb : N) (sync_root : N -> Rt),
    1 < PS -> (forall j, unroot (root (st_at St exec genesis j)) = st_at St exec genesis j) ->
    forall (d : db St Rt) (p : bool) (c hh h : N),
      Inv exec root genesis ntx PS d p c hh -> h <= c ->
      forall k : nat, (1 <= k <= 7)%nat ->
        let bs := reset_batches St Rt ntx PS unroot fx h c hh 1 d in
        exists n, boot St Rt root genesis ntx PS trusted unroot fx synced mtb sync_root
                       (apply_all d (firstn k bs)) = Up n /\
                  height n = h /\ hheight n = h /\ db_eq (disk n) (apply_all d bs).

Lemma reset_resumable_all : reset_resumable_statement fixes_all.
Proof.
  intros St Rt exec root genesis ntx PS trusted unroot synced mtb sync_root HPS Hun d p c hh h I Hh k Hk bs.
  apply (reset_resumable exec root genesis ntx PS trusted unroot fixes_all synced mtb sync_root HPS Hun d p c hh h I Hh k Hk);
    reflexivity.
Qed.

Lemma reset_resumable_none_refuted : ~ reset_resumable_statement fixes_none.
Proof.
  intros H.
  assert (PSb : 1 < wPS) by (unfold wPS; lia).
  destruct (H N N wexec wroot 0 wntx wPS 0 (fun r => r) (fun _ _ => true) 6 (fun p => p) PSb
              (fun j => eq_refl) wd false 3 3 1 wd_inv ltac:(lia) 2%nat ltac:(lia)) as (n & B & _).
  pose proof reset_windows_none as (_ & F & _).
  change (wboot fixes_none (wafter fixes_none 2) = Up n) in B. rewrite B in F. discriminate.
Qed.

(* The order of Reset's two writers.  [cap] is the capacity of the channel over which Reset hands its batches to
   the persisting goroutine (0 in the code).  For every order that capacity lets_in and every number k of writes
   that reached the disk: the reset marker is on disk, or the database is still the pre-reset one, or the reset is
   complete; and start-up resumes the reset to height h and the database of the uninterrupted reset. *)
Definition reset_order_statement (cap : nat) : Prop :=
  forall (St Rt : Type) (exec : St -> N -> St) (root : St -> Rt) (genesis : St) (ntx : N -> N)
         (PS trusted : N) (unroot : Rt -> St) (synced : db St Rt -> N -> bool) (mtb : N) (sync_root : N -> Rt),
    1 < PS -> (forall j, unroot (root (st_at St exec genesis j)) = st_at St exec genesis j) ->
    forall (d : db St Rt) (p : bool) (c hh h : N),
      Inv exec root genesis ntx PS d p c hh -> h <= c ->
      forall j k : nat, reset_admissible cap j = true -> (k <= 7)%nat ->
        let bs := reset_batches St Rt ntx PS unroot fixes_all h c hh 1 d in
        let x := apply_all d (firstn k (reset_order bs j)) in
        ((exists s, get x KStage = Some (VStage true s)) \/ db_eq x d \/ k = 7%nat) /\
        ((1 <= k)%nat ->
         exists n, boot St Rt root genesis ntx PS trusted unroot fixes_all synced mtb sync_root x = Up n /\
                   height n = h /\ hheight n = h /\ db_eq (disk n) (apply_all d bs)).

Lemma reset_order_code : reset_order_statement 0.
Proof.
  intros St Rt exec root genesis ntx PS trusted unroot synced mtb sync_root HPS Hun d p c hh h I Hh j k Hj Hk bs x.
  assert (J : (1 <= j <= 5)%nat).
  { unfold reset_admissible in Hj. apply andb_true_iff in Hj as [A B].
    apply Nat.leb_le in A. apply Nat.leb_le in B. simpl in A. lia. }
  split.
  - exact (reset_marker_or_intact exec root genesis ntx PS unroot fixes_all synced sync_root HPS Hun d c hh h Hh j k J Hk).
  - intros K.
    exact (reset_resumable_ordered exec root genesis ntx PS trusted unroot fixes_all synced mtb sync_root HPS Hun
             d p c hh h I Hh j k Hj (conj K Hk) eq_refl eq_refl).
Qed.

(* without the edge "direct operation after the marker batch" (a channel that buffers 4 hand-overs) it is false *)
Lemma reset_order_no_edge_refuted : ~ reset_order_statement 4.
Proof.
  intros H.
  assert (PSb : 1 < wPS) by (unfold wPS; lia).
  destruct (H N N wexec wroot 0 wntx wPS 0 (fun r => r) (fun _ _ => true) 6 (fun p => p) PSb
              (fun j => eq_refl) wd false 3 3 1 wd_inv ltac:(lia) 0%nat 1%nat eq_refl ltac:(lia)) as [[(s & M)|[E|E]] _].
  - vm_compute in M. discriminate.
  - specialize (E (KState false)). vm_compute in E. discriminate.
  - discriminate.
Qed.

(* Full statement for the jump (k = 0: everything synchronised, jump not started) *)
Definition jump_resumable_statement (fx : fixes) : Prop :=
  forall (St Rt : Type) (root : St -> Rt) (genesis : St) (ntx : N -> N)
         (PS trusted : N) (unroot : Rt -> St) (synced : db St Rt -> N -> bool) (mtb : N) (sync_root : N -> Rt),
    1 < PS ->
    forall (d : db St Rt) (p : bool) (P hh : N),
      get d KVersion = Some (VPrefix p) -> get d KCurBlock = Some (VNum 0) ->
      get d KCurHeader = Some (VNum hh) -> get d KSyncPoint = Some (VNum P) -> get d KStage = None ->
      0 < P < hh ->
      (forall n, n mod PS = 0 -> n + PS <= hh + 1 -> is_some (get d (KPage n)) = true) ->
      (forall j, walk_low PS trusted hh <= j <= hh -> is_some (get d (KExec j)) = true) ->
      (mtb < P -> 0 < walk_low PS trusted hh) ->
      synced d P = true ->
      forall k : nat, (k <= 4)%nat ->
        let bs := jump_batches St Rt ntx P mtb (sync_root P) 1 d in
        exists n, boot St Rt root genesis ntx PS trusted unroot fx synced mtb sync_root
                       (apply_all d (firstn k bs)) = Up n /\
                  height n = P /\ db_eq (disk n) (apply_all d bs).

Lemma jump_resumable_all : jump_resumable_statement fixes_all.
Proof.
  intros St Rt root genesis ntx PS trusted unroot synced mtb sync_root HPS d p P hh A B C D E F G H I J k Hk bs.
  apply (jump_resumable (fun s _ => s) root genesis ntx PS trusted unroot fixes_all synced mtb sync_root HPS
           d p P hh A B C D E F G H I J k Hk). reflexivity.
Qed.

Lemma jump_resumable_none_refuted : ~ jump_resumable_statement fixes_none.
Proof.
  intros H.
  assert (PSb : 1 < wPS) by (unfold wPS; lia).
  assert (Hp : forall n, n mod wPS = 0 -> n + wPS <= 22 + 1 -> is_some (get wj (KPage n)) = true).
  { intros n Hm Hl. unfold wPS in *. lia. }
  assert (Hh : forall j, walk_low wPS 10 22 <= j <= 22 -> is_some (get wj (KExec j)) = true).
  { intros j Hj. change (walk_low wPS 10 22) with 11 in Hj.
    assert (K : j = 11 \/ j = 12 \/ j = 13 \/ j = 14 \/ j = 15 \/ j = 16 \/ j = 17 \/ j = 18 \/ j = 19 \/
                j = 20 \/ j = 21 \/ j = 22) by lia.
    repeat (destruct K as [K|K]; [subst j; reflexivity|]). subst j; reflexivity. }
  assert (Hl : 6 < 20 -> 0 < walk_low wPS 10 22).
  { intros _. change (walk_low wPS 10 22) with 11. lia. }
  destruct (H N N wroot 0 wntx wPS 10 (fun r => r) (fun _ _ => true) 6 (fun p => p) PSb wj false 20 22
              eq_refl eq_refl eq_refl eq_refl eq_refl ltac:(lia) Hp Hh Hl eq_refl 0%nat ltac:(lia)) as (n & B & _).
  pose proof jump_window_none as (S & _).
  change (wjboot fixes_none (wjafter 0) = Up n) in B. rewrite B in S. discriminate.
Qed.
