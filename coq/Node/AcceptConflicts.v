(* C06 - block acceptance and ON-CHAIN Conflicts backed by any signer.

   Anchors: pkg/core/blockchain.go verifyAndPoolTx (bc.dao.HasTransaction(t.Hash(), t.Signers, height, mtb): a
   transaction is refused when an on-chain transaction inside the traceable window names its hash in a Conflicts
   attribute and is signed by ANY of its signers - not only its sender), IsTxStillRelevant (the same question
   when the pool is refreshed), pkg/core/dao/dao.go HasTransaction / StoreAsTransaction (the record table).

   The record table and its meaning are the C07 model (Admission/Conflicts.v: [has_conflict] on [build es] equals
   [conflict_spec es]); here it is placed under block acceptance: the chain is the list of events of the accepted
   transactions, a block at height cur+1 is accepted when none of its transactions is hit. *)
From NG Require Import Common.Tactics Mempool.Model Admission.Conflicts.
Open Scope N_scope.

Record ctx := mkCtx { ct_hash : N; ct_signers : list N; ct_names : list N }.

Section OnChain.
  (* the code asks with all signers of the transaction; false = a variant that asks with the sender only *)
  Variable all_signers : bool.
  Variable mtb : N.

  Definition asked (t : ctx) : list N := if all_signers then ct_signers t else firstn 1 (ct_signers t).

  Definition tx_accepted (es : list cevent) (cur : N) (t : ctx) : bool :=
    negb (has_conflict (build es) (ct_hash t) (asked t) cur mtb).
  Definition block_accepted (es : list cevent) (cur : N) (txs : list ctx) : bool :=
    forallb (tx_accepted es cur) txs.

  Definition event_of (idx : N) (t : ctx) : cevent := mkEvent idx (ct_signers t) (ct_names t).

  (* offering a block to a node at height cur whose accepted transactions are es *)
  Definition offer (st : N * list cevent) (txs : list ctx) : N * list cevent :=
    let '(cur, es) := st in
    if block_accepted es cur txs then (cur + 1, es ++ map (event_of (cur + 1)) txs) else (cur, es).

  Definition offers (st : N * list cevent) (blocks : list (list ctx)) : N * list cevent :=
    fold_left offer blocks st.
End OnChain.

(* the declarative reading: an accepted transaction inside the window names t's hash and shares a signer with t *)
Definition signer_conflict (es : list cevent) (cur mtb : N) (t : ctx) : bool :=
  conflict_spec es (ct_hash t) (ct_signers t) cur mtb.

Definition sorted (es : list cevent) : Prop :=
  forall l1 e l2, es = l1 ++ e :: l2 -> forall x, In x l1 -> e_idx x <= e_idx e.

Lemma sorted_nil : sorted [].
Proof. intros l1 e l2 E. destruct l1; discriminate. Qed.

Lemma sorted_app (es new : list cevent) (idx : N) :
  sorted es -> below es idx -> (forall e, In e new -> e_idx e = idx) -> sorted (es ++ new).
Proof.
  intros S B Hn l1 e l2 E x Hx.
  apply app_eq_app in E as (l & [[E1 E2]|[E1 E2]]).
  - destruct l as [|y l].
    + rewrite app_nil_r in E1. subst l1. simpl in E2.
      rewrite (Hn e) by (rewrite <- E2; left; reflexivity). apply B, Hx.
    + simpl in E2. inversion E2; subst y. apply (S l1 e l E1 x Hx).
  - rewrite (Hn e) by (rewrite E2; apply in_app_iff; right; left; reflexivity).
    subst l1. apply in_app_iff in Hx as [Hx|Hx]; [apply B, Hx|].
    rewrite (Hn x) by (rewrite E2; apply in_app_iff; left; exact Hx). lia.
Qed.

Section Theorems.
  Variable mtb : N.

  (* one block: with the code's question, no accepted transaction has a signer-backed on-chain conflict *)
  Lemma accepted_no_signer_conflict (es : list cevent) (cur : N) (txs : list ctx) :
    sorted es -> below es cur ->
    block_accepted true mtb es cur txs = true ->
    forall t, In t txs -> signer_conflict es cur mtb t = false.
  Proof.
    intros S B A t Ht. unfold block_accepted in A. rewrite forallb_forall in A. specialize (A t Ht).
    unfold tx_accepted, asked in A. apply negb_true_iff in A.
    unfold signer_conflict. rewrite <- (conflict_records_exact cur mtb es (ct_hash t) (ct_signers t) S B). exact A.
  Qed.

  (* ... spelled out *)
  Lemma accepted_no_signer_conflict' (es : list cevent) (cur : N) (txs : list ctx) :
    sorted es -> below es cur ->
    block_accepted true mtb es cur txs = true ->
    forall t e s, In t txs -> In e es -> traceable (e_idx e) cur mtb = true ->
                  In (ct_hash t) (e_names e) -> In s (ct_signers t) -> ~ In s (e_signers e).
  Proof.
    intros S B A t e s Ht He Tr Hn Hs Hin.
    pose proof (accepted_no_signer_conflict es cur txs S B A t Ht) as F.
    unfold signer_conflict, conflict_spec in F.
    assert (X : existsb (names_and_shares (ct_hash t) (ct_signers t) cur mtb) es = true).
    { apply existsb_exists. exists e. split; auto. unfold names_and_shares.
      rewrite (proj2 (memN_in _ _) Hn), Tr. simpl.
      apply existsb_exists. exists s. split; auto. apply memN_in. exact Hin. }
    rewrite X in F. discriminate.
  Qed.

  (* the invariant of a run *)
  Definition chain_ok (st : N * list cevent) : Prop := sorted (snd st) /\ below (snd st) (fst st).

  Lemma offer_ok a st txs : chain_ok st -> chain_ok (offer a mtb st txs).
  Proof.
    destruct st as [cur es]. intros [S B]. unfold offer.
    destruct (block_accepted a mtb es cur txs); [|split; auto].
    split; simpl.
    - apply (sorted_app es _ (cur + 1)); auto.
      + intros x Hx. specialize (B x Hx). simpl in B. lia.
      + intros e He. apply in_map_iff in He as (t & <- & _). reflexivity.
    - intros e He. apply in_app_iff in He as [He|He].
      + specialize (B e He). simpl in B. lia.
      + apply in_map_iff in He as (t & <- & _). simpl. lia.
  Qed.

  Lemma offers_ok a blocks : forall st, chain_ok st -> chain_ok (offers a mtb st blocks).
  Proof. induction blocks as [|b t IH]; intros st H; simpl; auto. apply IH, offer_ok, H. Qed.

  (* accept: for every sequence of offered blocks, every block the node accepts contains no transaction that an
     earlier ACCEPTED transaction inside the traceable window conflicts with through any shared signer *)
  Theorem accept_no_signer_conflict (pre : list (list ctx)) (txs : list ctx) :
    let st := offers true mtb (0, []) pre in
    fst (offer true mtb st txs) = fst st + 1 ->
    forall t, In t txs -> signer_conflict (snd st) (fst st) mtb t = false.
  Proof.
    intros st Hacc t Ht.
    assert (C : chain_ok st) by (apply offers_ok; split; [apply sorted_nil|intros e []]).
    destruct st as [cur es]. destruct C as [S B]. simpl in *.
    destruct (block_accepted true mtb es cur txs) eqn:A; simpl in Hacc; [|lia].
    exact (accepted_no_signer_conflict es cur txs S B A t Ht).
  Qed.
End Theorems.

(* the variant that asks with the sender only: a conflict backed by the second signer goes through *)
Definition w_es : list cevent := [mkEvent 5 [7] [1]].          (* block 5: a transaction of signer 7 names hash 1 *)
Definition w_t : ctx := mkCtx 1 [3; 7] [].                      (* hash 1, sender 3, second signer 7 *)

Lemma sender_only_refuted :
  fst (offer false 3 (5, w_es) [w_t]) = 6 /\ signer_conflict w_es 5 3 w_t = true /\
  fst (offer true 3 (5, w_es) [w_t]) = 5 /\
  (* outside the window both accept *)
  fst (offer true 3 (8, w_es) [w_t]) = 9 /\ signer_conflict w_es 8 3 w_t = false.
Proof. vm_compute. repeat split. Qed.

Definition accept_no_signer_conflict_statement (all : bool) : Prop :=
  forall (mtb : N) (pre : list (list ctx)) (txs : list ctx),
    let st := offers all mtb (0, []) pre in
    fst (offer all mtb st txs) = fst st + 1 ->
    forall t, In t txs -> signer_conflict (snd st) (fst st) mtb t = false.

Lemma accept_no_signer_conflict_all : accept_no_signer_conflict_statement true.
Proof. intros mtb pre txs. apply accept_no_signer_conflict. Qed.

(* a run that reaches the witness: five empty blocks... the conflicting transaction is accepted in block 1 here *)
Definition w_a : ctx := mkCtx 9 [7] [1].
Lemma accept_no_signer_conflict_sender_only_refuted : ~ accept_no_signer_conflict_statement false.
Proof.
  intros H. specialize (H 3 [[w_a]] [w_t]). simpl in H.
  assert (E : fst (offer false 3 (offers false 3 (0, []) [[w_a]]) [w_t]) = fst (offers false 3 (0, []) [[w_a]]) + 1)
    by (vm_compute; reflexivity).
  specialize (H E w_t (or_introl eq_refl)). vm_compute in H. discriminate.
Qed.
