(* C02 - Reset and the header-hash PAGES.  Anchors: pkg/core/dao DeleteHeaderHashesHead(since), pkg/core/headerhashes.go
   init (the hashes of the last complete page, `previous`, are read from the database at start-up), Blockchain.Reset.
   A page is stored under the index of its first hash f (a multiple of the page size ps) once it is complete:
   f + ps <= number of hashes.  Reset(h) deletes the pages from the page of since = h+1 forwards. *)
From NG Require Import Common.Tactics.
Open Scope N_scope.

Definition stored (ps c f : N) : bool := (f mod ps =? 0) && (f + ps <=? c + 1).   (* chain with headers 0..c *)
Definition kept (ps since f : N) : bool := f + ps <=? since.                     (* DeleteHeaderHashesHead as it is *)
Definition kept_off (ps since f : N) : bool := f + ps <? since.                  (* backward walk stopping one page late *)
Definition kept_next (ps since f : N) : bool := f <=? since.                     (* "from the NEXT page": keeps the page of since *)
Definition after (k : N -> N -> N -> bool) (ps c h f : N) : bool := stored ps c f && k ps (h + 1) f.

(* the page start-up needs at header height h: the last complete one *)
Definition previous (ps h : N) : option N := if (h + 1) / ps =? 0 then None else Some (((h + 1) / ps - 1) * ps).

Theorem reset_keeps_previous_page ps c h f :
  0 < ps -> h <= c -> previous ps h = Some f -> after kept ps c h f = true.
Proof.
  intros P L. unfold previous. destruct ((h + 1) / ps =? 0) eqn:Q; [discriminate|]. intros [= <-].
  apply N.eqb_neq in Q. pose proof (N.mul_div_le (h + 1) ps ltac:(lia)) as D.
  unfold after, stored, kept. rewrite N.mod_mul by lia. simpl.
  apply andb_true_intro; split; apply N.leb_le; nia.
Qed.

(* ... and exactly the pages of a node that only ever saw headers 0..h remain *)
Theorem reset_pages_exact ps c h f : 0 < ps -> h <= c -> after kept ps c h f = stored ps h f.
Proof.
  intros P L. unfold after, stored, kept. destruct (f mod ps =? 0); simpl; [|reflexivity].
  destruct (f + ps <=? h + 1) eqn:A; [apply N.leb_le in A|apply N.leb_gt in A].
  - rewrite andb_true_r. apply N.leb_le. lia.
  - apply andb_false_r.
Qed.

(* the off-by-one: since = 2000 *)
Lemma reset_keeps_previous_page_refuted :
  previous 2000 1999 = Some 0 /\ after kept_off 2000 2013 1999 0 = false /\ after kept 2000 2013 1999 0 = true /\
  (* one less and one more are fine under the off-by-one too: only since = 0 (mod ps) shows it *)
  previous 2000 1998 = None /\ previous 2000 2000 = Some 0 /\ after kept_off 2000 2013 2000 0 = true /\
  (* keeping the page OF since: a complete page with hashes above h survives (h = 3000 on a chain of 4015) *)
  after kept_next 2000 4015 3000 2000 = true /\ stored 2000 3000 2000 = false.
Proof. vm_compute. repeat split. Qed.

(* the list the harness reads off the database after Reset(h) *)
Definition pages_after (ps h : N) : list N := map (fun k => N.of_nat k * ps) (seq 0 (N.to_nat ((h + 1) / ps))).
