From NG Require Import Common.Tactics Node.StorageSync.
Open Scope N_scope.

Lemma skey_eqb_refl k : skey_eqb k k = true.
Proof. destruct k; simpl; auto using N.eqb_refl. Qed.

Lemma sapply_unit d k key :
  sapply d (unit k) key =
  match key with
  | SCkpt => Some k
  | SItems i => if i =? k then Some 1 else d key
  | STrie i => if i =? k - 1 then None else if i =? k then Some 1 else d key
  end.
Proof.
  unfold sapply, unit, supd. simpl. destruct key; simpl; auto.
Qed.

Lemma srange_app lo a b : srange lo (a + b) = srange lo a ++ srange (lo + N.of_nat a) b.
Proof.
  revert lo; induction a as [|a IH]; intros lo; simpl.
  - rewrite N.add_0_r. reflexivity.
  - rewrite IH. f_equal. f_equal. f_equal. lia.
Qed.

Lemma sapply_all_app d a b : sapply_all d (a ++ b) = sapply_all (sapply_all d a) b.
Proof. unfold sapply_all. apply fold_left_app. Qed.

(* the database after k complete batches, key by key *)
Lemma after_units k key : (0 < k)%nat ->
  sapply_all sempty (sync_batches unit k) key =
  match key with
  | SCkpt => Some (N.of_nat k)
  | SItems i => if (0 <? i) && (i <=? N.of_nat k) then Some 1 else None
  | STrie i => if i =? N.of_nat k then Some 1 else None
  end.
Proof.
  induction k as [|k IH]; [lia|]. intros _.
  unfold sync_batches. replace (S k) with (k + 1)%nat by lia.
  rewrite srange_app, map_app, sapply_all_app.
  change (sapply_all (sapply_all sempty (map unit (srange 1 k))) (map unit (srange (1 + N.of_nat k) 1)) key)
    with (sapply (sapply_all sempty (sync_batches unit k)) (unit (1 + N.of_nat k)) key).
  rewrite sapply_unit.
  replace (1 + N.of_nat k) with (N.of_nat (k + 1)) by lia.
  destruct k as [|k'].
  - simpl. destruct key; auto.
    + destruct (N.eqb_spec i 1); subst; auto. destruct (N.ltb_spec 0 i), (N.leb_spec i 1); simpl; auto; lia.
    + destruct (N.eqb_spec i (1 - 1)), (N.eqb_spec i 1); subst; auto; try lia. destruct (i =? 0); reflexivity.
  - specialize (IH ltac:(lia)). destruct key; auto.
    + rewrite IH. destruct (N.eqb_spec i (N.of_nat (S k' + 1))); subst.
      * destruct (N.ltb_spec 0 (N.of_nat (S k' + 1))), (N.leb_spec (N.of_nat (S k' + 1)) (N.of_nat (S k' + 1))); simpl; auto; lia.
      * destruct (N.ltb_spec 0 i), (N.leb_spec i (N.of_nat (S k'))), (N.leb_spec i (N.of_nat (S k' + 1))); simpl; auto; lia.
    + rewrite IH. destruct (N.eqb_spec i (N.of_nat (S k' + 1) - 1)), (N.eqb_spec i (N.of_nat (S k' + 1))), (N.eqb_spec i (N.of_nat (S k'))); auto; lia.
Qed.

Lemma SInv_after k : SInv (sapply_all sempty (sync_batches unit k)).
Proof.
  destruct k as [|k].
  - unfold SInv, ckpt_of; simpl. split; [left; reflexivity|]. split.
    + intros i Hi. split; [intros Hn; exfalso; apply Hn; reflexivity|lia].
    + intros i _. reflexivity.
  - assert (P : (0 < S k)%nat) by lia. unfold SInv, ckpt_of. rewrite (after_units (S k) SCkpt P).
    repeat split.
    + right. rewrite (after_units (S k) _ P), N.eqb_refl. discriminate.
    + rewrite (after_units (S k) _ P). intros Hn. destruct (N.ltb_spec 0 i), (N.leb_spec i (N.of_nat (S k))); simpl in *; auto; try lia; congruence.
    + rewrite (after_units (S k) _ P). intros Hle. destruct (N.ltb_spec 0 i), (N.leb_spec i (N.of_nat (S k))); simpl; try lia; discriminate.
    + intros i Hi. rewrite (after_units (S k) _ P). destruct (N.eqb_spec i (N.of_nat (S k))); auto; lia.
Qed.

(* storage_sync_resumable: when every item batch reaches the database together with its checkpoint, then after
   ANY number k of batches the invariant holds and start-up resumes to exactly the database of the uninterrupted
   synchronisation *)
Theorem storage_sync_resumable n k : (k <= n)%nat ->
  SInv (sapply_all sempty (firstn k (sync_batches unit n))) /\
  resume n (sapply_all sempty (firstn k (sync_batches unit n))) = Some (sapply_all sempty (sync_batches unit n)).
Proof.
  intros Hk.
  assert (Hf : firstn k (sync_batches unit n) = sync_batches unit k).
  { unfold sync_batches. replace n with (k + (n - k))%nat by lia. rewrite srange_app, map_app.
    rewrite firstn_app. rewrite map_length.
    assert (L : forall lo c, length (srange lo c) = c) by (intros lo c; revert lo; induction c; simpl; auto).
    rewrite L. replace (k - k)%nat with 0%nat by lia. simpl. rewrite app_nil_r.
    rewrite firstn_all2; auto. rewrite map_length, L. lia. }
  rewrite Hf. split; [apply SInv_after|].
  unfold resume, ckpt_of.
  destruct k as [|k].
  - simpl. unfold sync_batches. replace (n - 0)%nat with n by lia. reflexivity.
  - assert (P : (0 < S k)%nat) by lia.
    rewrite (after_units (S k) SCkpt P), (after_units (S k) (STrie (N.of_nat (S k))) P), N.eqb_refl.
    rewrite orb_true_r. f_equal.
    unfold sync_batches at 2. replace n with (S k + (n - S k))%nat at 2 by lia.
    rewrite srange_app, map_app, sapply_all_app. fold (sync_batches unit (S k)).
    replace (N.to_nat (N.of_nat (S k))) with (S k) by lia.
    replace (N.of_nat (S k) + 1) with (1 + N.of_nat (S k)) by lia. reflexivity.
Qed.

(* the variant that persists the checkpoint one flush late: after the second flush the checkpoint still names
   batch 1 whose trie the second batch has already dropped - start-up cannot resume; the invariant fails there *)
Lemma storage_sync_late_refuted :
  resume 3 (sapply_all sempty (firstn 2 (sync_batches late_unit 3))) = None /\
  (exists d, resume 3 (sapply_all sempty (firstn 2 (sync_batches unit 3))) = Some d).
Proof. split; [vm_compute; reflexivity|]. eexists. vm_compute. reflexivity. Qed.
