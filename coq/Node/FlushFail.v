(* C01, flushes that FAIL (MemCachedStore.persist, both branches; Blockchain.Run logs a failed persist and carries on).
   The write cache of a node is ONE map (every block's write set is merged into it, newer wins).  A flush moves the
   map aside ([inflight]: the tempstore between the cache and the database, read but never written), gives the cache a
   fresh empty map and writes the moved map to the database WITHOUT holding the lock: blocks are added meanwhile.
   When the write succeeded the moved map is dropped (it is in the database now); when it FAILED the moved map is put
   back under whatever the cache received meanwhile:  maps.Copy(tempstore.mem, s.mem)  = [over cache batch].
   Theorems: neither outcome changes any answer, for every map the cache may hold at that moment; a node living under
   ANY schedule of blocks, begun / succeeded / failed flushes, prunings and restarts answers like the single-map
   reference of Node/Layers.v (hence like every replica of that file fed the same blocks).  The wrong merges (older
   wins, older wins when the newer map is the bigger one, batch dropped, newer deletions lost) are refuted. *)
From NG Require Import Common.Tactics Node.Layers.

Section FlushFail.
Variables K V B R : Type.
Notation store := (store K V).
Notation overlay := (overlay K V).
Notation apply := (apply K V).

(* maps.Copy(older, newer): the newer map's entries (values and deletions alike) win *)
Definition over (newer older : overlay) : overlay :=
  fun k => match newer k with Some x => Some x | None => older k end.
Definition no_writes : overlay := fun _ => None.

Lemma apply_over n o s k : apply (over n o) s k = apply n (apply o s) k.
Proof. unfold over, Layers.apply. destruct (n k); reflexivity. Qed.

Lemma apply_no_writes s k : apply no_writes s k = s k.
Proof. reflexivity. Qed.

Record fnode := mkF { fdb : store; inflight : option overlay; cache : overlay; fheight : nat; fresults : list R }.

Definition below (n : fnode) : store :=
  match inflight n with Some t => apply t (fdb n) | None => fdb n end.
Definition fview (n : fnode) : store := apply (cache n) (below n).

Variable is_hist : K -> bool.
Notation state_eq := (state_eq K V is_hist).
Variable exec : store -> B -> overlay * R.
Hypothesis exec_state_only : forall a b blk, state_eq a b -> exec a blk = exec b blk.

Inductive fevent :=
| FBlock (b : B)
| FBegin                          (* persist: the cache's map is moved aside, the write to the database starts *)
| FEndOk                          (* ... it succeeded *)
| FEndFail                        (* ... it failed: the moved map goes back under the cache *)
| FPrune (p : K -> bool)          (* a node-local option deletes history keys from the database *)
| FRestart.                       (* everything written out, caches dropped *)

Definition f_block (n : fnode) (b : B) : fnode :=
  let '(o, r) := exec (fview n) b in
  mkF (fdb n) (inflight n) (over o (cache n)) (S (fheight n)) (r :: fresults n).

Definition f_begin (n : fnode) : fnode :=
  match inflight n with
  | Some _ => n                   (* persists are serialised (plock) *)
  | None => mkF (fdb n) (Some (cache n)) no_writes (fheight n) (fresults n)
  end.

Definition f_end_ok (n : fnode) : fnode :=
  match inflight n with
  | Some t => mkF (apply t (fdb n)) None (cache n) (fheight n) (fresults n)
  | None => n
  end.

(* the error branch with the merge as a parameter; the code's merge is [over] *)
Definition f_end_fail_with (merge : overlay -> overlay -> overlay) (n : fnode) : fnode :=
  match inflight n with
  | Some t => mkF (fdb n) None (merge (cache n) t) (fheight n) (fresults n)
  | None => n
  end.
Definition f_end_fail := f_end_fail_with over.

Definition f_prune (p : K -> bool) (n : fnode) : fnode :=
  mkF (fun k => if is_hist k && p k then None else fdb n k) (inflight n) (cache n) (fheight n) (fresults n).

Definition f_restart (n : fnode) : fnode := mkF (fview n) None no_writes (fheight n) (fresults n).

Definition f_event (n : fnode) (e : fevent) : fnode :=
  match e with
  | FBlock b => f_block n b
  | FBegin => f_begin n
  | FEndOk => f_end_ok n
  | FEndFail => f_end_fail n
  | FPrune p => f_prune p n
  | FRestart => f_restart n
  end.
Definition f_run (n : fnode) (es : list fevent) : fnode := fold_left f_event es n.

Fixpoint f_blocks (es : list fevent) : list B :=
  match es with
  | [] => []
  | FBlock b :: t => b :: f_blocks t
  | _ :: t => f_blocks t
  end.

(* flush-failure transparency: for EVERY map the cache holds when the write fails (= every set of writes interleaved
   with the flush: any keys, values and deletions, overlapping the batch or not, more or fewer than it) the failed
   persist changes no answer *)
Theorem failed_flush_transparent n : forall k, fview (f_end_fail n) k = fview n k.
Proof.
  intros k. unfold f_end_fail, f_end_fail_with, fview, below.
  destruct (inflight n) as [t|] eqn:E; simpl; [|rewrite E; reflexivity].
  apply apply_over.
Qed.

Theorem begun_flush_transparent n : forall k, fview (f_begin n) k = fview n k.
Proof.
  intros k. unfold f_begin, fview, below. destruct (inflight n) as [t|] eqn:E; simpl; [rewrite E; reflexivity|reflexivity].
Qed.

Theorem succeeded_flush_transparent n : forall k, fview (f_end_ok n) k = fview n k.
Proof.
  intros k. unfold f_end_ok, fview, below. destruct (inflight n) as [t|] eqn:E; simpl; [reflexivity|rewrite E; reflexivity].
Qed.

(* ... and the database is what it was: nothing of the failed batch is assumed to be there *)
Theorem failed_flush_keeps_db n : fdb (f_end_fail n) = fdb n.
Proof. unfold f_end_fail, f_end_fail_with. destruct (inflight n); reflexivity. Qed.

Lemma apply_state_eq o a b : state_eq a b -> state_eq (apply o a) (apply o b).
Proof. intros H k Hk. unfold Layers.apply. destruct (o k); [reflexivity|apply H; exact Hk]. Qed.

Lemma prune_view p n : state_eq (fview (f_prune p n)) (fview n).
Proof.
  unfold fview, below, f_prune; simpl. apply apply_state_eq.
  assert (H : state_eq (fun k => if is_hist k && p k then None else fdb n k) (fdb n))
    by (intros k Hk; rewrite Hk; reflexivity).
  destruct (inflight n); [apply apply_state_eq|]; exact H.
Qed.

Definition ftied (n : fnode) (sr : store * list R) : Prop :=
  state_eq (fview n) (fst sr) /\ fresults n = snd sr.

Notation ideal_step := (ideal_step K V B R exec).

Lemma f_event_tied n sr e :
  ftied n sr -> ftied (f_event n e) (match e with FBlock b => ideal_step sr b | _ => sr end).
Proof.
  intros [Hv Hr]. destruct e as [b| | | |p|]; simpl.
  - unfold f_block, Layers.ideal_step. rewrite (exec_state_only _ _ b Hv).
    destruct (exec (fst sr) b) as [o r]. split; simpl; [|congruence].
    intros k Hk. unfold fview; simpl. change (below (mkF (fdb n) (inflight n) (over o (cache n)) (S (fheight n)) (r :: fresults n))) with (below n).
    rewrite apply_over. unfold Layers.apply at 1. unfold Layers.apply at 2.
    destruct (o k); [reflexivity|]. apply (Hv k Hk).
  - split; [|unfold f_begin; destruct (inflight n); exact Hr].
    intros k Hk. rewrite begun_flush_transparent. apply Hv; exact Hk.
  - split; [|unfold f_end_ok; destruct (inflight n); exact Hr].
    intros k Hk. rewrite succeeded_flush_transparent. apply Hv; exact Hk.
  - split; [|unfold f_end_fail, f_end_fail_with; destruct (inflight n); exact Hr].
    intros k Hk. rewrite failed_flush_transparent. apply Hv; exact Hk.
  - split; [|exact Hr]. intros k Hk. rewrite (prune_view p n k Hk). apply Hv; exact Hk.
  - split; [|exact Hr]. exact Hv.
Qed.

Lemma f_run_tied es : forall n sr, ftied n sr -> ftied (f_run n es) (fold_left ideal_step (f_blocks es) sr).
Proof.
  induction es as [|e t IH]; intros n sr H; simpl; [exact H|].
  pose proof (f_event_tied n sr e H) as H'.
  destruct e; simpl; apply IH; exact H'.
Qed.

Definition f_start (s0 : store) : fnode := mkF s0 None no_writes 0 [].

(* a node whose flushes begin, succeed and FAIL at any moments, with any blocks in between, answers on every state key
   like the single-map reference, and reports the same execution results *)
Theorem faulty_node_refines_ideal (s0 : store) es :
  let n := f_run (f_start s0) es in
  state_eq (fview n) (fst (ideal K V B R exec s0 (f_blocks es))) /\ fresults n = snd (ideal K V B R exec s0 (f_blocks es)).
Proof.
  intros n. apply f_run_tied. split; [intros k _; reflexivity|reflexivity].
Qed.

(* ... hence like every replica of Node/Layers.v (flushes that succeed, prunings, restarts) fed the same blocks *)
Theorem faulty_node_agrees_with_replica (s0 : store) es (es' : list (event K B)) :
  f_blocks es = blocks_of K B es' ->
  let n := f_run (f_start s0) es in
  let m := run K V B R is_hist exec (mkNode K V R s0 [] 0 []) es' in
  state_eq (fview n) (view K V R m) /\ fresults n = results K V R m.
Proof.
  intros Hb n m.
  destruct (faulty_node_refines_ideal s0 es) as [V1 R1].
  destruct (node_refines_ideal K V B R is_hist exec exec_state_only s0 es') as [V2 R2].
  fold n in V1, R1. fold m in V2, R2. rewrite Hb in V1, R1. split.
  - intros k Hk. rewrite (V1 k Hk), (V2 k Hk). reflexivity.
  - congruence.
Qed.

End FlushFail.

(* ---------- the wrong merges, refuted on one small state ---------- *)
(* keys and values are numbers; the database holds key 2; the batch in flight put keys 0 and 2 := 1 and deleted nothing;
   while it was being written the cache received 0 := 7, a deletion of key 2 and 1 := 5 *)
Definition w_db : store nat nat := fun k => if Nat.eqb k 2 then Some 9 else None.
Definition w_batch : overlay nat nat := fun k => if Nat.eqb k 0 then Some (Some 1) else if Nat.eqb k 2 then Some (Some 1) else None.
Definition w_newer : overlay nat nat :=
  fun k => if Nat.eqb k 0 then Some (Some 7) else if Nat.eqb k 2 then Some None else if Nat.eqb k 1 then Some (Some 5) else None.
Definition w_node : fnode nat nat unit := mkF nat nat unit w_db (Some w_batch) w_newer 3 [].

(* older wins (merge direction swapped) *)
Definition over_swapped (newer older : overlay nat nat) : overlay nat nat := over nat nat older newer.
(* the batch is dropped *)
Definition over_dropped (newer older : overlay nat nat) : overlay nat nat := newer.
(* the deletions of the newer map are lost *)
Definition over_no_tombstones (newer older : overlay nat nat) : overlay nat nat :=
  fun k => match newer k with Some (Some v) => Some (Some v) | _ => older k end.
(* the bigger map is reused as the target (the smaller one copied into it): older wins whenever the newer is bigger *)
Definition osize (o : overlay nat nat) : nat := length (filter (fun k => match o k with Some _ => true | None => false end) [0;1;2;3]).
Definition over_bigger_target (newer older : overlay nat nat) : overlay nat nat :=
  if Nat.ltb (osize older) (osize newer) then over nat nat older newer else over nat nat newer older.

Theorem wrong_merges_refuted :
  fview nat nat unit (f_end_fail nat nat unit w_node) 0 = fview nat nat unit w_node 0
  /\ fview nat nat unit (f_end_fail nat nat unit w_node) 2 = None
  /\ fview nat nat unit w_node 0 = Some 7 /\ fview nat nat unit w_node 2 = None
  /\ fview nat nat unit (f_end_fail_with nat nat unit over_swapped w_node) 0 = Some 1
  /\ fview nat nat unit (f_end_fail_with nat nat unit over_bigger_target w_node) 0 = Some 1
  /\ osize w_batch < osize w_newer
  /\ fview nat nat unit (f_end_fail_with nat nat unit over_dropped w_node) 2 = None
  /\ fview nat nat unit (f_end_fail_with nat nat unit over_dropped (mkF nat nat unit w_db (Some w_batch) (no_writes nat nat) 3 [])) 0 = None
  /\ fview nat nat unit (mkF nat nat unit w_db (Some w_batch) (no_writes nat nat) 3 []) 0 = Some 1
  /\ fview nat nat unit (f_end_fail_with nat nat unit over_no_tombstones w_node) 2 = Some 1.
Proof. vm_compute. repeat split; lia. Qed.
