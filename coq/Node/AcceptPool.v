(* C06 - block acceptance and the node's OWN mempool over several blocks.

   Anchors: pkg/core/blockchain.go AddBlock 1858-1871 (a block transaction found in the node's mempool is
   NOT verified again, it is only added to the per-block pool), storeBlock 2143-2146 (height is moved to
   the new block, THEN bc.memPool.RemoveStale(IsTxStillRelevant ...) re-examines every pooled transaction),
   IsTxStillRelevant 3127-3159, verifyAndPoolTx (what a fresh verification checks).

   So the validity, at the moment a block is offered, of a transaction the node already holds rests on the
   pool having been refreshed correctly when the previous block was stored. *)
From NG Require Import Common.Tactics Node.Accept.
Open Scope N_scope.

Section Pool.
  (* [tx_valid h t]: a fresh verification (verifyAndPoolTx) of t on the state after block h lets_in it *)
  Variable tx_valid : N -> N -> bool.
  (* [relevant h t]: what the refresh evaluates for a pooled transaction at height h (IsTxStillRelevant +
     fee/balance re-check of RemoveStale) *)
  Variable relevant : N -> N -> bool.
  Variable verify : bool.          (* VerifyTransactions *)
  Variable refresh_new : bool.     (* the refresh runs AFTER the height moved to the stored block (the code);
                                      false = a refresh evaluated against the old height *)

  Definition in_pool (pool : list N) (t : N) : bool := existsb (N.eqb t) pool.

  (* AddBlock's loop: pooled => taken as verified; otherwise verified now *)
  Definition lets_in (n : N) (pool : list N) (t : N) : bool :=
    negb verify || in_pool pool t || tx_valid n t.
  Definition block_ok (n : N) (pool txs : list N) : bool := forallb (lets_in n pool) txs.

  (* storeBlock of block n+1 *)
  Definition refresh (n : N) (pool txs : list N) : list N :=
    filter (relevant (if refresh_new then n + 1 else n)) (remove_all txs pool).

  Inductive pop := PoolTx (t : N) | OfferBlock (txs : list N).

  Definition pstep (st : N * list N) (o : pop) : N * list N :=
    let '(n, pool) := st in
    match o with
    | PoolTx t => if tx_valid n t && negb (in_pool pool t) then (n, t :: pool) else (n, pool)
    | OfferBlock txs => if block_ok n pool txs then (n + 1, refresh n pool txs) else (n, pool)
    end.

  Definition prun (st : N * list N) (ops : list pop) : N * list N := fold_left pstep ops st.

  Definition PoolOK (st : N * list N) : Prop := forall t, In t (snd st) -> tx_valid (fst st) t = true.
End Pool.
