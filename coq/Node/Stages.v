(* C02 - the two multi-step database transformations (definitions only; everything computes).

   Anchors: pkg/core/blockchain.go resetStateInternal (Reset) and jumpToStateInternal (state jump),
   init (resumption of a recorded stage), pkg/core/statesync/module.go defineSyncStage.

   Both are stage machines: every stage ends by persisting the marker of the NEXT thing to do
   (SYSStateChangeStage; bit 7 set = reset).  The stage order is transcribed from the `switch` with
   its `fallthrough`s: reset: none -> stateJumpStarted(2) -> staleBlocksRemoved(8) ->
   newStorageItemsAdded(4) -> headersReset(16) -> transfersReset(32) -> [SeekGC] -> marker removed;
   jump: none -> stateJumpStarted(2) -> newStorageItemsAdded(4) -> staleBlocksRemoved(8) -> marker removed.

   Three places where the code at the pinned commit is not crash-safe are switches of the model
   (record [fixes]); [fixes_none] is the code as it stands, [fixes_all] the code with the repairs
   fixes/F20..F22 applied. *)
From NG Require Import Common.Tactics Node.Crash.
Open Scope N_scope.

Record fixes := mkFixes {
  fx_keep_headers : bool;     (* F20: Reset keeps the headers of the blocks it removes until the header stage *)
  fx_sr_init : bool;          (* F21: a reset resumed at transfersReset initialises the state root module *)
  fx_jump_on_restart : bool   (* F22: a restart after the last synchronised block performs the pending jump *)
}.
Definition fixes_none := mkFixes false false false.
Definition fixes_all := mkFixes true true true.

Section Stages.
  Variable St : Type.
  Variable Rt : Type.
  Variable exec : St -> N -> St.
  Variable root : St -> Rt.
  Variable genesis : St.
  Variable ntx : N -> N.
  Variable PS : N.
  Variable trusted : N.
  Variable unroot : Rt -> St.     (* reading the whole contract storage back through the trie of a root (C03) *)
  Variable fx : fixes.

  Notation val := (val St Rt).
  Notation batch := (batch St Rt).
  Notation db := (db St Rt).
  Notation node := (node St Rt).

  Fixpoint range (lo : N) (cnt : nat) : list N :=
    match cnt with O => [] | S c => lo :: range (lo + 1) c end.
  (* indices in (a, b] *)
  Definition irange (a b : N) : list N := range (a + 1) (N.to_nat (b - a)).

  (* the keys of one class that are present in a database (a Seek over a prefix) *)
  Definition present (d : db) (k : key) : bool :=
    match get d k with Some _ => true | None => false end.
  Fixpoint nodup_keys (l : list key) : list key :=
    match l with
    | [] => []
    | k :: t => if existsb (key_eqb k) t then nodup_keys t else k :: nodup_keys t
    end.
  Definition scan (P : key -> bool) (d : db) : list key :=
    filter (fun k => P k && present d k) (nodup_keys (map fst d)).

  Fixpoint thread (fs : list (db -> batch)) (d : db) : list batch :=
    match fs with
    | [] => []
    | f :: t => f d :: thread t (apply d (f d))
    end.

  (* ================= Reset(h) ================= *)
  Definition marker (reset : bool) (s : N) : key * option val := (KStage, Some (VStage reset s)).

  Definition reset_b0 (h : N) (_ : db) : batch :=
    [(KSyncPoint, Some (VNum h)); marker true 2].

  (* DeleteBlock for every block above h: the block record goes (with the F20 repair the header is
     stored back), the transaction records go *)
  Definition reset_b1 (h c : N) (_ : db) : batch :=
    map (fun i => (KExec i, if fx_keep_headers fx then Some VHdr else None)) (irange h c) ++
    map (fun i => (KTxs i, None)) (filter (fun i => negb (ntx i =? 0)) (irange h c)) ++
    [marker true 8].

  (* the contract storage of height h, read through the trie of root h, is written under the other prefix *)
  Definition reset_b2 (h : N) (d : db) : batch :=
    match get d (KRoot h) with
    | Some (VRoot r) => [(KState (negb (cur_prefix d)), Some (VSt (unroot r)))]
    | _ => []
    end ++ [marker true 4].

  Definition is_page_from (lo : N) (k : key) : bool :=
    match k with KPage n => lo <=? n | _ => false end.
  Definition is_root_above (h : N) (k : key) : bool :=
    match k with KRoot j => h <? j | _ => false end.
  Definition is_xfer_above (h : N) (k : key) : bool :=
    match k with KXfer j => h <? j | _ => false end.

  (* headers above h are purged, header hash pages from the one containing h+1 are dropped, both tip
     pointers move to h, the version switches to the other storage prefix *)
  Definition reset_b3 (h hh : N) (d : db) : batch :=
    map (fun i => (KExec i, None)) (irange h hh) ++
    map (fun k => (k, None)) (scan (is_page_from ((h + 1) / PS * PS)) d) ++
    [(KCurBlock, Some (VNum h)); (KCurHeader, Some (VNum h));
     (KVersion, Some (VPrefix (negb (cur_prefix d)))); marker true 16].

  (* stateroot.ResetState + resetTransfers *)
  Definition reset_b4 (h : N) (d : db) : batch :=
    match get d (KRoot h) with Some v => [(KRoot h, Some v)] | None => [] end ++
    map (fun k => (k, None)) (scan (is_root_above h) d) ++
    [(KXfer h, Some VUnit)] ++
    map (fun k => (k, None)) (scan (is_xfer_above h) d) ++
    [marker true 32].

  (* SeekGC over the storage prefix that is no longer current *)
  Definition reset_gc (d : db) : batch := [(KState (negb (cur_prefix d)), None)].

  Definition reset_b5 (_ : db) : batch := [(KStage, None); (KSyncPoint, None)].

  Definition reset_steps (h c hh : N) : list (db -> batch) :=
    [reset_b0 h; reset_b1 h c; reset_b2 h; reset_b3 h hh; reset_b4 h; reset_gc; reset_b5].

  (* how many steps are behind a recorded marker *)
  Definition reset_done (s : N) : nat :=
    if s =? 2 then 1 else if s =? 8 then 2 else if s =? 4 then 3 else if s =? 16 then 4
    else if s =? 32 then 5 else 0.

  Definition reset_batches (h c hh : N) (s : N) (d : db) : list batch :=
    thread (skipn (reset_done s) (reset_steps h c hh)) d.

  (* ---- the two writers of Reset ----
     resetStateInternal does not write its stage batches itself: it hands them, one by one, to a helper goroutine
     over an UNBUFFERED channel (persistCh); the helper persists them in the order received.  One operation goes
     to the database directly from Reset's own goroutine: the SeekGC over the old contract storage prefix
     (step 5 of [reset_steps]); it is issued after the fifth batch has been handed over and before the last
     batch is even produced.  What the helper has received it may not have persisted yet.
       writers:   queue  = steps 0,1,2,3,4,6 (background, FIFO)        direct = step 5
       order at the store when j queue entries land before the direct operation: [reset_order l j]
     Happens-before edges the code enforces: FIFO of the queue; direct before queue entry 5 (program order: the
     last batch is produced after SeekGC returns); and hand-over i completes only when the helper has TAKEN it,
     i.e. has finished persisting entry i-1 - with a channel of capacity cap, entry i-1-cap.  The direct
     operation follows hand-over 4: at least 4 - cap entries have landed. *)
  Definition reset_queue (l : list batch) : list batch := firstn 5 l ++ skipn 6 l.
  Definition reset_direct (l : list batch) : batch := nth 5 l [].
  Definition reset_order (l : list batch) (j : nat) : list batch :=
    firstn j (reset_queue l) ++ reset_direct l :: skipn j (reset_queue l).
  Definition reset_admissible (cap j : nat) : bool := (4 - cap <=? j)%nat && (j <=? 5)%nat.

  (* ================= state jump to p ================= *)
  Definition jump_b0 (_ : db) : batch := [marker false 2].
  Definition jump_b1 (d : db) : batch :=
    [(KVersion, Some (VPrefix (negb (cur_prefix d)))); marker false 4].
  (* old storage dropped; genesis block and all transfer data dropped when p > MaxTraceableBlocks;
     the tip pointer moves to p *)
  Definition is_xfer (k : key) : bool := match k with KXfer _ => true | _ => false end.
  Definition jump_b2 (p mtb : N) (d : db) : batch :=
    [(KState (negb (cur_prefix d)), None)] ++
    (if mtb <? p then
       [(KExec 0, None)] ++ (if ntx 0 =? 0 then [] else [(KTxs 0, None)]) ++
       map (fun k => (k, None)) (scan is_xfer d)
     else []) ++
    [(KCurBlock, Some (VNum p)); marker false 8].
  (* stateroot.JumpToState: root of p recorded (taken from header p+1), marker removed *)
  Definition jump_b3 (p : N) (r : Rt) (_ : db) : batch :=
    [(KRoot p, Some (VRoot r)); (KStage, None)].

  Definition jump_steps (p mtb : N) (r : Rt) : list (db -> batch) :=
    [jump_b0; jump_b1; jump_b2 p mtb; jump_b3 p r].
  Definition jump_done (s : N) : nat :=
    if s =? 2 then 1 else if s =? 4 then 2 else if s =? 8 then 3 else 0.
  Definition jump_batches (p mtb : N) (r : Rt) (s : N) (d : db) : list batch :=
    thread (skipn (jump_done s) (jump_steps p mtb r)) d.

  (* ================= start-up with resumption ================= *)
  Inductive outcome :=
  | Up (n : node)        (* the node is up and usable *)
  | Broken (n : node)    (* start-up succeeds, but the state root module is not initialised: the first
                            state root query / block panics *)
  | Stuck (n : node)     (* start-up succeeds, synchronisation reports completion, the node is below the
                            state sync point and can accept nothing *)
  | Fail.                (* start-up returns an error *)

  Definition is_blk (d : db) (i : N) : bool :=
    match get d (KExec i) with Some VBlk => true | _ => false end.

  (* [synced d p]: headers, trie and blocks of a state synchronisation to p are all in the database *)
  Variable synced : db -> N -> bool.
  Variable mtb : N.
  Variable sync_root : N -> Rt.    (* PrevStateRoot of header p+1 *)

  Definition boot (d : db) : outcome :=
    match recover St Rt root genesis ntx PS trusted d with
    | RFail => Fail
    | RNode n =>
        (* no marker.  A light node whose synchronisation data is complete but which has not jumped yet: *)
        match get d KSyncPoint with
        | Some (VNum p) =>
            if (height n <? p) && synced d p then
              if fx_jump_on_restart fx then
                Up (mkNode (apply_all d (jump_batches p mtb (sync_root p) 1 d)) [] p (hheight n))
              else Stuck n
            else Up n
        | _ => Up n
        end
    | RResume n true s h =>
        (* resetStateInternal(h, s): block h and its state root must be readable *)
        if is_blk d h && present d (KRoot h) then
          let bs := reset_batches h (height n) (hheight n) s d in
          let n' := mkNode (apply_all d bs) [] h h in
          if (s =? 32) && negb (fx_sr_init fx) then Broken n' else Up n'
        else Fail
    | RResume n false s p =>
        if p <? hheight n then
          Up (mkNode (apply_all d (jump_batches p mtb (sync_root p) s d)) [] p (hheight n))
        else Fail
    end.

  (* Reset(h) on a freshly opened node at height c with headers up to hh *)
  Definition reset (h : N) (n : node) : list batch :=
    reset_batches h (height n) (hheight n) 1 (disk n).

End Stages.

Arguments Up {St Rt}. Arguments Broken {St Rt}. Arguments Stuck {St Rt}. Arguments Fail {St Rt}.
Arguments present {St Rt}. Arguments scan {St Rt}. Arguments thread {St Rt}.
Arguments reset_queue {St Rt}. Arguments reset_direct {St Rt}. Arguments reset_order {St Rt}.
