(* C06 - the node's own mempool after a committee change of a POLICY value.

   Anchors: pkg/core/blockchain.go verifyAndPoolTx (a fresh verification: ValidUntilBlock <= height + Policy's
   MaxValidUntilBlockIncrement; network fee >= size * FeePerByte + attribute fees, and what is left pays for the
   witnesses at Policy's ExecFeeFactor), IsTxStillRelevant (the refresh after a block), pkg/core/mempool RemoveStale /
   loadPolicy / checkPolicy (the pool's cached fee per byte).

   Policy is a function of the height (the blocks decide it).  A transaction: size, the price units of its witnesses,
   its attributes, its network fee, ValidUntilBlock.  [pvalid] is the fresh verification as far as Policy goes.  The
   refresh variants are instances of [relevant] of Node/AcceptPool.v. *)
From NG Require Import Common.Tactics Node.AcceptPool Node.AcceptPoolProofs.
Open Scope N_scope.

Record policy := mkPol { fpb : N; execf : N; attrf : N; vubinc : N }.
Record ptx := mkPtx { p_size : N; p_wit : N; p_attrs : N; p_fee : N; p_vub : N }.

Section Policy.
  Variable pol : N -> policy.       (* Policy in force at height h *)
  Variable txs : N -> ptx.          (* transactions by hash *)

  Definition need (h : N) (x : ptx) : N :=
    p_size x * fpb (pol h) + p_attrs x * attrf (pol h) + p_wit x * execf (pol h).
  (* a fresh verification at height h, as far as Policy goes *)
  Definition pvalid (h t : N) : bool :=
    let x := txs t in (h <? p_vub x) && (p_vub x <=? h + vubinc (pol h)) && (need h x <=? p_fee x).

  (* the refresh that repeats it *)
  Definition relevant_full : N -> N -> bool := pvalid.

  (* the pool's cached fee per byte: the largest value seen up to height h *)
  Fixpoint maxfpb (n : nat) : N :=
    match n with O => fpb (pol 0) | S k => N.max (maxfpb k) (fpb (pol (N.of_nat (S k)))) end.
  (* the refresh of the pinned code: expiry, and - only when FeePerByte exceeds every value seen before - the
     transaction's fee per byte (network fee / size) against it *)
  Definition relevant_cached (h t : N) : bool :=
    let x := txs t in
    (h <? p_vub x) &&
    (if maxfpb (N.to_nat (h - 1)) <? fpb (pol h) then fpb (pol h) <=? p_fee x / p_size x else true).

  (* the pool is sound under the full refresh, for every Policy trajectory and every history *)
  Theorem policy_pool_sound verify ops n0 :
    PoolOK pvalid (prun pvalid relevant_full verify true (n0, []) ops).
  Proof. apply pool_sound; intros h t H; exact H. Qed.

  Theorem policy_pooled_valid_at_offer ops n0 bt :
    let st := prun pvalid relevant_full true true (n0, []) ops in
    block_ok pvalid true (fst st) (snd st) bt = true -> forall t, In t bt -> pvalid (fst st) t = true.
  Proof. intros st H t I. eapply (pooled_valid_at_offer pvalid relevant_full true); eauto. Qed.
End Policy.

(* ---- witnesses: transaction 7 = 250 bytes, one signature (983040 units at factor 30 = 1), minimal fee at height 1.
   Policy at heights 1, 2, 3, ... *)
Definition wpol (l : list policy) (h : N) : policy := nth (N.to_nat h) l (mkPol 1000 30 0 100).
Definition w_tx (x : ptx) (t : N) : ptx := if t =? 7 then x else mkPtx 1 0 0 1000000 1000.
Definition w_ops := [PoolTx 7; OfferBlock []; OfferBlock [7]].
Definition p0 := mkPol 1000 30 0 100.
Definition t_min := mkPtx 250 32768 0 (250 * 1000 + 32768 * 30) 3.

(* FeePerByte x3 in block 2: the fee per byte of T (network fee / size = 4932) stays above 3000, the pool of the pinned
   code keeps T and block 3 carrying it is accepted; T is invalid at height 2 *)
Definition pol_fpb3 := wpol [p0; p0; mkPol 3000 30 0 100; mkPol 3000 30 0 100].
(* ExecFeeFactor x3 *)
Definition pol_exec3 := wpol [p0; p0; mkPol 1000 90 0 100; mkPol 1000 90 0 100].
(* the fee of T's attribute raised from 0 *)
Definition t_attr := mkPtx 250 32768 1 (250 * 1000 + 32768 * 30) 3.
Definition pol_attr := wpol [p0; p0; mkPol 1000 30 5000000 100; mkPol 1000 30 5000000 100].
(* MaxValidUntilBlockIncrement lowered to 1, T's ValidUntilBlock = 50 *)
Definition t_far := mkPtx 250 32768 0 (250 * 1000 + 32768 * 30) 50.
Definition pol_vub := wpol [p0; p0; mkPol 1000 30 0 1; mkPol 1000 30 0 1].
(* FeePerByte 1000 at height 0, 500 at height 1 (T: 6000 bytes, minimal fee under 500), 900 at height 2: not above
   the largest value seen, the cached value does not move *)
Definition t_big := mkPtx 6000 32768 0 (6000 * 500 + 32768 * 30) 3.
Definition pol_downup := wpol [p0; mkPol 500 30 0 100; mkPol 900 30 0 100; mkPol 900 30 0 100].

Definition stale_accepted (pl : N -> policy) (x : ptx) : Prop :=
  prun (pvalid pl (w_tx x)) (relevant_cached pl (w_tx x)) true true (1, []) w_ops = (3, []) /\
  pvalid pl (w_tx x) 1 7 = true /\ pvalid pl (w_tx x) 2 7 = false /\
  prun (pvalid pl (w_tx x)) (relevant_full pl (w_tx x)) true true (1, []) w_ops = (2, []).

Lemma policy_refresh_cached_refuted :
  stale_accepted pol_fpb3 t_min /\ stale_accepted pol_exec3 t_min /\ stale_accepted pol_attr t_attr /\
  stale_accepted pol_vub t_far /\ stale_accepted pol_downup t_big.
Proof. repeat split; vm_compute; reflexivity. Qed.

(* what the pinned refresh does catch: FeePerByte x20, above T's fee per byte *)
Definition pol_fpb20 := wpol [p0; p0; mkPol 20000 30 0 100; mkPol 20000 30 0 100].
Lemma policy_refresh_cached_fpb20 :
  prun (pvalid pol_fpb20 (w_tx t_min)) (relevant_cached pol_fpb20 (w_tx t_min)) true true (1, []) w_ops = (2, []).
Proof. vm_compute. reflexivity. Qed.
