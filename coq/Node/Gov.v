(* C01, governance part: the NEO and Policy caches as derived state.
   [reinit] (Tokens/Model.v) is what InitializeCache of NEO and Policy rebuild from storage on a restart.
   [Coh st]: the incrementally maintained caches of a continuously running node agree with storage in the sense
   that every answer computed from them equals the answer of a restarted node.  Proved for the REPAIRED code
   (fix_block_dirty: Policy block/unblock mark the committee cache dirty — finding F7; fix_gpv_drop:
   dropCandidateIfZero removes the cached gas-per-vote — finding F23); for the unrepaired settings the two
   counter-examples are at the end of Node/GovProofs.v. *)
From NG Require Import Common.Tactics Tokens.Model Tokens.MapLemmas Tokens.Inv Auth.PermStore Auth.PermStoreProofs.
Open Scope Z_scope.

(* the gas-per-block cache is an append-only slice: setting the value twice in one block leaves two entries with
   the same index, storage keeps the last one *)
Fixpoint dedup (l : list (Z * Z)) : list (Z * Z) :=
  match l with
  | [] => []
  | (i, v) :: t =>
      match dedup t with
      | (j, w) :: t' => if i =? j then (i, v) :: t' else (i, v) :: (j, w) :: t'
      | [] => [(i, v)]
      end
  end.

(* NEO.GetGASPerBlock(index) and the sum of CalculateNEOHolderReward, read from the cached history: the cache is the
   append-only slice (here newest first), scanned from the newest record: of several records with one index the one
   appended LAST answers *)
Definition gas_per_block (st : state) (idx : Z) : Z := gpb_at (c_gpb (A st)) idx.
Definition gas_sum_over (st : state) (start en : Z) : Z := holder_sum (c_gpb (A st)) start en 0.

(* the wrong reading: of the records with one index the one appended FIRST answers (a scan from the oldest end that
   stops at the first record of the greatest index <= idx) *)
Fixpoint gpb_at_first (rev_gr : list (Z * Z)) (idx : Z) : Z :=
  match rev_gr with
  | [] => 0
  | (i, g) :: t =>
      if i <=? idx
      then match t with (j, _) :: _ => if i =? j then gpb_at_first t idx else g | [] => g end
      else gpb_at_first t idx
  end.

Definition rec_head (recs : list (Z * list N)) : Z * list N :=
  match recs with r :: _ => r | [] => (0, []) end.

Lemma aget_reinit_ds (m : amap (list (Z * list N))) role :
  aget (0, []) role (map (fun '(r, recs) => (r, match recs with rec :: _ => rec | [] => (0, []) end)) m)
  = rec_head (aget [] role m).
Proof.
  induction m as [|[r recs] m IH]; simpl; [reflexivity|].
  destruct (N.eqb role r); [destruct recs; reflexivity|exact IH].
Qed.

(* the stored form of a contract state reads back as the state itself: Permission.FromStackItem inverts ToStackItem
   (Auth/PermStoreProofs.v, perms_roundtrip) *)
Lemma load_store c : load (store_of c) = c.
Proof.
  destruct c as [p i cn v ps gs sf]. unfold load, store_of.
  cbn [ms_present ms_id ms_counter ms_version ms_perms ms_groups ms_safe mc_present mc_id mc_counter mc_version mc_perms mc_groups mc_safe].
  rewrite perms_roundtrip. reflexivity.
Qed.

Lemma load_ms0 : load ms0 = mc0.
Proof. apply load_store. Qed.

Lemma aget_reinit_mg (m : amap mstored) h :
  aget mc0 h (map (fun '(k, s) => (k, load s)) m) = load (aget ms0 h m).
Proof.
  induction m as [|[k s] m IH]; simpl; [symmetry; apply load_ms0|].
  destruct (N.eqb h k); [reflexivity|exact IH].
Qed.

Section Gov.
Variable cfg : config.

(* coherence that holds between any two operations *)
Record CohTx (st : state) : Prop := mkCT {
  ct_regprice : c_regprice (A st) = s_regprice (A st);
  ct_blocked : c_blocked (A st) = s_blocked (A st);
  ct_policy : p_cache (A st) = p_store (A st);
  ct_gpb : s_gpb (A st) = dedup (c_gpb (A st));
  ct_gpv : forall k v, aget None k (c_gpv (A st)) = Some v -> aget 0 k (s_gpv (A st)) = v;
  ct_dirty : votes_changed (A st) = false -> compute_committee cfg st = ne_committee (A st);
  (* Designate: the cached role data is the newest stored record; Management: the cached contract states are what
     InitializeCache reads back from the stored (stack-item) form, field by field *)
  ct_ds : forall role, aget (0, []) role (ds_cache (X st)) = rec_head (aget [] role (ds_store (X st)));
  ct_mg : forall h, aget mc0 h (mg_cache (X st)) = load (aget ms0 h (mg_store (X st)))
}.

(* coherence at a block boundary *)
Record Coh (st : state) : Prop := mkCoh {
  coh_tx : CohTx st;
  coh_mid : (height (A st) + 1) mod csize cfg <> 0 -> ne_committee (A st) = committee (A st);
  coh_end : (height (A st) + 1) mod csize cfg = 0 -> ne_committee (A st) = compute_committee cfg st
}.

(* what a client can ask: committee, next block validators, validators of the next epoch, policy answers,
   register price *)
Definition obs (st : state) :=
  (committee_sorted st, next_validators cfg st, compute_next_validators cfg st,
   c_blocked (A st), p_cache (A st), c_regprice (A st)).

(* ... and, per role / height / contract: the designated nodes, the contract state, the whitelisted fee *)
Definition obsX (st : state) (role : N) (index : Z) (a : N) :=
  (designated st role index, contract_of st a, whitelisted_fee st a).

(* the storage of the modelled contracts *)
Definition sto (st : state) :=
  (L st, height (A st), committee (A st), s_gpv (A st), s_gpb (A st), s_regprice (A st), s_blocked (A st), p_store (A st),
   ds_store (X st), mg_store (X st), mg_ids (X st), mg_next (X st)).

Lemma compute_committee_ext st st' :
  l_cands (L st') = l_cands (L st) -> c_blocked (A st') = c_blocked (A st) ->
  l_voters (L st') = l_voters (L st) -> l_neo_total (L st') = l_neo_total (L st) ->
  compute_committee cfg st' = compute_committee cfg st.
Proof.
  intros H1 H2 H3 H4. unfold compute_committee, eligible, is_blocked. rewrite H1, H2, H3, H4. reflexivity.
Qed.

Lemma reinit_sto st : sto (reinit cfg st) = sto st.
Proof. unfold reinit, sto. destruct ((height (A st) + 1) mod csize cfg =? 0); reflexivity. Qed.

Lemma reinit_compute st : c_blocked (A st) = s_blocked (A st) ->
  compute_committee cfg (mkSt (L st) (mkA (height (A st)) (committee (A st)) (committee (A st)) true (s_gpv (A st)) []
     (s_gpb (A st)) (s_gpb (A st)) (s_regprice (A st)) (s_regprice (A st)) (s_blocked (A st)) (s_blocked (A st))
     (p_store (A st)) (p_store (A st))) (reinit_ext (X st))) = compute_committee cfg st.
Proof. intros H. apply compute_committee_ext; simpl; auto. Qed.

(* a coherent node answers like a restarted one, and restarting keeps it coherent *)
Lemma reinit_X st : X (reinit cfg st) = reinit_ext (X st).
Proof. unfold reinit. destruct (_ =? 0); reflexivity. Qed.

Lemma reinit_pcache st : p_cache (A (reinit cfg st)) = p_store (A st).
Proof. unfold reinit. destruct (_ =? 0); reflexivity. Qed.

Theorem coherent_obsX st role index a : Coh st -> obsX (reinit cfg st) role index a = obsX st role index a.
Proof.
  intros [[c1 c2 c3 c4 c5 c6 c7 c8] cm ce]. unfold obsX, designated, ds_latest, contract_of, whitelisted_fee.
  rewrite reinit_X, reinit_pcache. unfold reinit_ext; simpl.
  rewrite aget_reinit_ds, <- (c7 role), aget_reinit_mg, <- (c8 (caddr a)), c3. reflexivity.
Qed.

(* the look-ups over the incrementally extended history = over the history rebuilt from storage, for every index *)
Lemma dedup_nil' l : dedup l = [] -> l = [].
Proof. destruct l as [|[i v] t]; [reflexivity|]. simpl. destruct (dedup t) as [|[j w] t']; [|destruct (i =? j)]; discriminate. Qed.

Lemma gpb_at_dedup' l idx : gpb_at (dedup l) idx = gpb_at l idx.
Proof.
  induction l as [|[i v] t IH]; simpl; [reflexivity|].
  destruct (dedup t) as [|[j w] t'] eqn:E.
  - apply dedup_nil' in E. subst t. reflexivity.
  - destruct (i =? j) eqn:Eij.
    + assert (i = j) by lia. subst j. simpl. destruct (i <=? idx) eqn:E1; [reflexivity|].
      rewrite <- IH. simpl. rewrite E1. reflexivity.
    + simpl. destruct (i <=? idx); [reflexivity|]. rewrite <- IH. reflexivity.
Qed.

Lemma reinit_cgpb st : c_gpb (A (reinit cfg st)) = s_gpb (A st).
Proof. unfold reinit. destruct (_ =? 0); reflexivity. Qed.

Theorem coherent_gas_per_block st idx : Coh st -> gas_per_block (reinit cfg st) idx = gas_per_block st idx.
Proof.
  intros [[c1 c2 c3 c4 c5 c6 c7 c8] cm ce]. unfold gas_per_block. rewrite reinit_cgpb, c4. apply gpb_at_dedup'.
Qed.

Theorem coherent_obs st : Coh st -> obs (reinit cfg st) = obs st.
Proof.
  intros [[c1 c2 c3 c4 c5 c6 c7 c8] cm ce]. unfold obs, reinit.
  destruct ((height (A st) + 1) mod csize cfg =? 0) eqn:E; simpl.
  - unfold compute_next_validators, committee_sorted, next_validators; simpl.
    rewrite reinit_compute by exact c2. rewrite (ce ltac:(lia)), c1, c2, c3. reflexivity.
  - unfold compute_next_validators, committee_sorted, next_validators; simpl.
    rewrite (cm ltac:(lia)), c1, c2, c3. reflexivity.
Qed.

End Gov.
