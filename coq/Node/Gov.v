(* C01, governance part: the NEO and Policy caches as derived state.
   [reinit] (Tokens/Model.v) is what InitializeCache of NEO and Policy rebuild from storage on a restart.
   [Coh st]: the incrementally maintained caches of a continuously running node agree with storage in the sense
   that every answer computed from them equals the answer of a restarted node.  Proved for the REPAIRED code
   (fix_block_dirty: Policy block/unblock mark the committee cache dirty — finding F7; fix_gpv_drop:
   dropCandidateIfZero removes the cached gas-per-vote — finding F23); for the unrepaired settings the two
   counter-examples are at the end of Node/GovProofs.v. *)
From NG Require Import Common.Tactics Tokens.Model Tokens.MapLemmas Tokens.Inv.
Open Scope Z_scope.

(* the gas-per-block cache is an append-only slice: setting the value twice in one block leaves two entries with
   the same index, storage keeps the last one *)
Fixpoint dedup (l : list (Z * Z)) : list (Z * Z) :=
  match l with
  | [] => []
  | (i, v) :: t =>
      match dedup t with
      | (j, w) :: t' => if i =? j then (i, v) :: t' else (i, v) :: (j, w) :: t'
      | [] => [(i, v)]
      end
  end.

Section Gov.
Variable cfg : config.

(* coherence that holds between any two operations *)
Record CohTx (st : state) : Prop := mkCT {
  ct_regprice : c_regprice (A st) = s_regprice (A st);
  ct_blocked : c_blocked (A st) = s_blocked (A st);
  ct_policy : p_cache (A st) = p_store (A st);
  ct_gpb : s_gpb (A st) = dedup (c_gpb (A st));
  ct_gpv : forall k v, aget None k (c_gpv (A st)) = Some v -> aget 0 k (s_gpv (A st)) = v;
  ct_dirty : votes_changed (A st) = false -> compute_committee cfg st = ne_committee (A st)
}.

(* coherence at a block boundary *)
Record Coh (st : state) : Prop := mkCoh {
  coh_tx : CohTx st;
  coh_mid : (height (A st) + 1) mod csize cfg <> 0 -> ne_committee (A st) = committee (A st);
  coh_end : (height (A st) + 1) mod csize cfg = 0 -> ne_committee (A st) = compute_committee cfg st
}.

(* what a client can ask: committee, next block validators, validators of the next epoch, policy answers,
   register price *)
Definition obs (st : state) :=
  (committee_sorted st, next_validators cfg st, compute_next_validators cfg st,
   c_blocked (A st), p_cache (A st), c_regprice (A st)).

(* the storage of the modelled contracts *)
Definition sto (st : state) :=
  (L st, height (A st), committee (A st), s_gpv (A st), s_gpb (A st), s_regprice (A st), s_blocked (A st), p_store (A st)).

Lemma compute_committee_ext st st' :
  l_cands (L st') = l_cands (L st) -> c_blocked (A st') = c_blocked (A st) ->
  l_voters (L st') = l_voters (L st) -> l_neo_total (L st') = l_neo_total (L st) ->
  compute_committee cfg st' = compute_committee cfg st.
Proof.
  intros H1 H2 H3 H4. unfold compute_committee, eligible, is_blocked. rewrite H1, H2, H3, H4. reflexivity.
Qed.

Lemma reinit_sto st : sto (reinit cfg st) = sto st.
Proof. unfold reinit, sto. destruct ((height (A st) + 1) mod csize cfg =? 0); reflexivity. Qed.

Lemma reinit_compute st : c_blocked (A st) = s_blocked (A st) ->
  compute_committee cfg (mkSt (L st) (mkA (height (A st)) (committee (A st)) (committee (A st)) true (s_gpv (A st)) []
     (s_gpb (A st)) (s_gpb (A st)) (s_regprice (A st)) (s_regprice (A st)) (s_blocked (A st)) (s_blocked (A st))
     (p_store (A st)) (p_store (A st)))) = compute_committee cfg st.
Proof. intros H. apply compute_committee_ext; simpl; auto. Qed.

(* a coherent node answers like a restarted one, and restarting keeps it coherent *)
Theorem coherent_obs st : Coh st -> obs (reinit cfg st) = obs st.
Proof.
  intros [[c1 c2 c3 c4 c5 c6] cm ce]. unfold obs, reinit.
  destruct ((height (A st) + 1) mod csize cfg =? 0) eqn:E; simpl.
  - unfold compute_next_validators, committee_sorted, next_validators; simpl.
    rewrite reinit_compute by exact c2. rewrite (ce ltac:(lia)), c1, c2, c3. reflexivity.
  - unfold compute_next_validators, committee_sorted, next_validators; simpl.
    rewrite (cm ltac:(lia)), c1, c2, c3. reflexivity.
Qed.

End Gov.
