(* C02 - contract-storage-based state synchronisation (pkg/core/statesync/module.go AddContractStorageItems,
   defineSyncStage): item batch k writes the contract storage items of the batch, the trie with the new
   intermediate root r_k, drops what only the previous root r_(k-1) needed (the light node's trie is
   reference-counted, ModeLatest), and the checkpoint "k batches done, root r_k".  A restart resumes from the
   checkpoint: it needs the trie of the checkpoint's root.

   [unit k] is what one batch contributes; [late_unit k] is the variant that persists the checkpoint one flush
   late (the flush of batch k carries the checkpoint of batch k-1). *)
From NG Require Import Common.Tactics.
Open Scope N_scope.

Inductive skey := SCkpt | SItems (i : N) | STrie (i : N).
Definition skey_eqb (a b : skey) : bool :=
  match a, b with
  | SCkpt, SCkpt => true
  | SItems i, SItems j | STrie i, STrie j => i =? j
  | _, _ => false
  end.

Definition sdb := skey -> option N.
Definition sempty : sdb := fun _ => None.
Definition supd (d : sdb) (k : skey) (v : option N) : sdb := fun k' => if skey_eqb k' k then v else d k'.
Definition swrite := (skey * option N)%type.
Definition sapply (d : sdb) (b : list swrite) : sdb := fold_left (fun d w => supd d (fst w) (snd w)) b d.
Definition sapply_all (d : sdb) (bs : list (list swrite)) : sdb := fold_left sapply bs d.

Definition unit (k : N) : list swrite :=
  [(SItems k, Some 1); (STrie k, Some 1); (STrie (k - 1), None); (SCkpt, Some k)].
Definition late_unit (k : N) : list swrite :=
  [(SItems k, Some 1); (STrie k, Some 1); (STrie (k - 1), None)] ++
  (if 1 <? k then [(SCkpt, Some (k - 1))] else []).

Fixpoint srange (lo : N) (cnt : nat) : list N :=
  match cnt with O => [] | S c => lo :: srange (lo + 1) c end.

(* the batches of a synchronisation of n item batches *)
Definition sync_batches (u : N -> list swrite) (n : nat) : list (list swrite) := map u (srange 1 n).

Definition ckpt_of (d : sdb) : N := match d SCkpt with Some c => c | None => 0 end.

(* start-up: continue after the checkpoint; the trie of its root must be there (batch 0 = the empty trie) *)
Definition resume (n : nat) (d : sdb) : option sdb :=
  let c := ckpt_of d in
  if (c =? 0) || (match d (STrie c) with Some _ => true | None => false end) then
    Some (sapply_all d (map unit (srange (c + 1) (n - N.to_nat c))))
  else None.

(* what every crash point must satisfy *)
Definition SInv (d : sdb) : Prop :=
  let c := ckpt_of d in
  (c = 0 \/ d (STrie c) <> None) /\
  (forall i, 0 < i -> (d (SItems i) <> None <-> i <= c)) /\
  (forall i, i <> c -> d (STrie i) = None).
