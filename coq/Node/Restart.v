(* C01, governance part: full restart transparency.  A node that was restarted (caches re-initialised from storage)
   and the node that kept running are related by [Sim]: same ledger, same storage, same stable caches; they may
   differ in votesChanged, in the gas-per-vote cache (a subset of storage on both) and in duplicate entries of the
   gas-per-block cache.  Every operation of the model maps related states to related states with equal results, so
   after ANY continuation both nodes have the same storage and give the same answers. *)
From NG Require Import Common.Tactics Tokens.Model Tokens.MapLemmas Tokens.Inv Tokens.GasProofs Tokens.NeoProofs Tokens.OpProofs Node.Gov Node.GovProofs.
Open Scope Z_scope.

(* ---------- the gas-per-block cache is read through functions that ignore shadowed duplicates ---------- *)
Lemma dedup_nil l : dedup l = [] -> l = [].
Proof. destruct l as [|[i v] t]; [reflexivity|]. simpl. destruct (dedup t) as [|[j w] t']; [|destruct (i =? j)]; discriminate. Qed.

Lemma holder_sum_dedup l : forall start en acc, holder_sum (dedup l) start en acc = holder_sum l start en acc.
Proof.
  induction l as [|[i v] t IH]; intros start en acc; simpl; [reflexivity|].
  destruct (dedup t) as [|[j w] t'] eqn:E.
  - apply dedup_nil in E. subst t. reflexivity.
  - destruct (i =? j) eqn:Eij.
    + assert (i = j) by lia. subst j. simpl.
      destruct (i >=? en) eqn:E1.
      * rewrite <- (IH start en acc). simpl. rewrite E1. reflexivity.
      * destruct (i <=? start) eqn:E2; [reflexivity|].
        rewrite <- (IH start i (acc + (en - i) * v)). simpl. replace (i >=? i) with true by lia. reflexivity.
    + simpl. destruct (i >=? en); [rewrite <- (IH start en acc); reflexivity|].
      destruct (i <=? start); [reflexivity|]. rewrite <- (IH start i (acc + (en - i) * v)). reflexivity.
Qed.

Lemma gpb_at_dedup l idx : gpb_at (dedup l) idx = gpb_at l idx.
Proof.
  induction l as [|[i v] t IH]; simpl; [reflexivity|].
  destruct (dedup t) as [|[j w] t'] eqn:E.
  - apply dedup_nil in E. subst t. reflexivity.
  - destruct (i =? j) eqn:Eij.
    + assert (i = j) by lia. subst j. simpl. destruct (i <=? idx) eqn:E1; [reflexivity|].
      rewrite <- IH. simpl. rewrite E1. reflexivity.
    + simpl. destruct (i <=? idx); [reflexivity|]. rewrite <- IH. reflexivity.
Qed.

Section Restart.
Variable cfg : config.
Hypothesis CW : cfg_wf cfg.
Hypothesis FIX7 : fix_block_dirty cfg = true.
Hypothesis FIX23 : fix_gpv_drop cfg = true.
Hypothesis FIX46 : fix_whitelist cfg = true.

(* [strict] = inside a block that rotated the committee: votesChanged was reset on both nodes in OnPersist *)
Record Sim (strict : bool) (st st' : state) : Prop := mkSim {
  sim_L : L st' = L st;
  sim_height : height (A st') = height (A st);
  sim_committee : committee (A st') = committee (A st);
  sim_ne : ne_committee (A st') = ne_committee (A st);
  sim_sgpv : s_gpv (A st') = s_gpv (A st);
  sim_sgpb : s_gpb (A st') = s_gpb (A st);
  sim_sreg : s_regprice (A st') = s_regprice (A st);
  sim_creg : c_regprice (A st') = c_regprice (A st);
  sim_sblk : s_blocked (A st') = s_blocked (A st);
  sim_cblk : c_blocked (A st') = c_blocked (A st);
  sim_pst : p_store (A st') = p_store (A st);
  sim_pca : p_cache (A st') = p_cache (A st);
  sim_gpv : gpv_coh (A st);
  sim_gpv' : gpv_coh (A st');
  sim_gpb : dedup (c_gpb (A st')) = dedup (c_gpb (A st));
  sim_vc : strict = true -> votes_changed (A st') = votes_changed (A st);
  (* Designate / Management: same storage; the caches answer the same *)
  sim_dss : ds_store (X st') = ds_store (X st);
  sim_dsc : forall role, aget (0, []) role (ds_cache (X st')) = aget (0, []) role (ds_cache (X st));
  sim_mgs : mg_store (X st') = mg_store (X st);
  sim_mgc : forall h, aget mc0 h (mg_cache (X st')) = aget mc0 h (mg_cache (X st));
  sim_ids : mg_ids (X st') = mg_ids (X st);
  sim_next : mg_next (X st') = mg_next (X st)
}.

Lemma Sim_weaken b st st' : Sim b st st' -> Sim false st st'.
Proof. intros []. constructor; auto. discriminate. Qed.

(* reads that go through the caches agree *)
Lemma latest_gpv_storage st k : gpv_coh (A st) -> latest_gpv st k = aget 0 k (s_gpv (A st)).
Proof.
  intros H. unfold latest_gpv. destruct (aget None k (c_gpv (A st))) as [v|] eqn:E; [|reflexivity].
  symmetry. apply H. exact E.
Qed.

Lemma sim_latest b st st' k : Sim b st st' -> latest_gpv st' k = latest_gpv st k.
Proof. intros S. rewrite !latest_gpv_storage by apply S. rewrite (sim_sgpv _ _ _ S). reflexivity. Qed.

Lemma sim_holder b st st' value start en : Sim b st st' -> holder_reward st' value start en = holder_reward st value start en.
Proof.
  intros S. unfold holder_reward. destruct ((value =? 0) || (start >=? en)); [reflexivity|].
  rewrite <- (holder_sum_dedup (c_gpb (A st'))), <- (holder_sum_dedup (c_gpb (A st))), (sim_gpb _ _ _ S). reflexivity.
Qed.

Lemma sim_calc_bonus b st st' acc en : Sim b st st' -> calc_bonus st' acc en = calc_bonus st acc en.
Proof.
  intros S. unfold calc_bonus. rewrite (sim_holder _ _ _ _ _ _ S).
  destruct (nvote acc); [rewrite (sim_latest _ _ _ _ S)|]; reflexivity.
Qed.

Lemma sim_distribute b st st' acc : Sim b st st' -> distribute_gas st' acc = distribute_gas st acc.
Proof.
  intros S. unfold distribute_gas. rewrite (sim_height _ _ _ S), (sim_calc_bonus _ _ _ _ _ S).
  destruct (nvote acc); [rewrite (sim_latest _ _ _ _ S)|]; reflexivity.
Qed.

(* ---------- uniform updates keep the relation ---------- *)
Lemma Sim_withL b st st' l : Sim b st st' -> Sim b (withL st l) (withL st' l).
Proof. intros []. constructor; simpl; auto. Qed.

Lemma Sim_sameA b st st' s s' :
  Sim b st st' -> L s' = L s -> A s = A st -> A s' = A st' -> X s = X st -> X s' = X st' -> Sim b s s'.
Proof. intros [] HL HA HA' HX HX'. constructor; rewrite ?HA, ?HA', ?HX, ?HX'; auto. Qed.

Lemma Sim_set_vc b st st' v :
  Sim b st st' -> Sim b (withA st (set_votes_changed (A st) v)) (withA st' (set_votes_changed (A st') v)).
Proof. intros []. constructor; simpl; auto. Qed.

Lemma cand_of_sim b st st' k : Sim b st st' -> cand_of st' k = cand_of st k.
Proof. intros S. unfold cand_of. rewrite (sim_L _ _ _ S). reflexivity. Qed.
Lemma neo_acc_sim b st st' a : Sim b st st' -> neo_acc st' a = neo_acc st a.
Proof. intros S. unfold neo_acc. rewrite (sim_L _ _ _ S). reflexivity. Qed.
Lemma gas_bal_sim b st st' a : Sim b st st' -> gas_bal st' a = gas_bal st a.
Proof. intros S. unfold gas_bal. rewrite (sim_L _ _ _ S). reflexivity. Qed.
Lemma contract_of_sim b st st' a : Sim b st st' -> contract_of st' a = contract_of st a.
Proof. intros S. unfold contract_of. apply (sim_mgc _ _ _ S). Qed.
Lemma dep_of_sim b st st' a : Sim b st st' -> dep_of st' a = dep_of st a.
Proof. intros S. unfold dep_of. rewrite (sim_L _ _ _ S). reflexivity. Qed.

(* relation lifted to optional results *)
Definition SimO {R} (b : bool) (x x' : option (state * R)) : Prop :=
  match x, x' with
  | Some (s, r), Some (s', r') => r' = r /\ Sim b s s'
  | None, None => True
  | _, _ => False
  end.
Definition SimS (b : bool) (x x' : option state) : Prop :=
  match x, x' with
  | Some s, Some s' => Sim b s s'
  | None, None => True
  | _, _ => False
  end.

(* ---------- GAS pieces ---------- *)
Lemma gas_inc_balance_sim b st st' a amt chk :
  Sim b st st' -> SimS b (gas_inc_balance st a amt chk) (gas_inc_balance st' a amt chk).
Proof.
  intros S. unfold gas_inc_balance. rewrite (gas_bal_sim _ _ _ a S), (sim_L _ _ _ S).
  destruct (amt =? 0).
  - destruct chk as [c|]; [destruct (gas_bal st a <? c)|]; simpl; auto.
  - destruct ((amt <? 0) && (gas_bal st a <? - amt)); simpl; auto.
    apply Sim_sameA with (st := st) (st' := st'); auto.
Qed.

Lemma gas_add_tokens_sim b st st' a amt :
  Sim b st st' -> SimS b (gas_add_tokens st a amt) (gas_add_tokens st' a amt).
Proof.
  intros S. unfold gas_add_tokens. destruct (amt =? 0); [exact S|].
  pose proof (gas_inc_balance_sim b st st' a amt None S) as H.
  destruct (gas_inc_balance st a amt None) as [s|], (gas_inc_balance st' a amt None) as [s'|]; simpl in H; try contradiction; [|exact I].
  simpl. rewrite (sim_L _ _ _ H). apply Sim_sameA with (st := s) (st' := s'); auto.
Qed.

Lemma emit_sim b st st' e : Sim b st st' -> Sim b (emit st e) (emit st' e).
Proof. intros S. unfold emit. rewrite (sim_L _ _ _ S). apply Sim_withL. exact S. Qed.

Lemma gas_mint_sim b st st' a amt call :
  Sim b st st' -> SimS b (gas_mint cfg st a amt call) (gas_mint cfg st' a amt call).
Proof.
  intros S. unfold gas_mint. destruct (amt =? 0); [exact S|].
  pose proof (gas_add_tokens_sim b st st' a amt S) as H.
  destruct (gas_add_tokens st a amt) as [s|], (gas_add_tokens st' a amt) as [s'|]; simpl in H; try contradiction; [|exact I].
  destruct (call && negb (plain_callback_ok cfg a)); [exact I|]. apply emit_sim. exact H.
Qed.

Lemma gas_burn_sim b st st' a amt :
  Sim b st st' -> SimS b (gas_burn st a amt) (gas_burn st' a amt).
Proof.
  intros S. unfold gas_burn. destruct (amt =? 0); [exact S|].
  pose proof (gas_add_tokens_sim b st st' a (- amt) S) as H.
  destruct (gas_add_tokens st a (- amt)) as [s|], (gas_add_tokens st' a (- amt)) as [s'|]; simpl in H; try contradiction; [|exact I].
  apply emit_sim. exact H.
Qed.

Lemma mint_opt_sim b st st' a d call :
  Sim b st st' -> SimS b (mint_opt cfg st a d call) (mint_opt cfg st' a d call).
Proof. intros S. unfold mint_opt. destruct d; [apply gas_mint_sim; exact S|exact S]. Qed.

(* ---------- candidates, NEO balances ---------- *)
Lemma drop_gpv_sim b st st' k : Sim b st st' -> Sim b (drop_gpv cfg st k) (drop_gpv cfg st' k).
Proof.
  intros []. unfold drop_gpv. rewrite FIX23. constructor; simpl; auto; try congruence.
  - unfold gpv_coh; simpl. intros k0 v. rewrite !aget_aset. destruct (N.eqb k0 k); [discriminate|apply sim_gpv0].
  - unfold gpv_coh; simpl. intros k0 v. rewrite !aget_aset. destruct (N.eqb k0 k); [discriminate|apply sim_gpv'0].
Qed.

Lemma cand_put_sim b st st' k c : Sim b st st' -> Sim b (cand_put st k c) (cand_put st' k c).
Proof. intros S. unfold cand_put. rewrite (sim_L _ _ _ S). apply Sim_withL. exact S. Qed.

Lemma modify_account_votes_sim b st st' v value is_new :
  Sim b st st' ->
  SimS b (modify_account_votes cfg st v value is_new) (modify_account_votes cfg st' v value is_new).
Proof.
  intros S. unfold modify_account_votes.
  pose proof (Sim_set_vc b st st' true S) as S1.
  destruct v as [k|]; [|exact S1].
  rewrite (cand_of_sim _ _ _ k S1).
  destruct (negb (cpresent (cand_of (withA st (set_votes_changed (A st) true)) k))); [exact I|].
  match goal with |- context [if ?c then _ else _] => destruct c end; simpl.
  - apply drop_gpv_sim, cand_put_sim. exact S1.
  - apply cand_put_sim. exact S1.
Qed.

Lemma modify_voter_turnout_sim b st st' d : Sim b st st' -> Sim b (modify_voter_turnout st d) (modify_voter_turnout st' d).
Proof. intros S. unfold modify_voter_turnout. rewrite (sim_L _ _ _ S). apply Sim_withL. exact S. Qed.

Lemma neo_put_sim b st st' a acc : Sim b st st' -> Sim b (neo_put st a acc) (neo_put st' a acc).
Proof. intros S. unfold neo_put. rewrite (sim_L _ _ _ S). apply Sim_withL. exact S. Qed.

Lemma neo_inc_balance_sim b st st' a acc amount check :
  Sim b st st' -> SimO b (neo_inc_balance cfg st a acc amount check) (neo_inc_balance cfg st' a acc amount check).
Proof.
  intros S. unfold neo_inc_balance.
  match goal with |- context [if ?c then None else _] => destruct c; [exact I|] end.
  rewrite (sim_distribute _ _ _ acc S).
  destruct (distribute_gas st acc) as [acc1 dist].
  destruct (amount =? 0); [split; [reflexivity|apply neo_put_sim; exact S]|].
  pose proof (modify_account_votes_sim b st st' (nvote acc1) amount false S) as H.
  destruct (modify_account_votes cfg st (nvote acc1) amount false) as [s|],
           (modify_account_votes cfg st' (nvote acc1) amount false) as [s'|]; simpl in H; try contradiction; [|exact I].
  split; [reflexivity|]. apply neo_put_sim.
  destruct (nvote acc1); [apply modify_voter_turnout_sim|]; exact H.
Qed.

Lemma neo_upd_acc_balance_sim b st st' a amount req :
  Sim b st st' -> SimO b (neo_upd_acc_balance cfg st a amount req) (neo_upd_acc_balance cfg st' a amount req).
Proof.
  intros S. unfold neo_upd_acc_balance. rewrite (neo_acc_sim _ _ _ a S).
  destruct (nbal (neo_acc st a) =? 0); [|apply neo_inc_balance_sim; exact S].
  destruct (amount <? 0); [exact I|].
  match goal with |- context [if ?c then None else _] => destruct c; [exact I|] end.
  destruct (amount =? 0); [split; [reflexivity|exact S]|apply neo_inc_balance_sim; exact S].
Qed.

Lemma neo_transfer_sim b st st' w from to amount :
  Sim b st st' -> SimO b (neo_transfer cfg st w from to amount) (neo_transfer cfg st' w from to amount).
Proof.
  intros S. unfold neo_transfer, ok. destruct (amount <? 0); [exact I|].
  destruct (negb w); [split; [reflexivity|exact S]|].
  set (empty := N.eqb from to || (amount =? 0)).
  pose proof (neo_upd_acc_balance_sim b st st' from (if empty then 0 else - amount) (Some amount) S) as H1.
  destruct (neo_upd_acc_balance cfg st from (if empty then 0 else - amount) (Some amount)) as [[s1 d1]|],
           (neo_upd_acc_balance cfg st' from (if empty then 0 else - amount) (Some amount)) as [[s1' d1']|];
    simpl in H1; try contradiction; [|split; [reflexivity|exact S]].
  destruct H1 as [-> S1].
  assert (H2 : SimO b (if empty then Some (s1, None) else neo_upd_acc_balance cfg s1 to amount None)
                      (if empty then Some (s1', None) else neo_upd_acc_balance cfg s1' to amount None)).
  { destruct empty; [split; [reflexivity|exact S1]|apply neo_upd_acc_balance_sim; exact S1]. }
  destruct (if empty then Some (s1, None) else neo_upd_acc_balance cfg s1 to amount None) as [[s2 d2]|],
           (if empty then Some (s1', None) else neo_upd_acc_balance cfg s1' to amount None) as [[s2' d2']|];
    simpl in H2; try contradiction; [|split; [reflexivity|exact S1]].
  destruct H2 as [-> S2].
  destruct (negb (plain_callback_ok cfg to)); [exact I|].
  pose proof (mint_opt_sim b _ _ from d1 true (emit_sim b s2 s2' (mkEv NEO (Some from) (Some to) amount) S2)) as H4.
  destruct (mint_opt cfg (emit s2 _) from d1 true) as [s4|], (mint_opt cfg (emit s2' _) from d1 true) as [s4'|];
    simpl in H4; try contradiction; [|exact I].
  pose proof (mint_opt_sim b s4 s4' to d2 true H4) as H5.
  destruct (mint_opt cfg s4 to d2 true) as [s5|], (mint_opt cfg s4' to d2 true) as [s5'|];
    simpl in H5; try contradiction; [|exact I].
  split; [reflexivity|exact H5].
Qed.

Lemma register_internal_sim b st st' k : Sim b st st' -> Sim b (register_internal st k) (register_internal st' k).
Proof.
  intros S. unfold register_internal. rewrite (cand_of_sim _ _ _ k S).
  set (c := cand_of st k).
  pose proof (cand_put_sim b st st' k (mkCand true true (if cpresent c then cvotes c else 0)) S) as S1.
  destruct (cpresent c && creg c); [exact S1|apply Sim_set_vc; exact S1].
Qed.

Lemma register_candidate_sim b st st' k budget :
  Sim b st st' -> SimO b (register_candidate st k budget) (register_candidate st' k budget).
Proof.
  intros S. unfold register_candidate, ok. rewrite (sim_creg _ _ _ S).
  destruct (c_regprice (A st) >? budget); [exact I|split; [reflexivity|apply register_internal_sim; exact S]].
Qed.

Lemma unregister_candidate_sim b st st' w k :
  Sim b st st' -> SimO b (unregister_candidate cfg st w k) (unregister_candidate cfg st' w k).
Proof.
  intros S. unfold unregister_candidate, ok. destruct (negb w); [split; [reflexivity|exact S]|].
  rewrite (cand_of_sim _ _ _ k S).
  destruct (negb (cpresent (cand_of st k))); [split; [reflexivity|exact S]|].
  pose proof (Sim_set_vc b st st' true S) as S1.
  destruct (cvotes (cand_of st k) =? 0); split; try reflexivity.
  - apply drop_gpv_sim, cand_put_sim. exact S1.
  - apply cand_put_sim. exact S1.
Qed.

Lemma vote_internal_sim b st st' a k :
  Sim b st st' ->
  match vote_internal cfg st a k, vote_internal cfg st' a k with
  | Some (s, r), Some (s', r') => r' = r /\ Sim b s s'
  | None, None => True
  | _, _ => False
  end.
Proof.
  intros S. unfold vote_internal. rewrite (neo_acc_sim _ _ _ a S).
  set (acc := neo_acc st a).
  destruct (nbal acc =? 0); [split; [reflexivity|exact S]|].
  assert (Ec : match k with
               | Some key => negb (cpresent (cand_of st' key)) || negb (creg (cand_of st' key))
               | None => false
               end = match k with
                     | Some key => negb (cpresent (cand_of st key)) || negb (creg (cand_of st key))
                     | None => false
                     end).
  { destruct k as [key|]; [rewrite (cand_of_sim _ _ _ key S)|]; reflexivity. }
  rewrite Ec. clear Ec.
  match goal with |- context [if ?c then Some (st, false) else _] => destruct c; [split; [reflexivity|exact S]|] end.
  set (s1 := match nvote acc, k with
             | None, Some _ => modify_voter_turnout st (nbal acc)
             | Some _, None => modify_voter_turnout st (- nbal acc)
             | _, _ => st
             end).
  set (s1' := match nvote acc, k with
              | None, Some _ => modify_voter_turnout st' (nbal acc)
              | Some _, None => modify_voter_turnout st' (- nbal acc)
              | _, _ => st'
              end).
  assert (S1 : Sim b s1 s1').
  { unfold s1, s1'. destruct (nvote acc), k; try exact S; apply modify_voter_turnout_sim; exact S. }
  rewrite (sim_distribute _ _ _ acc S1).
  destruct (distribute_gas s1 acc) as [acc1 new_gas].
  pose proof (modify_account_votes_sim b s1 s1' (nvote acc1) (- nbal acc1) false S1) as H2.
  destruct (modify_account_votes cfg s1 (nvote acc1) (- nbal acc1) false) as [s2|],
           (modify_account_votes cfg s1' (nvote acc1) (- nbal acc1) false) as [s2'|];
    simpl in H2; try contradiction; [|split; [reflexivity|exact S1]].
  pose proof (modify_account_votes_sim b s2 s2' k (nbal acc1) true H2) as H3.
  destruct (modify_account_votes cfg s2 k (nbal acc1) true) as [s3|],
           (modify_account_votes cfg s2' k (nbal acc1) true) as [s3'|];
    simpl in H3; try contradiction; [|split; [reflexivity|exact H2]].
  assert (El : match k with Some key => latest_gpv s2' key | None => nlgpv acc1 end
               = match k with Some key => latest_gpv s2 key | None => nlgpv acc1 end).
  { destruct k as [key|]; [apply (sim_latest _ _ _ key H2)|reflexivity]. }
  rewrite El. clear El.
  match goal with |- context [neo_put s3 a ?e] =>
    pose proof (mint_opt_sim b _ _ a new_gas true (neo_put_sim b s3 s3' a e H3)) as H5;
    destruct (mint_opt cfg (neo_put s3 a e) a new_gas true) as [s5|],
             (mint_opt cfg (neo_put s3' a e) a new_gas true) as [s5'|];
    simpl in H5; try contradiction; [|exact I] end.
  split; [reflexivity|exact H5].
Qed.

Lemma vote_sim b st st' w a k : Sim b st st' -> SimO b (vote cfg st w a k) (vote cfg st' w a k).
Proof.
  intros S. unfold vote, ok. destruct (negb w); [split; [reflexivity|exact S]|].
  pose proof (vote_internal_sim b st st' a k S) as H.
  destruct (vote_internal cfg st a k) as [[s r]|], (vote_internal cfg st' a k) as [[s' r']|]; simpl in *; try contradiction; [|exact I].
  destruct H as [-> H]. split; [reflexivity|exact H].
Qed.

(* ---------- GAS.transfer, Notary ---------- *)
Lemma dep_put_sim b st st' a d : Sim b st st' -> Sim b (dep_put st a d) (dep_put st' a d).
Proof. intros S. unfold dep_put. rewrite (sim_L _ _ _ S). apply Sim_withL. exact S. Qed.

Lemma notary_on_payment_sim b st st' sender from amount d :
  Sim b st st' -> SimS b (notary_on_payment st sender from amount d) (notary_on_payment st' sender from amount d).
Proof.
  intros S. unfold notary_on_payment, attr_fee_notary. destruct d as [|to0 till|]; try exact I.
  rewrite (sim_height _ _ _ S), (sim_pca _ _ _ S), (dep_of_sim _ _ _ _ S).
  repeat match goal with |- context [if ?c then None else _] => destruct c; [exact I|] end.
  apply dep_put_sim. exact S.
Qed.

Lemma gas_transfer_core_sim b st st' sender wit from to amount d :
  Sim b st st' -> SimO b (gas_transfer_core cfg st sender wit from to amount d) (gas_transfer_core cfg st' sender wit from to amount d).
Proof.
  intros S. unfold gas_transfer_core, ok.
  set (empty := N.eqb from to || (amount =? 0)).
  pose proof (gas_inc_balance_sim b st st' from (if empty then 0 else - amount) (Some amount) S) as H1.
  destruct (gas_inc_balance st from (if empty then 0 else - amount) (Some amount)) as [s1|],
           (gas_inc_balance st' from (if empty then 0 else - amount) (Some amount)) as [s1'|];
    simpl in H1; try contradiction; [|split; [reflexivity|exact S]].
  assert (H2 : SimS b (if empty then Some s1 else gas_inc_balance s1 to amount None)
                      (if empty then Some s1' else gas_inc_balance s1' to amount None)).
  { destruct empty; [exact H1|apply gas_inc_balance_sim; exact H1]. }
  destruct (if empty then Some s1 else gas_inc_balance s1 to amount None) as [s2|],
           (if empty then Some s1' else gas_inc_balance s1' to amount None) as [s2'|];
    simpl in H2; try contradiction; [|split; [reflexivity|exact H1]].
  pose proof (emit_sim b s2 s2' (mkEv GAS (Some from) (Some to) amount) H2) as S3.
  destruct (kind_of cfg to); try exact I; try (split; [reflexivity|exact S3]).
  - pose proof (notary_on_payment_sim b _ _ sender from amount d S3) as H4.
    destruct (notary_on_payment (emit s2 _) sender from amount d) as [s4|],
             (notary_on_payment (emit s2' _) sender from amount d) as [s4'|]; simpl in H4; try contradiction; [|exact I].
    split; [reflexivity|exact H4].
  - destruct d as [| |k]; try exact I.
    rewrite (sim_creg _ _ _ S3).
    repeat match goal with |- context [if ?c then None else _] => destruct c; [exact I|] end.
    pose proof (gas_burn_sim b _ _ (a_neo cfg) amount (register_internal_sim b _ _ k S3)) as H4.
    destruct (gas_burn (register_internal (emit s2 _) k) (a_neo cfg) amount) as [s4|],
             (gas_burn (register_internal (emit s2' _) k) (a_neo cfg) amount) as [s4'|]; simpl in H4; try contradiction; [|exact I].
    split; [reflexivity|exact H4].
Qed.

Lemma gas_transfer_sim b st st' w sender wit from to amount d :
  Sim b st st' -> SimO b (gas_transfer cfg st w sender wit from to amount d) (gas_transfer cfg st' w sender wit from to amount d).
Proof.
  intros S. unfold gas_transfer, ok. destruct (amount <? 0); [exact I|].
  destruct (negb w); [split; [reflexivity|exact S]|apply gas_transfer_core_sim; exact S].
Qed.

Lemma notary_withdraw_sim b st st' w sender wit from to0 :
  Sim b st st' -> SimO b (notary_withdraw cfg st w sender wit from to0) (notary_withdraw cfg st' w sender wit from to0).
Proof.
  intros S. unfold notary_withdraw, ok. destruct (negb w); [split; [reflexivity|exact S]|].
  rewrite (dep_of_sim _ _ _ from S), (sim_height _ _ _ S).
  repeat match goal with |- context [if ?c then Some (st, Some false) else _] => destruct c; [split; [reflexivity|exact S]|] end.
  pose proof (gas_transfer_core_sim b _ _ sender wit (a_notary cfg) match to0 with Some t => t | None => from end
                (damt (dep_of st from)) DNone (dep_put_sim b st st' from dep0 S)) as H.
  destruct (gas_transfer_core cfg (dep_put st from dep0) _ _ _ _ _ _) as [[s2 r]|],
           (gas_transfer_core cfg (dep_put st' from dep0) _ _ _ _ _ _) as [[s2' r']|]; simpl in H; try contradiction; [|exact I].
  destruct H as [-> H]. destruct r as [[|]|]; try exact I. split; [reflexivity|exact H].
Qed.

Lemma notary_lock_sim b st st' w a till :
  Sim b st st' -> SimO b (notary_lock st w a till) (notary_lock st' w a till).
Proof.
  intros S. unfold notary_lock, ok. destruct (negb w); [split; [reflexivity|exact S]|].
  rewrite (dep_of_sim _ _ _ a S), (sim_height _ _ _ S).
  repeat match goal with |- context [if ?c then Some (st, Some false) else _] => destruct c; [split; [reflexivity|exact S]|] end.
  split; [reflexivity|apply dep_put_sim; exact S].
Qed.

(* ---------- Policy, settings ---------- *)
Lemma is_blocked_sim b st st' a : Sim b st st' -> is_blocked st' a = is_blocked st a.
Proof. intros S. unfold is_blocked. rewrite (sim_cblk _ _ _ S). reflexivity. Qed.

Lemma mark_dirty_sim b st st' : Sim b st st' -> Sim b (mark_dirty cfg st) (mark_dirty cfg st').
Proof. intros S. unfold mark_dirty. rewrite FIX7. apply Sim_set_vc. exact S. Qed.

Lemma set_blocked_sim b st st' f :
  Sim b st st' ->
  Sim b (withA st (set_blocked (A st) (f (s_blocked (A st))) (f (c_blocked (A st)))))
        (withA st' (set_blocked (A st') (f (s_blocked (A st'))) (f (c_blocked (A st'))))).
Proof. intros []. constructor; simpl; auto; congruence. Qed.

Lemma block_account_sim b st st' a :
  Sim b st st' -> SimO b (block_account cfg st a) (block_account cfg st' a).
Proof.
  intros S. unfold block_account, ok.
  assert (Hgo : SimO b
    (if is_blocked st a then Some (st, Some false) else
     match (if hf_faun cfg then vote_internal cfg st a None else Some (st, false)) with
     | None => None
     | Some (st1, _) => Some (mark_dirty cfg (withA st1 (set_blocked (A st1) (insert_N a (s_blocked (A st1))) (insert_N a (c_blocked (A st1))))), Some true)
     end)
    (if is_blocked st' a then Some (st', Some false) else
     match (if hf_faun cfg then vote_internal cfg st' a None else Some (st', false)) with
     | None => None
     | Some (st1, _) => Some (mark_dirty cfg (withA st1 (set_blocked (A st1) (insert_N a (s_blocked (A st1))) (insert_N a (c_blocked (A st1))))), Some true)
     end)).
  { rewrite (is_blocked_sim _ _ _ a S). destruct (is_blocked st a); [split; [reflexivity|exact S]|].
    assert (H : match (if hf_faun cfg then vote_internal cfg st a None else Some (st, false)),
                      (if hf_faun cfg then vote_internal cfg st' a None else Some (st', false)) with
                | Some (s, r), Some (s', r') => r' = r /\ Sim b s s'
                | None, None => True
                | _, _ => False
                end).
    { destruct (hf_faun cfg); [apply vote_internal_sim; exact S|split; [reflexivity|exact S]]. }
    destruct (if hf_faun cfg then vote_internal cfg st a None else Some (st, false)) as [[s1 r1]|],
             (if hf_faun cfg then vote_internal cfg st' a None else Some (st', false)) as [[s1' r1']|]; try contradiction; [|exact I].
    destruct H as [_ H]. split; [reflexivity|].
    apply mark_dirty_sim. apply (set_blocked_sim b s1 s1' (insert_N a) H). }
  destruct (kind_of cfg a); try exact I; exact Hgo.
Qed.

Lemma unblock_account_sim b st st' a :
  Sim b st st' -> SimO b (unblock_account cfg st a) (unblock_account cfg st' a).
Proof.
  intros S. unfold unblock_account, ok. rewrite (is_blocked_sim _ _ _ a S).
  destruct (negb (is_blocked st a)); [split; [reflexivity|exact S]|].
  split; [reflexivity|]. apply mark_dirty_sim. apply (set_blocked_sim b st st' (remove_N a) S).
Qed.

Lemma policy_set_sim b st st' key v :
  Sim b st st' -> SimO b (policy_set cfg st key v) (policy_set cfg st' key v).
Proof.
  intros S. unfold policy_set. destruct (negb (policy_in_range cfg key v)); [exact I|].
  split; [reflexivity|]. destruct S. constructor; simpl; auto; congruence.
Qed.

Lemma whitelist_set_sim b st st' a fee :
  Sim b st st' -> SimO b (whitelist_set cfg st a fee) (whitelist_set cfg st' a fee).
Proof.
  intros S. unfold whitelist_set. destruct (fee <? 0); [exact I|].
  rewrite (contract_of_sim _ _ _ a S). destruct (negb (mc_present (contract_of st a))); [exact I|].
  split; [reflexivity|]. rewrite (sim_pca _ _ _ S), (sim_pst _ _ _ S). destruct S. constructor; simpl; auto.
Qed.

Lemma whitelist_remove_sim b st st' a :
  Sim b st st' -> SimO b (whitelist_remove st a) (whitelist_remove st' a).
Proof.
  intros S. unfold whitelist_remove. rewrite (contract_of_sim _ _ _ a S), (sim_pca _ _ _ S), (sim_pst _ _ _ S).
  destruct (negb (mc_present (contract_of st a))); [exact I|].
  destruct (_ =? 0); [exact I|]. split; [reflexivity|]. destruct S. constructor; simpl; auto.
Qed.

(* ---------- Designate, Management ---------- *)
Lemma designate_as_role_sim b st st' role ks :
  Sim b st st' -> SimO b (designate_as_role st role ks) (designate_as_role st' role ks).
Proof.
  intros S. unfold designate_as_role. rewrite (sim_height _ _ _ S), (sim_dss _ _ _ S).
  repeat match goal with |- context [if ?c then None else _] => destruct c; [exact I|] end.
  split; [reflexivity|]. pose proof (sim_dsc _ _ _ S) as Hc. destruct S. constructor; simpl; auto; try congruence.
  intros r0. rewrite !aget_aset. destruct (N.eqb r0 role); [reflexivity|apply Hc].
Qed.

Lemma mg_put_sim b st st' h c ids ids' next next' :
  Sim b st st' -> ids' = ids -> next' = next -> Sim b (mg_put st h c ids next) (mg_put st' h c ids' next').
Proof.
  intros S -> ->. pose proof (sim_mgc _ _ _ S) as Hc. destruct S. constructor; simpl; auto; try congruence.
  intros h0. rewrite !aget_aset. destruct (N.eqb h0 h); [reflexivity|apply Hc].
Qed.

Lemma whitelist_clean_sim b st st' a : Sim b st st' -> Sim b (whitelist_clean st a) (whitelist_clean st' a).
Proof. intros []. constructor; simpl; auto; congruence. Qed.

Lemma mg_deploy_sim b st st' a m : Sim b st st' -> SimO b (mg_deploy st a m) (mg_deploy st' a m).
Proof.
  intros S. unfold mg_deploy. rewrite (is_blocked_sim _ _ _ _ S), (contract_of_sim _ _ _ a S), (sim_next _ _ _ S), (sim_ids _ _ _ S).
  repeat match goal with |- context [if ?c then None else _] => destruct c; [exact I|] end.
  split; [reflexivity|]. apply mg_put_sim; auto.
Qed.

Lemma mg_update_sim b st st' a m : Sim b st st' -> SimO b (mg_update st a m) (mg_update st' a m).
Proof.
  intros S. unfold mg_update. rewrite (contract_of_sim _ _ _ a S).
  repeat match goal with |- context [if ?c then None else _] => destruct c; [exact I|] end.
  split; [reflexivity|]. apply mg_put_sim; [apply whitelist_clean_sim; exact S|apply (sim_ids _ _ _ S)|apply (sim_next _ _ _ S)].
Qed.


Lemma dedup_cons i v c c' : dedup c' = dedup c -> dedup ((i, v) :: c') = dedup ((i, v) :: c).
Proof. intros H. simpl. rewrite H. reflexivity. Qed.

Lemma set_gas_per_block_sim b st st' v :
  Sim b st st' -> SimO b (set_gas_per_block st v) (set_gas_per_block st' v).
Proof.
  intros S. unfold set_gas_per_block. destruct ((v <? 0) || (v >? 10 * 100000000)); [exact I|].
  split; [reflexivity|]. rewrite (sim_height _ _ _ S). destruct S. constructor; simpl; auto; try congruence.
  apply dedup_cons. assumption.
Qed.

Lemma set_register_price_sim b st st' v :
  Sim b st st' -> SimO b (set_register_price st v) (set_register_price st' v).
Proof.
  intros S. unfold set_register_price. destruct (v <=? 0); [exact I|].
  split; [reflexivity|]. destruct S. constructor; simpl; auto.
Qed.

Lemma mg_destroy_sim b st st' a : Sim b st st' -> SimO b (mg_destroy cfg st a) (mg_destroy cfg st' a).
Proof.
  intros S. unfold mg_destroy. rewrite (contract_of_sim _ _ _ a S).
  destruct (negb (mc_present (contract_of st a))); [exact I|].
  match goal with |- context [if ?c then None else _] => destruct c; [exact I|] end.
  pose proof (block_account_sim b st st' (caddr a) S) as H.
  destruct (block_account cfg st (caddr a)) as [[s1 r1]|], (block_account cfg st' (caddr a)) as [[s1' r1']|];
    simpl in H; try contradiction; [|exact I].
  destruct H as [_ H]. split; [reflexivity|].
  apply mg_put_sim; [apply whitelist_clean_sim; exact H| |apply (sim_next _ _ _ H)].
  simpl. rewrite (sim_ids _ _ _ H). reflexivity.
Qed.

(* ---------- transactions ---------- *)
Lemma committee_witness_sim b st st' t : Sim b st st' -> committee_witness st' t = committee_witness st t.
Proof. intros S. unfold committee_witness, committee_sorted. rewrite (sim_committee _ _ _ S). reflexivity. Qed.

Lemma run_lim_sim b st st' pre post o nacct body body' :
  Sim b st st' -> SimO b body body' -> SimO b (run_lim cfg st pre post o nacct body) (run_lim cfg st' pre post o nacct body').
Proof.
  intros S H. unfold run_lim. destruct (add_notifs 0 pre); [|exact I].
  destruct body as [[s1 r1]|], body' as [[s1' r1']|]; simpl in H; try contradiction; [|exact I].
  destruct H as [Hr H]. subst r1'. rewrite (sim_L _ _ _ S), (sim_L _ _ _ H).
  destruct (add_notifs z _); [|exact I]. destruct (add_notifs z0 post); [|exact I].
  split; [reflexivity|exact H].
Qed.

Lemma run_op_sim b st st' t : Sim b st st' -> SimO b (run_op cfg st t) (run_op cfg st' t).
Proof.
  intros S. unfold run_op. rewrite (committee_witness_sim _ _ _ t S). destruct (t_op t).
  - apply run_lim_sim; [exact S|]. unfold run_lop. destruct o.
    + apply neo_transfer_sim; exact S.
    + apply gas_transfer_sim; exact S.
    + apply vote_sim; exact S.
  - apply neo_transfer_sim; exact S.
  - apply gas_transfer_sim; exact S.
  - apply vote_sim; exact S.
  - apply register_candidate_sim; exact S.
  - apply unregister_candidate_sim; exact S.
  - apply notary_withdraw_sim; exact S.
  - apply notary_lock_sim; exact S.
  - destruct (committee_witness st t); [apply set_gas_per_block_sim; exact S|exact I].
  - destruct (committee_witness st t); [apply set_register_price_sim; exact S|exact I].
  - destruct (committee_witness st t); [apply block_account_sim; exact S|exact I].
  - destruct (committee_witness st t); [apply unblock_account_sim; exact S|exact I].
  - destruct (committee_witness st t); [apply policy_set_sim; exact S|exact I].
  - destruct (committee_witness st t && hf_faun cfg); [|exact I].
    destruct fee; [apply whitelist_set_sim|apply whitelist_remove_sim]; exact S.
  - destruct (committee_witness st t); [apply designate_as_role_sim; exact S|exact I].
  - apply mg_deploy_sim; exact S.
  - apply mg_update_sim; exact S.
  - apply mg_destroy_sim; exact S.
  - destruct (i_halt t); [|exact I]. split; [reflexivity|].
    pose proof (sim_next _ _ _ S) as Hn. destruct S. constructor; simpl; auto; congruence.
  - exact I.
  - destruct (i_halt t); [split; [reflexivity|exact S]|exact I].
Qed.

Lemma exec_tx_sim b st st' t : Sim b st st' -> Sim b (exec_tx cfg st t) (exec_tx cfg st' t).
Proof.
  intros S. unfold exec_tx. pose proof (run_op_sim b st st' t S) as H.
  destruct (run_op cfg st t) as [[s r]|], (run_op cfg st' t) as [[s' r']|]; simpl in H; try contradiction; [apply H|exact S].
Qed.

Lemma fold_exec_sim b txs : forall st st', Sim b st st' -> Sim b (fold_left (exec_tx cfg) txs st) (fold_left (exec_tx cfg) txs st').
Proof. induction txs as [|t r IH]; intros st st' S; simpl; [exact S|]. apply IH, exec_tx_sim, S. Qed.

(* ---------- block level ---------- *)
Hypothesis CSZ : 0 < csize cfg.

Lemma burn_fees_sim b txs : forall st st', Sim b st st' -> SimS b (burn_fees st txs) (burn_fees st' txs).
Proof.
  induction txs as [|t r IH]; intros st st' S; simpl; [exact S|].
  pose proof (gas_burn_sim b st st' (t_signer t) (t_sysfee t + t_netfee t) S) as H.
  destruct (gas_burn st _ _) as [s|], (gas_burn st' _ _) as [s'|]; simpl in H; try contradiction; [apply IH; exact H|exact I].
Qed.

Lemma primary_sim b st st' : Sim b st st' -> primary cfg st' = primary cfg st.
Proof. intros S. unfold primary, next_validators. rewrite (sim_committee _ _ _ S). reflexivity. Qed.

Lemma gas_on_persist_sim b st st' txs :
  Sim b st st' -> SimS b (gas_on_persist cfg st txs) (gas_on_persist cfg st' txs).
Proof.
  intros S. unfold gas_on_persist. destruct txs as [|t r]; [exact S|].
  pose proof (burn_fees_sim b (t :: r) st st' S) as H.
  destruct (burn_fees st (t :: r)) as [s|], (burn_fees st' (t :: r)) as [s'|]; simpl in H; try contradiction; [|exact I].
  rewrite (primary_sim _ _ _ H). unfold attr_fee_notary. rewrite (sim_pca _ _ _ H). apply gas_mint_sim. exact H.
Qed.

Lemma attr_fee_notary_sim b st st' : Sim b st st' -> attr_fee_notary st' = attr_fee_notary st.
Proof. intros S. unfold attr_fee_notary. rewrite (sim_pca _ _ _ S). reflexivity. Qed.

Lemma charge_deposits_sim b txs : forall st st', Sim b st st' -> SimS b (charge_deposits cfg st txs) (charge_deposits cfg st' txs).
Proof.
  induction txs as [|t r IH]; intros st st' S; simpl; [exact S|].
  destruct (t_na t) as [[nk p]|]; [|apply IH; exact S].
  destruct (N.eqb (t_signer t) (a_notary cfg)); [|apply IH; exact S].
  rewrite (dep_of_sim _ _ _ p S).
  destruct (negb (dpresent (dep_of st p))); [exact I|].
  match goal with |- context [if ?c then None else _] => destruct c; [exact I|] end.
  apply IH, dep_put_sim, S.
Qed.

Lemma mint_each_sim b accts : forall st st' amount, Sim b st st' -> SimS b (mint_each cfg st accts amount) (mint_each cfg st' accts amount).
Proof.
  induction accts as [|a r IH]; intros st st' amount S; simpl; [exact S|].
  pose proof (gas_mint_sim b st st' a amount false S) as H.
  destruct (gas_mint cfg st a amount false) as [s|], (gas_mint cfg st' a amount false) as [s'|]; simpl in H; try contradiction; [apply IH; exact H|exact I].
Qed.

Lemma notary_nodes_sim b st st' : Sim b st st' -> notary_nodes st' = notary_nodes st.
Proof.
  intros S. unfold notary_nodes, designated, ds_latest. rewrite (sim_dsc _ _ _ S 32%N), (sim_dss _ _ _ S). reflexivity.
Qed.

Lemma notary_on_persist_sim b st st' txs :
  Sim b st st' -> SimS b (notary_on_persist cfg st txs) (notary_on_persist cfg st' txs).
Proof.
  intros S. unfold notary_on_persist.
  pose proof (charge_deposits_sim b txs st st' S) as H.
  destruct (charge_deposits cfg st txs) as [s|], (charge_deposits cfg st' txs) as [s'|]; simpl in H; try contradiction; [|exact I].
  destruct (na_fees txs =? 0); [exact H|].
  rewrite (notary_nodes_sim _ _ _ H), (attr_fee_notary_sim _ _ _ H).
  destruct (notary_nodes s); [exact H|]. apply mint_each_sim. exact H.
Qed.

Lemma natives_on_persist_sim b st st' txs :
  Sim b st st' -> SimS b (natives_on_persist cfg st txs) (natives_on_persist cfg st' txs).
Proof.
  intros S. unfold natives_on_persist.
  pose proof (gas_on_persist_sim b st st' txs S) as H.
  destruct (gas_on_persist cfg st txs) as [s|], (gas_on_persist cfg st' txs) as [s'|]; simpl in H; try contradiction; [|exact I].
  apply notary_on_persist_sim. exact H.
Qed.

Lemma neo_on_persist_sim st st' :
  Sim false st st' ->
  Sim (height (A st) mod csize cfg =? 0) (neo_on_persist cfg st) (neo_on_persist cfg st').
Proof.
  intros S. unfold neo_on_persist. rewrite (sim_height _ _ _ S).
  destruct (height (A st) mod csize cfg =? 0); [|exact S].
  destruct S. constructor; simpl; auto.
Qed.

Lemma storage_votes_sim b st st' k : Sim b st st' -> storage_votes st' k = storage_votes st k.
Proof. intros S. unfold storage_votes. rewrite (cand_of_sim _ _ _ k S). reflexivity. Qed.

Lemma reward_voters_sim cm : forall st st' i vr,
  Sim true st st' -> Sim true (reward_voters cfg st cm i vr) (reward_voters cfg st' cm i vr).
Proof.
  induction cm as [|[k v] t IH]; intros st st' i vr S; simpl; [exact S|].
  apply IH. rewrite (sim_vc _ _ _ S eq_refl), (storage_votes_sim _ _ _ k S), (sim_latest _ _ _ k S).
  match goal with |- context [if ?c then _ else st] => destruct c; [|exact S] end.
  destruct S. constructor; simpl; auto; try congruence.
  - unfold gpv_coh; simpl. intros k0 v0. rewrite !aget_aset. destruct (N.eqb k0 k); [intros E; inv E; reflexivity|apply sim_gpv0].
  - unfold gpv_coh; simpl. intros k0 v0. rewrite !aget_aset. destruct (N.eqb k0 k); [intros E; inv E; reflexivity|apply sim_gpv'0].
Qed.

(* NEO.PostPersist in two parts: rewards, then the next-epoch committee *)
Definition post_rewards (st : state) : option state :=
  let idx := height (A st) in
  let gas := gpb_at (c_gpb (A st)) (idx + 1) in
  let member := fst (nth (Z.to_nat (idx mod csize cfg)) (committee (A st)) (0%N, 0)) in
  match gas_mint cfg st (key_acct cfg member) (gas * 10 / 100) false with
  | None => None
  | Some st1 =>
      Some (if idx mod csize cfg =? 0
            then reward_voters cfg st1 (committee (A st1)) 0 (80 * gas * (100000000 * csize cfg) / (csize cfg + nval cfg) / 100)
            else st1)
  end.

Definition post_recompute (idx : Z) (st2 : state) : state :=
  if ((idx + 1) mod csize cfg =? 0) && votes_changed (A st2)
  then withA st2 (set_ne_committee (A st2) (compute_committee cfg st2))
  else st2.

Lemma neo_post_persist_split st :
  neo_post_persist cfg st = option_map (post_recompute (height (A st))) (post_rewards st).
Proof.
  unfold neo_post_persist, post_rewards, post_recompute.
  destruct (gas_mint cfg st _ _ false); reflexivity.
Qed.

Lemma post_rewards_sim b st st' :
  Sim b st st' -> (height (A st) mod csize cfg =? 0) = true -> b = true \/ True ->
  b = (height (A st) mod csize cfg =? 0) \/ (height (A st) mod csize cfg =? 0) = false ->
  SimS b (post_rewards st) (post_rewards st').
Proof. Abort.

Lemma post_rewards_sim st st' :
  let b := height (A st) mod csize cfg =? 0 in
  Sim b st st' -> SimS b (post_rewards st) (post_rewards st').
Proof.
  intros b S. unfold post_rewards.
  rewrite (sim_height _ _ _ S), (sim_committee _ _ _ S).
  rewrite <- (gpb_at_dedup (c_gpb (A st'))), (sim_gpb _ _ _ S), gpb_at_dedup.
  set (gas := gpb_at (c_gpb (A st)) (height (A st) + 1)).
  match goal with |- context [gas_mint cfg st ?a ?g false] =>
    pose proof (gas_mint_sim b st st' a g false S) as H;
    destruct (gas_mint cfg st a g false) as [s1|], (gas_mint cfg st' a g false) as [s1'|]; simpl in H; try contradiction; [|exact I] end.
  simpl. fold b. destruct b eqn:Eb; [|exact H].
  rewrite (sim_committee _ _ _ H). apply reward_voters_sim. exact H.
Qed.

Lemma compute_committee_sim b st st' : Sim b st st' -> compute_committee cfg st' = compute_committee cfg st.
Proof.
  intros S. apply compute_committee_ext; try (rewrite (sim_L _ _ _ S); reflexivity). apply S.
Qed.

Lemma post_recompute_sim b idx st st' :
  Sim b st st' -> CohTx cfg st -> CohTx cfg st' ->
  Sim false (post_recompute idx st) (post_recompute idx st').
Proof.
  intros S C C'. unfold post_recompute.
  pose proof (compute_committee_sim _ _ _ S) as Ec.
  assert (Rec : forall s s', Sim b s s' -> compute_committee cfg s' = compute_committee cfg s ->
                Sim false (withA s (set_ne_committee (A s) (compute_committee cfg s)))
                          (withA s' (set_ne_committee (A s') (compute_committee cfg s')))).
  { intros s s' []. intros E. constructor; simpl; auto. discriminate. }
  destruct ((idx + 1) mod csize cfg =? 0); simpl; [|apply (Sim_weaken _ _ _ S)].
  destruct (votes_changed (A st)) eqn:V, (votes_changed (A st')) eqn:V'.
  - apply Rec; assumption.
  - (* the running node recomputes, the other keeps a committee that is still right *)
    pose proof (ct_dirty _ _ C' V') as D'. destruct S. constructor; simpl; auto; [|discriminate].
    rewrite <- D'. rewrite Ec. reflexivity.
  - pose proof (ct_dirty _ _ C V) as D. destruct S. constructor; simpl; auto; [|discriminate].
    rewrite Ec. exact D.
  - apply (Sim_weaken _ _ _ S).
Qed.

(* coherence of the state on which the next-epoch committee is decided (the first part of run_block_coh) *)
Lemma pre_recompute_coh st txs st1 st4 :
  Inv cfg (L st) -> Coh cfg st -> Forall (tx_ok cfg) txs ->
  natives_on_persist cfg (neo_on_persist cfg (withA st (set_height (A st) (height (A st) + 1)))) txs = Some st1 ->
  post_rewards (fold_left (exec_tx cfg) txs st1) = Some st4 ->
  CohTx cfg st4.
Proof.
  intros I [C Cm Ce] Hok E1 E4.
  set (h := height (A st) + 1) in *.
  set (st0 := withA st (set_height (A st) h)) in *.
  assert (C0 : CohTx cfg st0).
  { destruct C as [c1 c2 c3 c4 c5 c6 c7 c8]. constructor; simpl; auto.
    all: try (intros Hv; rewrite <- (c6 Hv); apply compute_committee_ext; reflexivity). }
  assert (Cp : CohTx cfg (neo_on_persist cfg st0) /\ L (neo_on_persist cfg st0) = L st).
  { unfold neo_on_persist. simpl. fold h.
    destruct (h mod csize cfg =? 0) eqn:Er; [|split; [exact C0|reflexivity]].
    split; [|reflexivity].
    destruct C0 as [c1 c2 c3 c4 c5 c6 c7 c8]. simpl in *. constructor; simpl; auto.
    intros _. assert (Hr : (height (A st) + 1) mod csize cfg = 0) by (fold h; lia).
    rewrite (Ce Hr). apply compute_committee_ext; reflexivity. }
  destruct Cp as [Cp HLp].
  pose proof (inv_wf _ _ I) as Hwf.
  assert (Hwfp : WF (L (neo_on_persist cfg st0))) by (rewrite HLp; exact Hwf).
  pose proof (TxStep_of_G cfg _ _ (natives_on_persist_g cfg _ _ _ E1)) as [_ [_ [_ T1]]].
  pose proof (e_wf _ _ _ _ _ _ _ (natives_on_persist_bal cfg CW _ _ _ Hwfp Hok E1) Hwfp) as Hwf1.
  pose proof (fold_exec_t cfg CW FIX7 FIX23 FIX46 txs st1 Hwf1 Hok) as [_ [_ [_ T2]]].
  unfold post_rewards in E4.
  match type of E4 with context [gas_mint cfg ?s ?a ?g false] => destruct (gas_mint cfg s a g false) as [st3|] eqn:E3; [|discriminate] end.
  pose proof (TxStep_of_G cfg _ _ (gas_mint_g cfg _ _ _ _ _ E3)) as [_ [_ [_ T3]]].
  inv E4.
  match goal with |- CohTx cfg (if ?c then _ else _) => destruct c end; [|auto].
  match goal with |- CohTx cfg (reward_voters cfg st3 ?cm ?i ?vr) => destruct (reward_voters_t cfg cm st3 i vr) as [G4 _] end.
  apply (CohTx_GStep cfg _ _ G4). auto.
Qed.

Lemma run_block_sim st st' txs :
  Inv cfg (L st) -> Inv cfg (L st') -> Coh cfg st -> Coh cfg st' -> Forall (tx_ok cfg) txs ->
  Sim false st st' -> SimS false (run_block cfg st txs) (run_block cfg st' txs).
Proof.
  intros II II' C C' Hok S. unfold run_block.
  set (st0 := withA st (set_height (A st) (height (A st) + 1))).
  set (st0' := withA st' (set_height (A st') (height (A st') + 1))).
  assert (S0 : Sim false st0 st0').
  { unfold st0, st0'. rewrite (sim_height _ _ _ S). destruct S. constructor; simpl; auto. }
  pose proof (neo_on_persist_sim _ _ S0) as Sp.
  set (b := height (A st0) mod csize cfg =? 0) in *.
  pose proof (natives_on_persist_sim b _ _ txs Sp) as H1.
  destruct (natives_on_persist cfg (neo_on_persist cfg st0) txs) as [s1|] eqn:E1,
           (natives_on_persist cfg (neo_on_persist cfg st0') txs) as [s1'|] eqn:E1'; simpl in H1; try contradiction; [|exact I].
  rewrite !neo_post_persist_split.
  pose proof (fold_exec_sim b txs _ _ H1) as S2.
  set (s2 := fold_left (exec_tx cfg) txs s1) in *. set (s2' := fold_left (exec_tx cfg) txs s1') in *.
  assert (Hh2 : height (A s2) = height (A st0)).
  { pose proof (TxStep_of_G cfg _ _ (natives_on_persist_g cfg _ _ _ E1)) as [h1 _].
    pose proof (inv_wf _ _ II) as Hwf.
    assert (HLp : L (neo_on_persist cfg st0) = L st) by (rewrite neo_on_persist_L; reflexivity).
    assert (Hwfp : WF (L (neo_on_persist cfg st0))) by (rewrite HLp; exact Hwf).
    pose proof (e_wf _ _ _ _ _ _ _ (natives_on_persist_bal cfg CW _ _ _ Hwfp Hok E1) Hwfp) as Hwf1.
    pose proof (fold_exec_t cfg CW FIX7 FIX23 FIX46 txs s1 Hwf1 Hok) as [h2 _]. fold s2 in h2.
    rewrite h2, h1. unfold neo_on_persist. destruct (height (A st0) mod csize cfg =? 0); reflexivity. }
  assert (Sb : Sim (height (A s2) mod csize cfg =? 0) s2 s2') by (rewrite Hh2; exact S2).
  pose proof (post_rewards_sim s2 s2' Sb) as H4.
  destruct (post_rewards s2) as [s4|] eqn:E4, (post_rewards s2') as [s4'|] eqn:E4'; simpl in H4; try contradiction; [|exact I].
  simpl. rewrite (sim_height _ _ _ S2).
  apply (post_recompute_sim _ _ _ _ H4).
  - apply (pre_recompute_coh st txs s1 s4 II C Hok E1 E4).
  - apply (pre_recompute_coh st' txs s1' s4' II' C' Hok E1' E4').
Qed.

(* a restarted node is related to the one it was *)
Lemma reinit_sim st : Coh cfg st -> Sim false st (reinit cfg st).
Proof.
  intros [[c1 c2 c3 c4 c5 c6 c7 c8] cm ce]. unfold reinit.
  destruct ((height (A st) + 1) mod csize cfg =? 0) eqn:E.
  - constructor; simpl; auto; try discriminate.
    all: try (rewrite c4; apply (dedup_idem cfg)).
    all: try (unfold gpv_coh; simpl; intros k v; discriminate).
    all: try (intros role; rewrite aget_reinit_ds; symmetry; apply c7).
    all: try (intros h; rewrite aget_reinit_mg; symmetry; apply c8).
    assert (Hr : (height (A st) + 1) mod csize cfg = 0) by lia.
    rewrite (ce Hr). apply (compute_committee_ext cfg); simpl; auto.
  - constructor; simpl; auto; try discriminate.
    all: try (rewrite c4; apply (dedup_idem cfg)).
    all: try (unfold gpv_coh; simpl; intros k v; discriminate).
    all: try (intros role; rewrite aget_reinit_ds; symmetry; apply c7).
    all: try (intros h; rewrite aget_reinit_mg; symmetry; apply c8).
    symmetry. apply cm. lia.
Qed.

Lemma Sim_sto b st st' : Sim b st st' -> sto st' = sto st.
Proof. intros []. unfold sto. congruence. Qed.

Lemma Sim_obs b st st' : Sim b st st' -> obs cfg st' = obs cfg st.
Proof.
  intros []. unfold obs, committee_sorted, next_validators, compute_next_validators. congruence.
Qed.

Lemma Sim_obsX b st st' role index a : Sim b st st' -> obsX st' role index a = obsX st role index a.
Proof.
  intros S. unfold obsX, designated, ds_latest, whitelisted_fee.
  rewrite (contract_of_sim _ _ _ a S), (sim_dsc _ _ _ S role), (sim_dss _ _ _ S), (sim_pca _ _ _ S). reflexivity.
Qed.

Lemma restart_sim bs bs' :
  blocks_ok cfg bs -> blocks_ok cfg bs' ->
  let st := reach cfg bs in
  Sim false (fold_left (step cfg) bs' st) (fold_left (step cfg) bs' (reinit cfg st)).
Proof.
  intros Hok Hok' st.
  destruct (cache_coherent_reach cfg CW FIX7 FIX23 FIX46 CSZ bs Hok) as [C I]. fold st in C, I.
  assert (G : forall s s', Sim false s s' -> Coh cfg s -> Coh cfg s' -> Inv cfg (L s) -> Inv cfg (L s') ->
              Sim false (fold_left (step cfg) bs' s) (fold_left (step cfg) bs' s')).
  { induction Hok' as [|b r Hb Hr IH]; intros s s' S Cs Cs' Is Is'; simpl; [exact S|].
    pose proof (run_block_sim s s' b Is Is' Cs Cs' Hb S) as H.
    unfold step at 2 4.
    destruct (run_block cfg s b) as [t|] eqn:E, (run_block cfg s' b) as [t'|] eqn:E'; simpl in H; try contradiction.
    - apply IH; auto.
      + apply (run_block_coh cfg CW FIX7 FIX23 FIX46 CSZ _ _ _ Is Cs Hb E).
      + apply (run_block_coh cfg CW FIX7 FIX23 FIX46 CSZ _ _ _ Is' Cs' Hb E').
      + apply (Bal_Inv cfg _ _ (run_block_bal cfg CW _ _ _ (inv_wf _ _ Is) Hb E) Is).
      + apply (Bal_Inv cfg _ _ (run_block_bal cfg CW _ _ _ (inv_wf _ _ Is') Hb E') Is').
    - apply IH; auto. }
  assert (S0 : Sim false st (reinit cfg st)) by (apply reinit_sim; exact C).
  assert (I' : Inv cfg (L (reinit cfg st))).
  { replace (L (reinit cfg st)) with (L st); [exact I|]. unfold reinit. destruct (_ =? 0); reflexivity. }
  exact (G st (reinit cfg st) S0 C (reinit_coh cfg CSZ st C) I I').
Qed.

Theorem restart_transparent bs bs' :
  blocks_ok cfg bs -> blocks_ok cfg bs' ->
  let st := reach cfg bs in
  sto (fold_left (step cfg) bs' (reinit cfg st)) = sto (fold_left (step cfg) bs' st)
  /\ obs cfg (fold_left (step cfg) bs' (reinit cfg st)) = obs cfg (fold_left (step cfg) bs' st)
  /\ (forall role index a, obsX (fold_left (step cfg) bs' (reinit cfg st)) role index a
                           = obsX (fold_left (step cfg) bs' st) role index a).
Proof.
  intros Hok Hok' st. pose proof (restart_sim bs bs' Hok Hok') as S. fold st in S.
  split; [apply (Sim_sto _ _ _ S)|split; [apply (Sim_obs _ _ _ S)|intros role index a; apply (Sim_obsX _ _ _ role index a S)]].
Qed.

(* the gas-per-block history: GetGASPerBlock(index) and the sum CalculateNEOHolderReward takes over it are the same on
   the restarted node (list rebuilt from storage: one record per index) and on the running one (append-only slice,
   possibly several records of one index, the last appended one wins), for EVERY index, after any continuation *)
Lemma Sim_gpb_lookup b st st' idx : Sim b st st' -> gas_per_block st' idx = gas_per_block st idx.
Proof.
  intros S. unfold gas_per_block. rewrite <- (gpb_at_dedup (c_gpb (A st'))), (sim_gpb _ _ _ S). apply gpb_at_dedup.
Qed.

Lemma Sim_gpb_sum b st st' start en : Sim b st st' -> gas_sum_over st' start en = gas_sum_over st start en.
Proof.
  intros S. unfold gas_sum_over. rewrite <- (holder_sum_dedup (c_gpb (A st'))), (sim_gpb _ _ _ S). apply holder_sum_dedup.
Qed.

Theorem gas_per_block_restart_transparent bs bs' :
  blocks_ok cfg bs -> blocks_ok cfg bs' ->
  let st := reach cfg bs in
  forall idx start en,
    gas_per_block (fold_left (step cfg) bs' (reinit cfg st)) idx = gas_per_block (fold_left (step cfg) bs' st) idx
    /\ gas_sum_over (fold_left (step cfg) bs' (reinit cfg st)) start en = gas_sum_over (fold_left (step cfg) bs' st) start en.
Proof.
  intros Hok Hok' st idx start en. pose proof (restart_sim bs bs' Hok Hok') as S. fold st in S.
  split; [apply (Sim_gpb_lookup _ _ _ idx S)|apply (Sim_gpb_sum _ _ _ start en S)].
Qed.

(* any number of restarts at any block boundaries *)
Inductive gevent := GBlock (txs : list tx) | GRestart.

Definition gstep (st : state) (e : gevent) : state :=
  match e with GBlock b => step cfg st b | GRestart => reinit cfg st end.

Fixpoint gblocks (es : list gevent) : list (list tx) :=
  match es with
  | [] => []
  | GBlock b :: t => b :: gblocks t
  | GRestart :: t => gblocks t
  end.

Lemma Sim_trans st1 st2 st3 : Sim false st1 st2 -> Sim false st2 st3 -> Sim false st1 st3.
Proof. intros [] []. constructor; try congruence; auto. Qed.

Theorem restarts_transparent es :
  blocks_ok cfg (gblocks es) ->
  sto (fold_left gstep es (genesis cfg)) = sto (reach cfg (gblocks es))
  /\ obs cfg (fold_left gstep es (genesis cfg)) = obs cfg (reach cfg (gblocks es))
  /\ (forall role index a, obsX (fold_left gstep es (genesis cfg)) role index a = obsX (reach cfg (gblocks es)) role index a).
Proof.
  intros Hok. unfold reach.
  assert (G : forall s s', Sim false s s' -> Coh cfg s -> Coh cfg s' -> Inv cfg (L s) -> Inv cfg (L s') ->
              blocks_ok cfg (gblocks es) ->
              Sim false (fold_left (step cfg) (gblocks es) s) (fold_left gstep es s')).
  { clear Hok. induction es as [|e r IH]; intros s s' S Cs Cs' Is Is' Hok; simpl; [exact S|].
    destruct e as [b|]; simpl in *.
    - inv Hok. pose proof (run_block_sim s s' b Is Is' Cs Cs' H1 S) as H.
      unfold step at 2 3.
      destruct (run_block cfg s b) as [t|] eqn:E, (run_block cfg s' b) as [t'|] eqn:E'; simpl in H; try contradiction.
      + apply IH; auto.
        * apply (run_block_coh cfg CW FIX7 FIX23 FIX46 CSZ _ _ _ Is Cs H1 E).
        * apply (run_block_coh cfg CW FIX7 FIX23 FIX46 CSZ _ _ _ Is' Cs' H1 E').
        * apply (Bal_Inv cfg _ _ (run_block_bal cfg CW _ _ _ (inv_wf _ _ Is) H1 E) Is).
        * apply (Bal_Inv cfg _ _ (run_block_bal cfg CW _ _ _ (inv_wf _ _ Is') H1 E') Is').
      + apply IH; auto.
    - apply IH; auto.
      + apply (Sim_trans _ _ _ S). apply reinit_sim. exact Cs'.
      + apply (reinit_coh cfg CSZ _ Cs').
      + replace (L (reinit cfg s')) with (L s'); [exact Is'|]. unfold reinit. destruct (_ =? 0); reflexivity. }
  assert (S0 : Sim false (genesis cfg) (genesis cfg)).
  { pose proof (genesis_coh cfg) as [[c1 c2 c3 c4 c5 c6 c7 c8] _ _]. constructor; auto. }
  pose proof (G _ _ S0 (genesis_coh cfg) (genesis_coh cfg) (genesis_inv cfg CW) (genesis_inv cfg CW) Hok) as S.
  split; [apply (Sim_sto _ _ _ S)|split; [apply (Sim_obs _ _ _ S)|intros role index a; apply (Sim_obsX _ _ _ role index a S)]].
Qed.

End Restart.
