(* C02 - proofs about Node/CrashGC.v: whatever the collector removes, every batch boundary still leaves a
   database that start-up accepts, at the right height, with the right state. *)
From NG Require Import Common.Tactics Node.Crash Node.CrashProofs Node.Stages Node.StagesProofs Node.CrashGC.
Open Scope N_scope.

Section GCProofs.
  Context {St Rt : Type}.
  Variable exec : St -> N -> St.
  Variable root : St -> Rt.
  Variable genesis : St.
  Variable ntx : N -> N.
  Variable PS : N.
  Variable gcp mtb : N.
  Variable gc_set : N -> list N.
  Hypothesis PS_big : 1 < PS.
  Hypothesis gcp_pos : 0 < gcp.

  Notation val := (val St Rt).
  Notation db := (db St Rt).
  Notation batch := (list (key * option (Crash.val St Rt))).
  Notation node := (node St Rt).
  Notation st_at := (st_at St exec genesis).
  Notation hdr_writes := (hdr_writes St Rt PS).
  Notation hdrs_writes := (hdrs_writes St Rt PS).
  Notation blk_writes := (blk_writes St Rt exec root ntx).
  Notation stored := (stored_count PS).
  Notation recover := (recover St Rt root genesis ntx PS 0).
  Notation fresh := (fresh St Rt root genesis ntx).

  (* what start-up and block processing need of a database whose old blocks / pages may be gone:
     block and header records from [low] on, pages from [plow] on *)
  Record InvG (d : db) (p : bool) (h hh low plow : N) : Prop := {
    g_version : get d KVersion = Some (VPrefix p);
    g_curblock : get d KCurBlock = Some (VNum h);
    g_curheader : get d KCurHeader = Some (VNum hh);
    g_le : h <= hh;
    g_exec : forall j, low <= j -> get d (KExec j) =
                         if j <=? h then Some VBlk else if j <=? hh then Some VHdr else None;
    g_root : forall j, get d (KRoot j) =
                         if j <=? h then Some (VRoot (root (st_at j))) else None;
    g_state : get d (KState p) = Some (VSt (st_at h));
    g_stage : get d KStage = None;
    g_point : get d KSyncPoint = None;
    g_page : forall n, n mod PS = 0 -> plow <= n -> n + PS <= hh + 1 -> get d (KPage n) = Some VUnit;
    g_low : low <= stored hh /\ low <= h;
    g_plow : plow = 0 \/ plow + PS <= stored hh
  }.

  Lemma stored_mono a b : a <= b -> stored a <= stored b.
  Proof.
    intros H. unfold stored_count. apply N.mul_le_mono_r. apply N.div_le_mono; lia.
  Qed.

  Lemma stored_le hh : stored hh <= hh + 1.
  Proof. unfold stored_count. rewrite N.mul_comm. apply N.mul_div_le. lia. Qed.

  Lemma stored_mod hh : stored hh mod PS = 0.
  Proof. unfold stored_count. apply N.mod_mul. lia. Qed.

  Lemma Inv_InvG d p h hh : Inv exec root genesis ntx PS d p h hh -> InvG d p h hh 0 0.
  Proof.
    intros I. destruct I. constructor; auto; try lia.
  Qed.

  (* closed form of a header transaction *)
  Lemma get_hdr (d : db) i k :
    get (apply d (hdr_writes i)) k =
    match k with
    | KCurHeader => Some (VNum i)
    | KExec j => if j =? i then Some VHdr else get d k
    | KPage n => if ((i + 1) mod PS =? 0) && (PS <=? i + 1) && (n =? i + 1 - PS) then Some VUnit else get d k
    | _ => get d k
    end.
  Proof.
    rewrite get_apply. unfold Crash.hdr_writes.
    destruct (((i + 1) mod PS =? 0) && (PS <=? i + 1)); destruct k; simpl; try reflexivity;
      try (destruct (i0 =? i); reflexivity); try (destruct (n =? i + 1 - PS); reflexivity).
  Qed.

  Lemma InvG_hdr d p h hh low plow :
    InvG d p h hh low plow -> InvG (apply d (hdr_writes (hh + 1))) p h (hh + 1) low plow.
  Proof.
    intros I. destruct I as [Iv Icb Ich Ile Iex Irt Ist Isg Ipt Ipg Ilo Ipl].
    pose proof (stored_mono hh (hh + 1) ltac:(lia)) as Hm.
    constructor; intros; rewrite ?get_hdr; auto; try lia.
    - rewrite Iex by auto. destruct (N.eqb_spec j (hh + 1)); subst.
      + destruct (N.leb_spec (hh + 1) h); [lia|]. rewrite N.leb_refl. reflexivity.
      + destruct (N.leb_spec j h); auto.
        destruct (N.leb_spec j hh), (N.leb_spec j (hh + 1)); auto; lia.
    - destruct (((hh + 1 + 1) mod PS =? 0) && (PS <=? hh + 1 + 1) && (n =? hh + 1 + 1 - PS)) eqn:E; auto.
      apply Ipg; auto.
      assert (n + PS <> hh + 1 + 1).
      { intros Heq. apply andb_false_iff in E as [E|E].
        - apply andb_false_iff in E as [E|E].
          + apply N.eqb_neq in E. apply E. rewrite <- Heq.
            replace (n + PS) with (n + 1 * PS) by lia. rewrite N.mod_add by lia. auto.
          + apply N.leb_gt in E. lia.
        - apply N.eqb_neq in E. lia. }
      lia.
  Qed.

  Lemma InvG_hdrs d p h hh low plow c :
    InvG d p h hh low plow -> InvG (apply d (hdrs_writes (hh + 1) c)) p h (hh + N.of_nat c) low plow.
  Proof.
    revert d hh; induction c as [|c IH]; intros d hh I.
    - simpl. rewrite apply_nil, N.add_0_r. auto.
    - cbn [Crash.hdrs_writes]. rewrite <- apply_app.
      replace (hh + N.of_nat (S c)) with (hh + 1 + N.of_nat c) by lia.
      apply IH, InvG_hdr, I.
  Qed.

  Lemma st_succ h : st_at (h + 1) = exec (st_at h) (h + 1).
  Proof using St Rt exec genesis.
    clear. unfold Crash.st_at. replace (N.to_nat (h + 1)) with (S (N.to_nat h)) by lia.
    simpl. f_equal. lia.
  Qed.

  Lemma InvG_blk d p h hh low plow :
    InvG d p h hh low plow -> h < hh ->
    InvG (apply d (blk_writes p (st_at h) (h + 1))) p (h + 1) hh low plow.
  Proof.
    intros I Hlt. destruct I as [Iv Icb Ich Ile Iex Irt Ist Isg Ipt Ipg Ilo Ipl].
    constructor; intros; rewrite ?get_blk; auto; try lia.
    - rewrite Iex by auto. destruct (N.eqb_spec j (h + 1)); subst.
      + rewrite N.leb_refl. reflexivity.
      + destruct (N.leb_spec j h), (N.leb_spec j (h + 1)); try lia; reflexivity.
    - rewrite Irt. destruct (N.eqb_spec j (h + 1)); subst.
      + rewrite N.leb_refl, st_succ. reflexivity.
      + destruct (N.leb_spec j h), (N.leb_spec j (h + 1)); try lia; reflexivity.
    - rewrite Bool.eqb_reflx, st_succ. reflexivity.
  Qed.

  (* deleting records of one class *)
  Lemma get_del_const (d : db) (f : N -> key) (l : list N) k :
    (forall j, In j l -> k <> f j) -> get (apply d (map (fun j => (f j, @None val)) l)) k = get d k.
  Proof.
    intros H. rewrite get_apply, sem_map_const.
    replace (existsb (fun i => key_eqb k (f i)) l) with false; [reflexivity|].
    symmetry. destruct (existsb _ l) eqn:E; auto.
    apply existsb_exists in E as (x & Hx & Ex). apply key_eqb_eq in Ex. exfalso. eapply H; eauto.
  Qed.

  Lemma get_del_blocks (d : db) lo hi k :
    (forall j, k = KExec j -> hi <= j) -> (forall j, k <> KTxs j) ->
    get (apply d (del_blocks St Rt ntx lo hi)) k = get d k.
  Proof.
    intros H1 H2. unfold del_blocks. rewrite get_apply, sem_app, !sem_map_const.
    assert (N0 : forall (f : N -> bool) l, (forall x, In x l -> f x = false) -> existsb f l = false).
    { intros f l Hf. induction l as [|a l IH]; simpl; auto. rewrite Hf by (left; auto). apply IH.
      intros x Hx. apply Hf. right. auto. }
    assert (E1 : existsb (fun i => key_eqb k (KExec i)) (range lo (N.to_nat (hi - lo))) = false).
    { apply N0. intros x Hx. apply key_eqb_neq. intros Ex. apply in_range in Hx. specialize (H1 x Ex). lia. }
    assert (E2 : existsb (fun i => key_eqb k (KTxs i))
                   (filter (fun j => negb (ntx j =? 0)) (range lo (N.to_nat (hi - lo)))) = false).
    { apply N0. intros x Hx. apply key_eqb_neq. apply H2. }
    rewrite E1, E2. reflexivity.
  Qed.

  Lemma InvG_del_blocks d p h hh low plow lo hi :
    InvG d p h hh low plow -> hi <= stored hh -> hi <= h ->
    InvG (apply d (del_blocks St Rt ntx lo hi)) p h hh (N.max low hi) plow.
  Proof.
    intros I H1 H2. destruct I as [Iv Icb Ich Ile Iex Irt Ist Isg Ipt Ipg Ilo Ipl].
    constructor; intros; rewrite ?get_del_blocks; auto; try congruence; try lia.
    - apply Iex. lia.
    - intros j0 E. inv E. lia.
  Qed.

  Lemma in_page_list from till n : In n (page_list PS from till) -> n <= till.
  Proof.
    unfold page_list. destruct (N.leb_spec from till) as [Hft|Hft]; [|intros []].
    intros Hin. apply in_map_iff in Hin as (i & <- & Hi). apply in_seq in Hi.
    assert (A : N.of_nat i <= (till - from) / PS) by lia.
    assert (B : N.of_nat i * PS <= till - from).
    { etransitivity; [apply N.mul_le_mono_r; exact A|]. rewrite N.mul_comm. apply N.mul_div_le. lia. }
    lia.
  Qed.

  Lemma InvG_del_pages d p h hh low plow from till :
    InvG d p h hh low plow -> till + 2 * PS <= stored hh ->
    InvG (apply d (del_pages St Rt PS from till)) p h hh low (N.max plow (till + PS)).
  Proof.
    intros I Ht. destruct I as [Iv Icb Ich Ile Iex Irt Ist Isg Ipt Ipg Ilo Ipl].
    unfold del_pages.
    assert (O : forall k, (forall n, k = KPage n -> till < n) ->
              get (apply d (map (fun n => (KPage n, @None val)) (page_list PS from till))) k = get d k).
    { intros k Hk. apply get_del_const. intros j Hj E. apply in_page_list in Hj. specialize (Hk j E). lia. }
    constructor; intros; rewrite ?O; auto; try congruence; try lia.
    - apply Ipg; auto. lia.
    - intros n0 E. inv E. lia.
  Qed.

  Lemma InvG_hist d p h hh low plow (f : N -> key) (l : list N) :
    (f = KMpt \/ f = KXfer) -> InvG d p h hh low plow ->
    InvG (apply d (map (fun j => (f j, @None val)) l)) p h hh low plow.
  Proof.
    intros Hf I. destruct I as [Iv Icb Ich Ile Iex Irt Ist Isg Ipt Ipg Ilo Ipl].
    assert (O : forall k, (forall j, k <> KMpt j) -> (forall j, k <> KXfer j) ->
              get (apply d (map (fun j => (f j, @None val)) l)) k = get d k).
    { intros k A B. apply get_del_const. intros j _ E. destruct Hf; subst f; [eapply A|eapply B]; eauto. }
    constructor; intros; rewrite ?O; auto; try congruence.
  Qed.

  (* ---- arithmetic of the collector's targets ---- *)
  Lemma gc_tgt_le new : gc_tgt gcp mtb new <= new.
  Proof.
    unfold gc_tgt. etransitivity; [rewrite N.mul_comm; apply N.mul_div_le; lia|]. lia.
  Qed.

  (* blocks are only removed below the first header that start-up re-walks, and below the tip *)
  Lemma blocks_target_safe new hh :
    new <= hh ->
    blocks_target PS gcp new (gc_tgt gcp mtb new) <= stored hh /\
    blocks_target PS gcp new (gc_tgt gcp mtb new) <= new.
  Proof.
    intros Hle. pose proof (gc_tgt_le new) as Ht. set (tgt := gc_tgt gcp mtb new) in *.
    unfold blocks_target.
    assert (Hng : new / gcp * gcp <= new) by (rewrite N.mul_comm; apply N.mul_div_le; lia).
    assert (Htg : tgt <= new / gcp * gcp).
    { unfold tgt, gc_tgt. apply N.mul_le_mono_r. apply N.div_le_mono; lia. }
    assert (Hdm : tgt / PS * PS <= tgt) by (rewrite N.mul_comm; apply N.mul_div_le; lia).
    assert (Hlt : tgt < (tgt / PS + 1) * PS).
    { pose proof (N.mod_lt tgt PS ltac:(lia)) as Hm. pose proof (N.div_mod tgt PS ltac:(lia)) as Hd.
      remember (tgt / PS) as q. remember (tgt mod PS) as r. nia. }
    assert (Hq1 : tgt / PS <= new / gcp * gcp / PS) by (apply N.div_le_mono; lia).
    assert (Hq2 : new / gcp * gcp / PS <= (hh + 1) / PS) by (apply N.div_le_mono; lia).
    unfold stored_count.
    remember (tgt / PS) as q. remember (new / gcp * gcp / PS) as q1. remember ((hh + 1) / PS) as q2.
    destruct (N.eqb_spec q1 q) as [E|E].
    - split; [nia|nia].
    - split; [nia|lia].
  Qed.

  (* with the repair, pages are only removed strictly below the last complete one *)
  Lemma pages_till_safe hh tgt :
    0 < pages_till PS true hh tgt -> pages_till PS true hh tgt + 2 * PS <= stored hh.
  Proof. unfold pages_till. intros H. lia. Qed.

  (* ---- start-up ---- *)
  Lemma recover_invG d p h hh low plow :
    InvG d p h hh low plow -> recover d = RNode (mkNode d [] h hh).
  Proof.
    intros I. destruct I as [Iv Icb Ich Ile Iex Irt Ist Isg Ipt Ipg Ilo Ipl].
    unfold Crash.recover. rewrite Iv, Ich, Icb.
    assert (Crash.headers_ok St Rt PS 0 d hh = true) as ->.
    { unfold Crash.headers_ok. apply andb_true_iff; split.
      - destruct (PS <=? stored hh) eqn:E; auto. apply N.leb_le in E.
        rewrite Ipg; auto.
        + pose proof (stored_mod hh). unfold stored_count in *. set (q := (hh + 1) / PS) in *.
          assert (1 <= q) by (destruct (N.eq_dec q 0) as [Z|Z]; [rewrite Z in E; lia|lia]).
          replace (q * PS - PS) with ((q - 1) * PS) by nia. apply N.mod_mul. lia.
        + destruct Ipl; lia.
        + pose proof (stored_le hh). lia.
      - apply all_from_true'. intros j Hj.
        assert (Hw : Crash.walk_low PS 0 hh <= j /\ j <= hh).
        { destruct (N.le_gt_cases (Crash.walk_low PS 0 hh) (hh + 1)); lia. }
        assert (low <= j).
        { unfold Crash.walk_low in Hw. destruct (PS <=? stored hh) eqn:E.
          - lia.
          - apply N.leb_gt in E. pose proof (stored_mod hh).
            assert (stored hh = 0).
            { unfold stored_count in *. destruct (N.eq_dec ((hh + 1) / PS) 0) as [Z|Z]; [rewrite Z; lia|].
              assert (1 <= (hh + 1) / PS) by lia. nia. }
            lia. }
        rewrite Iex by auto. destruct (j <=? h); auto. destruct (N.leb_spec j hh); auto. lia. }
    rewrite Isg. reflexivity.
  Qed.

  (* ---- the run with the full collector (repaired page removal) ---- *)
  Notation gstep := (gstep St Rt exec root ntx PS gcp mtb gc_set true).
  Notation grun := (grun St Rt exec root ntx PS gcp mtb gc_set true).
  Notation add_headers := (add_headers St Rt PS).
  Notation add_block := (add_block St Rt exec root ntx PS).
  Notation flush := (flush St Rt).

  Definition OkG (d : db) (h hh : N) : Prop := exists low plow, InvG d false h hh low plow.
  Definition DiskOkG (d : db) (hm : N) : Prop := Empty d \/ exists h hh, OkG d h hh /\ h <= hm.
  Definition WFn (n : node) : Prop := OkG (view n) (height n) (hheight n) /\ DiskOkG (disk n) (height n).

  Fixpoint ChainG (d : db) (bs : list batch) (d' : db) (hm : N) : Prop :=
    match bs with
    | [] => d' = d
    | b :: t => DiskOkG (apply d b) hm /\ ChainG (apply d b) t d' hm
    end.

  Lemma DiskOkG_mono d h1 h2 : DiskOkG d h1 -> h1 <= h2 -> DiskOkG d h2.
  Proof. intros [E|(h & hh & O & L)] H; [left; auto|right; exists h, hh; split; auto; lia]. Qed.

  Lemma ChainG_mono d bs d' h1 h2 : ChainG d bs d' h1 -> h1 <= h2 -> ChainG d bs d' h2.
  Proof.
    revert d; induction bs as [|b t IH]; simpl; auto.
    intros d [A B] H. split; eauto using DiskOkG_mono.
  Qed.

  Lemma ChainG_app d b1 d1 b2 d2 hm :
    ChainG d b1 d1 hm -> ChainG d1 b2 d2 hm -> ChainG d (b1 ++ b2) d2 hm.
  Proof.
    revert d; induction b1 as [|b t IH]; simpl; intros d.
    - intros ->; auto.
    - intros [A B] C; split; auto.
  Qed.

  Lemma WFn_add_headers n c : WFn n -> WFn (add_headers n c) /\ height (add_headers n c) = height n
                                      /\ disk (add_headers n c) = disk n.
  Proof.
    intros ((low & plow & I) & D). unfold Crash.add_headers. simpl.
    split; [|split; reflexivity]. split; simpl; auto.
    exists low, plow. unfold view; simpl. rewrite <- apply_app.
    replace (hheight n + c) with (hheight n + N.of_nat (N.to_nat c)) by lia.
    apply InvG_hdrs, I.
  Qed.

  Lemma WFn_add_block n : WFn n -> WFn (add_block n) /\ height n <= height (add_block n)
                                   /\ disk (add_block n) = disk n.
  Proof.
    intros W. unfold Crash.add_block.
    set (n1 := if hheight n <? height n + 1 then add_headers n 1 else n).
    assert (W1 : WFn n1 /\ height n1 = height n /\ disk n1 = disk n /\ height n < hheight n1).
    { subst n1. destruct (N.ltb_spec (hheight n) (height n + 1)).
      - destruct (WFn_add_headers n 1 W) as (A & B & C). split; [|split; [|split]]; auto.
        unfold Crash.add_headers; simpl. destruct W as ((lo & pl & I0) & _). pose proof (g_le _ _ _ _ _ _ I0). lia.
      - split; [|split; [|split]]; auto. lia. }
    destruct W1 as (((low & plow & I1) & D1) & Hh & Hd & Hlt).
    assert (Ep : cur_prefix (view n1) = false) by (unfold cur_prefix; rewrite (g_version _ _ _ _ _ _ I1); reflexivity).
    rewrite Ep, (g_state _ _ _ _ _ _ I1).
    split; [|split]; simpl; try lia; auto.
    split; simpl.
    - exists low, plow. unfold view; simpl. rewrite <- apply_app. unfold view in I1. rewrite Hh in *.
      apply InvG_blk; auto.
    - rewrite Hd. destruct W as (_ & D). eapply DiskOkG_mono; eauto. lia.
  Qed.

  Lemma WFn_flush n n' bs :
    WFn n -> flush n = (n', bs) ->
    WFn n' /\ height n' = height n /\ hheight n' = hheight n /\ ChainG (disk n) bs (disk n') (height n') /\
    cache n' = [] /\ (disk n' = view n \/ (cache n = [] /\ n' = n)).
  Proof.
    intros (O & D) F. unfold Crash.flush in F. destruct (cache n) as [|w c] eqn:Ec.
    - inv F. repeat split; auto; simpl; auto.
    - inv F. simpl. unfold view in O. rewrite Ec in O.
      assert (Dn : DiskOkG (apply (disk n) (w :: c)) (height n)).
      { right. exists (height n), (hheight n). split; auto. lia. }
      repeat split; simpl; auto.
      left. unfold view. rewrite Ec. reflexivity.
  Qed.

  Lemma disk_height_okG d h hh : OkG d h hh -> disk_height d = h.
  Proof. intros (lo & pl & I). unfold disk_height. rewrite (g_curblock _ _ _ _ _ _ I). reflexivity. Qed.

  Lemma Empty_del_const (d : db) (f : N -> key) l :
    Empty d -> Empty (apply d (map (fun j => (f j, @None val)) l)).
  Proof.
    intros E k. rewrite get_apply, sem_map_const. destruct (existsb _ l); auto.
  Qed.

  Opaque pages_till blocks_target gc_tgt del_pages del_blocks.
  Lemma gstep_ok g o g' bs :
    WFn (g_node g) -> gstep g o = (g', bs) ->
    WFn (g_node g') /\ height (g_node g) <= height (g_node g') /\
    ChainG (disk (g_node g)) bs (disk (g_node g')) (height (g_node g')).
  Proof.
    intros W Hs. destruct g as [n last page]. simpl in *. destruct o; simpl in Hs.
    - inv Hs. simpl. destruct (WFn_add_headers n n0 W) as (A & B & C). split; [|split]; auto; simpl; try lia; auto.
    - inv Hs. simpl. destruct (WFn_add_block n W) as (A & B & C). split; [|split]; auto; simpl; auto.
    - destruct (flush n) as [n1 b1] eqn:F. inv Hs. simpl.
      destruct (WFn_flush n n1 bs W F) as (A & B & _ & C & _). split; [|split]; auto. lia.
    - destruct (flush n) as [n1 b1] eqn:F.
      destruct (WFn_flush n n1 b1 W F) as (W1 & H1 & HH1 & C1 & Ec1 & _).
      destruct (gc_is_due gcp mtb (disk_height (disk n)) (disk_height (disk n1))) eqn:Edue.
      2:{ inv Hs. simpl. split; [|split]; auto. lia. }
      inv Hs. simpl.
      destruct W1 as ((low & plow & I1) & D1).
      unfold view in I1. rewrite Ec1, apply_nil in I1.
      assert (Eh : disk_height (disk n1) = height n1) by (eapply disk_height_okG; exists low, plow; eauto).
      rewrite Eh.
      set (tgt := gc_tgt gcp mtb (height n1)).
      set (bt := blocks_target PS gcp (height n1) tgt).
      set (till := pages_till PS true (hheight n1) tgt).
      pose proof (g_le _ _ _ _ _ _ I1) as Hle.
      destruct (blocks_target_safe (height n1) (hheight n1) Hle) as [Bs Bn]. fold tgt in Bs, Bn. fold bt in Bs, Bn.
      (* the database after the collector's own batches *)
      set (d1 := apply (apply (disk n1) (map (fun j => (KXfer j, None)) (gc_set tgt)))
                       (map (fun j => (KMpt j, None)) (gc_set tgt))).
      assert (I2 : InvG d1 false (height n1) (hheight n1) low plow).
      { apply InvG_hist; auto. apply InvG_hist; auto. }
      destruct ((0 <? till) && (page <=? till)) eqn:Epg.
      + apply andb_true_iff in Epg as [Ep1 Ep2]. apply N.ltb_lt in Ep1.
        pose proof (pages_till_safe (hheight n1) tgt Ep1) as Hsafe. fold till in Hsafe.
        assert (I3 : InvG (apply d1 (del_pages St Rt PS page till)) false (height n1) (hheight n1) low (N.max plow (till + PS))).
        { apply InvG_del_pages; auto. }
        unfold gc_batches. simpl app. simpl apply_all. fold d1.
        split; [|split]; try lia.
        * split; simpl.
          -- unfold view; simpl. destruct (N.ltb_spec last bt).
             ++ rewrite Ec1. simpl app. exists (N.max low bt), (N.max plow (till + PS)).
                apply InvG_del_blocks; auto.
             ++ rewrite Ec1, apply_nil. eexists _, _; eauto.
          -- right. exists (height n1), (hheight n1). split; [eexists _, _; eauto|lia].
        * eapply ChainG_app; [exact C1|]. simpl. repeat split.
          -- right. exists (height n1), (hheight n1). split; [|lia]. exists low, plow. apply InvG_hist; auto.
          -- right. exists (height n1), (hheight n1). split; [|lia]. exists low, plow. exact I2.
          -- right. exists (height n1), (hheight n1). split; [|lia]. eexists _, _; eauto.
      + unfold gc_batches. simpl app. simpl apply_all. fold d1.
        split; [|split]; try lia.
        * split; simpl.
          -- unfold view; simpl. destruct (N.ltb_spec last bt).
             ++ rewrite Ec1. simpl app. exists (N.max low bt), plow. apply InvG_del_blocks; auto.
             ++ rewrite Ec1, apply_nil. eexists _, _; eauto.
          -- right. exists (height n1), (hheight n1). split; [eexists _, _; eauto|lia].
        * eapply ChainG_app; [exact C1|]. simpl. repeat split.
          -- right. exists (height n1), (hheight n1). split; [|lia]. exists low, plow. apply InvG_hist; auto.
          -- right. exists (height n1), (hheight n1). split; [|lia]. exists low, plow. exact I2.
  Qed.

  Transparent pages_till blocks_target gc_tgt del_pages del_blocks.

  Lemma grun_ok ops : forall g g' bs,
    WFn (g_node g) -> grun g ops = (g', bs) ->
    WFn (g_node g') /\ height (g_node g) <= height (g_node g') /\
    ChainG (disk (g_node g)) bs (disk (g_node g')) (height (g_node g')).
  Proof.
    induction ops as [|o t IH]; intros g g' bs W Hr; simpl in Hr.
    - inv Hr. split; [|split]; auto. lia. simpl. reflexivity.
    - destruct (gstep g o) as [g1 b1] eqn:Es. destruct (grun g1 t) as [g2 b2] eqn:Er. inv Hr.
      destruct (gstep_ok g o g1 b1 W Es) as (W1 & L1 & C1).
      destruct (IH g1 g' b2 W1 Er) as (W2 & L2 & C2).
      split; [|split]; auto; try lia.
      eapply ChainG_app; eauto. eapply ChainG_mono; eauto.
  Qed.

  Lemma chainG_prefix bs : forall d d' hm k,
    ChainG d bs d' hm -> DiskOkG d hm -> DiskOkG (apply_all d (firstn k bs)) hm.
  Proof.
    induction bs as [|b t IH]; intros d d' hm k C D.
    - rewrite firstn_nil. simpl. auto.
    - destruct k; simpl; auto. destruct C as [A B]. eapply IH; eauto.
  Qed.

  Lemma WFn_fresh : WFn fresh.
  Proof.
    destruct (WF_fresh exec root genesis ntx PS (fun _ => []) 0 PS_big) as (I & _).
    split; [exists 0, 0; apply Inv_InvG; exact I|left; intros k; reflexivity].
  Qed.

  (* gc_keeps_recoverable: for EVERY run - headers, blocks, flushes and full collector runs (historic trie
     nodes and transfer batches, untraceable block records through the write cache, header-hash pages by their
     own commit) in any order - and EVERY number k of batches that reached the disk, start-up succeeds, at a
     height not above the last accepted block, on a database that from [low] on holds exactly the records of
     that height, with the history's state and every state root up to it. *)
  Theorem gc_keeps_recoverable ops g bs k :
    grun (mkG fresh 0 0) ops = (g, bs) ->
    exists nk, recover (crash bs k) = RNode nk /\ height nk <= height (g_node g) /\
               (Empty (crash bs k) \/ exists low plow, InvG (crash bs k) false (height nk) (hheight nk) low plow).
  Proof.
    intros Hr. destruct (grun_ok ops (mkG fresh 0 0) g bs WFn_fresh Hr) as (W & L & C). simpl in *.
    assert (D : DiskOkG (crash bs k) (height (g_node g))).
    { unfold crash. eapply chainG_prefix; eauto. left. intros k'. reflexivity. }
    destruct D as [E|(h & hh & (low & plow & I) & Hh)].
    - exists fresh. split; [|split; [simpl; lia|left; auto]].
      unfold Crash.recover. rewrite E. reflexivity.
    - exists (mkNode (crash bs k) [] h hh). split; [eapply recover_invG; eauto|]. split; auto.
      right. exists low, plow. exact I.
  Qed.
End GCProofs.
