(* C02 - model of the node's database traffic (definitions only; everything computes).

   Anchors: pkg/core/blockchain.go (init, AddBlock, addHeaders, storeBlock, persist, tryRunGC),
   pkg/core/headerhashes.go (init, addHeaders, tryStoreBatch), pkg/core/storage/memcached_store.go
   (Persist: the whole write cache is swapped out and handed to PutChangeSet as ONE batch),
   pkg/core/dao/dao.go (the records written per header / block).

   The database changes only by atomic batches.  The node keeps a write cache over the database;
   the cache itself changes only by atomic "cache transactions" (HeaderHashes.addHeaders persists its
   private layer into the cache in one step, storeBlock does the same with PersistPrivate); a flush
   hands the WHOLE cache to the backend as one batch.  Garbage collection commits its own batches
   (SeekGC) straight to the database.

   Keys are abstract: one key per record class and block index.  Values carry what recovery reads. *)
From NG Require Import Common.Tactics.
Open Scope N_scope.

Inductive key :=
| KVersion                (* SYSVersion: carries the current contract-storage prefix *)
| KCurBlock               (* SYSCurrentBlock *)
| KCurHeader              (* SYSCurrentHeader *)
| KStage                  (* SYSStateChangeStage *)
| KSyncPoint              (* SYSStateSyncPoint *)
| KSyncHeight             (* SYSStateSyncCurrentBlockHeight *)
| KExec (i : N)           (* DataExecutable record of block i: header only, or trimmed block *)
| KTxs (i : N)            (* DataExecutable records of the transactions of block i (all of them) *)
| KRoot (i : N)           (* DataMPTAux: state root of height i *)
| KMpt (i : N)            (* DataMPT: trie nodes first written by block i *)
| KXfer (i : N)           (* transfer logs / transfer info written by block i *)
| KState (p : bool)       (* contract storage under prefix 0x70 (false) / 0x71 (true), as a whole *)
| KPage (n : N).          (* IXHeaderHashList page starting at index n *)

Definition key_eqb (a b : key) : bool :=
  match a, b with
  | KVersion, KVersion | KCurBlock, KCurBlock | KCurHeader, KCurHeader
  | KStage, KStage | KSyncPoint, KSyncPoint | KSyncHeight, KSyncHeight => true
  | KExec i, KExec j | KTxs i, KTxs j | KRoot i, KRoot j | KMpt i, KMpt j | KXfer i, KXfer j
  | KPage i, KPage j => N.eqb i j
  | KState p, KState q => Bool.eqb p q
  | _, _ => false
  end.

Section Model.
  Variable St : Type.             (* ledger state (contract storage) *)
  Variable Rt : Type.             (* state roots *)
  Variable exec : St -> N -> St.    (* executing block i of the history on a state: a function (C01) *)
  Variable root : St -> Rt.
  Variable genesis : St.          (* state after block 0 *)
  Variable ntx : N -> N.          (* number of transactions of block i *)
  Variable PS : N.                (* header hashes per stored page (headerBatchCount = 2000) *)
  Variable gc_on : bool.          (* RemoveUntraceableBlocks *)
  Variable gcp mtb : N.           (* GarbageCollectionPeriod, MaxTraceableBlocks *)
  Variable gc_set : N -> list N.  (* which blocks' historic trie nodes / transfer batches a GC run with
                                     target t removes (decided by the trie: C11) *)
  Variable trusted : N.           (* TrustedHeader.Index, 0 = none *)

  Inductive val :=
  | VPrefix (p : bool)
  | VNum (n : N)
  | VHdr | VBlk
  | VStage (reset : bool) (s : N)
  | VSt (s : St)
  | VRoot (r : Rt)
  | VUnit.

  Definition write := (key * option val)%type.   (* None = delete *)
  Definition batch := list write.                (* in writing order: later entries win *)
  Definition db := list write.                   (* a log, newest first *)

  Fixpoint get (d : db) (k : key) : option val :=
    match d with
    | [] => None
    | (k', v) :: t => if key_eqb k k' then v else get t k
    end.

  Definition apply (d : db) (b : batch) : db := rev b ++ d.
  Definition apply_all (d : db) (bs : list batch) : db := fold_left apply bs d.

  (* ---- the node ---- *)
  Record node := mkNode { disk : db; cache : batch; height : N; hheight : N }.

  Definition view (n : node) : db := apply (disk n) (cache n).

  Definition cur_prefix (d : db) : bool :=
    match get d KVersion with Some (VPrefix p) => p | _ => false end.

  Definition hdr_writes (i : N) : batch :=
    (KExec i, Some VHdr) ::
    (if ((i + 1) mod PS =? 0) && (PS <=? i + 1) then [(KPage (i + 1 - PS), Some VUnit)] else []) ++
    [(KCurHeader, Some (VNum i))].

  Definition blk_writes (p : bool) (s : St) (i : N) : batch :=
    [(KCurBlock, Some (VNum i)); (KExec i, Some VBlk)] ++
    (if ntx i =? 0 then [] else [(KTxs i, Some VUnit)]) ++
    [(KState p, Some (VSt (exec s i))); (KRoot i, Some (VRoot (root (exec s i))));
     (KMpt i, Some VUnit); (KXfer i, Some VUnit)].

  (* HeaderHashes.addHeaders: the next [cnt] headers, one cache transaction *)
  Fixpoint hdrs_writes (from : N) (cnt : nat) : batch :=
    match cnt with
    | O => []
    | S c => hdr_writes from ++ hdrs_writes (from + 1) c
    end.

  Inductive op :=
  | OHdr (n : N)     (* AddHeaders with the next n headers *)
  | OBlk             (* AddBlock with the next block *)
  | OFlush           (* persist *)
  | OFlushGC.        (* one tick of Run: persist, then tryRunGC *)

  Definition push (n : node) (ws : batch) : node :=
    mkNode (disk n) (cache n ++ ws) (height n) (hheight n).

  Definition add_headers (n : node) (cnt : N) : node :=
    let n' := push n (hdrs_writes (hheight n + 1) (N.to_nat cnt)) in
    mkNode (disk n') (cache n') (height n') (hheight n + cnt).

  (* AddBlock: the header is recorded first (its own cache transaction) when it is not yet known,
     then storeBlock reads the state through the cache and commits everything the block writes,
     tip pointer included, as one cache transaction *)
  Definition add_block (n : node) : node :=
    let i := height n + 1 in
    let n1 := if hheight n <? i then add_headers n 1 else n in
    match get (view n1) (KState (cur_prefix (view n1))) with
    | Some (VSt s) =>
        let n2 := push n1 (blk_writes (cur_prefix (view n1)) s i) in
        mkNode (disk n2) (cache n2) i (hheight n2)
    | _ => n          (* no readable state: the block cannot be processed *)
    end.

  Definition flush (n : node) : node * list batch :=
    match cache n with
    | [] => (n, [])
    | c => (mkNode (apply (disk n) c) [] (height n) (hheight n), [c])
    end.

  (* tryRunGC(old persisted height) after a flush at persisted height [new] *)
  Definition gc_target (new : N) : N := ((new - mtb) / gcp) * gcp.
  Definition gc_due (old new : N) : bool :=
    gc_on && (gcp <? gc_target new) && negb (old / gcp =? new / gcp).
  Definition gc_batches (t : N) : list batch :=
    [ map (fun j => (KXfer j, None)) (gc_set t); map (fun j => (KMpt j, None)) (gc_set t) ].

  Definition disk_height (d : db) : N :=
    match get d KCurBlock with Some (VNum h) => h | _ => 0 end.

  Definition step (n : node) (o : op) : node * list batch :=
    match o with
    | OHdr c => (add_headers n c, [])
    | OBlk => (add_block n, [])
    | OFlush => flush n
    | OFlushGC =>
        let old := disk_height (disk n) in
        let '(n1, bs) := flush n in
        let new := disk_height (disk n1) in
        if gc_due old new then
          let gb := gc_batches (gc_target new) in
          (mkNode (apply_all (disk n1) gb) (cache n1) (height n1) (hheight n1), bs ++ gb)
        else (n1, bs)
    end.

  Fixpoint run (n : node) (ops : list op) : node * list batch :=
    match ops with
    | [] => (n, [])
    | o :: t => let '(n1, b1) := step n o in let '(n2, b2) := run n1 t in (n2, b1 ++ b2)
    end.

  (* ---- start-up ---- *)
  (* init on an empty database: version, header pointer and the genesis block go to the cache *)
  Definition genesis_writes : batch :=
    [(KVersion, Some (VPrefix false)); (KCurHeader, Some (VNum 0));
     (KCurBlock, Some (VNum 0)); (KExec 0, Some VBlk)] ++
    (if ntx 0 =? 0 then [] else [(KTxs 0, Some VUnit)]) ++
    [(KState false, Some (VSt genesis)); (KRoot 0, Some (VRoot (root genesis)));
     (KMpt 0, Some VUnit); (KXfer 0, Some VUnit)].

  Definition fresh : node := mkNode [] genesis_writes 0 0.

  Definition is_some {A} (o : option A) : bool := match o with Some _ => true | None => false end.

  (* HeaderHashes.init: hashes of the complete pages are read from the stored pages (only the last
     complete one is loaded eagerly), the hashes after it are re-walked through the stored headers,
     from the current header back to the page boundary / the trusted header / genesis *)
  Definition stored_count (hh : N) : N := ((hh + 1) / PS) * PS.
  Definition walk_low (hh : N) : N :=
    if PS <=? stored_count hh then stored_count hh
    else if 0 <? trusted then trusted + 1 else 0.
  Fixpoint all_from (f : N -> bool) (lo : N) (cnt : nat) : bool :=
    match cnt with
    | O => true
    | S c => f lo && all_from f (lo + 1) c
    end.
  Definition headers_ok (d : db) (hh : N) : bool :=
    (if PS <=? stored_count hh then is_some (get d (KPage (stored_count hh - PS))) else true) &&
    all_from (fun j => is_some (get d (KExec j))) (walk_low hh) (N.to_nat (hh + 1 - walk_low hh)).

  Inductive recovered :=
  | RNode (n : node)        (* the node is up *)
  | RResume (n : node) (reset : bool) (stage : N) (point : N)
                            (* the node found a stage marker and continues the reset / jump (Stages.v) *)
  | RFail.                  (* start-up returns an error *)

  Definition recover (d : db) : recovered :=
    match get d KVersion with
    | None => RNode fresh
    | Some _ =>
        match get d KCurHeader, get d KCurBlock with
        | Some (VNum hh), Some (VNum h) =>
            if headers_ok d hh then
              match get d KStage with
              | Some (VStage r s) =>
                  match get d KSyncPoint with
                  | Some (VNum p) => RResume (mkNode d [] h hh) r s p
                  | _ => RFail
                  end
              | Some _ => RFail
              | None => RNode (mkNode d [] h hh)
              end
            else RFail
        | _, _ => RFail
        end
    end.

  (* the database after a crash that lets the first k batches through *)
  Definition crash (bs : list batch) (k : nat) : db := apply_all [] (firstn k bs).

  (* the ledger state after h blocks of the history *)
  Fixpoint st_at_nat (h : nat) : St :=
    match h with
    | O => genesis
    | S m => exec (st_at_nat m) (N.of_nat (S m))
    end.
  Definition st_at (h : N) : St := st_at_nat (N.to_nat h).

End Model.

Arguments VPrefix {St Rt}. Arguments VNum {St Rt}. Arguments VHdr {St Rt}. Arguments VBlk {St Rt}.
Arguments VStage {St Rt}. Arguments VSt {St Rt}. Arguments VRoot {St Rt}. Arguments VUnit {St Rt}.
Arguments get {St Rt}. Arguments apply {St Rt}. Arguments apply_all {St Rt}.
Arguments mkNode {St Rt}. Arguments disk {St Rt}. Arguments cache {St Rt}. Arguments height {St Rt}.
Arguments hheight {St Rt}. Arguments view {St Rt}. Arguments cur_prefix {St Rt}.
Arguments RNode {St Rt}. Arguments RResume {St Rt}. Arguments RFail {St Rt}.
Arguments crash {St Rt}. Arguments push {St Rt}. Arguments disk_height {St Rt}.
