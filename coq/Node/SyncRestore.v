(* C02 - restoring one received trie node during state synchronisation (pkg/core/statesync/module.go
   restoreNode, pkg/core/mpt/billet.go RestoreHashNode): the node is written once per path (reference
   count), a leaf also writes its contract storage item per path, and stored children that become reachable
   are restored recursively.  After a restart the module traverses the stored trie and takes a node it FINDS
   as restored at every path leading to it, so the invariant every crash point must satisfy is
   "node record present => everything its restoration writes is present".

   [unit_batches atomic]: the batches by which one restoration reaches the database - one batch with the
   repair F49 (a private layer persisted at once), arbitrary cuts between the single writes without it
   (the write cache can be flushed between any two Puts). *)
From NG Require Import Common.Tactics Node.Crash.
Open Scope N_scope.

Section SyncRestore.
  Variable St : Type.
  Variable Rt : Type.
  Notation write := (key * option (val St Rt))%type.
  Notation db := (db St Rt).

  (* what restoring node [n] writes: its own record first or last, items, references - any list; [nkey n] is
     the record the restart looks for *)
  Variable effects : N -> list write.
  Variable nkey : N -> key.

  Definition complete (d : db) (n : N) : Prop :=
    get d (nkey n) <> None -> forall k v, In (k, Some v) (effects n) -> get d k <> None.

  (* batches of a sequence of restorations *)
  Definition atomic_batches (ns : list N) : list (list write) := map effects ns.
  Definition single_batches (ns : list N) : list (list write) := map (fun w => [w]) (flat_map effects ns).
End SyncRestore.

(* ---- witnesses: a leaf (record KMpt 1) shared by two paths writes two storage items ---- *)
Definition sr_effects (n : N) : list (key * option (val N N)) :=
  [(KState true, Some (VSt 1)); (KMpt n, Some VUnit); (KXfer n, Some VUnit)].
Definition sr_nkey (n : N) : key := KMpt n.
Definition sr_ok (d : db N N) : bool :=
  match get d (KMpt 1) with
  | Some _ => match get d (KState true), get d (KXfer 1) with Some _, Some _ => true | _, _ => false end
  | None => true
  end.
Definition sr_prefixes (bs : list (list (key * option (val N N)))) : list bool :=
  map (fun k => sr_ok (apply_all [] (firstn k bs))) (seq 0 (S (length bs))).
