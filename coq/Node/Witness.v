(* Counter-examples for the two unrepaired behaviours, and the same histories on the repaired settings.
   Configuration: four keys 0..3 owned by accounts 1..4, standby committee [0;1;2] (size 3, 2 validators),
   validators' address 0, Notary 5, NEO 6, GAS 7. *)
From NG Require Import Common.Tactics Tokens.Model Tokens.Names Tokens.Inv Tokens.OpProofs Tokens.CfgCheck Node.Gov Auth.Permission Auth.PermStore.
Open Scope Z_scope.

Definition w_cfg (fix7 fix23 : bool) : config :=
  mkCfg [1;2;3;4]%N [0;1;2]%N 2 [KPlain;KPlain;KPlain;KPlain;KPlain;KNotary;KNeo;KGas] 5 6 7 5200000000000000
        false true fix7 fix23 true.

Definition w_tx (signer : N) (o : op) : tx := mkTx signer 100000000 1000000 [] o true None.
Definition w_reg (signer k : N) : tx := mkTx signer 101000000000 1000000 [] (OReg k 101000000000) true None.

(* blocks 1-3: fund the accounts, register keys 1,2,3, account 1 (30% of the supply) votes for key 3; block 3 starts
   an epoch with the elected committee [3;1;2] *)
Definition w_prefix : list (list tx) :=
  [ [ w_tx 0 (ONeoT 0 1 30000000);
      w_tx 0 (OGasT 0 1 300000000000 DNone); w_tx 0 (OGasT 0 2 300000000000 DNone);
      w_tx 0 (OGasT 0 3 300000000000 DNone); w_tx 0 (OGasT 0 4 300000000000 DNone) ];
    [ w_reg 2 1; w_reg 3 2; w_reg 4 3; w_tx 1 (OVote 1 (Some 3%N)) ];
    [] ].

(* F7: mid-epoch the committee blocks the account of key 3; nothing moves NEO; the epoch ends with block 5 *)
Definition w_f7 : list (list tx) :=
  w_prefix ++ [ [ mkTx 0 100000000 1000000 [1;2;3]%N (OBlock 4) true None ]; [] ].

(* F23: the voter leaves key 3 and key 3 unregisters (its record is dropped); key 3 registers again *)
Definition w_f23 : list (list tx) :=
  w_prefix ++ [ [ w_tx 1 (OVote 1 None); w_tx 4 (OUnreg 3) ]; [ w_reg 4 3 ] ].
Definition w_f23_next : list tx := [ w_tx 1 (OVote 1 (Some 3%N)) ].

(* F47: account 2 deploys its contract; the committee sets the whitelisted fee of its method to 7, later to 900000 *)
Definition w_cfg47 (fix47 : bool) : config :=
  mkCfg [1;2;3;4]%N [0;1;2]%N 2 [KPlain;KPlain;KPlain;KPlain;KPlain;KNotary;KNeo;KGas] 5 6 7 5200000000000000
        true true true true fix47.
Definition w_f47 : list (list tx) :=
  [ [ mkTx 0 100000000 1000000 [] (ODeploy 2 shape_wild) true None;
      mkTx 0 100000000 1000000 [0;1;2]%N (OWhitelist 2 (Some 7)) true None ];
    [ mkTx 0 100000000 1000000 [0;1;2]%N (OWhitelist 2 (Some 900000)) true None ] ].

Lemma w_cfg47_wf f : cfg_wf (w_cfg47 f).
Proof. apply cfg_wf_of_check. destruct f; vm_compute; reflexivity. Qed.
Lemma w_f47_ok f : blocks_ok (w_cfg47 f) w_f47.
Proof. repeat constructor; unfold tx_ok; simpl; discriminate. Qed.

(* unrepaired: the running node still charges the first fee, a restarted node the second *)
Lemma f47_refuted :
  let cfg := w_cfg47 false in
  whitelisted_fee (reach cfg w_f47) 2 = Some 7
  /\ whitelisted_fee (reinit cfg (reach cfg w_f47)) 2 = Some 900000.
Proof. vm_compute. split; reflexivity. Qed.

Lemma f47_repaired :
  let cfg := w_cfg47 true in
  whitelisted_fee (reach cfg w_f47) 2 = Some 900000
  /\ whitelisted_fee (reinit cfg (reach cfg w_f47)) 2 = Some 900000.
Proof. vm_compute. split; reflexivity. Qed.

Lemma w_cfg_wf f7 f23 : cfg_wf (w_cfg f7 f23).
Proof. apply cfg_wf_of_check. destruct f7, f23; vm_compute; reflexivity. Qed.

Lemma w_f7_ok f7 f23 : blocks_ok (w_cfg f7 f23) w_f7.
Proof. repeat constructor; unfold tx_ok; simpl; discriminate. Qed.
Lemma w_f23_ok f7 f23 : blocks_ok (w_cfg f7 f23) w_f23.
Proof. repeat constructor; unfold tx_ok; simpl; discriminate. Qed.

(* unrepaired: after block 5 a restarted node announces other validators for the next epoch than the running one *)
Lemma f7_refuted :
  let cfg := w_cfg false true in
  compute_next_validators cfg (reach cfg w_f7) = [1;3]%N
  /\ compute_next_validators cfg (reinit cfg (reach cfg w_f7)) = [0;1]%N.
Proof. vm_compute. split; reflexivity. Qed.

(* repaired: both answer [0;1] *)
Lemma f7_repaired :
  let cfg := w_cfg true true in
  compute_next_validators cfg (reach cfg w_f7) = [0;1]%N
  /\ compute_next_validators cfg (reinit cfg (reach cfg w_f7)) = [0;1]%N.
Proof. vm_compute. split; reflexivity. Qed.

(* unrepaired: the vote after the re-registration stores a different LastGasPerVote on a restarted node *)
Lemma f23_refuted :
  let cfg := w_cfg true false in
  nlgpv (neo_acc (step cfg (reach cfg w_f23) w_f23_next) 1) = 1600000000
  /\ nlgpv (neo_acc (step cfg (reinit cfg (reach cfg w_f23)) w_f23_next) 1) = 0.
Proof. vm_compute. split; reflexivity. Qed.

Lemma f23_repaired :
  let cfg := w_cfg true true in
  sto (step cfg (reach cfg w_f23) w_f23_next) = sto (step cfg (reinit cfg (reach cfg w_f23)) w_f23_next).
Proof. vm_compute. reflexivity. Qed.

(* gas-per-block history: block 1 sets the value twice (6 GAS, then 2 GAS), both records get index 2 in the cache;
   storage keeps the last.  Read with "the last appended of equal indices" the running node answers like a restarted
   one; read with "the first appended" ([gpb_at_first]) it would answer 6 where the restarted node answers 2 *)
Definition w_gpb : list (list tx) :=
  [ [ mkTx 0 100000000 1000000 [0;1;2]%N (OSetGPB 600000000) true None;
      mkTx 0 100000000 1000000 [0;1;2]%N (OSetGPB 200000000) true None ];
    [] ].
Lemma w_gpb_ok : blocks_ok (w_cfg true true) w_gpb.
Proof. repeat constructor; unfold tx_ok; simpl; discriminate. Qed.

Lemma gpb_last_of_equal :
  let cfg := w_cfg true true in
  c_gpb (A (reach cfg w_gpb)) = [(2, 200000000); (2, 600000000); (0, 500000000)]
  /\ c_gpb (A (reinit cfg (reach cfg w_gpb))) = [(2, 200000000); (0, 500000000)]
  /\ gas_per_block (reach cfg w_gpb) 3 = 200000000
  /\ gas_per_block (reinit cfg (reach cfg w_gpb)) 3 = 200000000.
Proof. vm_compute. repeat split; reflexivity. Qed.

Lemma gpb_first_of_equal_refuted :
  let cfg := w_cfg true true in
  gpb_at_first (c_gpb (A (reach cfg w_gpb))) 3 = 600000000
  /\ gpb_at_first (c_gpb (A (reinit cfg (reach cfg w_gpb)))) 3 = 200000000.
Proof. vm_compute. split; reflexivity. Qed.

(* the stored form of a manifest: account 2 deploys a contract whose only permission names every contract but an
   EXPLICITLY EMPTY method list (it may call nothing).  Read back by [load] the cached state is the same; read back by a
   FromStackItem that turns an empty method list into the wildcard ([load_bug]) the restarted node would permit a call
   the running node refuses *)
Definition shape_none : mshape := mkShape [mk_perm DWild (MList [])] [] [].
Definition w_mf : list (list tx) := [ [ mkTx 0 100000000 1000000 [] (ODeploy 2 shape_none) true None ] ].
Lemma w_mf_ok : blocks_ok (w_cfg true true) w_mf.
Proof. repeat constructor; unfold tx_ok; simpl; discriminate. Qed.

Definition widen (p : permission) : permission :=
  match p_methods p with MList [] => mk_perm (p_desc p) MWild | _ => p end.
Definition load_bug (s : mstored) : mcontract :=
  let c := load s in
  mkMC (mc_present c) (mc_id c) (mc_counter c) (mc_version c) (map widen (mc_perms c)) (mc_groups c) (mc_safe c).

Lemma manifest_roundtrip_example :
  let cfg := w_cfg true true in
  let st := reach cfg w_mf in
  mc_present (contract_of st 2) = true
  /\ contract_of (reinit cfg st) 2 = contract_of st 2
  /\ can_call (mc_perms (contract_of st 2)) mgmt_callee m_update = false
  /\ can_call (mc_perms (load_bug (aget ms0 (caddr 2) (mg_store (X st))))) mgmt_callee m_update = true.
Proof. vm_compute. repeat split; reflexivity. Qed.
