(* C02 - concrete witnesses: the three crash windows of the code as it stands (fixes_none), and the same
   histories under the repaired variant.  Everything here is closed computation (vm_compute). *)
From NG Require Import Common.Tactics Node.Crash Node.CrashProofs Node.Stages Node.StagesProofs.
Open Scope N_scope.

(* a tiny instance: the state after block i is "i", its root is i; every block carries one transaction *)
Definition wexec (_ : N) (i : N) : N := i.
Definition wroot (s : N) : N := s.
Definition wntx (_ : N) : N := 1.
Definition wPS := 2000.
Definition wops := [OBlk; OBlk; OBlk; OFlush].
Definition wrun := run N N wexec wroot wntx wPS false 2 6 (fun _ => []) (fresh N N wroot 0 wntx) wops.
Definition wd : db N N := crash (snd wrun) 1.       (* a flushed node at height 3 *)

Lemma wst_at j : st_at N wexec 0 j = j.
Proof.
  unfold st_at. assert (forall n, st_at_nat N wexec 0 n = N.of_nat n) as ->.
  { induction n; [reflexivity|]. simpl st_at_nat. unfold wexec. reflexivity. }
  lia.
Qed.

Lemma wd_inv : Inv wexec wroot 0 wntx wPS wd false 3 3.
Proof.
  assert (PSb : 1 < wPS) by (unfold wPS; lia).
  destruct (block_batch_atomic wexec wroot 0 wntx wPS false 2 6 (fun _ => []) 0 PSb wops (fst wrun) (snd wrun) 1)
    as [E|(h & hh & I & _)].
  - change (wrun = (fst wrun, snd wrun)). destruct wrun; reflexivity.
  - exfalso. specialize (E KVersion). vm_compute in E. discriminate.
  - assert (h = 3) as -> by (pose proof (i_curblock _ _ _ _ _ _ _ _ _ I) as H; vm_compute in H; congruence).
    assert (hh = 3) as -> by (pose proof (i_curheader _ _ _ _ _ _ _ _ _ I) as H; vm_compute in H; congruence).
    exact I.
Qed.

Definition wboot (fx : fixes) := boot N N wroot 0 wntx wPS 0 (fun r => r) fx (fun _ _ => true) 6 (fun p => p).
Definition wreset (fx : fixes) := reset_batches N N wntx wPS (fun r => r) fx 1 3 3 1 wd.   (* Reset(1) *)
Definition wafter (fx : fixes) (k : nat) := apply_all wd (firstn k (wreset fx)).

Definition is_up (o : outcome N N) := match o with Up _ => true | _ => false end.
Definition is_fail (o : outcome N N) := match o with Fail => true | _ => false end.
Definition is_broken (o : outcome N N) := match o with Broken _ => true | _ => false end.
Definition is_stuck (o : outcome N N) := match o with Stuck _ => true | _ => false end.

(* F20: after the stale-block batch (k = 2) and after the storage copy (k = 3) start-up fails;
   F21: after the transfers stage (k = 5) the node comes up with an unusable state root module *)
Lemma reset_windows_none :
  map (fun k => is_up (wboot fixes_none (wafter fixes_none k))) [1; 2; 3; 4; 5; 6; 7]%nat
    = [true; false; false; true; false; false; true] /\
  is_fail (wboot fixes_none (wafter fixes_none 2)) = true /\
  is_fail (wboot fixes_none (wafter fixes_none 3)) = true /\
  is_broken (wboot fixes_none (wafter fixes_none 5)) = true.
Proof. vm_compute. repeat split. Qed.

Lemma reset_windows_all :
  map (fun k => is_up (wboot fixes_all (wafter fixes_all k))) [1; 2; 3; 4; 5; 6; 7]%nat
    = [true; true; true; true; true; true; true].
Proof. vm_compute. reflexivity. Qed.

(* ---- the order of Reset's two writers (Stages.reset_order) on the same 3-block node ---- *)
Definition wordered (j k : nat) := apply_all wd (firstn k (reset_order (wreset fixes_all) j)).
Definition has_marker (x : db N N) := match get x KStage with Some (VStage true _) => true | _ => false end.
Definition has_state (x : db N N) := present x (KState (cur_prefix x)).

(* both orders the unbuffered channel lets_in: every boundary resumes *)
Lemma order_windows_code :
  map (fun j => map (fun k => is_up (wboot fixes_all (wordered j k))) [1; 2; 3; 4; 5; 6; 7]%nat) [4; 5]%nat
    = [[true; true; true; true; true; true; true]; [true; true; true; true; true; true; true]] /\
  map (fun j => map (fun k => has_state (wordered j k)) [0; 1; 2; 3; 4; 5; 6; 7]%nat) [4; 5]%nat
    = [[true; true; true; true; true; true; true; true]; [true; true; true; true; true; true; true; true]].
Proof. vm_compute. split; reflexivity. Qed.

(* without the edge (the direct SeekGC overtakes the marker batch): after the first write there is no marker,
   start-up takes the database for an ordinary node at height 3 - and its contract storage is gone *)
Lemma order_window_no_edge :
  has_marker (wordered 0 1) = false /\ has_state (wordered 0 1) = false /\ has_state wd = true /\
  get (wordered 0 1) (KState false) = None /\ get wd (KState false) = Some (VSt 3) /\
  match wboot fixes_all (wordered 0 1) with Up n => (height n =? 3) && negb (has_state (disk n)) | _ => false end = true.
Proof. vm_compute. repeat split. Qed.

(* a light node that fetched headers 11..22, the state of 20 and blocks 15..20, not yet jumped *)
Definition wj : db N N :=
  apply []
    ([(KVersion, Some (VPrefix false)); (KCurBlock, Some (VNum 0)); (KCurHeader, Some (VNum 22));
      (KExec 0, Some VBlk); (KRoot 0, Some (VRoot 0)); (KState false, Some (VSt 0));
      (KXfer 0, Some VUnit); (KSyncPoint, Some (VNum 20)); (KSyncHeight, Some (VNum 20));
      (KState true, Some (VSt 20))] ++
     map (fun i => (KExec i, Some VHdr)) (irange 10 22) ++
     map (fun i => (KExec i, Some VBlk)) (irange 14 20)).
Definition wjboot (fx : fixes) := boot N N wroot 0 wntx wPS 10 (fun r => r) fx (fun _ _ => true) 6 (fun p => p).
Definition wjall := jump_batches N N wntx 20 6 20 1 wj.
Definition wjafter (k : nat) := apply_all wj (firstn k wjall).

(* F22: right before the first batch of the jump a restart leaves the node stuck at genesis *)
Lemma jump_window_none :
  is_stuck (wjboot fixes_none (wjafter 0)) = true /\
  map (fun k => is_up (wjboot fixes_none (wjafter k))) [1; 2; 3; 4]%nat = [true; true; true; true].
Proof. vm_compute. split; reflexivity. Qed.

Lemma jump_window_all :
  map (fun k => is_up (wjboot fixes_all (wjafter k))) [0; 1; 2; 3; 4]%nat = [true; true; true; true; true].
Proof. vm_compute. reflexivity. Qed.
