(* C06 - proofs about Node/Accept.v *)
From NG Require Import Common.Tactics Node.Accept.
Open Scope N_scope.

Section Accept.
  Variable fx : afix.
  Variable cfg : config.

  (* the oracle "which stored header has this hash" answers with an older header when it is not the tip *)
  Definition older_ok (st : state) (b : blockd) : Prop :=
    forall i, b_prev_older b = Some i -> i < s_n st.

  Lemma verify_header_none st b :
    older_ok st b -> b_index b = s_n st + 1 ->
    (verify_header cfg st b = None <-> header_valid cfg st b).
  Proof.
    intros Ho Hi. unfold verify_header, prev_index, header_valid.
    destruct (N.eqb_spec (b_prev b) (s_tip_hash st)) as [E|E].
    - rewrite N.eqb_refl, andb_true_r.
      replace (s_n st + 1 =? b_index b) with true by (symmetry; apply N.eqb_eq; lia). simpl.
      destruct (c_srih cfg) eqn:Es; simpl.
      + destruct (N.eqb_spec (b_prevroot b) (s_root st)); simpl.
        * destruct (N.leb_spec (b_ts b) (s_tip_ts st)); simpl.
          -- split; [discriminate|]. intros (_ & HH & _). lia.
          -- destruct (b_sig_ok b); simpl; split; try discriminate; intuition congruence.
        * split; [discriminate|]. intros (_ & _ & _ & HH). specialize (HH eq_refl). contradiction.
      + destruct (N.leb_spec (b_ts b) (s_tip_ts st)); simpl.
        * split; [discriminate|]. intros (_ & HH & _). lia.
        * destruct (b_sig_ok b); simpl; split; try discriminate; intuition congruence.
    - destruct (b_prev_older b) as [i|] eqn:Eo.
      + pose proof (Ho i Eo) as Hlt.
        replace (i =? s_n st) with false by (symmetry; apply N.eqb_neq; lia).
        rewrite andb_false_r. simpl.
        replace (i + 1 =? b_index b) with false by (symmetry; apply N.eqb_neq; lia). simpl.
        split; [discriminate|]. intros (HH & _). contradiction.
      + split; [discriminate|]. intros (HH & _). contradiction.
  Qed.

  Lemma body_accept st b :
    fst (body fx cfg st b) = VAccept <->
    (b_merkle b = b_txs_merkle b /\ (c_verify_txs cfg = true -> b_txs_ok b = true) /\
     (fx_block_conflicts fx = true -> c_verify_txs cfg = true -> b_conflict_free b = true) /\
     b_exec_ok b = true /\ next_root_ok cfg st b).
  Proof.
    unfold body, next_root_ok.
    destruct (N.eqb_spec (b_merkle b) (b_txs_merkle b)) as [Em|Em]; simpl;
      [|split; [discriminate|intros (H & _); contradiction]].
    destruct (c_verify_txs cfg) eqn:Ev, (b_txs_ok b) eqn:Et; simpl;
      try (split; [discriminate|intros (_ & H & _); specialize (H eq_refl); discriminate]).
    all: destruct (fx_block_conflicts fx) eqn:Ec, (b_conflict_free b) eqn:Ef; simpl;
      try (split; [discriminate|intros (_ & _ & H & _); specialize (H eq_refl eq_refl); discriminate]).
    all: destruct (b_exec_ok b) eqn:Ee; simpl;
      try (split; [discriminate|intros (_ & _ & _ & H & _); discriminate]).
    all: destruct (tl (s_known st)) as [|[kh pr] t]; simpl;
      try (split; [intros _|reflexivity]; repeat split; auto; discriminate).
    all: destruct (c_srih cfg) eqn:Es; simpl;
      try (split; [intros _|reflexivity]; repeat split; auto; discriminate).
    all: destruct (N.eqb_spec pr (b_new_root b)); simpl;
      try (split; [intros _|reflexivity]; repeat split; auto; discriminate).
    all: split; [discriminate|intros (_ & _ & _ & _ & H); specialize (H eq_refl); contradiction].
  Qed.

  Lemma body_next_root_record st b :
    s_known st = [] -> next_root_ok cfg (record_header st b) b <-> next_root_ok cfg st b.
  Proof. intros E. unfold next_root_ok, record_header. simpl. rewrite E. simpl. tauto. Qed.

  (* accept_iff_valid: a block is added exactly when it is the next index, has the node's state-root
     setting, links to the tip with a strictly later timestamp and a verifying consensus witness and (when
     state roots are in headers) the local previous root - or is the block of the header already recorded
     for that height -, carries the Merkle root of its transactions, only admissible transactions, executes,
     and agrees with the recorded next header's state root. *)
  Theorem accept_iff_valid st b :
    older_ok st b ->
    (fst (add_block fx cfg st b) = VAccept <-> valid fx cfg st b).
  Proof.
    intros Ho. unfold add_block, valid.
    destruct (N.eqb_spec (b_index b) (s_n st + 1)) as [Ei|Ei]; simpl;
      [|split; [destruct (s_n st + 1 <? b_index b); discriminate|intros (H & _); contradiction]].
    destruct (Bool.eqb (c_srih cfg) (b_sr b)) eqn:Esr; simpl.
    2:{ split; [discriminate|]. intros (_ & H & _). rewrite H, Bool.eqb_reflx in Esr. discriminate. }
    apply Bool.eqb_prop in Esr.
    destruct (s_known st) as [|[kh kp] t] eqn:Ek.
    - destruct (verify_header cfg st b) as [v|] eqn:Ev.
      + split.
        * simpl. intros ->. unfold verify_header in Ev.
          destruct (prev_index st b); [|discriminate].
          repeat match type of Ev with (if ?c then _ else _) = _ => destruct c end; discriminate.
        * intros (_ & _ & Hv & _). apply (verify_header_none st b Ho Ei) in Hv. congruence.
      + rewrite body_accept, body_next_root_record by auto.
        apply (verify_header_none st b Ho Ei) in Ev. intuition.
    - destruct (N.eqb_spec kh (b_hash b)) as [Eh|Eh]; simpl;
        [|split; [discriminate|intros (_ & _ & (H & _) & _); contradiction]].
      destruct (fx_known_witness fx) eqn:Ew, (b_sig_ok b) eqn:Es; simpl;
        try (split; [discriminate|intros (_ & _ & (_ & H) & _); specialize (H eq_refl); discriminate]).
      all: rewrite body_accept; unfold next_root_ok; rewrite Ek; intuition.
  Qed.

  (* reject_frame: on rejection the ledger (height, tip, state root) and the mempool are unchanged; the
     header chain is unchanged unless the header alone was valid, in which case exactly that header was
     appended *)
  Theorem reject_frame st b :
    older_ok st b ->
    fst (add_block fx cfg st b) <> VAccept ->
    let st' := snd (add_block fx cfg st b) in
    s_n st' = s_n st /\ s_tip_hash st' = s_tip_hash st /\ s_tip_ts st' = s_tip_ts st /\
    s_root st' = s_root st /\ s_pool st' = s_pool st /\
    (s_known st' = s_known st \/
     (s_known st = [] /\ b_index b = s_n st + 1 /\ header_valid cfg st b /\
      s_known st' = [(b_hash b, b_prevroot b)])).
  Proof.
    intros Ho. unfold add_block.
    destruct (N.eqb_spec (b_index b) (s_n st + 1)) as [Ei|Ei]; simpl; [|intros _; repeat split; auto].
    destruct (Bool.eqb (c_srih cfg) (b_sr b)); simpl; [|intros _; repeat split; auto].
    assert (B : forall s, fst (body fx cfg s b) <> VAccept -> snd (body fx cfg s b) = s).
    { intros s. unfold body.
      repeat match goal with |- context [if ?c then _ else _] => destruct c end; simpl; try reflexivity;
        try (intros H; exfalso; apply H; reflexivity).
      all: destruct (tl (s_known s)) as [|[? ?] ?]; simpl; try (intros H; exfalso; apply H; reflexivity).
      all: repeat match goal with |- context [if ?c then _ else _] => destruct c end; simpl; try reflexivity;
        try (intros H; exfalso; apply H; reflexivity). }
    destruct (s_known st) as [|[kh kp] t] eqn:Ek.
    - destruct (verify_header cfg st b) as [v|] eqn:Ev; simpl; [intros _; repeat split; auto|].
      intros H. rewrite (B _ H). simpl. repeat split; auto.
      right. split; [auto|split; [auto|split; [apply (verify_header_none st b Ho Ei); auto|reflexivity]]].
    - destruct (kh =? b_hash b); simpl; [|intros _; rewrite Ek; repeat split; auto].
      destruct (fx_known_witness fx && negb (b_sig_ok b)); simpl; [intros _; rewrite Ek; repeat split; auto|].
      intros H. rewrite (B _ H). rewrite Ek. repeat split; auto.
  Qed.

  (* retry_accepts: after a rejection the valid block is still accepted - unless the rejected block left
     its own, validly signed and linked, header behind and that header is another one (then the node is
     committed to that header: the valid block is refused with VKnownHash) *)
  Theorem retry_accepts st b v :
    older_ok st b -> older_ok st v ->
    fst (add_block fx cfg st b) <> VAccept ->
    fst (add_block fx cfg st v) = VAccept ->
    let st' := snd (add_block fx cfg st b) in
    (s_known st' = s_known st \/ b_hash b = b_hash v) ->
    (fx_known_witness fx = true -> b_sig_ok v = true) ->
    fst (add_block fx cfg st' v) = VAccept.
  Proof.
    intros Hob Hov Hr Hv st' Hk Hw.
    destruct (reject_frame st b Hob Hr) as (E1 & E2 & E3 & E4 & E5 & E6). fold st' in E1, E2, E3, E4, E5, E6.
    assert (Hov' : older_ok st' v) by (intros i Hi; rewrite E1; apply Hov; auto).
    apply (accept_iff_valid st v Hov) in Hv. apply (accept_iff_valid st' v Hov').
    unfold valid in *. destruct Hv as (V1 & V2 & V3 & V4 & V5 & V6 & V7 & V8).
    destruct E6 as [E6|(K0 & Ki & Hh & E6)].
    - rewrite E6, E1. repeat split; auto.
      + destruct (s_known st) as [|[? ?] ?]; auto.
        unfold header_valid in *. rewrite E2, E3, E4. auto.
      + unfold next_root_ok in *. rewrite E6. auto.
    - destruct Hk as [Hk|Hk]; [rewrite E6, K0 in Hk; discriminate|].
      rewrite E6, E1. repeat split; auto.
      unfold next_root_ok. rewrite E6. simpl. auto.
  Qed.

End Accept.

(* ---- what acceptance implies for the two clauses the pinned code does not enforce ---- *)
Definition accept_sound_statement (fx : afix) : Prop :=
  forall cfg st b, older_ok st b -> c_verify_txs cfg = true ->
    fst (add_block fx cfg st b) = VAccept -> b_sig_ok b = true /\ b_conflict_free b = true.

Lemma accept_sound_all : accept_sound_statement afix_all.
Proof.
  intros cfg st b Ho Hv Ha. apply (accept_iff_valid afix_all cfg st b Ho) in Ha.
  destruct Ha as (_ & _ & H3 & _ & _ & H6 & _). split.
  - destruct (s_known st) as [|[kh kp] t]; [apply H3|apply H3; reflexivity].
  - apply H6; auto.
Qed.

(* witnesses: a state one block high, (a) the next header recorded and the block arriving with a witness
   that does not verify (F36); (b) a block whose second transaction names the first one in Conflicts (F35) *)
Definition w_cfg := mkConfig false true.
Definition w_st_known := mkState 1 11 100 0 [(12, 0)] [].
Definition w_st := mkState 1 11 100 0 [] [5; 6].
Definition w_unsigned := mkBlock 2 11 101 7 false 0 12 None false 7 true true true 0 [5].
Definition w_conflict := mkBlock 2 11 101 7 false 0 12 None true 7 true false true 0 [5; 9].
Definition w_valid := mkBlock 2 11 101 7 false 0 12 None true 7 true true true 0 [5].
Definition w_badbody := mkBlock 2 11 101 7 false 0 12 None true 8 true true true 0 [5].   (* Merkle root of another list *)

Lemma w_older st b : b_prev_older b = None -> older_ok st b.
Proof. intros E i H. rewrite E in H. discriminate. Qed.

Lemma accept_sound_none_refuted : ~ accept_sound_statement afix_none.
Proof.
  intros H. destruct (H w_cfg w_st_known w_unsigned (w_older w_st_known w_unsigned eq_refl) eq_refl eq_refl) as [S _].
  discriminate.
Qed.

Lemma accept_conflict_none_refuted :
  fst (add_block afix_none w_cfg w_st w_conflict) = VAccept /\ b_conflict_free w_conflict = false /\
  fst (add_block afix_all w_cfg w_st w_conflict) = VConflict /\
  fst (add_block afix_all w_cfg w_st_known w_unsigned) = VWitness.
Proof. repeat split. Qed.

(* non-vacuity: the valid block is accepted and advances the chain; a validly signed header with a bad body
   is refused and leaves exactly that header; afterwards the valid block (same header) is still accepted *)
Lemma accept_examples :
  add_block afix_all w_cfg w_st w_valid = (VAccept, mkState 2 12 101 0 [] [6]) /\
  add_block afix_all w_cfg w_st w_badbody = (VMerkle, mkState 1 11 100 0 [(12, 0)] [5; 6]) /\
  fst (add_block afix_all w_cfg (snd (add_block afix_all w_cfg w_st w_badbody)) w_valid) = VAccept.
Proof. repeat split. Qed.
