(* C02 - garbage collection of untraceable blocks and header-hash pages (definitions only; computes).

   Anchors: pkg/core/blockchain.go tryRunGC (1378-1412), removeUntraceableBlocks (1646-1689: the block
   records and transactions below the target are deleted INTO THE WRITE CACHE - they reach the database
   with the next flush), removeOldHeaderHashes (1614-1644: whole pages deleted by a SeekGC commit of its
   own), pkg/core/headerhashes.go init (what start-up reads back: the last complete page and every header
   after it).

   [fx_keep]: removeOldHeaderHashes keeps the last completely stored page (repair F48); false = the code
   at the pinned commit, which deletes every page below the one holding the GC target. *)
From NG Require Import Common.Tactics Node.Crash Node.Stages.
Open Scope N_scope.

Section GC.
  Variable St : Type.
  Variable Rt : Type.
  Variable exec : St -> N -> St.
  Variable root : St -> Rt.
  Variable ntx : N -> N.
  Variable PS : N.
  Variable gcp mtb : N.
  Variable gc_set : N -> list N.
  Variable fx_keep : bool.

  Notation batch := (batch St Rt).
  Notation node := (node St Rt).

  (* tryRunGC *)
  Definition gc_tgt (new : N) : N := ((new - mtb) / gcp) * gcp.
  Definition gc_is_due (old new : N) : bool := (gcp <? gc_tgt new) && negb (old / gcp =? new / gcp).

  (* removeUntraceableBlocks(newPeriod = new / gcp, tgt): the current page of header hashes is not stored
     yet, so when the target lies in it the removal stops one page earlier *)
  Definition blocks_target (new tgt : N) : N :=
    if ((new / gcp) * gcp) / PS =? tgt / PS then (tgt / PS - 1) * PS else tgt.

  (* removeOldHeaderHashes(tgt): pages with first index <= till go; 0 = nothing *)
  Definition pages_till (hh tgt : N) : N :=
    let t := ((tgt + 1) / PS - 1) * PS in
    if fx_keep then N.min t (stored_count PS hh - 2 * PS) else t.

  Definition page_list (from till : N) : list N :=
    if from <=? till then map (fun i => from + N.of_nat i * PS) (seq 0 (S (N.to_nat ((till - from) / PS)))) else [].

  Definition del_blocks (lo hi : N) : batch :=
    map (fun j => (KExec j, None)) (range lo (N.to_nat (hi - lo))) ++
    map (fun j => (KTxs j, None)) (filter (fun j => negb (ntx j =? 0)) (range lo (N.to_nat (hi - lo)))).
  Definition del_pages (from till : N) : batch := map (fun n => (KPage n, None)) (page_list from till).

  (* the node with the collector's bookkeeping: gcLastUntraceableBlockHeight, first page not yet removed *)
  Record gnode := mkG { g_node : node; g_last : N; g_page : N }.

  Definition gstep (g : gnode) (o : op) : gnode * list batch :=
    match o with
    | OFlushGC =>
        let n := g_node g in
        let old := disk_height (disk n) in
        let '(n1, bs) := flush St Rt n in
        let new := disk_height (disk n1) in
        if gc_is_due old new then
          let tgt := gc_tgt new in
          let gb := gc_batches St Rt gc_set tgt in
          let bt := blocks_target new tgt in
          let till := pages_till (hheight n1) tgt in
          let pb := if (0 <? till) && (g_page g <=? till) then [del_pages (g_page g) till] else [] in
          let cache' := if g_last g <? bt then cache n1 ++ del_blocks (g_last g) bt else cache n1 in
          (mkG (mkNode (apply_all (disk n1) (gb ++ pb)) cache' (height n1) (hheight n1))
               (if bt =? 0 then g_last g else bt)
               (if (0 <? till) && (g_page g <=? till) then till + PS else g_page g),
           bs ++ gb ++ pb)
        else (mkG n1 (g_last g) (g_page g), bs)
    | _ =>
        let '(n1, bs) := step St Rt exec root ntx PS false gcp mtb gc_set (g_node g) o in
        (mkG n1 (g_last g) (g_page g), bs)
    end.

  Fixpoint grun (g : gnode) (ops : list op) : gnode * list batch :=
    match ops with
    | [] => (g, [])
    | o :: t => let '(g1, b1) := gstep g o in let '(g2, b2) := grun g1 t in (g2, b1 ++ b2)
    end.

  (* ---- the plan of removals as a function of the flush heights alone (compared with what the real node
          removed, flush by flush) ---- *)
  Definition ranges := list (N * N).      (* [lo, hi) *)
  Fixpoint gc_plan (fl : list (N * bool)) (old last page : N) (pending : ranges) : list (ranges * ranges) :=
    match fl with
    | [] => []
    | (new, gc) :: t =>
        if gc && gc_is_due old new then
          let tgt := gc_tgt new in
          let bt := blocks_target new tgt in
          let till := pages_till new tgt in
          let dopages := (0 <? till) && (page <=? till) in
          (pending, if dopages then map (fun n => (n, n + 1)) (page_list page till) else [])
            :: gc_plan t new (if bt =? 0 then last else bt)
                       (if dopages then till + PS else page)
                       (if last <? bt then [(last, bt)] else [])
        else (pending, []) :: gc_plan t new last page []
    end.
End GC.

Arguments mkG {St Rt}. Arguments g_node {St Rt}. Arguments g_last {St Rt}. Arguments g_page {St Rt}.
