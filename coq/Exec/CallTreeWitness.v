(* C04 — corollaries in the form the property is worded, witnesses outside the guards, non-vacuity examples. *)
From NG Require Import Common.Tactics Exec.CallTree Exec.Spec Exec.CallTreeFrame Exec.CallTreeProofs.
Open Scope N_scope.

(* the fee is charged whatever happens; a transaction that does not halt changes nothing else *)
Theorem tx_atomic_fault pol base fee p :
  halted (apply_tx pol base fee p) = false -> after (apply_tx pol base fee p) = charge fee base.
Proof. apply run_tx_fault. Qed.

Theorem tx_atomic_halt pol base fee p :
  guard pol p = true -> halted (apply_tx pol base fee p) = true ->
  let i := irun_tx (charge fee base) p in
  ihalted i = true /\ lst (after (apply_tx pol base fee p)) = ist (iafter i) /\
  dflt (lnc (after (apply_tx pol base fee p))) = ifee (iafter i) /\
  events (apply_tx pol base fee p) = intf (iafter i).
Proof.
  intros G H. destruct (run_tx_exact pol (charge fee base) p G) as [A B]. unfold apply_tx in *.
  simpl. split; [congruence|]. apply B; auto.
Qed.

(* a call made from inside a try body that throws: the caller's view is exactly what it was at the call,
   whatever layered and un-layered callees below it had written, notified or set *)
Theorem failed_call_no_trace pol c f body cid fl s s' :
  guard pol body = true -> ne s -> exc s = false ->
  exec pol (Call c f body) cid fl true s = Thrown s' ->
  abs s' = rollback (abs s).
Proof.
  intros G H X E.
  assert (GC : guard pol (Call c f body) = true) by exact G.
  pose proof (exec_sim pol _ GC cid fl true s H X) as S. rewrite E in S. cbn [iexec] in S.
  destruct (has fl fR && has fl fC && (f <=? fAll) && is_contract c); [|tauto].
  destruct (iexec body c (N.land fl f) (abs s)); try tauto.
  symmetry. apply S. reflexivity.
Qed.

(* ---------- outside the guards ---------- *)

Definition base0 : layer :=
  mkL [((GASNS, 0), Some 1000); ((GASNS, 1), Some 1000); ((GASNS, 2), Some 1000); ((POLNS, 0), Some 1000)] (Some 1000).

(* W1 (violates g1 and g2): contract 0 catches, and in the catch block calls contract 1, which pays contract 0
   and then throws; contract 0's finally block then spends money it only has if that payment is still there *)
Definition w1_A : prog :=
  Try Throw (Some (Call 1 15 (Seq (Move 0 500 Skip) Throw))) (Some (Move 2 1200 Abort)).
Definition w1 : prog := Seq (Call 2 15 (Put 0 7)) (Try (Call 0 15 w1_A) (Some Skip) None).

(* W2 (violates g2 only): a call made from a finally block that was entered by an exception is dropped when
   it returns normally and was layered (unloadContext: commit := uncaughtException == nil) *)
Definition w2 : prog := Call 0 15 (Try (Try Throw None (Some (Call 1 15 (Put 3 4)))) (Some Skip) None).

Definition rollback_exact_statement (pol : policy) : Prop :=
  forall base p, tx_agree (run_tx pol base p) (irun_tx base p).

Lemma w1_lazy_faults_ideal_halts :
  halted (run_tx Lazy base0 w1) = false /\ ihalted (irun_tx base0 w1) = true /\
  lookup (2, 0) (ist (iafter (irun_tx base0 w1))) = Some 7 /\
  tx_agree (run_tx Eager base0 w1) (irun_tx base0 w1).
Proof. vm_compute. repeat split; congruence. Qed.

Lemma rollback_exact_refuted_lazy : ~ rollback_exact_statement Lazy.
Proof.
  intros H. destruct (H base0 w1) as [A _]. vm_compute in A. discriminate.
Qed.

Lemma w2_pending_exception_drops_callee pol :
  halted (run_tx pol base0 w2) = true /\ ihalted (irun_tx base0 w2) = true /\
  lookup (1, 3) (lst (after (run_tx pol base0 w2))) = None /\
  lookup (1, 3) (ist (iafter (irun_tx base0 w2))) = Some 4.
Proof. destruct pol; vm_compute; repeat split; congruence. Qed.

Lemma rollback_exact_refuted_pending pol : ~ rollback_exact_statement pol.
Proof.
  intros H. destruct (H base0 w2) as [_ B].
  assert (T : halted (run_tx pol base0 w2) = true) by (destruct pol; vm_compute; reflexivity).
  destruct (B T) as [C _]. destruct pol; vm_compute in C; discriminate.
Qed.

(* ---------- non-vacuity: guarded trees that exercise the mechanism ---------- *)

(* contract 0 writes, calls 1 inside a try; 1 writes, notifies, calls 2 WITHOUT a try (un-layered), 2 writes,
   moves GAS, sets the fee and throws; 1 does not catch; 0 catches, writes, reads back *)
Definition ex1 : prog :=
  Call 0 15 (Seq (Put 0 1)
            (Seq (Try (Call 1 15 (Seq (Put 0 2) (Seq (Notify 7)
                        (Call 2 15 (Seq (Put 0 3) (Seq (Move 3 40 Skip) (Seq (SetFee 55) Throw)))))))
                      (Some (Put 1 3)) (Some (Notify 9)))
            (Seq (NotifyVal 0) NotifyFee))).

Lemma ex1_guarded : guard Lazy ex1 = true /\ guard Eager ex1 = true.
Proof. split; reflexivity. Qed.

Lemma ex1_runs :
  let m := run_tx Lazy base0 ex1 in
  halted m = true /\ events m = [EvN 0 9; EvV 0 0 (Some 1); EvP 0 1000] /\
  lookup (0, 0) (lst (after m)) = Some 1 /\ lookup (0, 1) (lst (after m)) = Some 3 /\
  lookup (1, 0) (lst (after m)) = None /\ lookup (2, 0) (lst (after m)) = None /\
  lookup (GASNS, 2) (lst (after m)) = Some 1000 /\ lookup (GASNS, 3) (lst (after m)) = None /\
  lnc (after m) = Some 1000.
Proof. vm_compute. repeat split; reflexivity. Qed.

(* the same tree with the throw replaced by a fault: nothing at all is applied *)
Definition ex2 : prog :=
  Call 0 15 (Seq (Put 0 1) (Try (Call 1 15 (Seq (SetFee 55) Abort)) (Some Skip) None)).
Lemma ex2_faults : halted (apply_tx Lazy base0 3 ex2) = false /\ after (apply_tx Lazy base0 3 ex2) = charge 3 base0.
Proof. vm_compute. split; reflexivity. Qed.

(* caught_call_no_trace's hypotheses are satisfiable *)
Lemma ex3_caught :
  exists s2, exec Lazy (Call 1 15 (Seq (Put 0 2) Throw)) 0 15 true (start base0) = Thrown s2.
Proof. eexists. vm_compute. reflexivity. Qed.
