(* C04 — corollaries in the form the property is worded, witnesses outside the guard, non-vacuity examples. *)
From NG Require Import Common.Tactics Exec.CallTree Exec.Spec Exec.CallTreeFrame Exec.CallTreeProofs.
Open Scope N_scope.

(* the fee is charged whatever happens; a transaction that does not halt changes nothing else *)
Theorem tx_atomic_fault pol base sender fee p :
  halted (apply_tx pol base sender fee p) = false -> after (apply_tx pol base sender fee p) = charge sender fee base.
Proof. apply run_tx_fault. Qed.

Theorem tx_atomic_halt pol base sender fee p :
  guard pol p = true -> clean (apply_tx pol base sender fee p) = true -> halted (apply_tx pol base sender fee p) = true ->
  let i := irun_tx (charge sender fee base) p in
  ihalted i = true /\ lst (after (apply_tx pol base sender fee p)) = ist (iafter i) /\
  dflt (lnc (after (apply_tx pol base sender fee p))) = ifee (iafter i) /\
  dflt (lvc (after (apply_tx pol base sender fee p))) = ivc (iafter i) /\
  events (apply_tx pol base sender fee p) = intf (iafter i).
Proof.
  intros G C H. destruct (run_tx_exact pol (charge sender fee base) p G C) as [A B]. unfold apply_tx in *.
  simpl. split; [congruence|]. apply B; auto.
Qed.

(* a call made from inside a try body that throws: the caller's view is exactly what it was at the call,
   whatever layered and un-layered callees below it had written, notified, moved or set *)
Theorem failed_call_no_trace pol via c f body cid fl s s' :
  guard pol body = true -> ne s ->
  exec pol (CallV via c f body) cid fl true s = Thrown s' -> bad s' = false ->
  abs s' = rollback (abs s).
Proof.
  intros G H E B.
  assert (GC : guard pol (CallV via c f body) = true) by exact G.
  pose proof (exec_sim pol _ GC cid fl true s H) as S. rewrite E in S. specialize (S B). cbn [iexec] in S.
  destruct (has fl fR && has fl fC && (f <=? fAll) && is_contract c); [|simpl in S; tauto].
  destruct (iexec body c (N.land fl f) (abs s)); simpl in S; try tauto.
  symmetry. apply S. reflexivity.
Qed.

(* the syntactic condition of the first round is sufficient for the semantic one:
   if no finally block contains a contract call, no frame ever returns while an exception is pending *)
Lemma nocalls_bad pol p : nocalls p = true -> forall cid fl it s, bad (rstate (exec pol p cid fl it s)) = bad s.
Proof.
  induction p as [| | | | | |to amt cb IHcb|to amt cb IHcb| |p1 p2 IHp1 IHp2|via c rf body IHbody|b c f IHb IHc IHf| |] using prog_ind';
    intros NC cid cf it s; cbn [exec nocalls] in *; try discriminate; auto; try (case_if; reflexivity).
  - apply andb_true_iff in NC. destruct NC as [N1 N2].
    specialize (IHp1 N1 cid cf it s). destruct (exec pol p1 cid cf it s) as [s1|s1|s1]; simpl in *; auto.
    rewrite IHp2; auto.
  - apply andb_true_iff in NC. destruct NC as [NC N3]. apply andb_true_iff in NC. destruct NC as [N1 N2].
    unfold try_of. destruct (is_some _ || is_some _); auto.
    assert (FIN : forall ne0 s0, bad (rstate (fin_of (option_map (fun f' => exec pol f' cid cf it) f) ne0 s0)) = bad s0).
    { intros ne0 s0. unfold fin_of. destruct f as [f'|]; simpl in *.
      - specialize (IHf N3 cid cf it s0). destruct (exec pol f' cid cf it s0) as [x|x|x]; simpl in *; auto.
        destruct (exc x); auto. destruct ne0; auto.
      - destruct ne0; auto. }
    specialize (IHb N1 cid cf true s). destruct (exec pol b cid cf true s) as [s1|s1|s1]; simpl in *; auto.
    + rewrite FIN. exact IHb.
    + destruct c as [c'|]; simpl in *.
      * specialize (IHc N2 cid cf (catch_it pol it (is_some f)) (set_exc s1 false)).
        destruct (exec pol c' cid cf (catch_it pol it (is_some f)) (set_exc s1 false)) as [s2|s2|s2]; simpl in *;
          rewrite ?FIN; congruence.
      * rewrite FIN. exact IHb.
Qed.

Theorem g2_clean pol p : g2 p = true -> forall cid fl it s, exc s = false -> bad (rstate (exec pol p cid fl it s)) = bad s.
Proof.
  induction p as [| | | | | |to amt cb IHcb|to amt cb IHcb| |p1 p2 IHp1 IHp2|via c rf body IHbody|b c f IHb IHc IHf| |] using prog_ind';
    intros G cid cf it s X; cbn [exec g2] in *; auto; try (case_if; reflexivity).
  - (* Move *)
    case_if; auto. cbv zeta. case_if.
    { cbn [rstate]. rewrite bad_leave, bad_enter, exc_enter, X, andb_false_r, orb_false_r. reflexivity. }
    case_if.
    + set (S3 := move_state cid to amt (enter (wrapped it cf) s)).
      assert (X3 : exc S3 = false) by (subst S3; simpl; rewrite exc_enter; exact X).
      assert (B3 : bad S3 = bad s) by (subst S3; simpl; apply bad_enter).
      pose proof (exec_exc pol cb to fAll false S3) as XX. specialize (IHcb G to fAll false S3 X3).
      destruct (exec pol cb to fAll false S3) as [s4|s4|s4]; cbn [rstate] in *; try congruence.
      rewrite (XX X3). cbn [andb rstate]. rewrite bad_leave, (XX X3), andb_false_r, orb_false_r. congruence.
    + cbn [rstate]. rewrite bad_leave. simpl. rewrite bad_enter, exc_enter, X, andb_false_r, orb_false_r. reflexivity.
  - (* MoveNeo *)
    case_if; auto. cbv zeta. case_if.
    { cbn [rstate]. rewrite bad_leave, bad_enter, exc_enter, X, andb_false_r, orb_false_r. reflexivity. }
    set (S3 := neo_state cid to amt (enter (wrapped it cf) s)).
    assert (X3 : exc S3 = false) by (subst S3; rewrite exc_neo, exc_enter; exact X).
    assert (B3 : bad S3 = bad s) by (subst S3; rewrite bad_neo; apply bad_enter).
    destruct (is_contract to).
    + pose proof (exec_exc pol cb to fAll false S3) as XX. specialize (IHcb G to fAll false S3 X3).
      destruct (exec pol cb to fAll false S3) as [s4|s4|s4]; cbn [rstate] in *; try congruence.
      rewrite (XX X3). cbn [andb rstate]. rewrite bad_leave, exc_mint, exc_mint, (XX X3), andb_false_r, orb_false_r, !bad_mint. congruence.
    + rewrite X3. cbn [andb rstate]. rewrite bad_leave, exc_mint, exc_mint, X3, andb_false_r, orb_false_r, !bad_mint. exact B3.
  - (* SetFee *)
    case_if; auto. cbn [rstate]. rewrite bad_leave. simpl. rewrite bad_enter, exc_enter, X, andb_false_r, orb_false_r. reflexivity.
  - (* Seq *)
    apply andb_true_iff in G. destruct G as [G1 G2].
    pose proof (exec_exc pol p1 cid cf it s) as XX. specialize (IHp1 G1 cid cf it s X).
    destruct (exec pol p1 cid cf it s) as [s1|s1|s1]; simpl in *; auto.
    rewrite IHp2; auto.
  - (* Call *)
    case_if; auto. cbv zeta.
    set (w := wrapped it (N.land cf rf)).
    pose proof (exec_exc pol body c (N.land cf rf) false (enter w s)) as XX.
    assert (X1 : exc (enter w s) = false) by (rewrite exc_enter; exact X).
    specialize (IHbody G c (N.land cf rf) false (enter w s) X1). rewrite bad_enter in IHbody.
    destruct (exec pol body c (N.land cf rf) false (enter w s)) as [s2|s2|s2]; cbn [rstate] in *.
    + rewrite bad_leave, (XX X1), andb_false_r, orb_false_r. exact IHbody.
    + rewrite bad_unload. exact IHbody.
    + exact IHbody.
  - (* Try *)
    apply andb_true_iff in G. destruct G as [G N3]. apply andb_true_iff in G. destruct G as [G1 G2].
    unfold try_of. destruct (is_some _ || is_some _); auto.
    assert (FIN : forall ne0 s0, bad (rstate (fin_of (option_map (fun f' => exec pol f' cid cf it) f) ne0 s0)) = bad s0).
    { intros ne0 s0. unfold fin_of. destruct f as [f'|]; simpl in *.
      - pose proof (nocalls_bad pol f' N3 cid cf it s0) as Q. destruct (exec pol f' cid cf it s0) as [x|x|x]; simpl in *; auto.
        destruct (exc x); auto. destruct ne0; auto.
      - destruct ne0; auto. }
    specialize (IHb G1 cid cf true s X). destruct (exec pol b cid cf true s) as [s1|s1|s1]; simpl in *; auto.
    + rewrite FIN. exact IHb.
    + destruct c as [c'|]; simpl in *.
      * specialize (IHc G2 cid cf (catch_it pol it (is_some f)) (set_exc s1 false) eq_refl).
        destruct (exec pol c' cid cf (catch_it pol it (is_some f)) (set_exc s1 false)) as [s2|s2|s2]; simpl in *;
          rewrite ?FIN; congruence.
      * rewrite FIN. exact IHb.
Qed.

Corollary g2_run_tx_clean pol base p : g2 p = true -> clean (run_tx pol base p) = true.
Proof.
  intros G. unfold run_tx. pose proof (g2_clean pol p G ENTRY fAll false (start base) eq_refl) as Q.
  destruct (exec pol p ENTRY fAll false (start base)); simpl in *; rewrite Q; reflexivity.
Qed.

(* ---------- outside the guard ---------- *)

Definition base0 : layer :=
  mkL [((GASNS, 0), Some 1000); ((GASNS, 1), Some 1000); ((GASNS, 2), Some 1000); ((POLNS, 0), Some 1000);
       ((NEONS, 0), Some 500); ((NEONS, 10), Some 7); ((NEONS, 20), Some 1); ((NEONS, 1), Some 300); ((NEONS, 11), Some 4);
       ((NEONS, 30), Some 500); ((NEONS, 31), Some 500)]
      (Some 1000) (Some 0).

(* W1 (Lazy only, violates g1): contract 0 catches, and in the catch block calls contract 1, which pays contract 0
   and then throws; contract 0's finally block then spends money it only has if that payment is still there *)
Definition w1_A : prog :=
  Try Throw (Some (Call 1 15 (Seq (Move 0 500 Skip) Throw))) (Some (Move 2 1200 Abort)).
Definition w1 : prog := Seq (Call 2 15 (Put 0 7)) (Try (Call 0 15 w1_A) (Some Skip) None).

(* W2 (ghost flag set): a call made from a finally block that was entered by an exception is dropped when
   it returns normally and was layered (unloadContext: commit := uncaughtException == nil) *)
Definition w2 : prog := Call 0 15 (Try (Try Throw None (Some (Call 1 15 (Put 3 4)))) (Some Skip) None).

Definition rollback_exact_statement (pol : policy) : Prop :=
  forall base p, tx_agree (run_tx pol base p) (irun_tx base p).

Lemma w1_lazy_faults_ideal_halts :
  halted (run_tx Lazy base0 w1) = false /\ ihalted (irun_tx base0 w1) = true /\
  lookup (2, 0) (ist (iafter (irun_tx base0 w1))) = Some 7 /\
  tx_agree (run_tx Eager base0 w1) (irun_tx base0 w1) /\ clean (run_tx Eager base0 w1) = true.
Proof. vm_compute. repeat split; congruence. Qed.

Lemma rollback_exact_refuted_lazy : ~ rollback_exact_statement Lazy.
Proof.
  intros H. destruct (H base0 w1) as [A _]. vm_compute in A. discriminate.
Qed.

Lemma w2_pending_exception_drops_callee pol :
  halted (run_tx pol base0 w2) = true /\ ihalted (irun_tx base0 w2) = true /\
  clean (run_tx pol base0 w2) = false /\
  lookup (1, 3) (lst (after (run_tx pol base0 w2))) = None /\
  lookup (1, 3) (ist (iafter (irun_tx base0 w2))) = Some 4.
Proof. destruct pol; vm_compute; repeat split; congruence. Qed.

Lemma rollback_exact_refuted_pending pol : ~ rollback_exact_statement pol.
Proof.
  intros H. destruct (H base0 w2) as [_ B].
  assert (T : halted (run_tx pol base0 w2) = true) by (destruct pol; vm_compute; reflexivity).
  destruct (B T) as [C _]. destruct pol; vm_compute in C; discriminate.
Qed.

(* ---------- non-vacuity: trees inside the guard that exercise the mechanism ---------- *)

(* contract 0 writes, calls 1 inside a try; 1 writes, notifies, calls 2 WITHOUT a try (un-layered), 2 writes,
   moves GAS, sets the fee, transfers NEO (votes, voters, votesChanged, two GAS claims) and throws; 1 does not catch;
   0 catches, writes, reads back; a call in a finally block that is entered normally *)
Definition ex1 : prog :=
  Call 0 15 (Seq (Put 0 1)
            (Seq (Try (Call 1 15 (Seq (Put 0 2) (Seq (Notify 7)
                        (Call 2 15 (Seq (Put 0 3) (Seq (Move 3 40 Skip) (Seq (SetFee 55) Throw)))))))
                      (Some (Put 1 3)) (Some (Seq (Notify 9) (Call 2 15 (Put 5 5)))))
            (Seq (NotifyVal 0) NotifyFee))).

Lemma ex1_guarded : guard Lazy ex1 = true /\ guard Eager ex1 = true /\ g2 ex1 = false /\
                    clean (run_tx Lazy base0 ex1) = true /\ clean (run_tx Eager base0 ex1) = true.
Proof. vm_compute. repeat split; reflexivity. Qed.

Lemma ex1_runs :
  let m := run_tx Lazy base0 ex1 in
  halted m = true /\ events m = [EvN 0 9; EvV 0 0 (Some 1); EvP 0 1000] /\
  lookup (0, 0) (lst (after m)) = Some 1 /\ lookup (0, 1) (lst (after m)) = Some 3 /\
  lookup (1, 0) (lst (after m)) = None /\ lookup (2, 0) (lst (after m)) = None /\ lookup (2, 5) (lst (after m)) = Some 5 /\
  lookup (GASNS, 2) (lst (after m)) = Some 1000 /\ lookup (GASNS, 3) (lst (after m)) = None /\
  lnc (after m) = Some 1000.
Proof. vm_compute. repeat split; reflexivity. Qed.

(* a NEO transfer by a voter inside a callee that then throws and is caught: balances, candidate votes, voters count,
   both GAS claims and the votesChanged flag of the NEO cache are all as before; the same transfer committed *)
Definition ex_neo (fails : bool) : prog :=
  Call 1 15 (Seq (Try (Call 0 15 (Seq (MoveNeo 1 200 (Put 2 2)) (if fails then Throw else Skip))) (Some (Notify 1)) None)
                 (Notify 2)).
Lemma ex_neo_rolled_back :
  let m := run_tx Eager base0 (ex_neo true) in
  halted m = true /\ clean m = true /\ events m = [EvN 1 1; EvN 1 2] /\
  lookup (kNeo 0) (lst (after m)) = Some 500 /\ lookup (kNeo 1) (lst (after m)) = Some 300 /\
  lookup kCand (lst (after m)) = Some 500 /\ lookup kVoters (lst (after m)) = Some 500 /\
  lookup (kClaim 0) (lst (after m)) = Some 7 /\ lookup (GASNS, 0) (lst (after m)) = Some 1000 /\
  lookup (1, 2) (lst (after m)) = None /\ lvc (after m) = Some 0.
Proof. vm_compute. repeat split; reflexivity. Qed.
Lemma ex_neo_committed :
  let m := run_tx Eager base0 (ex_neo false) in
  halted m = true /\ clean m = true /\
  events m = [EvTN 0 1 200; EvT NIL 0 7; EvT NIL 1 4; EvN 1 2] /\
  lookup (kNeo 0) (lst (after m)) = Some 300 /\ lookup (kNeo 1) (lst (after m)) = Some 500 /\
  lookup kCand (lst (after m)) = Some 300 /\ lookup kVoters (lst (after m)) = Some 300 /\
  lookup (kClaim 0) (lst (after m)) = None /\ lookup (GASNS, 0) (lst (after m)) = Some 1007 /\
  lookup (GASNS, 1) (lst (after m)) = Some 1004 /\ lookup (1, 2) (lst (after m)) = Some 2 /\ lvc (after m) = Some 1.
Proof. vm_compute. repeat split; reflexivity. Qed.

(* the same tree with the throw replaced by a fault: nothing at all is applied *)
Definition ex2 : prog :=
  Call 0 15 (Seq (Put 0 1) (Try (Call 1 15 (Seq (SetFee 55) (Seq (MoveNeo 0 100 Skip) Abort))) (Some Skip) None)).
Lemma ex2_faults : halted (apply_tx Lazy base0 5 3 ex2) = false /\ after (apply_tx Lazy base0 5 3 ex2) = charge 5 3 base0.
Proof. vm_compute. split; reflexivity. Qed.

(* caught_call_no_trace's hypotheses are satisfiable *)
Lemma ex3_caught :
  exists s2, exec Lazy (Call 1 15 (Seq (Put 0 2) Throw)) 0 15 true (start base0) = Thrown s2 /\ bad s2 = false.
Proof. eexists. vm_compute. split; reflexivity. Qed.
