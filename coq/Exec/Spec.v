(* C04 — reference semantics with IDEAL transactional frames.

   One flat state (no layers).  Every contract call is a transaction: it commits iff the callee returns
   normally; when the callee throws, storage, native setting and notifications are put back to what they were
   at the call, and the exception continues in the caller.  A throw out of a payment callback invoked by a
   native contract, or out of the entry script, faults the whole execution.  Call flags, TRY/CATCH/FINALLY and
   the VM's single pending-exception register follow the NeoVM rules (they are not what is idealised here). *)
From NG Require Import Common.Tactics Exec.CallTree.
Open Scope N_scope.

Record istate := mkI { ist : store; ifee : N; ivc : N; intf : list event; iexc : bool }.
Inductive ires := INormal (s : istate) | IThrown (s : istate) | IFault.

Definition iput (s : istate) (k : key) (v : option N) : istate := mkI ((k, v) :: ist s) (ifee s) (ivc s) (intf s) (iexc s).
Definition iadd (s : istate) (e : event) : istate := mkI (ist s) (ifee s) (ivc s) (intf s ++ [e]) (iexc s).
Definition iset_exc (s : istate) (b : bool) : istate := mkI (ist s) (ifee s) (ivc s) (intf s) b.
Definition ibal (s : istate) (a : N) : N := dflt (lookup (GASNS, a) (ist s)).
Definition iset_bal (a v : N) (s : istate) : istate := iput s (GASNS, a) (if v =? 0 then None else Some v).
(* roll a failed frame back: everything but the pending exception *)
Definition rollback (at_call : istate) : istate := mkI (ist at_call) (ifee at_call) (ivc at_call) (intf at_call) true.

Definition imove (cid to amt : N) (s : istate) : istate :=
  let bf := ibal s cid in
  let s2 := if (cid =? to) || (amt =? 0) then s
            else let s' := iset_bal cid (bf - amt) s in iset_bal to (ibal s' to + amt) s' in
  iadd s2 (EvT cid to amt).
Definition isetfee (v : N) (s : istate) : istate := mkI ((POLNS, 0, Some v) :: ist s) v (ivc s) (intf s) (iexc s).
(* NEO.transfer and the GAS mints: the same storage effects (CallTree.neo_eff, mint_eff), on the one store *)
Definition ieff (e : eff) (s : istate) : istate := mkI (e (ist s) ++ ist s) (ifee s) (ivc s) (intf s) (iexc s).
Definition ineo (cid to amt : N) (s : istate) : istate :=
  let s2 := ieff (neo_eff cid to amt) s in
  let s3 := if (cid =? to) || (amt =? 0) then s2 else mkI (ist s2) (ifee s2) 1 (intf s2) (iexc s2) in
  iadd s3 (EvTN cid to amt).
Definition imint (a d : N) (s : istate) : istate :=
  if d =? 0 then s else iadd (ieff (mint_eff a d) s) (EvT NIL a d).

(* NeoVM try/catch/finally for one try block (same control rules as the machine) *)
Definition ifin_of (rf : option (istate -> ires)) (normal_entry : bool) (s0 : istate) : ires :=
  match rf with
  | None => if normal_entry then INormal s0 else IThrown s0
  | Some run =>
      match run s0 with
      | INormal s' => if iexc s' then IThrown s' else if normal_entry then INormal s' else IFault
      | r => r
      end
  end.
Definition itry_of (rb : istate -> ires) (rc rf : option (istate -> ires)) (s : istate) : ires :=
  if is_some rc || is_some rf then
    match rb s with
    | INormal s1 => ifin_of rf true s1
    | IThrown s1 =>
        match rc with
        | Some run =>
            match run (iset_exc s1 false) with
            | INormal s2 => ifin_of rf true s2
            | IThrown s2 => ifin_of rf false s2
            | IFault => IFault
            end
        | None => ifin_of rf false s1
        end
    | IFault => IFault
    end
  else IFault.

Fixpoint iexec (p : prog) (cid fl : N) (s : istate) {struct p} : ires :=
  match p with
  | Skip => INormal s
  | Put k v => if has fl fR && has fl fW then INormal (iput s (cid, k) (Some v)) else IFault
  | Del k => if has fl fR && has fl fW then INormal (iput s (cid, k) None) else IFault
  | Notify e => if has fl fN then INormal (iadd s (EvN cid e)) else IFault
  | NotifyVal k => if has fl fR && has fl fN then INormal (iadd s (EvV cid k (lookup (cid, k) (ist s)))) else IFault
  | NotifyFee => if has fl fR && has fl fC && has fl fN then INormal (iadd s (EvP cid (ifee s))) else IFault
  | SetFee v =>
      if has fl fR && has fl fW && has fl fC then INormal (isetfee v s) else IFault
  | Move to amt cb =>
      if has fl fAll then
        if ibal s cid <? amt then INormal s
        else
          let s3 := imove cid to amt s in
          if is_contract to then
            match iexec cb to fAll s3 with
            | INormal s4 => INormal s4
            | IThrown _ => IFault
            | IFault => IFault
            end
          else INormal s3
      else IFault
  | MoveNeo to amt cb =>
      if has fl fAll then
        if sval (ist s) (kNeo cid) <? amt then INormal s
        else
          let d1 := sval (ist s) (kClaim cid) in
          let d2 := neo_d2 cid to amt (ist s) in
          let s3 := ineo cid to amt s in
          match (if is_contract to then iexec cb to fAll s3 else INormal s3) with
          | INormal s4 => INormal (imint to d2 (imint cid d1 s4))
          | IThrown _ => IFault
          | IFault => IFault
          end
      else IFault
  | Seq p q =>
      match iexec p cid fl s with
      | INormal s1 => iexec q cid fl s1
      | r => r
      end
  | CallV _ c f body =>
      if has fl fR && has fl fC && (f <=? fAll) && is_contract c then
        match iexec body c (N.land fl f) s with
        | INormal s2 => INormal s2                 (* commit *)
        | IThrown _ => IThrown (rollback s)        (* as if the call had never happened *)
        | IFault => IFault
        end
      else IFault
  | Try b c f =>
      itry_of (iexec b cid fl) (option_map (fun c' => iexec c' cid fl) c) (option_map (fun f' => iexec f' cid fl) f) s
  | Throw => IThrown (iset_exc s true)
  | Abort => IFault
  end.

(* a transaction on block-level state: applied iff it halts *)
Record iout := mkIOut { ihalted : bool; iafter : istate }.
Definition istart (base : layer) : istate := mkI (lst base) (dflt (lnc base)) (dflt (lvc base)) [] false.
Definition irun_tx (base : layer) (p : prog) : iout :=
  match iexec p ENTRY fAll (istart base) with
  | INormal s' => mkIOut true s'
  | _ => mkIOut false (istart base)
  end.
