(* C04 — structural facts about the layering machine: what an execution can and cannot touch.
   frame lemma: whatever a program does, with whatever outcome, the layers below the one it started on keep
   their stores (cache copies may be materialised in them, never changed in value), and the notification list
   only grows; the top layer only gains entries. *)
From NG Require Import Common.Tactics Exec.CallTree.
Open Scope N_scope.

Definition flat (ls : list layer) : store := concat (map lst ls).

Lemma lookup_app k a b :
  lookup k (a ++ b) = match find k a with Some v => v | None => lookup k b end.
Proof.
  induction a as [|[k' v] a IH]; simpl; auto. destruct (key_eqb k k'); auto.
Qed.

Lemma lget_flat k ls : lget k ls = lookup k (flat ls).
Proof.
  induction ls as [|l r IH]; simpl; auto. unfold flat in *. simpl. rewrite lookup_app, IH. reflexivity.
Qed.

(* ---- same stores, same visible cache value at every depth ---- *)
Inductive lower_eq : list layer -> list layer -> Prop :=
| leq_nil : lower_eq [] []
| leq_cons l l' r r' : lst l = lst l' -> lower_eq r r' -> nc_get (l :: r) = nc_get (l' :: r') ->
                       vc_get (l :: r) = vc_get (l' :: r') -> lower_eq (l :: r) (l' :: r').

Lemma lower_eq_refl ls : lower_eq ls ls.
Proof. induction ls; constructor; auto. Qed.

Lemma lower_eq_trans a b c : lower_eq a b -> lower_eq b c -> lower_eq a c.
Proof.
  intros H; revert c; induction H; intros c Hc; inv Hc; constructor; auto; congruence.
Qed.

Lemma lower_eq_flat a b : lower_eq a b -> flat a = flat b.
Proof. induction 1; unfold flat in *; simpl; congruence. Qed.

Lemma lower_eq_nc a b : lower_eq a b -> nc_get a = nc_get b.
Proof. destruct 1; auto. Qed.
Lemma lower_eq_vc a b : lower_eq a b -> vc_get a = vc_get b.
Proof. destruct 1; auto. Qed.

Lemma lower_eq_last a b d : lower_eq a b -> last a d = last b d.
Proof.
  induction 1 as [|l l' r r' Hl Hr IH Hn Hv]; auto.
  destruct Hr as [|l2 l2' r2 r2' ? ? ? ?].
  - simpl in *. destruct l as [a x u], l' as [b y v]; simpl in *. subst.
    destruct x, y, u, v; congruence.
  - simpl in *. exact IH.
Qed.

Lemma nc_rw_fst ls : fst (nc_rw ls) = nc_get ls.
Proof.
  induction ls as [|l r IH]; simpl; auto.
  destruct (lnc l); simpl; auto. destruct (nc_rw r); simpl in *; auto.
Qed.
Lemma vc_rw_fst ls : fst (vc_rw ls) = vc_get ls.
Proof.
  induction ls as [|l r IH]; simpl; auto.
  destruct (lvc l); simpl; auto. destruct (vc_rw r); simpl in *; auto.
Qed.

Lemma nc_rw_lower ls : lower_eq ls (snd (nc_rw ls)).
Proof.
  induction ls as [|l r IH]; simpl; [constructor|].
  destruct (lnc l) eqn:E; simpl; [apply lower_eq_refl|].
  pose proof (nc_rw_fst r) as F. destruct (nc_rw r) as [v r'] eqn:R; simpl in *.
  constructor; simpl; auto.
  - rewrite E. subst v. destruct (nc_get r) eqn:G; auto.
    symmetry. rewrite <- (lower_eq_nc _ _ IH). exact G.
  - rewrite (lower_eq_vc _ _ IH). reflexivity.
Qed.
Lemma vc_rw_lower ls : lower_eq ls (snd (vc_rw ls)).
Proof.
  induction ls as [|l r IH]; simpl; [constructor|].
  destruct (lvc l) eqn:E; simpl; [apply lower_eq_refl|].
  pose proof (vc_rw_fst r) as F. destruct (vc_rw r) as [v r'] eqn:R; simpl in *.
  constructor; simpl; auto.
  - rewrite (lower_eq_nc _ _ IH). reflexivity.
  - rewrite E. subst v. destruct (vc_get r) eqn:G; auto.
    symmetry. rewrite <- (lower_eq_vc _ _ IH). exact G.
Qed.

(* ---- frames ---- *)
Definition frameP (t : layer) (rest : list layer) (n : list event) (s' : mstate) : Prop :=
  exists t' rest' new newn, lay s' = t' :: rest' /\ lst t' = new ++ lst t /\ lower_eq rest rest' /\ ntf s' = n ++ newn.
Definition belowP (rest : list layer) (s' : mstate) : Prop :=
  exists pre rest', lay s' = pre ++ rest' /\ lower_eq rest rest'.

Lemma frame_below t rest n s' : frameP t rest n s' -> belowP rest s'.
Proof. intros (t' & rest' & new & newn & H1 & _ & H3 & _). exists [t'], rest'. auto. Qed.

Lemma frameP_refl s t rest : lay s = t :: rest -> frameP t rest (ntf s) s.
Proof. intros H. exists t, rest, [], []. rewrite app_nil_r. repeat split; auto. apply lower_eq_refl. Qed.

Lemma frameP_trans t rest n s1 s2 :
  frameP t rest n s1 ->
  (forall t1 rest1, lay s1 = t1 :: rest1 -> frameP t1 rest1 (ntf s1) s2) ->
  frameP t rest n s2.
Proof.
  intros (t1 & rest1 & new1 & newn1 & H1 & H2 & H3 & H4) K.
  destruct (K _ _ H1) as (t2 & rest2 & new2 & newn2 & J1 & J2 & J3 & J4).
  exists t2, rest2, (new2 ++ new1), (newn1 ++ newn2). repeat split; auto.
  - rewrite J2, H2, app_assoc. reflexivity.
  - eapply lower_eq_trans; eauto.
  - rewrite J4, H4, app_assoc. reflexivity.
Qed.

Lemma frame_below_trans t rest n s1 s2 :
  frameP t rest n s1 ->
  (forall t1 rest1, lay s1 = t1 :: rest1 -> belowP rest1 s2) ->
  belowP rest s2.
Proof.
  intros (t1 & rest1 & new1 & newn1 & H1 & H2 & H3 & H4) K.
  destruct (K _ _ H1) as (pre & rest2 & J1 & J2).
  exists pre, rest2. split; auto. eapply lower_eq_trans; eauto.
Qed.

(* simple state changes on the top layer *)
Lemma frameP_put s t rest k v :
  lay s = t :: rest -> frameP t rest (ntf s) (set_lay s (put_top k v (lay s))).
Proof.
  intros H. rewrite H. simpl. exists (mkL ((k, v) :: lst t) (lnc t) (lvc t)), rest, [(k, v)], [].
  rewrite app_nil_r. repeat split; auto. apply lower_eq_refl.
Qed.

Lemma frameP_ntf s t rest e : lay s = t :: rest -> frameP t rest (ntf s) (add_ntf s e).
Proof. intros H. exists t, rest, [], [e]. repeat split; auto. apply lower_eq_refl. Qed.

Lemma frameP_exc s t rest b : lay s = t :: rest -> frameP t rest (ntf s) (set_exc s b).
Proof. intros H. exists t, rest, [], []. rewrite app_nil_r. repeat split; auto. apply lower_eq_refl. Qed.

Lemma frameP_lay t rest n s ls t' new :
  ls = t' :: rest -> lst t' = new ++ lst t -> n = ntf s -> frameP t rest n (set_lay s ls).
Proof.
  intros -> H ->. exists t', rest, new, []. rewrite app_nil_r. repeat split; auto. apply lower_eq_refl.
Qed.

Lemma set_bal_top a v t rest : exists t', set_bal a v (t :: rest) = t' :: rest /\ exists new, lst t' = new ++ lst t.
Proof. unfold set_bal, put_top. eexists. split; [reflexivity|]. simpl. eexists [_]. reflexivity. Qed.

(* entering and leaving a (possibly layered) frame *)
Definition entered (w : bool) (t : layer) (rest : list layer) : layer * list layer :=
  if w then (mkL [] None None, t :: rest) else (t, rest).

Lemma enter_lay w s t rest :
  lay s = t :: rest -> lay (enter w s) = fst (entered w t rest) :: snd (entered w t rest) /\ ntf (enter w s) = ntf s
                       /\ exc (enter w s) = exc s.
Proof. intros H. destruct w; simpl; rewrite ?H; auto. Qed.

Lemma unload_frame w s t rest s2 :
  lay s = t :: rest ->
  frameP (fst (entered w t rest)) (snd (entered w t rest)) (ntf s) s2 ->
  frameP t rest (ntf s) (unload w (length (ntf s)) s2).
Proof.
  intros H (t2 & rest2 & new & newn & H1 & H2 & H3 & H4).
  destruct w; simpl in *; [|exists t2, rest2, new, newn; auto].
  inv H3. rename l' into u, r' into rest'.
  unfold unload. destruct (exc s2).
  - exists u, rest', [], []. simpl. rewrite H1. simpl. repeat split; auto.
    rewrite H4, firstn_app, firstn_all, Nat.sub_diag. simpl. reflexivity.
  - unfold set_lay. simpl. rewrite H1. simpl.
    eexists _, rest', new, newn. repeat split; auto. simpl. rewrite H2, app_nil_r. congruence.
Qed.

Lemma unload_below w t rest s2 :
  belowP (snd (entered w t rest)) s2 -> belowP rest s2.
Proof.
  destruct w; simpl; auto. intros (pre & r' & H1 & H2). inv H2.
  exists (pre ++ [l']), r'0. rewrite <- app_assoc. auto.
Qed.

Lemma nc_set_frame t rest v :
  exists t' rest', nc_set v (t :: rest) = t' :: rest' /\ lst t' = lst t /\ lower_eq rest rest'.
Proof.
  unfold nc_set. simpl. destruct (lnc t) eqn:E; simpl.
  - eexists _, rest. split; [reflexivity|]. split; auto. apply lower_eq_refl.
  - destruct (nc_rw rest) as [x r'] eqn:R. simpl.
    eexists _, r'. split; [reflexivity|]. split; auto.
    pose proof (nc_rw_lower rest) as L. rewrite R in L. exact L.
Qed.
Lemma nc_set_vc t rest v : vc_get (nc_set v (t :: rest)) = vc_get (t :: rest).
Proof.
  unfold nc_set. simpl. destruct (lnc t) eqn:E; simpl; auto.
  pose proof (nc_rw_lower rest) as L. destruct (nc_rw rest) as [x r'] eqn:R. simpl in *.
  rewrite (lower_eq_vc _ _ L). reflexivity.
Qed.
Lemma vc_set_nc t rest v : nc_get (vc_set v (t :: rest)) = nc_get (t :: rest).
Proof.
  unfold vc_set. simpl. destruct (lvc t) eqn:E; simpl; auto.
  pose proof (vc_rw_lower rest) as L. destruct (vc_rw rest) as [x r'] eqn:R. simpl in *.
  rewrite (lower_eq_nc _ _ L). reflexivity.
Qed.
Lemma vc_set_get t rest v : vc_get (vc_set v (t :: rest)) = Some v.
Proof. unfold vc_set. simpl. destruct (lvc t); simpl; auto. destruct (vc_rw rest); reflexivity. Qed.
Lemma nc_set_get t rest v : nc_get (nc_set v (t :: rest)) = Some v.
Proof. unfold nc_set. simpl. destruct (lnc t); simpl; auto. destruct (nc_rw rest); reflexivity. Qed.

Lemma vc_set_frame t rest v :
  exists t' rest', vc_set v (t :: rest) = t' :: rest' /\ lst t' = lst t /\ lower_eq rest rest'.
Proof.
  unfold vc_set. simpl. destruct (lvc t) eqn:E; simpl.
  - eexists _, rest. split; [reflexivity|]. split; auto. apply lower_eq_refl.
  - destruct (vc_rw rest) as [x r'] eqn:R. simpl.
    eexists _, r'. split; [reflexivity|]. split; auto.
    pose proof (vc_rw_lower rest) as L. rewrite R in L. exact L.
Qed.

Lemma apply_eff_frame e t rest : exists t', apply_eff e (t :: rest) = t' :: rest /\ exists new, lst t' = new ++ lst t.
Proof. unfold apply_eff. eexists. split; [reflexivity|]. simpl. eexists. reflexivity. Qed.

Lemma neo_state_frame cid to amt s1 t0 r0 :
  lay s1 = t0 :: r0 -> frameP t0 r0 (ntf s1) (neo_state cid to amt s1).
Proof.
  intros E1. unfold neo_state. rewrite E1.
  destruct (apply_eff_frame (neo_eff cid to amt) t0 r0) as (t1 & A1 & new & A2). rewrite A1.
  destruct ((cid =? to) || (amt =? 0)).
  - exists t1, r0, new, [EvTN cid to amt]. simpl. repeat split; auto. apply lower_eq_refl.
  - destruct (vc_set_frame t1 r0 1) as (t2 & r2 & V1 & V2 & V3). rewrite V1.
    exists t2, r2, new, [EvTN cid to amt]. simpl. repeat split; auto. congruence.
Qed.

Lemma mint_state_frame a d s t0 r0 :
  lay s = t0 :: r0 -> frameP t0 r0 (ntf s) (mint_state a d s).
Proof.
  intros E. unfold mint_state. destruct (d =? 0); [apply frameP_refl; auto|]. rewrite E.
  destruct (apply_eff_frame (mint_eff a d) t0 r0) as (t1 & A1 & new & A2). rewrite A1.
  exists t1, r0, new, [EvT NIL a d]. simpl. repeat split; auto. apply lower_eq_refl.
Qed.

Lemma move_state_frame cid to amt s1 t0 r0 :
  lay s1 = t0 :: r0 -> frameP t0 r0 (ntf s1) (move_state cid to amt s1).
Proof.
  intros E1. unfold move_state.
  match goal with |- context [set_lay s1 ?ls] => set (ls2 := ls) end.
  assert (exists t2 new, ls2 = t2 :: r0 /\ lst t2 = new ++ lst t0) as (t2 & new & L2 & L3).
  { subst ls2. case_if.
    - exists t0, []. auto.
    - rewrite E1.
      destruct (set_bal_top cid (bal (t0 :: r0) cid - amt) t0 r0) as (ta & Ea & na & Na).
      rewrite Ea.
      destruct (set_bal_top to (bal (ta :: r0) to + amt) ta r0) as (tb & Eb & nb & Nb).
      rewrite Eb. exists tb, (nb ++ na). split; auto. rewrite Nb, Na, app_assoc. reflexivity. }
  exists t2, r0, new, [EvT cid to amt]. simpl. repeat split; auto. apply lower_eq_refl.
Qed.

Lemma setfee_state_frame v s1 t0 r0 :
  lay s1 = t0 :: r0 -> frameP t0 r0 (ntf s1) (setfee_state v s1).
Proof.
  intros E1. unfold setfee_state. rewrite E1. simpl.
  match goal with |- context [nc_set v (?tt :: ?rr)] =>
    destruct (nc_set_frame tt rr v) as (t' & rest' & N1 & N2 & N3); rewrite N1 end.
  exists t', rest', [(POLNS, 0, Some v)], []. simpl. rewrite app_nil_r. repeat split; auto.
Qed.

(* ---- the frame lemma ---- *)
Definition frame_res (t : layer) (rest : list layer) (n : list event) (r : res) : Prop :=
  match r with
  | Normal s' | Thrown s' => frameP t rest n s'
  | Fault s' => belowP rest s'
  end.

Lemma below_self s t rest : lay s = t :: rest -> belowP rest s.
Proof. intros H. exists [t], rest. split; auto. apply lower_eq_refl. Qed.

Lemma frame_res_bind t rest n s1 r2 :
  frameP t rest n s1 ->
  (forall t1 rest1, lay s1 = t1 :: rest1 -> frame_res t1 rest1 (ntf s1) r2) ->
  frame_res t rest n r2.
Proof.
  intros F K. destruct r2; simpl in *;
    first [eapply frameP_trans; eauto | eapply frame_below_trans; eauto].
Qed.

Definition framed (run : mstate -> res) : Prop :=
  forall s t rest, lay s = t :: rest -> frame_res t rest (ntf s) (run s).
Definition oframed (o : option (mstate -> res)) : Prop :=
  match o with Some run => framed run | None => True end.

Lemma fin_of_framed rf ne : oframed rf -> framed (fin_of rf ne).
Proof.
  intros Hf s t rest H. unfold fin_of. destruct rf as [run|].
  - specialize (Hf s t rest H). destruct (run s) as [s'|s'|s']; simpl in *; auto.
    destruct (exc s'); simpl; auto. destruct ne; simpl; auto. eapply frame_below; eauto.
  - destruct ne; simpl; apply frameP_refl; auto.
Qed.

Lemma try_of_framed rb rc rf : framed rb -> oframed rc -> oframed rf -> framed (try_of rb rc rf).
Proof.
  intros Hb Hc Hf s t rest H. unfold try_of.
  destruct (is_some rc || is_some rf); [|simpl; eapply below_self; eauto].
  pose proof (Hb s t rest H) as B. destruct (rb s) as [s1|s1|s1]; simpl in B; auto.
  - eapply frame_res_bind; eauto. intros. apply fin_of_framed; auto.
  - destruct rc as [run|].
    + eapply frame_res_bind; eauto. intros t1 rest1 L1.
      assert (L1' : lay (set_exc s1 false) = t1 :: rest1) by exact L1.
      pose proof (Hc _ _ _ L1') as C. simpl in C.
      destruct (run (set_exc s1 false)) as [s2|s2|s2]; simpl in C; auto.
      * eapply frame_res_bind; eauto. intros. apply fin_of_framed; auto.
      * eapply frame_res_bind; eauto. intros. apply fin_of_framed; auto.
    + eapply frame_res_bind; eauto. intros. apply fin_of_framed; auto.
Qed.

Lemma exec_frame pol p : forall cid fl it, framed (exec pol p cid fl it).
Proof.
  induction p as [| | | | | |to amt cb IHcb|to amt cb IHcb| |p1 p2 IHp1 IHp2|via c rf body IHbody|b c f IHb IHc IHf| |] using prog_ind'; intros cid cf it s t rest H; cbn [exec].
  - apply frameP_refl; auto.
  - case_if; simpl; [apply frameP_put; auto|eapply below_self; eauto].
  - case_if; simpl; [apply frameP_put; auto|eapply below_self; eauto].
  - case_if; simpl; [apply frameP_ntf; auto|eapply below_self; eauto].
  - case_if; simpl; [apply frameP_ntf; auto|eapply below_self; eauto].
  - case_if; simpl; [apply frameP_ntf; auto|eapply below_self; eauto].
  - (* Move *)
    case_if; simpl; [|eapply below_self; eauto].
    set (w := wrapped it cf).
    destruct (enter_lay w s t rest H) as (E1 & E2 & E3).
    set (t0 := fst (entered w t rest)) in *. set (r0 := snd (entered w t rest)) in *.
    case_if.
    { simpl. apply unload_frame; auto. fold t0 r0. rewrite <- E2. apply frameP_refl; auto. }
    pose proof (move_state_frame cid to amt _ _ _ E1) as F3. rewrite E2 in F3.
    case_if.
    + pose proof F3 as F3'. destruct F3 as (t3 & r3 & new3 & newn3 & G1 & G2 & G3 & G4).
      pose proof (IHcb to fAll false _ _ _ G1) as B.
      destruct (exec pol cb to fAll false _) as [s4|s4|s4]; simpl in B.
      * case_if; simpl.
        -- eapply unload_below. eapply frame_below_trans; [exact F3'|].
           intros t1 rest1 L1. rewrite G1 in L1. inv L1. eapply frame_below; eauto.
        -- apply unload_frame; auto. eapply frameP_trans; [exact F3'|].
           intros t1 rest1 L1. rewrite G1 in L1. inv L1. exact B.
      * eapply unload_below. eapply frame_below_trans; [exact F3'|].
        intros t1 rest1 L1. rewrite G1 in L1. inv L1. eapply frame_below; eauto.
      * eapply unload_below. eapply frame_below_trans; [exact F3'|].
        intros t1 rest1 L1. rewrite G1 in L1. inv L1. exact B.
    + simpl. apply unload_frame; auto.
  - (* MoveNeo *)
    case_if; simpl; [|eapply below_self; eauto]. cbv zeta.
    set (w := wrapped it cf).
    destruct (enter_lay w s t rest H) as (E1 & E2 & E3).
    set (t0 := fst (entered w t rest)) in *. set (r0 := snd (entered w t rest)) in *.
    case_if.
    { simpl. apply unload_frame; auto. fold t0 r0. rewrite <- E2. apply frameP_refl; auto. }
    pose proof (neo_state_frame cid to amt _ _ _ E1) as F3. rewrite E2 in F3.
    set (d1 := sval _ (kClaim cid)). set (d2 := neo_d2 cid to amt _).
    assert (MINT1 : forall s4, frameP t0 r0 (ntf s) s4 -> frameP t0 r0 (ntf s) (mint_state cid d1 s4)).
    { intros s4 F4. eapply frameP_trans; [exact F4|]. intros t1 r1 L1. apply mint_state_frame; exact L1. }
    assert (MINT2 : forall s4, frameP t0 r0 (ntf s) s4 -> frameP t0 r0 (ntf s) (mint_state to d2 (mint_state cid d1 s4))).
    { intros s4 F4. eapply frameP_trans; [exact (MINT1 s4 F4)|]. intros t1 r1 L1. apply mint_state_frame; exact L1. }
    assert (TAIL : forall (s4 : mstate) (c1 c2 : bool), frameP t0 r0 (ntf s) s4 ->
              frame_res t rest (ntf s)
                (if c1 then Fault (mark true s4)
                 else if c2 then Fault (mark true (mint_state cid d1 s4))
                 else Normal (leave w (length (ntf s)) (mint_state to d2 (mint_state cid d1 s4))))).
    { intros s4 c1 c2 F4. destruct c1; [|destruct c2]; simpl.
      - eapply unload_below. eapply frame_below. exact F4.
      - eapply unload_below. eapply frame_below. exact (MINT1 s4 F4).
      - apply unload_frame; auto. }
    case_if.
    + pose proof F3 as F3'. destruct F3 as (t3 & r3 & new3 & newn3 & G1 & G2 & G3 & G4).
      pose proof (IHcb to fAll false _ _ _ G1) as B.
      assert (TR : forall s4, frameP t3 r3 (ntf (neo_state cid to amt (enter w s))) s4 -> frameP t0 r0 (ntf s) s4).
      { intros s4 F4. eapply frameP_trans; [exact F3'|]. intros t1 rest1 L1. rewrite G1 in L1. inv L1. exact F4. }
      destruct (exec pol cb to fAll false _) as [s4|s4|s4]; simpl in B.
      * apply TAIL. apply TR. exact B.
      * eapply unload_below. eapply frame_below. apply TR. exact B.
      * eapply unload_below. eapply frame_below_trans; [exact F3'|].
        intros t1 rest1 L1. rewrite G1 in L1. inv L1. exact B.
    + apply TAIL. exact F3.
  - (* SetFee *)
    case_if; simpl; [|eapply below_self; eauto].
    set (w := wrapped it cf).
    destruct (enter_lay w s t rest H) as (E1 & E2 & E3).
    apply unload_frame; auto. rewrite <- E2. apply setfee_state_frame; auto.
  - (* Seq *)
    pose proof (IHp1 cid cf it s t rest H) as B.
    destruct (exec pol p1 cid cf it s) as [s1|s1|s1]; simpl in B; auto.
    eapply frame_res_bind; eauto. intros. apply IHp2; auto.
  - (* Call *)
    case_if; simpl; [|eapply below_self; eauto].
    set (w := wrapped it (N.land cf rf)).
    destruct (enter_lay w s t rest H) as (E1 & E2 & E3).
    pose proof (IHbody c (N.land cf rf) false _ _ _ E1) as B. rewrite E2 in B.
    destruct (exec pol body c (N.land cf rf) false (enter w s)) as [s2|s2|s2]; simpl in *.
    + apply unload_frame; auto.
    + apply unload_frame; auto.
    + eapply unload_below; eauto.
  - (* Try *)
    apply try_of_framed; [apply IHb | destruct c; simpl in *; auto | destruct f; simpl in *; auto | exact H].
  - apply frameP_exc; auto.
  - eapply below_self; eauto.
Qed.
