(* C04 — values are immutable, only writes change a layer: a program without Put / Delete / native writers
   (GAS and NEO transfers, Policy setter) leaves the view of storage and of both native caches exactly as it was —
   whatever it reads, converts, passes to callees, however its calls are layered, committed or dropped.
   (The harness's "read a stored value, derive a Buffer, scribble on it" leaves are such programs: NotifyVal.) *)
From NG Require Import Common.Tactics Exec.CallTree Exec.CallTreeFrame Exec.CallTreeProofs.
Open Scope N_scope.

Fixpoint nowrites (p : prog) : bool :=
  match p with
  | Put _ _ | Del _ | Move _ _ _ | MoveNeo _ _ _ | SetFee _ => false
  | Seq a b => nowrites a && nowrites b
  | CallV _ _ _ body => nowrites body
  | Try b c f => nowrites b && oall nowrites c && oall nowrites f
  | _ => true
  end.

Definition view (s : mstate) := (flat (lay s), nc_get (lay s), vc_get (lay s)).

Definition keeps (run : mstate -> res) : Prop :=
  forall s, ne s -> match run s with Normal s' | Thrown s' => view s' = view s | Fault _ => True end.
Definition okeeps (o : option (mstate -> res)) : Prop := match o with Some r => keeps r | None => True end.

Lemma unload_view w b s t rest s2 :
  lay s = t :: rest ->
  frameP (fst (entered w t rest)) (snd (entered w t rest)) (ntf s) s2 ->
  view s2 = view s -> view (unload w b s2) = view s.
Proof.
  intros H (t2 & rest2 & new & newn & H1 & H2 & H3 & H4) V.
  destruct w; simpl in *; auto. unfold unload. destruct (exc s2).
  - unfold view. simpl. rewrite H1. simpl. rewrite H.
    rewrite (lower_eq_flat _ _ H3), (lower_eq_nc _ _ H3), (lower_eq_vc _ _ H3). reflexivity.
  - rewrite <- V. inv H3. unfold view, set_lay. simpl. rewrite H1. simpl. unfold flat. simpl. rewrite <- app_assoc.
    destruct (lnc t2), (lvc t2); reflexivity.
Qed.

Lemma fin_of_keeps rf ne0 : okeeps rf -> keeps (fin_of rf ne0).
Proof.
  intros Hf s H. unfold fin_of. destruct rf as [run|].
  - specialize (Hf s H). destruct (run s) as [s'|s'|s']; auto. destruct (exc s'); auto. destruct ne0; auto.
  - destruct ne0; auto.
Qed.

Lemma try_of_keeps rb rc rf : keeps rb -> okeeps rc -> okeeps rf -> framed rb -> oframed rc -> keeps (try_of rb rc rf).
Proof.
  intros Hb Hc Hf Fb Fc s H. unfold try_of. destruct (is_some rc || is_some rf); auto.
  pose proof (Hb s H) as B. pose proof (framed_ne rb s Fb H) as N1.
  destruct (rb s) as [s1|s1|s1]; auto.
  - pose proof (fin_of_keeps rf true Hf s1 N1) as F. destruct (fin_of rf true s1); auto; congruence.
  - destruct rc as [run|].
    + assert (N1' : ne (set_exc s1 false)) by exact N1.
      pose proof (Hc _ N1') as C. pose proof (framed_ne run _ Fc N1') as N2.
      assert (V1 : view (set_exc s1 false) = view s) by exact B.
      destruct (run (set_exc s1 false)) as [s2|s2|s2]; auto.
      * pose proof (fin_of_keeps rf true Hf s2 N2) as F. destruct (fin_of rf true s2); auto; congruence.
      * pose proof (fin_of_keeps rf false Hf s2 N2) as F. destruct (fin_of rf false s2); auto; congruence.
    + pose proof (fin_of_keeps rf false Hf s1 N1) as F. destruct (fin_of rf false s1); auto; congruence.
Qed.

Theorem reads_change_nothing pol p : nowrites p = true -> forall cid fl it, keeps (exec pol p cid fl it).
Proof.
  induction p as [| | | | | |to amt cb IHcb|to amt cb IHcb| |p1 p2 IHp1 IHp2|via c rf body IHbody|b c f IHb IHc IHf| |] using prog_ind';
    intros NW cid cf it s H; cbn [exec nowrites] in *; try discriminate; auto; try (case_if; reflexivity).
  - (* Seq *)
    apply andb_true_iff in NW. destruct NW as [N1 N2].
    pose proof (IHp1 N1 cid cf it s H) as B. pose proof (exec_ne pol p1 cid cf it s H) as E.
    destruct (exec pol p1 cid cf it s) as [s1|s1|s1]; auto.
    pose proof (IHp2 N2 cid cf it s1 E) as B2. destruct (exec pol p2 cid cf it s1); auto; congruence.
  - (* Call, either form *)
    case_if; auto. cbv zeta.
    set (w := wrapped it (N.land cf rf)). destruct (ne_cons s H) as (t & rest & E).
    destruct (enter_lay w s t rest E) as (E1 & E2 & E3).
    assert (N1 : ne (enter w s)) by (unfold ne; rewrite E1; discriminate).
    assert (V1 : view (enter w s) = view s) by (destruct w; reflexivity).
    pose proof (IHbody NW c (N.land cf rf) false _ N1) as B.
    pose proof (exec_frame pol body c (N.land cf rf) false _ _ _ E1) as FR. rewrite E2 in FR.
    destruct (exec pol body c (N.land cf rf) false (enter w s)) as [s2|s2|s2]; auto; simpl in FR.
    + unfold leave. change (view (unload w (length (ntf s)) s2) = view s).
      eapply unload_view; eauto. congruence.
    + eapply unload_view; eauto. congruence.
  - (* Try *)
    apply andb_true_iff in NW. destruct NW as [NW N3]. apply andb_true_iff in NW. destruct NW as [N1 N2].
    apply try_of_keeps;
      [intros x Hx; apply IHb; auto
      |destruct c; simpl in *; auto; intros x Hx; apply IHc; auto
      |destruct f; simpl in *; auto; intros x Hx; apply IHf; auto
      |apply exec_frame
      |destruct c; simpl; auto; apply exec_frame
      |exact H].
Qed.

(* at transaction level: whatever such a program does, the block-level layer shows the same storage and settings *)
Corollary reads_change_nothing_tx pol base p :
  nowrites p = true ->
  forall k, lookup k (lst (after (run_tx pol base p))) = lookup k (lst base).
Proof.
  intros NW k. destruct (halted (run_tx pol base p)) eqn:Hh; [|rewrite (run_tx_fault pol base p Hh); reflexivity].
  unfold run_tx in *.
  assert (N0 : ne (start base)) by (unfold ne; simpl; discriminate).
  pose proof (reads_change_nothing pol p NW ENTRY fAll false (start base) N0) as K.
  pose proof (exec_frame pol p ENTRY fAll false (start base) _ _ eq_refl) as F.
  destruct (exec pol p ENTRY fAll false (start base)) as [s'|s'|s']; simpl in *; try discriminate.
  destruct F as (t' & r' & new & newn & H1 & _ & H3 & _). apply lower_eq_single in H3. subst.
  rewrite H1. simpl. unfold view in K. rewrite H1 in K. unfold flat in K. simpl in K.
  inversion K as [[K1 K2 K3]]. rewrite app_nil_r in K1. rewrite K1. reflexivity.
Qed.

(* ---------- a dynamic script (System.Runtime.LoadScript) between caller and callees ----------
   LoadScript gives the script the flags  caller & requested & ReadOnly  and no DAO layer / notification base of its own
   (only DynamicOnUnload).  That is a frame with read-only effective flags: in the machine, a call whose requested flags
   are masked with ReadOnly (never layered: wrapped_ro). *)
Definition fRO : N := 5.                                   (* ReadStates | AllowCall *)
Definition Dyn (f : N) (body : prog) : prog := CallV false 0 (N.land f fRO) body.

Lemma ro_mask fl f : ro (N.land fl (N.land f fRO)) = true.
Proof.
  unfold ro, fRO. apply N.eqb_eq. apply N.bits_inj. intros n.
  rewrite !N.land_spec, N.bits_0.
  destruct (N.testbit fl n), (N.testbit f n); simpl; auto;
    destruct n as [|[p|p|]]; simpl; auto; destruct p; simpl; auto.
Qed.

(* whatever runs in or below a dynamic script — calls that try to write, notify, transfer, and then return, throw or
   fault — and whoever catches: storage layers and the notification list are exactly as before.  ALL bodies, no guard *)
Theorem dyn_leaves_no_trace pol f body cid fl it : pres (exec pol (Dyn f body) cid fl it).
Proof.
  intros s. unfold Dyn. cbn [exec]. case_if; auto. cbv zeta.
  pose proof (ro_mask fl f) as R. rewrite (wrapped_ro it _ R). simpl.
  pose proof (exec_ro pol body 0 (N.land fl (N.land f fRO)) false R s) as P.
  destruct (exec pol body 0 (N.land fl (N.land f fRO)) false s); auto.
Qed.

(* the mask matters: were AllowNotify let through (All &^ WriteStates = 13), the frame would no longer be read-only and the
   argument above ("no layer needed") is gone — a callee could notify, throw, and leave its event behind *)
Lemma dyn_mask_refuted : exists fl f, ro (N.land fl (N.land f 13)) = false /\ has (N.land fl (N.land f 13)) fN = true.
Proof. exists 15, 15. split; reflexivity. Qed.
