(* C04 — block position: with VM.Reset between transactions the reused VM carries nothing over. *)
From NG Require Import Common.Tactics Exec.CallTree Exec.Spec Exec.CallTreeFrame Exec.CallTreeProofs Exec.CallTreeWitness.
Open Scope N_scope.

Lemma tx_step_reset pol base reg p :
  fst (fst (tx_step pol true (base, reg) p)) = after (run_tx pol base p) /\
  snd (tx_step pol true (base, reg) p) = run_tx pol base p.
Proof.
  unfold tx_step, run_tx, start. destruct (exec pol p ENTRY fAll false _); simpl; auto.
Qed.

(* whatever the register holds when a transaction ends, the block is the fold of single transactions *)
Theorem run_txs_is_fold pol ps : forall base reg,
  let '(st, os) := run_txs pol true (base, reg) ps in (fst st, os) = seq_txs pol base ps.
Proof.
  induction ps as [|p r IH]; intros base reg; cbn [run_txs seq_txs]; auto.
  destruct (tx_step_reset pol base reg p) as [A B].
  destruct (tx_step pol true (base, reg) p) as [[b1 reg1] o] eqn:T. simpl in A, B. subst.
  specialize (IH (after (run_tx pol base p)) reg1).
  destruct (run_txs pol true (after (run_tx pol base p), reg1) r) as [st2 os].
  destruct (seq_txs pol (after (run_tx pol base p)) r) as [b os']. inv IH. reflexivity.
Qed.

Theorem apply_block_is_fold pol base txs :
  apply_block pol base txs = seq_txs pol (charge_all txs base) (map snd txs).
Proof.
  unfold apply_block.
  pose proof (run_txs_is_fold pol (map snd txs) (charge_all txs base) false) as H.
  destruct (run_txs pol true _ (map snd txs)) as [st os]. exact H.
Qed.

(* a transaction that does not halt, at ANY position, is as if it were not in the block (its fee aside):
   the transactions before and after it give the same results and the final state is the same *)
Theorem seq_txs_skip_faulted pol ps1 : forall base p ps2,
  (forall b os, seq_txs pol base ps1 = (b, os) -> halted (run_tx pol b p) = false) ->
  let '(b, os) := seq_txs pol base (ps1 ++ p :: ps2) in
  let '(b', os') := seq_txs pol base (ps1 ++ ps2) in
  b = b' /\ firstn (length ps1) os = firstn (length ps1) os' /\ skipn (S (length ps1)) os = skipn (length ps1) os'.
Proof.
  induction ps1 as [|q r IH]; intros base p ps2 H; simpl.
  - specialize (H base [] eq_refl). rewrite (run_tx_fault pol base p H).
    destruct (seq_txs pol base ps2) as [b os]. auto.
  - specialize (IH (after (run_tx pol base q)) p ps2).
    assert (H' : forall b os, seq_txs pol (after (run_tx pol base q)) r = (b, os) -> halted (run_tx pol b p) = false).
    { intros b os E. apply (H b (run_tx pol base q :: os)). simpl. rewrite E. reflexivity. }
    specialize (IH H').
    destruct (seq_txs pol (after (run_tx pol base q)) (r ++ p :: ps2)) as [b os].
    destruct (seq_txs pol (after (run_tx pol base q)) (r ++ ps2)) as [b' os'].
    destruct IH as (A & B & C). simpl. repeat split; auto. rewrite B. reflexivity.
Qed.

(* why the reset matters: without it, a transaction that ends with an exception pending changes what a LATER,
   halting transaction commits (its layered callee is dropped on normal return) *)
Definition pend : prog := Call 0 15 Throw.                                          (* uncaught throw -> FAULT *)
Definition later : prog := Call 0 15 (Try (Call 1 15 (Put 0 5)) (Some Skip) None).  (* a layered callee that returns *)

Lemma no_reset_position_matters :
  let '(st, os) := run_txs Lazy false (base0, false) [pend; later] in
  let '(st', os') := run_txs Lazy true (base0, false) [pend; later] in
  map halted os = [false; true] /\ map halted os' = [false; true] /\
  lookup (1, 0) (lst (fst st)) = None /\ lookup (1, 0) (lst (fst st')) = Some 5.
Proof. vm_compute. repeat split; reflexivity. Qed.

(* per-transaction fee accounting: every transaction's fee is burnt from ITS sender, before anything runs and
   whatever the transactions then do; nothing else is touched *)
Lemma charge_other a fee b k : k <> (GASNS, a) -> lookup k (lst (charge a fee b)) = lookup k (lst b).
Proof.
  intros H. unfold charge. simpl. destruct (key_eqb k (GASNS, a)) eqn:E; auto.
  exfalso. apply H. unfold key_eqb in E. apply andb_true_iff in E. destruct E as [E1 E2].
  apply N.eqb_eq in E1, E2. destruct k; simpl in *; subst; reflexivity.
Qed.
Lemma charge_sender a fee b : lookup (GASNS, a) (lst (charge a fee b)) = Some (dflt (lookup (GASNS, a) (lst b)) - fee).
Proof. unfold charge. simpl. unfold key_eqb. simpl. rewrite !N.eqb_refl. reflexivity. Qed.

Fixpoint fees_of (a : N) (txs : list (N * N * prog)) : N :=
  match txs with
  | [] => 0
  | (s, f, _) :: r => (if s =? a then f else 0) + fees_of a r
  end.

Theorem charge_all_sender txs : forall a base,
  fees_of a txs <= dflt (lookup (GASNS, a) (lst base)) ->
  dflt (lookup (GASNS, a) (lst (charge_all txs base))) = dflt (lookup (GASNS, a) (lst base)) - fees_of a txs.
Proof.
  unfold charge_all. induction txs as [|[[s f] p] r IH]; intros a base H; simpl in *.
  - lia.
  - destruct (s =? a) eqn:E.
    + apply N.eqb_eq in E. subst s. rewrite IH; rewrite charge_sender; simpl; lia.
    + apply N.eqb_neq in E. rewrite IH; rewrite charge_other; try lia; congruence.
Qed.

Theorem charge_all_others txs : forall k base,
  (forall a, k <> (GASNS, a)) -> lookup k (lst (charge_all txs base)) = lookup k (lst base).
Proof.
  unfold charge_all. induction txs as [|[[s f] p] r IH]; intros k base H; simpl; auto.
  rewrite IH; auto. apply charge_other; auto.
Qed.

Lemma block_example :
  apply_block Lazy base0 [(5, 3, pend); (6, 4, later)] = seq_txs Lazy (charge 6 4 (charge 5 3 base0)) [pend; later] /\
  lookup (1, 0) (lst (fst (apply_block Lazy base0 [(5, 3, pend); (6, 4, later)]))) = Some 5.
Proof. split; [apply apply_block_is_fold | vm_compute; reflexivity]. Qed.
