(* C04 — ContractHasTryBlock is "will handleException stop in this contract invocation?", over ALL handlers and states;
   the machine with the explicit handler stack is the machine of the theorems. *)
From NG Require Import Common.Tactics Exec.CallTree Exec.CallTreeProofs.
Open Scope N_scope.

(* the specification of ContractHasTryBlock: the walk of the (repaired) predicate answers exactly whether the walk of
   handleException stops at some handler of the invocation — whichever handler is innermost, whatever the others do *)
Lemma has_try_is_will_stop hs : has_try Eager hs = will_stop hs.
Proof.
  unfold has_try, will_stop. induction hs as [|h r IH]; simpl; auto.
  destruct h as [|[|]|]; simpl; auto.
Qed.

(* the pre-repair predicate misses exactly the handlers in a catch block that still has its finally block *)
Lemma has_try_lazy_le hs : has_try Lazy hs = true -> will_stop hs = true.
Proof.
  unfold has_try, will_stop. induction hs as [|h r IH]; simpl; auto.
  destruct h as [|[|]|]; simpl; auto.
Qed.
Lemma has_try_lazy_misses : has_try Lazy [HCatch true] = false /\ will_stop [HCatch true] = true.
Proof. split; reflexivity. Qed.

(* a callee gets its own layer iff an exception thrown by it would be stopped by some handler of the calling contract
   invocation, and its effective call flags allow it to write or to notify *)
Theorem layer_iff_some_handler_will_catch hs fl :
  wrapped (has_try Eager hs) fl = true <-> will_stop hs = true /\ ro fl = false.
Proof.
  unfold wrapped, ro. rewrite has_try_is_will_stop, andb_true_iff, negb_true_iff. tauto.
Qed.

(* which handler is innermost does not matter: dead handlers (in their finally block, or in a catch block without a
   finally block) anywhere in the walk change nothing, a live one anywhere decides *)
Definition dead (h : hstate) : bool := match h with HFinally | HCatch false => true | _ => false end.
Lemma will_stop_app a b : will_stop (a ++ b) = will_stop a || will_stop b.
Proof.
  unfold will_stop. induction a as [|h r IH]; simpl; auto. destruct h as [|[|]|]; simpl; auto.
Qed.
Lemma will_stop_dead a : forallb dead a = true -> will_stop a = false.
Proof.
  unfold will_stop. induction a as [|h r IH]; simpl; auto. destruct h as [|[|]|]; simpl; auto; discriminate.
Qed.
Theorem dead_handlers_do_not_matter inner outer :
  forallb dead inner = true -> will_stop (inner ++ outer) = will_stop outer.
Proof. intros D. rewrite will_stop_app, (will_stop_dead _ D). reflexivity. Qed.
Theorem live_handler_anywhere a h b : dead h = false -> will_stop (a ++ h :: b) = true.
Proof.
  intros L. rewrite will_stop_app. replace (will_stop (h :: b)) with true; [apply orb_true_r|].
  unfold will_stop. destruct h as [|[|]|]; simpl in *; auto; discriminate.
Qed.

(* ---------- the machine with the explicit handler stack is the machine of the theorems ---------- *)

Lemma has_try_try pol hs : has_try pol (HTry :: hs) = true.
Proof. destruct pol; reflexivity. Qed.
Lemma has_try_catch pol hf hs : has_try pol (HCatch hf :: hs) = catch_it pol (has_try pol hs) hf.
Proof. destruct pol, hf; simpl; auto; rewrite ?orb_true_r, ?orb_false_r; auto. Qed.
Lemma has_try_finally pol hs : has_try pol (HFinally :: hs) = has_try pol hs.
Proof. destruct pol; reflexivity. Qed.

Definition oext {A B} (o o' : option (A -> B)) : Prop :=
  match o, o' with
  | Some f, Some g => forall x, f x = g x
  | None, None => True
  | _, _ => False
  end.

Lemma fin_of_ext rf rf' ne0 s : oext rf rf' -> fin_of rf ne0 s = fin_of rf' ne0 s.
Proof. unfold fin_of. destruct rf, rf'; simpl; try tauto. intros E. rewrite E. reflexivity. Qed.

Lemma try_of_ext rb rb' rc rc' rf rf' s :
  (forall x, rb x = rb' x) -> oext rc rc' -> oext rf rf' -> try_of rb rc rf s = try_of rb' rc' rf' s.
Proof.
  intros Eb Ec Ef. unfold try_of.
  assert (Sc : is_some rc = is_some rc') by (destruct rc, rc'; simpl in *; tauto).
  assert (Sf : is_some rf = is_some rf') by (destruct rf, rf'; simpl in *; tauto).
  rewrite Sc, Sf, Eb. destruct (is_some rc' || is_some rf'); auto.
  destruct (rb' s); auto using fin_of_ext.
  destruct rc as [f1|], rc' as [f2|]; simpl in Ec; try tauto; auto using fin_of_ext.
  rewrite Ec. destruct (f2 (set_exc s0 false)); auto using fin_of_ext.
Qed.

Theorem exec_h_exec pol p : forall cid fl hs s, exec_h pol p cid fl hs s = exec pol p cid fl (has_try pol hs) s.
Proof.
  induction p as [| | | | | |to amt cb IHcb|to amt cb IHcb| |p1 p2 IHp1 IHp2|via c rf body IHbody|b c f IHb IHc IHf| |] using prog_ind';
    intros cid cf hs s; cbn [exec exec_h]; auto.
  - (* Move *) repeat case_if; auto; rewrite IHcb; reflexivity.
  - (* MoveNeo *) repeat case_if; auto; rewrite IHcb in *; try reflexivity; congruence.
  - (* Seq *) rewrite IHp1. destruct (exec pol p1 cid cf (has_try pol hs) s); auto.
  - (* Call *) case_if; auto. rewrite IHbody. reflexivity.
  - (* Try *)
    apply try_of_ext.
    + intros x. rewrite IHb, has_try_try. reflexivity.
    + destruct c; simpl in *; auto. intros x. rewrite IHc, has_try_catch. reflexivity.
    + destruct f; simpl in *; auto. intros x. rewrite IHf, has_try_finally. reflexivity.
Qed.

(* two handlers in one frame, the inner one already in its finally block, the outer one still in try: the call made from
   the inner finally block is layered, and when the callee throws, what it wrote and notified is gone *)
Definition nested_finally_call : prog :=
  Call 0 15 (Seq (Put 0 1)
            (Try (Try (Put 1 1) None (Some (Call 1 15 (Seq (Put 0 2) (Seq (Notify 7) Throw)))))
                 (Some (Notify 9)) None)).
Lemma nested_finally_call_runs :
  let m := run_tx Eager (mkL [] (Some 1000) (Some 0)) nested_finally_call in
  halted m = true /\ clean m = true /\ events m = [EvN 0 9] /\
  lookup (0, 0) (lst (after m)) = Some 1 /\ lookup (0, 1) (lst (after m)) = Some 1 /\ lookup (1, 0) (lst (after m)) = None.
Proof. vm_compute. repeat split; reflexivity. Qed.

(* ---------- the two call forms ---------- *)

(* all calls made through System.Contract.Call *)
Fixpoint erase (p : prog) : prog :=
  match p with
  | Move to amt cb => Move to amt (erase cb)
  | MoveNeo to amt cb => MoveNeo to amt (erase cb)
  | Seq a b => Seq (erase a) (erase b)
  | CallV _ c f body => CallV false c f (erase body)
  | Try b c f => Try (erase b) (option_map erase c) (option_map erase f)
  | _ => p
  end.

(* a call through a method token (CALLT -> LoadToken -> callInternal) and a call through System.Contract.Call
   (-> callInternal) push, commit and drop layers, truncate notifications, fault and throw identically, at every
   position of every call tree *)
Theorem call_form_irrelevant pol p : forall cid fl it s, exec pol p cid fl it s = exec pol (erase p) cid fl it s.
Proof.
  induction p as [| | | | | |to amt cb IHcb|to amt cb IHcb| |p1 p2 IHp1 IHp2|via c rf body IHbody|b c f IHb IHc IHf| |] using prog_ind';
    intros cid cf it s; cbn [exec erase]; auto.
  - repeat case_if; auto; rewrite <- IHcb in *; try reflexivity; congruence.
  - repeat case_if; auto; rewrite <- IHcb in *; try reflexivity; congruence.
  - rewrite <- IHp1. destruct (exec pol p1 cid cf it s); auto.
  - case_if; auto. rewrite <- IHbody. reflexivity.
  - apply try_of_ext.
    + intros x. apply IHb.
    + destruct c; simpl in *; auto. intros x. destruct f; simpl; apply IHc.
    + destruct f; simpl in *; auto.
Qed.

Theorem call_form_irrelevant_one pol via c f body cid fl it s :
  exec pol (CallV via c f body) cid fl it s = exec pol (CallV false c f body) cid fl it s.
Proof. reflexivity. Qed.

Corollary call_form_irrelevant_tx pol base p : run_tx pol base p = run_tx pol base (erase p).
Proof. unfold run_tx. rewrite call_form_irrelevant. reflexivity. Qed.
