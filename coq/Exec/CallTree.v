(* C04 — mechanism model of contract-call execution with LAZY store layering.

   Mirrors, in this order of bookkeeping:
     pkg/core/interop/contract/call.go  callExFromNative  (wrapped := ContractHasTryBlock && flags not read-only;
                                        baseNtfCount; GetPrivate; onUnload: commit -> Persist, else truncate
                                        notifications; restore the DAO; a native caller turns a throw into a fault)
     pkg/vm/vm.go                       ContractHasTryBlock (a handler in state eTry in a context of the same
                                        contract invocation), handleException (eTry -> catch or finally;
                                        eCatch with finally -> finally; otherwise pop), ENDTRY/ENDFINALLY
                                        (EndOffset = -1 when the finally block was entered by an exception),
                                        unloadContext (commit := uncaughtException == nil), THROW / ABORT
     pkg/core/dao/dao.go                GetPrivate / Persist / getCache (copy-on-write native cache, a copy is
                                        materialised in every layer between the reader and the owner)
     pkg/core/blockchain.go             storeBlock: the transaction's layer is persisted iff the VM did not fault
     pkg/core/native/native_nep17.go    transfer: balance check, two balance updates, Transfer event,
                                        onNEP17Payment of a receiving contract (never layered: the native frame
                                        has no try block), Policy.setFeePerByte (storage + cache)

   Definitions only; everything computes with vm_compute. Proofs: CallTreeProofs.v. *)
From NG Require Import Common.Tactics.
Open Scope N_scope.

(* ---------- programs ---------- *)

Inductive prog :=
| Skip
| Put (k v : N)                       (* System.Storage.Put in the executing contract *)
| Del (k : N)                         (* System.Storage.Delete *)
| Notify (e : N)                      (* System.Runtime.Notify *)
| NotifyVal (k : N)                   (* Storage.Get k, then Notify with what was read *)
| NotifyFee                           (* Policy.getFeePerByte (native cache), then Notify with what was read *)
| Move (to amt : N) (cb : prog)       (* GAS.transfer(self, to, amt, cb); cb runs as onNEP17Payment of a contract *)
| MoveNeo (to amt : N) (cb : prog)    (* NEO.transfer(self, to, amt, cb): balances, candidate votes, voters count,
                                         votesChanged in the NEO cache, GAS claims minted to both sides *)
| SetFee (v : N)                      (* Policy.setFeePerByte: contract storage + native cache *)
| Seq (p q : prog)
| CallV (via_token : bool) (c fl : N) (body : prog)
                                      (* call of contract c with requested call flags fl: System.Contract.Call, or the CALLT
                                         opcode through a method token of the NEF (via_token); the semantics ignores the form *)
| Try (b : prog) (c f : option prog)  (* TRY body [catch] [finally] *)
| Throw
| Abort.

Notation Call := (CallV false).

Definition popt (P : prog -> Prop) (o : option prog) : Prop :=
  match o with Some x => P x | None => True end.

Section ProgInd.
  Variable P : prog -> Prop.
  Hypothesis HSkip : P Skip.
  Hypothesis HPut : forall k v, P (Put k v).
  Hypothesis HDel : forall k, P (Del k).
  Hypothesis HNotify : forall e, P (Notify e).
  Hypothesis HNotifyVal : forall k, P (NotifyVal k).
  Hypothesis HNotifyFee : P NotifyFee.
  Hypothesis HMove : forall to amt cb, P cb -> P (Move to amt cb).
  Hypothesis HMoveNeo : forall to amt cb, P cb -> P (MoveNeo to amt cb).
  Hypothesis HSetFee : forall v, P (SetFee v).
  Hypothesis HSeq : forall p q, P p -> P q -> P (Seq p q).
  Hypothesis HCall : forall via c fl body, P body -> P (CallV via c fl body).
  Hypothesis HTry : forall b c f, P b -> popt P c -> popt P f -> P (Try b c f).
  Hypothesis HThrow : P Throw.
  Hypothesis HAbort : P Abort.
  Fixpoint prog_ind' (p : prog) : P p :=
    match p with
    | Skip => HSkip | Put k v => HPut k v | Del k => HDel k | Notify e => HNotify e
    | NotifyVal k => HNotifyVal k | NotifyFee => HNotifyFee
    | Move to amt cb => HMove to amt cb (prog_ind' cb)
    | MoveNeo to amt cb => HMoveNeo to amt cb (prog_ind' cb)
    | SetFee v => HSetFee v
    | Seq p q => HSeq p q (prog_ind' p) (prog_ind' q)
    | CallV via c fl body => HCall via c fl body (prog_ind' body)
    | Try b c f => HTry b c f (prog_ind' b)
                     (match c as o return popt P o with Some x => prog_ind' x | None => I end)
                     (match f as o return popt P o with Some x => prog_ind' x | None => I end)
    | Throw => HThrow | Abort => HAbort
    end.
End ProgInd.

(* ---------- stores, events, flags ---------- *)

Definition key := (N * N)%type.                 (* (contract or native namespace, key) *)
Definition key_eqb (a b : key) : bool := (fst a =? fst b) && (snd a =? snd b).
Definition store := list (key * option N).      (* newest entry first; None = deleted *)

Fixpoint lookup (k : key) (s : store) : option N :=
  match s with
  | [] => None
  | (k', v) :: r => if key_eqb k k' then v else lookup k r
  end.

Inductive event :=
| EvN (c e : N)                       (* Notify e by contract c *)
| EvV (c k : N) (v : option N)        (* NotifyVal *)
| EvP (c v : N)                       (* NotifyFee *)
| EvT (from to amt : N)               (* GAS Transfer; from = NIL for a mint *)
| EvTN (from to amt : N).             (* NEO Transfer *)

Definition GASNS : N := 100.                    (* namespace of GAS balances: key = account *)
Definition POLNS : N := 101.                    (* namespace of Policy: key 0 = fee per byte *)
Definition NEONS : N := 102.                    (* namespace of NEO, see kNeo .. kVoters *)
Definition NIL : N := 98.                       (* "null" account in a mint's Transfer event *)
Definition ENTRY : N := 200.                    (* the transaction's entry script (not a contract) *)
Definition ncontracts : N := 3.
Definition is_contract (c : N) : bool := c <? ncontracts.

Definition fR : N := 1.   (* ReadStates *)
Definition fW : N := 2.   (* WriteStates *)
Definition fC : N := 4.   (* AllowCall *)
Definition fN : N := 8.   (* AllowNotify *)
Definition fAll : N := 15.
Definition has (fl m : N) : bool := N.land fl m =? m.

(* ---------- layers ---------- *)

(* private store + this layer's copies of two native caches: Policy (fee per byte) and NEO (votesChanged) *)
Record layer := mkL { lst : store; lnc : option N; lvc : option N }.
(* DAO stack (top first), ic.Notifications, v.uncaughtException != nil.
   [bad] is a GHOST flag, never read by the machine: it records that a layered call frame (or a payment callback run
   for a native contract) RETURNED while an exception was pending — the one situation (finding F40) in which the
   unload callback drops the effects of a callee that did not fail. *)
Record mstate := mkM { lay : list layer; ntf : list event; exc : bool; bad : bool }.
Inductive res := Normal (s : mstate) | Thrown (s : mstate) | Fault (s : mstate).

Inductive policy := Lazy | Eager.
(* Lazy  = the code as it is: ContractHasTryBlock counts handlers in state eTry only.
   Eager = candidate repair: a handler in state eCatch that has a finally block counts too
           (exactly the handlers handleException stops at). *)

(* find in one layer: Some (Some v) = put, Some None = deleted here, None = not touched in this layer *)
Fixpoint find (k : key) (s : store) : option (option N) :=
  match s with
  | [] => None
  | (k', v) :: r => if key_eqb k k' then Some v else find k r
  end.
(* read through the stack (MemCachedStore.Get) *)
Fixpoint lget (k : key) (ls : list layer) : option N :=
  match ls with
  | [] => None
  | l :: r => match find k (lst l) with Some v => v | None => lget k r end
  end.
Definition put_top (k : key) (v : option N) (ls : list layer) : list layer :=
  match ls with
  | l :: r => mkL ((k, v) :: lst l) (lnc l) (lvc l) :: r
  | [] => []
  end.

(* GetROCache *)
Fixpoint nc_get (ls : list layer) : option N :=
  match ls with
  | [] => None
  | l :: r => match lnc l with Some v => Some v | None => nc_get r end
  end.
(* GetRWCache: the value, and the stack with a copy materialised in every layer down to the owner *)
Fixpoint nc_rw (ls : list layer) : option N * list layer :=
  match ls with
  | [] => (None, [])
  | l :: r =>
      match lnc l with
      | Some v => (Some v, ls)
      | None => let '(v, r') := nc_rw r in
                (v, mkL (lst l) v (lvc l) :: r')
      end
  end.
Definition nc_set (v : N) (ls : list layer) : list layer :=
  match snd (nc_rw ls) with
  | l :: r => mkL (lst l) (Some v) (lvc l) :: r
  | [] => []
  end.
(* the same for the NEO cache *)
Fixpoint vc_get (ls : list layer) : option N :=
  match ls with
  | [] => None
  | l :: r => match lvc l with Some v => Some v | None => vc_get r end
  end.
Fixpoint vc_rw (ls : list layer) : option N * list layer :=
  match ls with
  | [] => (None, [])
  | l :: r =>
      match lvc l with
      | Some v => (Some v, ls)
      | None => let '(v, r') := vc_rw r in
                (v, mkL (lst l) (lnc l) v :: r')
      end
  end.
Definition vc_set (v : N) (ls : list layer) : list layer :=
  match snd (vc_rw ls) with
  | l :: r => mkL (lst l) (lnc l) (Some v) :: r
  | [] => []
  end.

Definition push (ls : list layer) : list layer := mkL [] None None :: ls.     (* GetPrivate *)
Definition commit (ls : list layer) : list layer :=                           (* Persist into the parent *)
  match ls with
  | t :: l :: r => mkL (lst t ++ lst l) (match lnc t with Some v => Some v | None => lnc l end)
                       (match lvc t with Some v => Some v | None => lvc l end) :: r
  | _ => ls
  end.

Definition set_lay (s : mstate) (ls : list layer) : mstate := mkM ls (ntf s) (exc s) (bad s).
Definition add_ntf (s : mstate) (e : event) : mstate := mkM (lay s) (ntf s ++ [e]) (exc s) (bad s).
Definition set_exc (s : mstate) (b : bool) : mstate := mkM (lay s) (ntf s) b (bad s).
Definition mark (b : bool) (s : mstate) : mstate := mkM (lay s) (ntf s) (exc s) (bad s || b).

(* callExFromNative: the layering decision *)
Definition wrapped (it : bool) (fl : N) : bool := it && negb (N.land fl (N.lor fW fN) =? 0).
Definition enter (w : bool) (s : mstate) : mstate := if w then set_lay s (push (lay s)) else s.
(* onUnload, run by unloadContext with commit := (uncaughtException == nil) *)
Definition unload (w : bool) (base : nat) (s : mstate) : mstate :=
  if w then
    if exc s then mkM (tl (lay s)) (firstn base (ntf s)) (exc s) (bad s)
    else set_lay s (commit (lay s))
  else s.
(* a frame returns normally (RET): the same callback; the ghost flag notes the F40 situation *)
Definition leave (w : bool) (base : nat) (s : mstate) : mstate := mark (w && exc s) (unload w base s).

(* does the handler of a try in its catch block make ContractHasTryBlock true? *)
Definition catch_it (pol : policy) (it hasfin : bool) : bool :=
  match pol with Lazy => it | Eager => it || hasfin end.

Definition is_some {A} (o : option A) : bool := match o with Some _ => true | None => false end.
Definition dflt (o : option N) : N := match o with Some v => v | None => 0 end.
Definition bal (ls : list layer) (a : N) : N := dflt (lget (GASNS, a) ls).
Definition set_bal (a v : N) (ls : list layer) : list layer :=
  put_top (GASNS, a) (if v =? 0 then None else Some v) ls.

(* GAS.transfer once the balance check has passed: two balance updates, the Transfer event *)
Definition move_state (cid to amt : N) (s1 : mstate) : mstate :=
  let bf := bal (lay s1) cid in
  let ls2 := if (cid =? to) || (amt =? 0) then lay s1
             else let l' := set_bal cid (bf - amt) (lay s1) in
                  set_bal to (bal l' to + amt) l' in
  add_ntf (set_lay s1 ls2) (EvT cid to amt).
(* Policy.setFeePerByte: setIntWithKey, then GetRWCache and assignment *)
Definition setfee_state (v : N) (s1 : mstate) : mstate :=
  set_lay s1 (nc_set v (put_top (POLNS, 0) (Some v) (lay s1))).

(* ---------- NEO.transfer: what it does to contract storage, as a function of the flat view ----------
   An effect yields the entries to put (newest first) given what reads through the layers return (lget_flat: the
   flat view).  The machine puts them into the top layer, the specification onto its one store. *)
Definition eff := store -> store.
Definition sval (st : store) (k : key) : N := dflt (lookup k st).
Definition eseq (e1 e2 : eff) : eff := fun st => let n1 := e1 st in e2 (n1 ++ st) ++ n1.
Definition ewr (k : key) (f : store -> N) : eff := fun st => [(k, let v := f st in if v =? 0 then None else Some v)].
Definition eskip : eff := fun _ => [].
Definition eif (c : store -> bool) (e1 e2 : eff) : eff := fun st => if c st then e1 st else e2 st.

Definition kNeo (a : N) : key := (NEONS, a).          (* NEO balance *)
Definition kClaim (a : N) : key := (NEONS, 10 + a).   (* GAS that distributeGas mints when the balance is next touched in this block *)
Definition kVote (a : N) : key := (NEONS, 20 + a).    (* 0: no vote, 1: votes for the candidate *)
Definition kCand : key := (NEONS, 30).                (* votes of the candidate *)
Definition kVoters : key := (NEONS, 31).              (* voters count *)

(* increaseBalance for one side: distributeGas (claim consumed, BalanceHeight := this block), ModifyAccountVotes,
   modifyVoterTurnout, the balance; an account whose balance reaches zero is deleted (its vote with it) *)
Definition neo_side (a : N) (plus : bool) (amt : N) : eff :=
  let upd := fun x => if plus then x + amt else x - amt in
  eseq (ewr (kClaim a) (fun _ => 0))
 (eseq (eif (fun st => sval st (kVote a) =? 0) eskip
            (eseq (ewr kCand (fun st => upd (sval st kCand))) (ewr kVoters (fun st => upd (sval st kVoters)))))
 (eseq (ewr (kNeo a) (fun st => upd (sval st (kNeo a))))
       (eif (fun st => sval st (kNeo a) =? 0) (ewr (kVote a) (fun _ => 0)) eskip))).
Definition neo_eff (cid to amt : N) : eff :=
  if (cid =? to) || (amt =? 0) then ewr (kClaim cid) (fun _ => 0)
  else eseq (neo_side cid false amt) (neo_side to true amt).
Definition mint_eff (a d : N) : eff :=
  if d =? 0 then eskip else ewr (GASNS, a) (fun st => sval st (GASNS, a) + d).

Definition apply_eff (e : eff) (ls : list layer) : list layer :=
  match ls with
  | l :: r => mkL (e (concat (map lst ls)) ++ lst l) (lnc l) (lvc l) :: r
  | [] => []
  end.

(* NEO.transfer once the balance check has passed, up to the Transfer event *)
Definition neo_state (cid to amt : N) (s1 : mstate) : mstate :=
  let ls2 := apply_eff (neo_eff cid to amt) (lay s1) in
  let ls3 := if (cid =? to) || (amt =? 0) then ls2 else vc_set 1 ls2 in   (* ModifyAccountVotes: cache.votesChanged = true *)
  add_ntf (set_lay s1 ls3) (EvTN cid to amt).
Definition neo_d2 (cid to amt : N) (st : store) : N :=
  if (cid =? to) || (amt =? 0) then 0 else sval st (kClaim to).
(* MintDeferrable: GAS balance and its Transfer event (total supply is outside the model) *)
Definition mint_state (a d : N) (s : mstate) : mstate :=
  if d =? 0 then s else add_ntf (set_lay s (apply_eff (mint_eff a d) (lay s))) (EvT NIL a d).

(* TRY / ENDTRY / ENDFINALLY and handleException for one try block; rb, rc, rf run the three blocks.
   fin_of: the finally block was entered by ENDTRY (normal_entry) or by handleException (EndOffset = -1). *)
Definition fin_of (rf : option (mstate -> res)) (normal_entry : bool) (s0 : mstate) : res :=
  match rf with
  | None => if normal_entry then Normal s0 else Thrown s0
  | Some run =>
      match run s0 with
      | Normal s' => if exc s' then Thrown s'                 (* ENDFINALLY re-throws the pending exception *)
                     else if normal_entry then Normal s'
                     else Fault s'                            (* jump to EndOffset = -1 *)
      | r => r
      end
  end.
Definition try_of (rb : mstate -> res) (rc rf : option (mstate -> res)) (s : mstate) : res :=
  if is_some rc || is_some rf then
    match rb s with
    | Normal s1 => fin_of rf true s1
    | Thrown s1 =>
        match rc with
        | Some run =>
            match run (set_exc s1 false) with                 (* catch: the exception is taken off the register *)
            | Normal s2 => fin_of rf true s2
            | Thrown s2 => fin_of rf false s2
            | Fault s2 => Fault s2
            end
        | None => fin_of rf false s1
        end
    | Fault s1 => Fault s1
    end
  else Fault s.                                               (* TRY with neither catch nor finally *)

(* ---------- the machine ----------
   cid: executing contract; fl: call flags of the current context; it: ContractHasTryBlock at this point. *)
Fixpoint exec (pol : policy) (p : prog) (cid fl : N) (it : bool) (s : mstate) {struct p} : res :=
  match p with
  | Skip => Normal s
  | Put k v =>
      if has fl fR && has fl fW then Normal (set_lay s (put_top (cid, k) (Some v) (lay s))) else Fault s
  | Del k =>
      if has fl fR && has fl fW then Normal (set_lay s (put_top (cid, k) None (lay s))) else Fault s
  | Notify e =>
      if has fl fN then Normal (add_ntf s (EvN cid e)) else Fault s
  | NotifyVal k =>
      if has fl fR && has fl fN then Normal (add_ntf s (EvV cid k (lget (cid, k) (lay s)))) else Fault s
  | NotifyFee =>
      (* Contract.Call needs ReadStates|AllowCall; getFeePerByte is safe: its frame is never layered *)
      if has fl fR && has fl fC && has fl fN then Normal (add_ntf s (EvP cid (dflt (nc_get (lay s))))) else Fault s
  | SetFee v =>
      if has fl fR && has fl fW && has fl fC then
        let w := wrapped it fl in
        Normal (leave w (length (ntf s)) (setfee_state v (enter w s)))
      else Fault s
  | Move to amt cb =>
      if has fl fAll then
        let w := wrapped it fl in
        let base := length (ntf s) in
        let s1 := enter w s in
        if bal (lay s1) cid <? amt then Normal (leave w base s1)            (* transfer returns false *)
        else
          let s3 := move_state cid to amt s1 in
          if is_contract to then
            match exec pol cb to fAll false s3 with
            | Normal s4 => if exc s4 then Fault (mark true s4) else Normal (leave w base s4)
            | Thrown s4 => Fault s4                             (* "unhandled exception" from a native caller *)
            | Fault s4 => Fault s4
            end
          else Normal (leave w base s3)
      else Fault s
  | MoveNeo to amt cb =>
      if has fl fAll then
        let w := wrapped it fl in
        let base := length (ntf s) in
        let s1 := enter w s in
        let st := concat (map lst (lay s1)) in
        if sval st (kNeo cid) <? amt then Normal (leave w base s1)          (* transfer returns false *)
        else
          let d1 := sval st (kClaim cid) in
          let d2 := neo_d2 cid to amt st in
          let s3 := neo_state cid to amt s1 in
          (* onNEP17Payment of a receiving contract; then the deferred GAS mints, each with a (data = null) payment
             callback when the receiver is a contract.  Any callback that returns while an exception is pending makes
             the native caller fail: "unhandled exception" *)
          match (if is_contract to then exec pol cb to fAll false s3 else Normal s3) with
          | Normal s4 =>
              if exc s4 && is_contract to then Fault (mark true s4)          (* the NEO payment callback *)
              else
                let s5 := mint_state cid d1 s4 in                            (* the sender's claim, with its callback *)
                if exc s4 && negb (d1 =? 0) && is_contract cid then Fault (mark true s5)
                else Normal (leave w base (mint_state to d2 s5))             (* a receiving contract was dealt with above *)
          | Thrown s4 => Fault s4
          | Fault s4 => Fault s4
          end
      else Fault s
  | Seq p q =>
      match exec pol p cid fl it s with
      | Normal s1 => exec pol q cid fl it s1
      | r => r
      end
  | CallV _ c f body =>
      if has fl fR && has fl fC && (f <=? fAll) && is_contract c then
        let fe := N.land fl f in
        let w := wrapped it fe in
        let base := length (ntf s) in
        match exec pol body c fe false (enter w s) with
        | Normal s2 => Normal (leave w base s2)
        | Thrown s2 => Thrown (unload w base s2)
        | Fault s2 => Fault s2
        end
      else Fault s
  | Try b c f =>
      try_of (exec pol b cid fl true)
             (option_map (fun c' => exec pol c' cid fl (catch_it pol it (is_some f))) c)
             (option_map (fun f' => exec pol f' cid fl it) f) s
  | Throw => Thrown (set_exc s true)
  | Abort => Fault s
  end.

(* ---------- ContractHasTryBlock and handleException as walks over the handlers of the current contract invocation ----------
   hs: the exception handlers (exceptionHandlingContext) of ALL contexts of the executing contract invocation, innermost
   first — the order in which both walks visit them (contexts from the top of the invocation stack down while
   ictx.sc == topctx.sc, within a context tryStack.Peek(0), Peek(1), ...). *)
Inductive hstate := HTry | HCatch (hasfin : bool) | HFinally.

(* handleException, restricted to the current contract invocation: handlers already in their finally block, or in a catch
   block that has no finally block, are popped; the walk stops at the first handler still in its try block (-> catch or
   finally) or in a catch block that has a finally block (-> finally).  None: the exception leaves this invocation. *)
Fixpoint handle (hs : list hstate) : option (hstate * list hstate) :=
  match hs with
  | [] => None
  | HFinally :: r | HCatch false :: r => handle r
  | h :: r => Some (h, r)
  end.
Definition will_stop (hs : list hstate) : bool := is_some (handle hs).

(* ContractHasTryBlock: does some handler of the walk count?  Lazy: state eTry; Eager (HEAD): also eCatch with finally *)
Definition live (pol : policy) (h : hstate) : bool :=
  match h, pol with
  | HTry, _ => true
  | HCatch true, Eager => true
  | _, _ => false
  end.
Definition has_try (pol : policy) (hs : list hstate) : bool := existsb (live pol) hs.

(* the machine with the handler stack carried explicitly: TRY pushes a handler, its state changes with the block that
   runs, a callee starts with none; the layering decision asks has_try.  exec above is this machine with the walk's
   answer passed down as a boolean (HandlerProofs.exec_h_exec). *)
Fixpoint exec_h (pol : policy) (p : prog) (cid fl : N) (hs : list hstate) (s : mstate) {struct p} : res :=
  match p with
  | Skip => Normal s
  | Put k v =>
      if has fl fR && has fl fW then Normal (set_lay s (put_top (cid, k) (Some v) (lay s))) else Fault s
  | Del k =>
      if has fl fR && has fl fW then Normal (set_lay s (put_top (cid, k) None (lay s))) else Fault s
  | Notify e =>
      if has fl fN then Normal (add_ntf s (EvN cid e)) else Fault s
  | NotifyVal k =>
      if has fl fR && has fl fN then Normal (add_ntf s (EvV cid k (lget (cid, k) (lay s)))) else Fault s
  | NotifyFee =>
      (* Contract.Call needs ReadStates|AllowCall; getFeePerByte is safe: its frame is never layered *)
      if has fl fR && has fl fC && has fl fN then Normal (add_ntf s (EvP cid (dflt (nc_get (lay s))))) else Fault s
  | SetFee v =>
      if has fl fR && has fl fW && has fl fC then
        let w := wrapped (has_try pol hs) fl in
        Normal (leave w (length (ntf s)) (setfee_state v (enter w s)))
      else Fault s
  | Move to amt cb =>
      if has fl fAll then
        let w := wrapped (has_try pol hs) fl in
        let base := length (ntf s) in
        let s1 := enter w s in
        if bal (lay s1) cid <? amt then Normal (leave w base s1)            (* transfer returns false *)
        else
          let s3 := move_state cid to amt s1 in
          if is_contract to then
            match exec_h pol cb to fAll [] s3 with
            | Normal s4 => if exc s4 then Fault (mark true s4) else Normal (leave w base s4)
            | Thrown s4 => Fault s4                             (* "unhandled exception" from a native caller *)
            | Fault s4 => Fault s4
            end
          else Normal (leave w base s3)
      else Fault s
  | MoveNeo to amt cb =>
      if has fl fAll then
        let w := wrapped (has_try pol hs) fl in
        let base := length (ntf s) in
        let s1 := enter w s in
        let st := concat (map lst (lay s1)) in
        if sval st (kNeo cid) <? amt then Normal (leave w base s1)          (* transfer returns false *)
        else
          let d1 := sval st (kClaim cid) in
          let d2 := neo_d2 cid to amt st in
          let s3 := neo_state cid to amt s1 in
          (* onNEP17Payment of a receiving contract; then the deferred GAS mints, each with a (data = null) payment
             callback when the receiver is a contract.  Any callback that returns while an exception is pending makes
             the native caller fail: "unhandled exception" *)
          match (if is_contract to then exec_h pol cb to fAll [] s3 else Normal s3) with
          | Normal s4 =>
              if exc s4 && is_contract to then Fault (mark true s4)          (* the NEO payment callback *)
              else
                let s5 := mint_state cid d1 s4 in                            (* the sender's claim, with its callback *)
                if exc s4 && negb (d1 =? 0) && is_contract cid then Fault (mark true s5)
                else Normal (leave w base (mint_state to d2 s5))             (* a receiving contract was dealt with above *)
          | Thrown s4 => Fault s4
          | Fault s4 => Fault s4
          end
      else Fault s
  | Seq p q =>
      match exec_h pol p cid fl hs s with
      | Normal s1 => exec_h pol q cid fl hs s1
      | r => r
      end
  | CallV _ c f body =>
      if has fl fR && has fl fC && (f <=? fAll) && is_contract c then
        let fe := N.land fl f in
        let w := wrapped (has_try pol hs) fe in
        let base := length (ntf s) in
        match exec_h pol body c fe [] (enter w s) with
        | Normal s2 => Normal (leave w base s2)
        | Thrown s2 => Thrown (unload w base s2)
        | Fault s2 => Fault s2
        end
      else Fault s
  | Try b c f =>
      try_of (exec_h pol b cid fl (HTry :: hs))
             (option_map (fun c' => exec_h pol c' cid fl (HCatch (is_some f) :: hs)) c)
             (option_map (fun f' => exec_h pol f' cid fl (HFinally :: hs)) f) s
  | Throw => Thrown (set_exc s true)
  | Abort => Fault s
  end.

(* ---------- a transaction in a block (storeBlock) ---------- *)

Definition start (base : layer) : mstate := mkM [mkL [] None None; base] [] false false.   (* interop.NewContext: d.GetPrivate() *)
Definition bottom (s : mstate) : layer := last (lay s) (mkL [] None None).

Record txout := mkOut { halted : bool; after : layer; events : list event; clean : bool }.   (* clean = ghost flag not set *)

(* the block-level layer after the transaction: the transaction's layer is persisted iff the VM halted;
   otherwise the block-level DAO is whatever the execution left of it *)
Definition run_tx (pol : policy) (base : layer) (p : prog) : txout :=
  match exec pol p ENTRY fAll false (start base) with
  | Normal s' => mkOut true (match commit (lay s') with [b] => b | _ => bottom s' end) (ntf s') (negb (bad s'))
  | Thrown s' => mkOut false (bottom s') (ntf s') (negb (bad s'))
  | Fault s' => mkOut false (bottom s') (ntf s') (negb (bad s'))
  end.

(* GAS.OnPersist burns system + network fee of every transaction from ITS sender before any transaction of the block runs *)
Definition charge (sender fee : N) (base : layer) : layer :=
  mkL ((GASNS, sender, Some (dflt (lookup (GASNS, sender) (lst base)) - fee)) :: lst base) (lnc base) (lvc base).
Definition apply_tx (pol : policy) (base : layer) (sender fee : N) (p : prog) : txout := run_tx pol (charge sender fee base) p.

(* ---------- a block: storeBlock runs all transactions on ONE reused VM ----------
   What survives from one transaction to the next: the block-level DAO (cache) and the VM object.  Per
   transaction: newInteropContext (fresh Notifications, d.GetPrivate()), ReuseVM -> VM.Reset (istack and estack
   cut to zero, uncaughtException = nil).  A fault does NOT unload contexts, so the register may well be set
   when a faulted transaction ends; [reset] is VM.Reset's assignment. *)
Definition tx_step (pol : policy) (reset : bool) (st : layer * bool) (p : prog) : (layer * bool) * txout :=
  let '(base, reg) := st in
  let s0 := mkM [mkL [] None None; base] [] (if reset then false else reg) false in
  match exec pol p ENTRY fAll false s0 with
  | Normal s' => (match commit (lay s') with [b] => b | _ => bottom s' end, exc s',
                  mkOut true (match commit (lay s') with [b] => b | _ => bottom s' end) (ntf s') (negb (bad s')))
  | Thrown s' => (bottom s', exc s', mkOut false (bottom s') (ntf s') (negb (bad s')))
  | Fault s' => (bottom s', exc s', mkOut false (bottom s') (ntf s') (negb (bad s')))
  end.
Fixpoint run_txs (pol : policy) (reset : bool) (st : layer * bool) (ps : list prog) : (layer * bool) * list txout :=
  match ps with
  | [] => (st, [])
  | p :: r => let '(st1, o) := tx_step pol reset st p in
              let '(st2, os) := run_txs pol reset st1 r in
              (st2, o :: os)
  end.
(* GAS.OnPersist burns all fees first (each from its transaction's sender), then the transactions run in order *)
Definition charge_all (txs : list (N * N * prog)) (base : layer) : layer :=
  fold_left (fun b t => charge (fst (fst t)) (snd (fst t)) b) txs base.
Definition apply_block (pol : policy) (base : layer) (txs : list (N * N * prog)) : layer * list txout :=
  let '(st, os) := run_txs pol true (charge_all txs base, false) (map snd txs) in
  (fst st, os).

(* the reference: every transaction alone, on what the halted ones before it left *)
Fixpoint seq_txs (pol : policy) (base : layer) (ps : list prog) : layer * list txout :=
  match ps with
  | [] => (base, [])
  | p :: r => let o := run_tx pol base p in
              let '(b, os) := seq_txs pol (after o) r in
              (b, o :: os)
  end.
