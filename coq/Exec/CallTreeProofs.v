(* C04 — the lazy-layering machine against the ideal transactional semantics.

   abs       : the flat view of a machine state (what a read sees through the layers).
   exec_exc  : discipline of the pending-exception register.
   exec_ro   : under read-only call flags nothing can be changed (why such a callee needs no layer).
   exec_nc   : a program without contract calls does the same in both semantics, from any related state.
   exec_sim  : THE simulation.  Key point: an un-layered callee that throws leaves its writes in the caller's
               layer (the states are then NOT related) — but no code of the calling contract runs before the
               exception leaves that contract invocation, and the frame lemma says an enclosing layered frame
               (or the fault) then throws away exactly the top layer, i.e. everything written since. *)
From NG Require Import Common.Tactics Exec.CallTree Exec.Spec Exec.CallTreeFrame.
Open Scope N_scope.

(* ---------- guards (syntactic) ---------- *)

Definition oall (P : prog -> bool) (o : option prog) : bool := match o with Some x => P x | None => true end.

(* no contract call of any kind (native calls included) *)
Fixpoint nocalls (p : prog) : bool :=
  match p with
  | NotifyFee | SetFee _ | Move _ _ _ | MoveNeo _ _ _ | CallV _ _ _ _ => false
  | Seq p q => nocalls p && nocalls q
  | Try b c f => nocalls b && oall nocalls c && oall nocalls f
  | _ => true
  end.

(* every Call of this contract invocation stands inside a try BODY (so it gets its own layer) *)
Fixpoint bare_free (p : prog) : bool :=
  match p with
  | CallV _ _ _ _ => false
  | Seq p q => bare_free p && bare_free q
  | Try b c f => oall bare_free c && oall bare_free f
  | _ => true
  end.

(* g2: no finally block (at any depth, callee bodies and payment callbacks included) contains a contract call *)
Fixpoint g2 (p : prog) : bool :=
  match p with
  | Move _ _ cb | MoveNeo _ _ cb => g2 cb
  | Seq p q => g2 p && g2 q
  | CallV _ _ _ body => g2 body
  | Try b c f => g2 b && oall g2 c && oall nocalls f
  | _ => true
  end.

(* g1: a catch block that is followed by a finally block makes no un-layered call *)
Fixpoint g1 (p : prog) : bool :=
  match p with
  | Move _ _ cb | MoveNeo _ _ cb => g1 cb
  | Seq p q => g1 p && g1 q
  | CallV _ _ _ body => g1 body
  | Try b c f => g1 b && oall g1 c && oall g1 f &&
                 (match c, f with Some c', Some _ => bare_free c' | _, _ => true end)
  | _ => true
  end.

(* The guard of the theorems.  Syntactic part: only for the Lazy policy (the code before the repair of F13).
   Semantic part, stated in each theorem as [bad _ = false] / [clean _ = true]: no layered call frame and no payment
   callback RETURNED while an exception was pending (the ghost flag of the machine).  g2 above is a sufficient
   syntactic condition for it (g2_clean). *)
Definition guard (pol : policy) (p : prog) : bool :=
  match pol with Lazy => g1 p | Eager => true end.

(* ---------- abstraction ---------- *)

Definition abs (s : mstate) : istate := mkI (flat (lay s)) (dflt (nc_get (lay s))) (dflt (vc_get (lay s))) (ntf s) (exc s).
Definition ne (s : mstate) : Prop := lay s <> [].

Lemma ne_cons s : ne s -> exists t rest, lay s = t :: rest.
Proof. unfold ne. destruct (lay s); [congruence|eauto]. Qed.

Lemma abs_put s k v : ne s -> abs (set_lay s (put_top k v (lay s))) = iput (abs s) k v.
Proof. intros H. destruct (ne_cons s H) as (t & r & E). unfold abs, iput. simpl. rewrite E. reflexivity. Qed.

Lemma abs_ntf s e : abs (add_ntf s e) = iadd (abs s) e.
Proof. reflexivity. Qed.

Lemma abs_exc s b : abs (set_exc s b) = iset_exc (abs s) b.
Proof. reflexivity. Qed.

Lemma abs_enter w s : abs (enter w s) = abs s.
Proof. destruct w; reflexivity. Qed.

Lemma frameP_ne t rest n s' : frameP t rest n s' -> ne s'.
Proof. intros (t' & r' & _ & _ & H & _). unfold ne. rewrite H. discriminate. Qed.

Lemma exec_ne pol p cid fl it s :
  ne s -> match exec pol p cid fl it s with Normal s' | Thrown s' => ne s' | Fault _ => True end.
Proof.
  intros H. destruct (ne_cons s H) as (t & r & E). pose proof (exec_frame pol p cid fl it s t r E) as F.
  destruct (exec pol p cid fl it s); simpl in F; auto; eapply frameP_ne; eauto.
Qed.

(* leaving a frame normally with no exception pending: the flat view is what the callee left *)
Lemma abs_mark b s : abs (mark b s) = abs s.
Proof. reflexivity. Qed.

Lemma unload_commit_abs w s t rest s2 :
  lay s = t :: rest ->
  frameP (fst (entered w t rest)) (snd (entered w t rest)) (ntf s) s2 ->
  w && exc s2 = false ->
  abs (leave w (length (ntf s)) s2) = abs s2.
Proof.
  intros H (t2 & rest2 & new & newn & H1 & H2 & H3 & H4) X. unfold leave. rewrite abs_mark.
  destruct w; simpl in *; auto. unfold unload. rewrite X. inv H3.
  unfold abs. simpl. rewrite H1. simpl. unfold flat. simpl. rewrite <- app_assoc.
  destruct (lnc t2), (lvc t2); reflexivity.
Qed.

(* leaving a layered frame with an exception pending: the flat view is what it was at the call *)
Lemma unload_drop_abs s t rest s2 :
  lay s = t :: rest ->
  frameP (mkL [] None None) (t :: rest) (ntf s) s2 ->
  exc s2 = true ->
  abs (unload true (length (ntf s)) s2) = rollback (abs s).
Proof.
  intros H (t2 & rest2 & new & newn & H1 & H2 & H3 & H4) X.
  unfold unload. rewrite X. unfold abs, rollback. simpl. rewrite H1. simpl.
  rewrite H4, firstn_app, firstn_all, Nat.sub_diag, app_nil_r. simpl.
  rewrite H, <- (lower_eq_flat _ _ H3), <- (lower_eq_nc _ _ H3), <- (lower_eq_vc _ _ H3). reflexivity.
Qed.

(* ---------- flags ---------- *)

Definition ro (fl : N) : bool := N.land fl (N.lor fW fN) =? 0.

Lemma ro_has fl b : ro fl = true -> N.land (N.lor fW fN) b = b -> b <> 0 -> has fl b = false.
Proof.
  unfold ro, has. intros H Hb Hn. apply N.eqb_eq in H. apply N.eqb_neq. intros E.
  apply Hn. rewrite <- E at 1. rewrite <- Hb at 1. rewrite N.land_assoc, H. reflexivity.
Qed.
Lemma ro_W fl : ro fl = true -> has fl fW = false.
Proof. intros H. apply ro_has; auto; discriminate. Qed.
Lemma ro_N fl : ro fl = true -> has fl fN = false.
Proof. intros H. apply ro_has; auto; discriminate. Qed.
Lemma ro_All fl : ro fl = true -> has fl fAll = false.
Proof.
  intros H. pose proof (ro_W fl H) as W. unfold has in *. apply N.eqb_neq. intros E.
  apply N.eqb_neq in W. apply W.
  change fW with (N.land fAll fW) at 1. rewrite N.land_assoc, E. reflexivity.
Qed.
Lemma ro_land fl f : ro fl = true -> ro (N.land fl f) = true.
Proof.
  unfold ro. intros H. apply N.eqb_eq in H. apply N.eqb_eq.
  rewrite <- N.land_assoc, (N.land_comm f), N.land_assoc, H. reflexivity.
Qed.
Lemma wrapped_ro it fl : ro fl = true -> wrapped it fl = false.
Proof. unfold wrapped, ro. intros ->. destruct it; reflexivity. Qed.
Lemma wrapped_false it fl : wrapped it fl = false -> it = true -> ro fl = true.
Proof. unfold wrapped, ro. intros H ->. destruct (N.land fl (N.lor fW fN) =? 0); auto. Qed.

(* ---------- the pending-exception register ---------- *)

Definition excd (run : mstate -> res) : Prop :=
  forall s, match run s with
            | Normal s' => exc s = false -> exc s' = false
            | Thrown s' => exc s' = true
            | Fault _ => True
            end.
Definition oexcd (o : option (mstate -> res)) : Prop := match o with Some r => excd r | None => True end.

Lemma unload_exc w b s : exc (unload w b s) = exc s.
Proof. unfold unload. destruct w; auto. destruct (exc s) eqn:E; simpl; auto. Qed.

Lemma try_of_excd rb rc rf : excd rb -> oexcd rc -> oexcd rf -> excd (try_of rb rc rf).
Proof.
  intros Hb Hc Hf s. unfold try_of. destruct (is_some rc || is_some rf); auto.
  assert (FIN : forall ne0 s0, (ne0 = true -> exc s0 = false) -> (ne0 = false -> exc s0 = true) ->
                 match fin_of rf ne0 s0 with Normal s' => exc s' = false | Thrown s' => exc s' = true | Fault _ => True end).
  { intros ne0 s0 A B. unfold fin_of. destruct rf as [run|].
    - specialize (Hf s0). destruct (run s0) as [s'|s'|s']; auto.
      destruct (exc s') eqn:E; auto. destruct ne0; auto.
    - destruct ne0; auto. }
  specialize (Hb s). destruct (rb s) as [s1|s1|s1]; auto.
  - destruct (exc s) eqn:E.
    + (* started with an exception pending: only Thrown needs an answer *)
      unfold fin_of. destruct rf as [run|]; [|intros; discriminate].
      specialize (Hf s1). destruct (run s1) as [s'|s'|s']; auto.
      destruct (exc s') eqn:E'; auto.
    + specialize (FIN true s1 (fun _ => Hb eq_refl)). 
      assert (B : true = false -> exc s1 = true) by discriminate. specialize (FIN B).
      destruct (fin_of rf true s1); auto.
  - destruct rc as [run|].
    + specialize (Hc (set_exc s1 false)). destruct (run (set_exc s1 false)) as [s2|s2|s2]; auto.
      * assert (A : exc s2 = false) by (apply Hc; reflexivity).
        specialize (FIN true s2 (fun _ => A)).
        assert (B : true = false -> exc s2 = true) by discriminate. specialize (FIN B).
        destruct (fin_of rf true s2); auto.
      * assert (A : false = true -> exc s2 = false) by discriminate.
        specialize (FIN false s2 A (fun _ => Hc)). destruct (fin_of rf false s2); auto.
    + assert (A : false = true -> exc s1 = false) by discriminate.
      specialize (FIN false s1 A (fun _ => Hb)). destruct (fin_of rf false s1); auto.
Qed.

Lemma exc_mint a d s : exc (mint_state a d s) = exc s.
Proof. unfold mint_state. destruct (d =? 0); reflexivity. Qed.
Lemma exc_neo cid to amt s : exc (neo_state cid to amt s) = exc s.
Proof. reflexivity. Qed.
Lemma exc_leave w b s : exc (leave w b s) = exc s.
Proof. unfold leave. simpl. apply unload_exc. Qed.
Lemma exc_enter w s : exc (enter w s) = exc s.
Proof. destruct w; reflexivity. Qed.

Lemma exec_exc pol p : forall cid fl it, excd (exec pol p cid fl it).
Proof.
  induction p as [| | | | | |to amt cb IHcb|to amt cb IHcb| |p1 p2 IHp1 IHp2|via c rf body IHbody|b c f IHb IHc IHf| |] using prog_ind';
    intros cid cf it s; cbn [exec]; auto; try (case_if; simpl; auto; fail).
  - (* Move *)
    case_if; auto. cbv zeta. case_if. { simpl. rewrite unload_exc. destruct (wrapped it cf); auto. }
    case_if.
    + match goal with |- context [exec pol cb to fAll false ?s3] => specialize (IHcb to fAll false s3); set (S3 := s3) in * end.
      assert (X : exc S3 = exc s) by (subst S3; destruct (wrapped it cf); reflexivity).
      destruct (exec pol cb to fAll false S3) as [s4|s4|s4]; auto.
      destruct (exc s4) eqn:E; auto. simpl. rewrite unload_exc. auto.
    + simpl. rewrite unload_exc. destruct (wrapped it cf); auto.
  - (* MoveNeo *)
    case_if; auto. cbv zeta. case_if. { simpl. rewrite unload_exc, exc_enter. auto. }
    set (S3 := neo_state cid to amt (enter (wrapped it cf) s)).
    assert (X : exc S3 = exc s) by (subst S3; rewrite exc_neo, exc_enter; reflexivity).
    assert (TAIL : forall (s4 : mstate) (c1 c2 : bool), (exc s = false -> exc s4 = false) ->
              match (if c1 then Fault (mark true s4)
                     else if c2 then Fault (mark true (mint_state cid (sval (concat (map lst (lay (enter (wrapped it cf) s)))) (kClaim cid)) s4))
                     else Normal (leave (wrapped it cf) (length (ntf s))
                            (mint_state to (neo_d2 cid to amt (concat (map lst (lay (enter (wrapped it cf) s)))))
                               (mint_state cid (sval (concat (map lst (lay (enter (wrapped it cf) s)))) (kClaim cid)) s4)))) with
              | Normal s' => exc s = false -> exc s' = false
              | Thrown s' => exc s' = true
              | Fault _ => True
              end).
    { intros s4 c1 c2 Z. destruct c1; [|destruct c2]; auto. intros Y. rewrite exc_leave, !exc_mint. auto. }
    destruct (is_contract to).
    + specialize (IHcb to fAll false S3).
      destruct (exec pol cb to fAll false S3) as [s4|s4|s4]; auto.
      apply TAIL. rewrite X in IHcb. exact IHcb.
    + apply TAIL. rewrite X. auto.
  - (* SetFee *)
    case_if; auto. simpl. rewrite unload_exc. destruct (wrapped it cf); auto.
  - (* Seq *)
    specialize (IHp1 cid cf it s). destruct (exec pol p1 cid cf it s) as [s1|s1|s1]; auto.
    specialize (IHp2 cid cf it s1). destruct (exec pol p2 cid cf it s1); auto.
  - (* Call *)
    case_if; auto.
    specialize (IHbody c (N.land cf rf) false (enter (wrapped it (N.land cf rf)) s)).
    assert (X : exc (enter (wrapped it (N.land cf rf)) s) = exc s) by (destruct (wrapped it (N.land cf rf)); reflexivity).
    rewrite X in IHbody.
    destruct (exec pol body c (N.land cf rf) false _); simpl; rewrite ?unload_exc; auto.
  - (* Try *)
    apply try_of_excd; [apply IHb | destruct c; simpl in *; auto | destruct f; simpl in *; auto].
Qed.

(* ---------- read-only call flags: nothing changes ---------- *)

Definition pres (run : mstate -> res) : Prop :=
  forall s, match run s with
            | Normal s' | Thrown s' => lay s' = lay s /\ ntf s' = ntf s
            | Fault _ => True
            end.
Definition opres (o : option (mstate -> res)) : Prop := match o with Some r => pres r | None => True end.

Lemma try_of_pres rb rc rf : pres rb -> opres rc -> opres rf -> pres (try_of rb rc rf).
Proof.
  intros Hb Hc Hf s. unfold try_of. destruct (is_some rc || is_some rf); auto.
  assert (FIN : forall ne0 s0, lay s0 = lay s /\ ntf s0 = ntf s ->
                 match fin_of rf ne0 s0 with Normal s' | Thrown s' => lay s' = lay s /\ ntf s' = ntf s | Fault _ => True end).
  { intros ne0 s0 [A B]. unfold fin_of. destruct rf as [run|].
    - specialize (Hf s0). destruct (run s0) as [s'|s'|s']; auto.
      + destruct Hf as [X Y]. destruct (exc s'); [|destruct ne0]; auto; split; congruence.
      + destruct Hf as [X Y]. split; congruence.
    - destruct ne0; auto. }
  specialize (Hb s). destruct (rb s) as [s1|s1|s1]; auto.
  - apply FIN; auto.
  - destruct rc as [run|]; [|apply FIN; auto].
    specialize (Hc (set_exc s1 false)). simpl in Hc.
    destruct (run (set_exc s1 false)) as [s2|s2|s2]; auto; apply FIN; destruct Hb, Hc; split; congruence.
Qed.

Lemma exec_ro pol p : forall cid fl it, ro fl = true -> pres (exec pol p cid fl it).
Proof.
  induction p as [| | | | | |to amt cb IHcb|to amt cb IHcb| |p1 p2 IHp1 IHp2|via c rf body IHbody|b c f IHb IHc IHf| |] using prog_ind';
    intros cid cf it R s; simpl; auto;
    try (rewrite ?(ro_W _ R), ?(ro_N _ R), ?(ro_All _ R), ?andb_false_r; simpl; auto; fail).
  - (* Seq *)
    specialize (IHp1 cid cf it R s). destruct (exec pol p1 cid cf it s) as [s1|s1|s1]; auto.
    specialize (IHp2 cid cf it R s1). destruct IHp1 as [A B].
    destruct (exec pol p2 cid cf it s1); auto; destruct IHp2; split; congruence.
  - (* Call *)
    case_if; auto.
    rewrite (wrapped_ro it _ (ro_land cf rf R)). simpl.
    specialize (IHbody c (N.land cf rf) false (ro_land cf rf R) s).
    destruct (exec pol body c (N.land cf rf) false s); auto.
  - (* Try *)
    apply try_of_pres; [apply IHb; auto | destruct c; simpl in *; auto | destruct f; simpl in *; auto].
Qed.

(* ---------- native state changes in the flat view ---------- *)

Lemma bal_abs s a : bal (lay s) a = ibal (abs s) a.
Proof. unfold bal, ibal. rewrite lget_flat. reflexivity. Qed.

Lemma abs_set_bal s a v : ne s -> abs (set_lay s (set_bal a v (lay s))) = iset_bal a v (abs s).
Proof. intros H. unfold set_bal, iset_bal. apply abs_put; auto. Qed.

Lemma abs_move cid to amt s : ne s -> abs (move_state cid to amt s) = imove cid to amt (abs s).
Proof.
  intros H. unfold move_state, imove. rewrite abs_ntf. f_equal.
  rewrite <- bal_abs. case_if.
  - destruct s; reflexivity.
  - set (s' := set_lay s (set_bal cid (bal (lay s) cid - amt) (lay s))).
    assert (A : abs s' = iset_bal cid (bal (lay s) cid - amt) (abs s)) by (apply abs_set_bal; auto).
    assert (N' : ne s').
    { destruct (ne_cons s H) as (t & r & E). unfold ne, s'. simpl. rewrite E. discriminate. }
    rewrite <- A, <- bal_abs.
    exact (abs_set_bal s' to (bal (lay s') to + amt) N').
Qed.

Lemma abs_setfee v s : ne s -> abs (setfee_state v s) = isetfee v (abs s).
Proof.
  intros H. destruct (ne_cons s H) as (t & r & E). unfold setfee_state, isetfee, abs. rewrite E. simpl.
  match goal with |- context [nc_set v (?tt :: ?rr)] =>
    destruct (nc_set_frame tt rr v) as (t' & rest' & N1 & N2 & N3);
    pose proof (nc_set_get tt rr v) as G; pose proof (nc_set_vc tt rr v) as V end.
  rewrite G, V. rewrite N1. pose proof (lower_eq_flat _ _ N3) as L. unfold flat in *. simpl. rewrite N2. simpl.
  rewrite <- L. reflexivity.
Qed.

Lemma flat_apply_eff e ls : ls <> [] -> flat (apply_eff e ls) = e (flat ls) ++ flat ls.
Proof. destruct ls as [|l r]; [congruence|]. intros _. unfold apply_eff, flat. simpl. rewrite app_assoc. reflexivity. Qed.
Lemma nc_apply_eff e ls : nc_get (apply_eff e ls) = nc_get ls.
Proof. destruct ls; reflexivity. Qed.
Lemma vc_apply_eff e ls : vc_get (apply_eff e ls) = vc_get ls.
Proof. destruct ls; reflexivity. Qed.

Lemma abs_mint a d s : ne s -> abs (mint_state a d s) = imint a d (abs s).
Proof.
  intros H. unfold mint_state, imint. destruct (d =? 0); auto.
  unfold abs, iadd, ieff. simpl. rewrite flat_apply_eff, nc_apply_eff, vc_apply_eff; auto.
Qed.

Lemma abs_neo cid to amt s : ne s -> abs (neo_state cid to amt s) = ineo cid to amt (abs s).
Proof.
  intros H. destruct (ne_cons s H) as (t & r & E). unfold neo_state, ineo.
  destruct ((cid =? to) || (amt =? 0)).
  - unfold abs, iadd, ieff. simpl. rewrite flat_apply_eff, nc_apply_eff, vc_apply_eff; auto.
  - unfold abs, iadd, ieff. simpl.
    pose proof (flat_apply_eff (neo_eff cid to amt) (lay s) H) as FL.
    rewrite E in *. unfold apply_eff in *.
    match goal with |- context [vc_set 1 (?tt :: ?rr)] =>
      destruct (vc_set_frame tt rr 1) as (t' & rest' & V1 & V2 & V3);
      rewrite (vc_set_get tt rr 1), (vc_set_nc tt rr 1) end.
    rewrite V1. pose proof (lower_eq_flat _ _ V3) as L.
    unfold flat in *. simpl in *. rewrite V2. simpl. rewrite <- L. rewrite <- app_assoc. reflexivity.
Qed.

(* ---------- the ghost flag only goes up ---------- *)

Definition rstate (r : res) : mstate := match r with Normal s | Thrown s | Fault s => s end.
Definition mono (run : mstate -> res) : Prop := forall s, bad s = true -> bad (rstate (run s)) = true.
Definition omono (o : option (mstate -> res)) : Prop := match o with Some r => mono r | None => True end.

Lemma mono_inv run s : mono run -> bad (rstate (run s)) = false -> bad s = false.
Proof. intros M H. destruct (bad s) eqn:E; auto. rewrite (M s E) in H. discriminate. Qed.

Lemma bad_unload w b s : bad (unload w b s) = bad s.
Proof. unfold unload. destruct w; auto. destruct (exc s); reflexivity. Qed.
Lemma bad_leave w b s : bad (leave w b s) = bad s || (w && exc s).
Proof. unfold leave. simpl. rewrite bad_unload. reflexivity. Qed.
Lemma bad_enter w s : bad (enter w s) = bad s.
Proof. destruct w; reflexivity. Qed.

Lemma fin_of_mono rf ne0 : omono rf -> mono (fin_of rf ne0).
Proof.
  intros Hf s B. unfold fin_of. destruct rf as [run|].
  - specialize (Hf s B). destruct (run s) as [s'|s'|s']; simpl in *; auto.
    destruct (exc s'); simpl; auto. destruct ne0; simpl; auto.
  - destruct ne0; simpl; auto.
Qed.

Lemma try_of_mono rb rc rf : mono rb -> omono rc -> omono rf -> mono (try_of rb rc rf).
Proof.
  intros Hb Hc Hf s B. unfold try_of. destruct (is_some rc || is_some rf); simpl; auto.
  specialize (Hb s B). destruct (rb s) as [s1|s1|s1]; simpl in *; auto.
  - apply fin_of_mono; auto.
  - destruct rc as [run|].
    + assert (B1 : bad (set_exc s1 false) = true) by exact Hb.
      specialize (Hc _ B1). destruct (run (set_exc s1 false)) as [s2|s2|s2]; simpl in *; auto; apply fin_of_mono; auto.
    + apply fin_of_mono; auto.
Qed.

Lemma bad_leave_false w b s : bad (rstate (Normal (leave w b s))) = false -> bad s = false /\ w && exc s = false.
Proof. change (bad (leave w b s) = false -> bad s = false /\ w && exc s = false). rewrite bad_leave. apply orb_false_iff. Qed.

Lemma bad_mint a d s : bad (mint_state a d s) = bad s.
Proof. unfold mint_state. destruct (d =? 0); reflexivity. Qed.
Lemma bad_neo cid to amt s : bad (neo_state cid to amt s) = bad s.
Proof. reflexivity. Qed.

Ltac fin_bad B :=
  simpl; rewrite ?bad_leave, ?bad_unload; simpl; rewrite ?bad_mint, ?bad_neo, ?bad_enter; simpl; rewrite ?B; simpl; auto.

Lemma exec_mono pol p : forall cid fl it, mono (exec pol p cid fl it).
Proof.
  induction p as [| | | | | |to amt cb IHcb|to amt cb IHcb| |p1 p2 IHp1 IHp2|via c rf body IHbody|b c f IHb IHc IHf| |] using prog_ind';
    intros cid cf it s B; cbn [exec]; auto; try (case_if; simpl; auto; fail).
  - (* Move *)
    case_if; [|simpl; auto]. cbv zeta. case_if. { fin_bad B. }
    case_if.
    + match goal with |- context [exec pol cb to fAll false ?s3] => specialize (IHcb to fAll false s3); set (S3 := s3) in * end.
      assert (X : bad S3 = true) by (subst S3; simpl; rewrite bad_enter; exact B).
      specialize (IHcb X).
      destruct (exec pol cb to fAll false S3) as [s4|s4|s4]; simpl in *; auto.
      destruct (exc s4); [fin_bad IHcb|fin_bad IHcb].
    + fin_bad B.
  - (* MoveNeo *)
    case_if; [|simpl; auto]. cbv zeta. case_if. { fin_bad B. }
    set (S3 := neo_state cid to amt (enter (wrapped it cf) s)).
    assert (X : bad S3 = true) by (subst S3; rewrite bad_neo, bad_enter; exact B).
    assert (TAIL : forall (s4 : mstate) (c1 c2 : bool) d1 d2, bad s4 = true ->
              bad (rstate (if c1 then Fault (mark true s4)
                     else if c2 then Fault (mark true (mint_state cid d1 s4))
                     else Normal (leave (wrapped it cf) (length (ntf s)) (mint_state to d2 (mint_state cid d1 s4))))) = true).
    { intros s4 c1 c2 d1 d2 Z. destruct c1; [|destruct c2]; fin_bad Z. }
    destruct (is_contract to).
    + specialize (IHcb to fAll false S3 X).
      destruct (exec pol cb to fAll false S3) as [s4|s4|s4]; simpl in *; auto.
    + apply TAIL. exact X.
  - (* SetFee *)
    case_if; [|simpl; auto]. fin_bad B.
  - (* Seq *)
    specialize (IHp1 cid cf it s B). destruct (exec pol p1 cid cf it s) as [s1|s1|s1]; simpl in *; auto.
    apply IHp2; auto.
  - (* Call *)
    case_if; [|simpl; auto]. cbv zeta.
    specialize (IHbody c (N.land cf rf) false (enter (wrapped it (N.land cf rf)) s)).
    rewrite bad_enter in IHbody. specialize (IHbody B).
    destruct (exec pol body c (N.land cf rf) false _); simpl in IHbody; fin_bad IHbody.
  - (* Try *)
    apply try_of_mono; [apply IHb | destruct c; simpl in *; auto | destruct f; simpl in *; auto | exact B].
Qed.

(* ---------- the simulation ---------- *)

(* C: the flat views are still related when the program THROWS.  They are not when an un-layered callee has
   thrown (its writes are still in the caller's layer); C = "we are inside a try body of this contract
   invocation, or the program makes no call outside one".  Everything is claimed for runs whose ghost flag stays
   down: no layered frame / payment callback returned while an exception was pending. *)
Definition agree (C : bool) (r : res) (ri : ires) : Prop :=
  match r, ri with
  | Normal s', INormal i' => i' = abs s'
  | Thrown s', IThrown i' => C = true -> i' = abs s'
  | Fault _, IFault => True
  | _, _ => False
  end.
Definition simP (C : bool) (run : mstate -> res) (irun : istate -> ires) : Prop :=
  forall s, ne s -> bad (rstate (run s)) = false -> agree C (run s) (irun (abs s)).
Definition osimP (C : bool) (o : option (mstate -> res)) (oi : option (istate -> ires)) : Prop :=
  match o, oi with
  | Some r, Some ri => simP C r ri
  | None, None => True
  | _, _ => False
  end.

Lemma osimP_some C o oi : osimP C o oi -> is_some o = is_some oi.
Proof. destruct o, oi; simpl; tauto. Qed.

Lemma framed_ne run s : framed run -> ne s -> match run s with Normal s' | Thrown s' => ne s' | Fault _ => True end.
Proof.
  intros F H. destruct (ne_cons s H) as (t & r & E). specialize (F s t r E).
  destruct (run s); simpl in F; auto; eapply frameP_ne; eauto.
Qed.

(* the finally block, from a related state *)
Lemma fin_sim Cf rf irf ne0 s0 :
  osimP Cf rf irf -> ne s0 -> bad (rstate (fin_of rf ne0 s0)) = false ->
  agree Cf (fin_of rf ne0 s0) (ifin_of irf ne0 (abs s0)).
Proof.
  intros Hf H B. unfold fin_of, ifin_of in *. destruct rf as [run|], irf as [irun|]; simpl in Hf; try tauto.
  - specialize (Hf s0 H).
    destruct (run s0) as [s'|s'|s'] eqn:R; simpl in *.
    + assert (B' : bad s' = false).
      { destruct (exc s'); simpl in B; auto. destruct ne0; simpl in B; auto. }
      specialize (Hf B'). destruct (irun (abs s0)) as [i'|i'|]; try tauto. subst i'. simpl.
      destruct (exc s'); simpl; auto. destruct ne0; simpl; auto.
    + specialize (Hf B). destruct (irun (abs s0)); try tauto.
    + specialize (Hf B). destruct (irun (abs s0)); try tauto.
  - destruct ne0; simpl; auto.
Qed.

Lemma agree_weaken C C' r ri : (C' = true -> C = true) -> agree C r ri -> agree C' r ri.
Proof. intros I. destruct r, ri; simpl; auto. Qed.

Lemma try_sim C Cc Cf rb rc rf irb irc irf :
  simP true rb irb -> osimP Cc rc irc -> osimP Cf rf irf ->
  framed rb -> oframed rc -> omono rc -> omono rf ->
  (is_some rf = true -> Cc = true) -> (C = true -> Cc = true) -> (C = true -> Cf = true) ->
  simP C (try_of rb rc rf) (itry_of irb irc irf).
Proof.
  intros Hb Hc Hf Fb Fc Mc Mf G1 G2 G3 s H B. unfold try_of, itry_of in *.
  rewrite <- (osimP_some _ _ _ Hc), <- (osimP_some _ _ _ Hf).
  destruct (is_some rc || is_some rf); simpl; auto.
  pose proof (framed_ne rb s Fb H) as N1.
  destruct (rb s) as [s1|s1|s1] eqn:RB.
  - (* body normal *)
    assert (B1 : bad s1 = false) by (apply (mono_inv (fin_of rf true)); [apply fin_of_mono; auto|exact B]).
    pose proof (Hb s H) as HB. rewrite RB in HB. specialize (HB B1). simpl in HB.
    destruct (irb (abs s)) as [i1|i1|]; try tauto. subst.
    eapply agree_weaken; [exact G3|]. apply fin_sim; auto.
  - (* body thrown *)
    destruct rc as [run|], irc as [irun|]; simpl in Hc; try tauto.
    + assert (N1' : ne (set_exc s1 false)) by exact N1.
      pose proof (framed_ne run _ Fc N1') as N2.
      destruct (run (set_exc s1 false)) as [s2|s2|s2] eqn:RC.
      * assert (B2 : bad s2 = false) by (apply (mono_inv (fin_of rf true)); [apply fin_of_mono; auto|exact B]).
        assert (B1 : bad s1 = false).
        { pose proof (mono_inv run (set_exc s1 false) Mc) as Q. rewrite RC in Q. exact (Q B2). }
        pose proof (Hb s H) as HB. rewrite RB in HB. specialize (HB B1). simpl in HB.
        destruct (irb (abs s)) as [i1|i1|]; try tauto. specialize (HB eq_refl). subst.
        pose proof (Hc _ N1') as CC. rewrite RC in CC. specialize (CC B2). rewrite abs_exc in CC. simpl in CC.
        destruct (irun (iset_exc (abs s1) false)) as [i2|i2|]; try tauto. subst.
        eapply agree_weaken; [exact G3|]. apply fin_sim; auto.
      * assert (B2 : bad s2 = false) by (apply (mono_inv (fin_of rf false)); [apply fin_of_mono; auto|exact B]).
        assert (B1 : bad s1 = false).
        { pose proof (mono_inv run (set_exc s1 false) Mc) as Q. rewrite RC in Q. exact (Q B2). }
        pose proof (Hb s H) as HB. rewrite RB in HB. specialize (HB B1). simpl in HB.
        destruct (irb (abs s)) as [i1|i1|]; try tauto. specialize (HB eq_refl). subst.
        pose proof (Hc _ N1') as CC. rewrite RC in CC. specialize (CC B2). rewrite abs_exc in CC. simpl in CC.
        destruct (irun (iset_exc (abs s1) false)) as [i2|i2|]; try tauto.
        destruct rf as [runf|] eqn:RF, irf as [irunf|]; simpl in Hf; try tauto.
        -- rewrite (CC (G1 eq_refl)). eapply agree_weaken; [exact G3|].
           apply (fin_sim Cf (Some runf) (Some irunf)); auto.
        -- simpl. intros HC. apply CC, G2, HC.
      * simpl in B.
        assert (B1 : bad s1 = false).
        { pose proof (mono_inv run (set_exc s1 false) Mc) as Q. rewrite RC in Q. exact (Q B). }
        pose proof (Hb s H) as HB. rewrite RB in HB. specialize (HB B1). simpl in HB.
        destruct (irb (abs s)) as [i1|i1|]; try tauto. specialize (HB eq_refl). subst.
        pose proof (Hc _ N1') as CC. rewrite RC in CC. specialize (CC B). rewrite abs_exc in CC. simpl in CC.
        destruct (irun (iset_exc (abs s1) false)) as [i2|i2|]; try tauto.
    + assert (B1 : bad s1 = false) by (apply (mono_inv (fin_of rf false)); [apply fin_of_mono; auto|exact B]).
      pose proof (Hb s H) as HB. rewrite RB in HB. specialize (HB B1). simpl in HB.
      destruct (irb (abs s)) as [i1|i1|]; try tauto. specialize (HB eq_refl). subst.
      eapply agree_weaken; [exact G3|]. apply fin_sim; auto.
  - (* body fault *)
    simpl in B. pose proof (Hb s H) as HB. rewrite RB in HB. specialize (HB B). simpl in HB.
    destruct (irb (abs s)); try tauto.
Qed.

Lemma guard_seq pol p q : guard pol (Seq p q) = true -> guard pol p = true /\ guard pol q = true.
Proof. unfold guard. simpl. destruct pol; rewrite ?andb_true_iff; tauto. Qed.
Lemma guard_call pol via c f b : guard pol (CallV via c f b) = true -> guard pol b = true.
Proof. auto. Qed.
Lemma guard_move pol to amt cb : guard pol (Move to amt cb) = true -> guard pol cb = true.
Proof. auto. Qed.
Lemma guard_moveneo pol to amt cb : guard pol (MoveNeo to amt cb) = true -> guard pol cb = true.
Proof. auto. Qed.
Lemma guard_try pol b c f :
  guard pol (Try b c f) = true ->
  guard pol b = true /\ oall (guard pol) c = true /\ oall (guard pol) f = true /\
  (pol = Lazy -> match c, f with Some c', Some _ => bare_free c' = true | _, _ => True end).
Proof.
  unfold guard. simpl. destruct pol; intros H.
  - repeat (apply andb_true_iff in H; destruct H as [H ?]).
    split; [|split; [|split]]; auto. intros _. destruct c, f; auto.
  - split; [|split; [|split]]; auto; try (destruct c; reflexivity); try (destruct f; reflexivity). discriminate.
Qed.

Lemma orb_C_l it a b : it || (a && b) = true -> it || a = true.
Proof. destruct it, a; simpl; auto. Qed.
Lemma orb_C_r it a b : it || (a && b) = true -> it || b = true.
Proof. destruct it, a, b; simpl; auto. Qed.

Theorem exec_sim pol p :
  guard pol p = true -> forall cid fl it, simP (it || bare_free p) (exec pol p cid fl it) (iexec p cid fl).
Proof.
  induction p as [| | | | | |to amt cb IHcb|to amt cb IHcb| |p1 p2 IHp1 IHp2|via c rf body IHbody|b c f IHb IHc IHf| |] using prog_ind';
    intros G cid cf it s H B; cbn [exec iexec] in *.
  - reflexivity.
  - case_if; simpl; auto. rewrite abs_put; auto.
  - case_if; simpl; auto. rewrite abs_put; auto.
  - case_if; simpl; auto.
  - case_if; simpl; auto. rewrite lget_flat. reflexivity.
  - case_if; simpl; auto.
  - (* Move *)
    case_if; [|simpl; auto]. cbv zeta in *.
    set (w := wrapped it cf) in *. destruct (ne_cons s H) as (t & rest & E).
    destruct (enter_lay w s t rest E) as (E1 & E2 & E3).
    assert (N1 : ne (enter w s)) by (unfold ne; rewrite E1; discriminate).
    rewrite bal_abs, abs_enter in *.
    case_if.
    { apply bad_leave_false in B. destruct B as [_ B]. simpl.
      rewrite unload_commit_abs with (t := t) (rest := rest); auto.
      - symmetry. apply abs_enter.
      - rewrite <- E2. apply frameP_refl; auto. }
    pose proof (move_state_frame cid to amt _ _ _ E1) as F3. rewrite E2 in F3.
    pose proof (abs_move cid to amt _ N1) as A3. rewrite abs_enter in A3.
    case_if.
    + pose proof (IHcb (guard_move _ _ _ _ G) to fAll false _ (frameP_ne _ _ _ _ F3)) as IH.
      rewrite A3 in IH.
      destruct F3 as (t3 & r3 & new3 & newn3 & G1 & G2 & G3 & G4).
      pose proof (exec_frame pol cb to fAll false _ _ _ G1) as FR.
      destruct (exec pol cb to fAll false (move_state cid to amt (enter w s))) as [s4|s4|s4].
      * destruct (exc s4) eqn:X4.
        { simpl in B. rewrite orb_true_r in B. discriminate. }
        apply bad_leave_false in B. destruct B as [B4 BW].
        specialize (IH B4). simpl in IH.
        destruct (iexec cb to fAll (imove cid to amt (abs s))) as [i4|i4|]; try tauto. subst i4. simpl.
        rewrite unload_commit_abs with (t := t) (rest := rest); auto.
        simpl in FR. eapply frameP_trans.
        { exists t3, r3, new3, newn3. repeat split; eauto. }
        intros t1 rest1 L1. rewrite G1 in L1. inv L1. exact FR.
      * simpl in B. specialize (IH B). simpl in IH.
        destruct (iexec cb to fAll (imove cid to amt (abs s))); try tauto. simpl. auto.
      * simpl in B. specialize (IH B). simpl in IH.
        destruct (iexec cb to fAll (imove cid to amt (abs s))); try tauto.
    + apply bad_leave_false in B. destruct B as [_ B]. simpl.
      rewrite unload_commit_abs with (t := t) (rest := rest); auto.
  - (* MoveNeo *)
    case_if; [|simpl; auto]. cbv zeta in *.
    set (w := wrapped it cf) in *. destruct (ne_cons s H) as (t & rest & E).
    destruct (enter_lay w s t rest E) as (E1 & E2 & E3).
    assert (N1 : ne (enter w s)) by (unfold ne; rewrite E1; discriminate).
    change (concat (map lst (lay (enter w s)))) with (ist (abs (enter w s))) in *. rewrite abs_enter in *.
    case_if.
    { apply bad_leave_false in B. destruct B as [_ B]. simpl.
      rewrite unload_commit_abs with (t := t) (rest := rest); auto.
      - symmetry. apply abs_enter.
      - rewrite <- E2. apply frameP_refl; auto. }
    pose proof (neo_state_frame cid to amt _ _ _ E1) as F3. rewrite E2 in F3.
    pose proof (abs_neo cid to amt _ N1) as A3. rewrite abs_enter in A3.
    set (d1 := sval (ist (abs s)) (kClaim cid)) in *. set (d2 := neo_d2 cid to amt (ist (abs s))) in *.
    set (t0 := fst (entered w t rest)) in *. set (r0 := snd (entered w t rest)) in *.
    assert (MINT : forall s4, frameP t0 r0 (ntf s) s4 ->
              frameP t0 r0 (ntf s) (mint_state to d2 (mint_state cid d1 s4)) /\
              abs (mint_state to d2 (mint_state cid d1 s4)) = imint to d2 (imint cid d1 (abs s4))).
    { intros s4 F4. split.
      - eapply frameP_trans; [exact F4|]. intros t1 r1 L1.
        eapply frameP_trans; [apply mint_state_frame; exact L1|]. intros t2 r2 L2. apply mint_state_frame; exact L2.
      - assert (N4 : ne s4) by (eapply frameP_ne; eauto).
        assert (N5 : ne (mint_state cid d1 s4)).
        { destruct (ne_cons s4 N4) as (t1 & r1 & L1). eapply frameP_ne. apply mint_state_frame. exact L1. }
        rewrite abs_mint, abs_mint; auto. }
    destruct (is_contract to) eqn:IC.
    + pose proof (IHcb (guard_moveneo _ _ _ _ G) to fAll false _ (frameP_ne _ _ _ _ F3)) as IH.
      rewrite A3 in IH.
      pose proof F3 as F3'. destruct F3 as (t3 & r3 & new3 & newn3 & G1 & G2 & G3 & G4).
      pose proof (exec_frame pol cb to fAll false _ _ _ G1) as FR.
      destruct (exec pol cb to fAll false (neo_state cid to amt (enter w s))) as [s4|s4|s4].
      * case_if.
        { simpl in B. rewrite orb_true_r in B. discriminate. }
        case_if.
        { simpl in B. rewrite orb_true_r in B. discriminate. }
        apply bad_leave_false in B. destruct B as [B4 BW]. rewrite !bad_mint in B4.
        specialize (IH B4). simpl in IH.
        destruct (iexec cb to fAll (ineo cid to amt (abs s))) as [i4|i4|]; try tauto. subst i4. simpl.
        assert (F4 : frameP t0 r0 (ntf s) s4).
        { simpl in FR. eapply frameP_trans; [exact F3'|]. intros t1 rest1 L1. rewrite G1 in L1. inv L1. exact FR. }
        destruct (MINT s4 F4) as [M1 M2].
        rewrite unload_commit_abs with (t := t) (rest := rest); auto.
      * simpl in B. specialize (IH B). simpl in IH.
        destruct (iexec cb to fAll (ineo cid to amt (abs s))); try tauto. simpl. auto.
      * simpl in B. specialize (IH B). simpl in IH.
        destruct (iexec cb to fAll (ineo cid to amt (abs s))); try tauto.
    + case_if.
      { simpl in B. rewrite orb_true_r in B. discriminate. }
      case_if.
      { simpl in B. rewrite orb_true_r in B. discriminate. }
      apply bad_leave_false in B. destruct B as [B4 BW]. simpl.
      destruct (MINT _ F3) as [M1 M2].
      rewrite unload_commit_abs with (t := t) (rest := rest); auto.
      rewrite M2, A3. reflexivity.
  - (* SetFee *)
    case_if; [|simpl; auto]. cbv zeta in *.
    set (w := wrapped it cf) in *. destruct (ne_cons s H) as (t & rest & E).
    destruct (enter_lay w s t rest E) as (E1 & E2 & E3).
    assert (N1 : ne (enter w s)) by (unfold ne; rewrite E1; discriminate).
    apply bad_leave_false in B. destruct B as [_ B]. simpl.
    rewrite unload_commit_abs with (t := t) (rest := rest); auto.
    + rewrite abs_setfee, abs_enter; auto.
    + rewrite <- E2. apply setfee_state_frame; auto.
  - (* Seq *)
    apply guard_seq in G. destruct G as [Ga Gb].
    pose proof (exec_ne pol p1 cid cf it s H) as N1.
    destruct (exec pol p1 cid cf it s) as [s1|s1|s1] eqn:E1.
    + assert (B1 : bad s1 = false) by (apply (mono_inv (exec pol p2 cid cf it)); [apply exec_mono|exact B]).
      pose proof (IHp1 Ga cid cf it s H) as S1. rewrite E1 in S1. specialize (S1 B1). simpl in S1.
      destruct (iexec p1 cid cf (abs s)) as [i1|i1|]; try tauto. subst i1.
      eapply agree_weaken; [|apply (IHp2 Gb cid cf it s1 N1 B)]. apply orb_C_r.
    + pose proof (IHp1 Ga cid cf it s H) as S1. rewrite E1 in S1. specialize (S1 B). simpl in S1.
      destruct (iexec p1 cid cf (abs s)) as [i1|i1|]; try tauto. simpl.
      intros HC. apply S1. eapply orb_C_l; eauto.
    + pose proof (IHp1 Ga cid cf it s H) as S1. rewrite E1 in S1. specialize (S1 B). simpl in S1.
      destruct (iexec p1 cid cf (abs s)); try tauto.
  - (* Call *)
    case_if; [|simpl; auto]. cbv zeta in *.
    set (fe := N.land cf rf) in *. set (w := wrapped it fe) in *. destruct (ne_cons s H) as (t & rest & E).
    destruct (enter_lay w s t rest E) as (E1 & E2 & E3).
    assert (N1 : ne (enter w s)) by (unfold ne; rewrite E1; discriminate).
    pose proof (IHbody (guard_call _ _ _ _ _ G) c fe false _ N1) as IH. rewrite abs_enter in IH.
    pose proof (exec_exc pol body c fe false (enter w s)) as XX.
    pose proof (exec_frame pol body c fe false _ _ _ E1) as FR. rewrite E2 in FR.
    pose proof (fun R => exec_ro pol body c fe false R (enter w s)) as PR.
    destruct (exec pol body c fe false (enter w s)) as [s2|s2|s2].
    + apply bad_leave_false in B. destruct B as [B2 BW].
      specialize (IH B2). simpl in IH. destruct (iexec body c fe (abs s)) as [i2|i2|]; try tauto. subst i2.
      simpl in FR. simpl. rewrite unload_commit_abs with (t := t) (rest := rest); auto.
    + simpl in B. rewrite bad_unload in B. specialize (IH B). simpl in IH.
      destruct (iexec body c fe (abs s)) as [i2|i2|]; try tauto. simpl in *.
      intros HC. rewrite orb_false_r in HC. subst it.
      destruct w eqn:W.
      * symmetry. apply unload_drop_abs with (t := t) (rest := rest); auto.
      * destruct (PR (wrapped_false _ _ W eq_refl)) as [P1 P2].
        unfold unload, rollback, abs. simpl. rewrite P1, P2, XX. reflexivity.
    + simpl in B. specialize (IH B). simpl in IH. destruct (iexec body c fe (abs s)); try tauto.
  - (* Try *)
    destruct (guard_try _ _ _ _ G) as (Gb & Gc & Gf & Gl).
    apply (try_sim (it || bare_free (Try b c f)) (catch_it pol it (is_some f) || oall bare_free c) (it || oall bare_free f));
      [ apply (IHb Gb cid cf true)
      | destruct c; simpl in *; auto; apply IHc; auto
      | destruct f; simpl in *; auto; apply IHf; auto
      | apply exec_frame
      | destruct c; simpl; auto; apply exec_frame
      | destruct c; simpl; auto; apply exec_mono
      | destruct f; simpl; auto; apply exec_mono
      | | | | exact H | exact B ].
    + intros Hs. destruct f; simpl in Hs; try discriminate. simpl.
      destruct pol; simpl.
      * specialize (Gl eq_refl). destruct c; simpl in *; [rewrite Gl|]; apply orb_true_r.
      * destruct it; reflexivity.
    + simpl. intros HC. destruct it; simpl in *.
      * destruct pol; reflexivity.
      * apply andb_true_iff in HC. destruct HC as [HC _]. rewrite HC. apply orb_true_r.
    + simpl. apply orb_C_r.
  - (* Throw *)
    simpl. intros _. reflexivity.
  - (* Abort *)
    simpl. auto.
Qed.

(* ---------- transactions ---------- *)

Lemma abs_start base : abs (start base) = istart base.
Proof. unfold abs, start, istart, flat. simpl. rewrite app_nil_r. destruct (lnc base), (lvc base); reflexivity. Qed.

Lemma lower_eq_single base r : lower_eq [base] r -> r = [base].
Proof.
  intros H. inversion H as [|l l' r0 r' A B C D]; subst. inversion B; subst. simpl in C, D.
  destruct base as [a x u], l' as [b y v]; simpl in *. subst.
  destruct x, y, u, v; congruence.
Qed.

(* a transaction that does not halt leaves the block-level layer exactly as it was: for ALL programs *)
Theorem run_tx_fault pol base p : halted (run_tx pol base p) = false -> after (run_tx pol base p) = base.
Proof.
  unfold run_tx. pose proof (exec_frame pol p ENTRY fAll false (start base) _ _ eq_refl) as F.
  destruct (exec pol p ENTRY fAll false (start base)) as [s'|s'|s']; simpl in *; try discriminate; intros _.
  - destruct F as (t' & r' & new & newn & H1 & _ & H3 & _). apply lower_eq_single in H3. subst.
    unfold bottom. rewrite H1. reflexivity.
  - destruct F as (pre & r' & H1 & H3). apply lower_eq_single in H3. subst.
    unfold bottom. rewrite H1. apply last_last.
Qed.

Definition tx_agree (m : txout) (i : iout) : Prop :=
  halted m = ihalted i /\
  (halted m = true ->
     lst (after m) = ist (iafter i) /\ dflt (lnc (after m)) = ifee (iafter i) /\
     dflt (lvc (after m)) = ivc (iafter i) /\ events m = intf (iafter i)).

Theorem run_tx_exact pol base p :
  guard pol p = true -> clean (run_tx pol base p) = true -> tx_agree (run_tx pol base p) (irun_tx base p).
Proof.
  intros G. unfold run_tx, irun_tx, tx_agree.
  assert (N0 : ne (start base)) by (unfold ne; simpl; discriminate).
  pose proof (exec_sim pol p G ENTRY fAll false (start base) N0) as S. rewrite abs_start in S.
  pose proof (exec_frame pol p ENTRY fAll false (start base) _ _ eq_refl) as F.
  destruct (exec pol p ENTRY fAll false (start base)) as [s'|s'|s']; simpl in *; intros CL;
    apply negb_true_iff in CL; specialize (S CL); simpl in S;
    destruct (iexec p ENTRY fAll (istart base)) as [i'|i'|]; simpl in *; try tauto;
    try (split; [reflexivity|discriminate]).
  subst i'. split; auto. intros _.
  destruct F as (t' & r' & new & newn & H1 & _ & H3 & _). apply lower_eq_single in H3. subst.
  rewrite H1. simpl. unfold abs. rewrite H1. unfold flat. simpl. rewrite app_nil_r. repeat split; auto.
  - destruct (lnc t'), (lnc base); reflexivity.
  - destruct (lvc t'), (lvc base); reflexivity.
Qed.

(* ---------- a caught failing call leaves no trace: what comes before and after it is kept ---------- *)

Definition obs_eq (r r' : res) : Prop :=
  match r, r' with
  | Normal a, Normal b => abs a = abs b
  | Thrown _, Thrown _ => True
  | Fault _, Fault _ => True
  | _, _ => False
  end.

Definition caught (via : bool) (c f : N) (body : prog) : prog := Try (CallV via c f body) (Some Skip) None.

Lemma exec_seq_normal pol p q cid fl it s s1 :
  exec pol p cid fl it s = Normal s1 -> exec pol (Seq p q) cid fl it s = exec pol q cid fl it s1.
Proof. intros E. cbn [exec]. rewrite E. reflexivity. Qed.

Lemma exec_caught_thrown pol via c f body cid fl it s1 s2 :
  exec pol (CallV via c f body) cid fl true s1 = Thrown s2 ->
  exec pol (caught via c f body) cid fl it s1 = Normal (set_exc s2 false).
Proof.
  intros E.
  change (exec pol (caught via c f body) cid fl it s1)
    with (try_of (exec pol (CallV via c f body) cid fl true) (Some (exec pol Skip cid fl (catch_it pol it false))) None s1).
  unfold try_of. cbn [is_some orb]. rewrite E. reflexivity.
Qed.

Theorem caught_call_no_trace pol pre post via c f body cid fl it s :
  guard pol (Seq pre (Seq (caught via c f body) post)) = true ->
  ne s -> exc s = false ->
  (forall s1, exec pol pre cid fl it s = Normal s1 -> exists s2, exec pol (CallV via c f body) cid fl true s1 = Thrown s2) ->
  bad (rstate (exec pol (Seq pre (Seq (caught via c f body) post)) cid fl it s)) = false ->
  bad (rstate (exec pol (Seq pre post) cid fl it s)) = false ->
  obs_eq (exec pol (Seq pre (Seq (caught via c f body) post)) cid fl it s) (exec pol (Seq pre post) cid fl it s).
Proof.
  intros G H X T BP BQ.
  assert (GQ : guard pol (Seq pre post) = true).
  { apply guard_seq in G. destruct G as [G1 G2]. apply guard_seq in G2. destruct G2 as [_ G3].
    unfold guard in *. simpl. destruct pol; rewrite ?andb_true_iff in *; tauto. }
  pose proof (exec_sim pol _ G cid fl it s H BP) as SP.
  pose proof (exec_sim pol _ GQ cid fl it s H BQ) as SQ.
  assert (EQ : iexec (Seq pre (Seq (caught via c f body) post)) cid fl (abs s) = iexec (Seq pre post) cid fl (abs s)).
  { apply guard_seq in G. destruct G as [G1 G2]. apply guard_seq in G2. destruct G2 as [G2 _].
    pose proof (exec_ne pol pre cid fl it s H) as N1. pose proof (exec_exc pol pre cid fl it s) as X1.
    destruct (exec pol pre cid fl it s) as [s1|s1|s1] eqn:EP.
    - destruct (T s1 eq_refl) as (s2 & T2).
      rewrite (exec_seq_normal _ _ _ _ _ _ _ _ EP) in BP. rewrite (exec_seq_normal _ _ _ _ _ _ _ _ EP) in BQ.
      rewrite (exec_seq_normal _ _ _ _ _ _ _ _ (exec_caught_thrown pol via c f body cid fl it s1 s2 T2)) in BP.
      assert (BC : bad s2 = false).
      { apply (mono_inv (exec pol post cid fl it)) in BP; [exact BP|apply exec_mono]. }
      assert (B1 : bad s1 = false).
      { apply (mono_inv (exec pol post cid fl it)) in BQ; [exact BQ|apply exec_mono]. }
      pose proof (exec_sim pol pre G1 cid fl it s H) as S1. rewrite EP in S1. specialize (S1 B1). simpl in S1.
      assert (GC : guard pol (CallV via c f body) = true).
      { unfold guard, caught in *. simpl in G2. destruct pol; rewrite ?andb_true_iff in *; simpl; rewrite ?andb_true_iff; tauto. }
      pose proof (exec_sim pol _ GC cid fl true s1 N1) as SC. rewrite T2 in SC. specialize (SC BC).
      unfold caught. cbn [iexec] in *.
      destruct (iexec pre cid fl (abs s)) as [i1|i1|]; try tauto. subst i1.
      unfold itry_of. simpl.
      destruct (has fl fR && has fl fC && (f <=? fAll) && is_contract c); [|simpl in SC; tauto].
      destruct (iexec body c (N.land fl f) (abs s1)); simpl in SC; try tauto.
      simpl. unfold rollback, iset_exc. simpl.
      assert (A : {| ist := flat (lay s1); ifee := dflt (nc_get (lay s1)); ivc := dflt (vc_get (lay s1)); intf := ntf s1; iexc := false |} = abs s1).
      { unfold abs. rewrite (X1 X). reflexivity. }
      rewrite A. reflexivity.
    - cbn [exec] in BQ. rewrite EP in BQ.
      pose proof (exec_sim pol pre G1 cid fl it s H) as S1. rewrite EP in S1. specialize (S1 BQ). simpl in S1.
      cbn [iexec]. destruct (iexec pre cid fl (abs s)); try tauto.
    - cbn [exec] in BQ. rewrite EP in BQ.
      pose proof (exec_sim pol pre G1 cid fl it s H) as S1. rewrite EP in S1. specialize (S1 BQ). simpl in S1.
      cbn [iexec]. destruct (iexec pre cid fl (abs s)); try tauto. }
  rewrite EQ in SP.
  destruct (exec pol (Seq pre (Seq (caught via c f body) post)) cid fl it s),
           (exec pol (Seq pre post) cid fl it s),
           (iexec (Seq pre post) cid fl (abs s)); simpl in *; try tauto.
  congruence.
Qed.
