(* C04 — the lazy-layering machine against the ideal transactional semantics.

   abs       : the flat view of a machine state (what a read sees through the layers).
   exec_exc  : discipline of the pending-exception register.
   exec_ro   : under read-only call flags nothing can be changed (why such a callee needs no layer).
   exec_nc   : a program without contract calls does the same in both semantics, from any related state.
   exec_sim  : THE simulation.  Key point: an un-layered callee that throws leaves its writes in the caller's
               layer (the states are then NOT related) — but no code of the calling contract runs before the
               exception leaves that contract invocation, and the frame lemma says an enclosing layered frame
               (or the fault) then throws away exactly the top layer, i.e. everything written since. *)
From NG Require Import Common.Tactics Exec.CallTree Exec.Spec Exec.CallTreeFrame.
Open Scope N_scope.

(* ---------- guards (syntactic) ---------- *)

Definition oall (P : prog -> bool) (o : option prog) : bool := match o with Some x => P x | None => true end.

(* no contract call of any kind (native calls included) *)
Fixpoint nocalls (p : prog) : bool :=
  match p with
  | NotifyFee | SetFee _ | Move _ _ _ | Call _ _ _ => false
  | Seq p q => nocalls p && nocalls q
  | Try b c f => nocalls b && oall nocalls c && oall nocalls f
  | _ => true
  end.

(* every Call of this contract invocation stands inside a try BODY (so it gets its own layer) *)
Fixpoint bare_free (p : prog) : bool :=
  match p with
  | Call _ _ _ => false
  | Seq p q => bare_free p && bare_free q
  | Try b c f => oall bare_free c && oall bare_free f
  | _ => true
  end.

(* g2: no finally block (at any depth, callee bodies and payment callbacks included) contains a contract call *)
Fixpoint g2 (p : prog) : bool :=
  match p with
  | Move _ _ cb => g2 cb
  | Seq p q => g2 p && g2 q
  | Call _ _ body => g2 body
  | Try b c f => g2 b && oall g2 c && oall nocalls f
  | _ => true
  end.

(* g1: a catch block that is followed by a finally block makes no un-layered call *)
Fixpoint g1 (p : prog) : bool :=
  match p with
  | Move _ _ cb => g1 cb
  | Seq p q => g1 p && g1 q
  | Call _ _ body => g1 body
  | Try b c f => g1 b && oall g1 c && oall g1 f &&
                 (match c, f with Some c', Some _ => bare_free c' | _, _ => true end)
  | _ => true
  end.

Definition guard (pol : policy) (p : prog) : bool :=
  g2 p && match pol with Lazy => g1 p | Eager => true end.

(* ---------- abstraction ---------- *)

Definition abs (s : mstate) : istate := mkI (flat (lay s)) (dflt (nc_get (lay s))) (ntf s) (exc s).
Definition ne (s : mstate) : Prop := lay s <> [].

Lemma ne_cons s : ne s -> exists t rest, lay s = t :: rest.
Proof. unfold ne. destruct (lay s); [congruence|eauto]. Qed.

Lemma abs_put s k v : ne s -> abs (set_lay s (put_top k v (lay s))) = iput (abs s) k v.
Proof. intros H. destruct (ne_cons s H) as (t & r & E). unfold abs, iput. simpl. rewrite E. reflexivity. Qed.

Lemma abs_ntf s e : abs (add_ntf s e) = iadd (abs s) e.
Proof. reflexivity. Qed.

Lemma abs_exc s b : abs (set_exc s b) = iset_exc (abs s) b.
Proof. reflexivity. Qed.

Lemma abs_enter w s : abs (enter w s) = abs s.
Proof. destruct w; reflexivity. Qed.

Lemma frameP_ne t rest n s' : frameP t rest n s' -> ne s'.
Proof. intros (t' & r' & _ & _ & H & _). unfold ne. rewrite H. discriminate. Qed.

Lemma exec_ne pol p cid fl it s :
  ne s -> match exec pol p cid fl it s with Normal s' | Thrown s' => ne s' | Fault _ => True end.
Proof.
  intros H. destruct (ne_cons s H) as (t & r & E). pose proof (exec_frame pol p cid fl it s t r E) as F.
  destruct (exec pol p cid fl it s); simpl in F; auto; eapply frameP_ne; eauto.
Qed.

(* leaving a frame normally with no exception pending: the flat view is what the callee left *)
Lemma unload_commit_abs w s t rest s2 :
  lay s = t :: rest ->
  frameP (fst (entered w t rest)) (snd (entered w t rest)) (ntf s) s2 ->
  exc s2 = false ->
  abs (unload w (length (ntf s)) s2) = abs s2.
Proof.
  intros H (t2 & rest2 & new & newn & H1 & H2 & H3 & H4) X.
  destruct w; simpl in *; auto. unfold unload. rewrite X. inv H3.
  unfold abs. simpl. rewrite H1. simpl. unfold flat. simpl. rewrite <- app_assoc.
  destruct (lnc t2); reflexivity.
Qed.

(* leaving a layered frame with an exception pending: the flat view is what it was at the call *)
Lemma unload_drop_abs s t rest s2 :
  lay s = t :: rest ->
  frameP (mkL [] None) (t :: rest) (ntf s) s2 ->
  exc s2 = true ->
  abs (unload true (length (ntf s)) s2) = rollback (abs s).
Proof.
  intros H (t2 & rest2 & new & newn & H1 & H2 & H3 & H4) X.
  unfold unload. rewrite X. unfold abs, rollback. simpl. rewrite H1. simpl.
  rewrite H4, firstn_app, firstn_all, Nat.sub_diag, app_nil_r. simpl.
  rewrite H, <- (lower_eq_flat _ _ H3), <- (lower_eq_nc _ _ H3). reflexivity.
Qed.

(* ---------- flags ---------- *)

Definition ro (fl : N) : bool := N.land fl (N.lor fW fN) =? 0.

Lemma ro_has fl b : ro fl = true -> N.land (N.lor fW fN) b = b -> b <> 0 -> has fl b = false.
Proof.
  unfold ro, has. intros H Hb Hn. apply N.eqb_eq in H. apply N.eqb_neq. intros E.
  apply Hn. rewrite <- E at 1. rewrite <- Hb at 1. rewrite N.land_assoc, H. reflexivity.
Qed.
Lemma ro_W fl : ro fl = true -> has fl fW = false.
Proof. intros H. apply ro_has; auto; discriminate. Qed.
Lemma ro_N fl : ro fl = true -> has fl fN = false.
Proof. intros H. apply ro_has; auto; discriminate. Qed.
Lemma ro_All fl : ro fl = true -> has fl fAll = false.
Proof.
  intros H. pose proof (ro_W fl H) as W. unfold has in *. apply N.eqb_neq. intros E.
  apply N.eqb_neq in W. apply W.
  change fW with (N.land fAll fW) at 1. rewrite N.land_assoc, E. reflexivity.
Qed.
Lemma ro_land fl f : ro fl = true -> ro (N.land fl f) = true.
Proof.
  unfold ro. intros H. apply N.eqb_eq in H. apply N.eqb_eq.
  rewrite <- N.land_assoc, (N.land_comm f), N.land_assoc, H. reflexivity.
Qed.
Lemma wrapped_ro it fl : ro fl = true -> wrapped it fl = false.
Proof. unfold wrapped, ro. intros ->. destruct it; reflexivity. Qed.
Lemma wrapped_false it fl : wrapped it fl = false -> it = true -> ro fl = true.
Proof. unfold wrapped, ro. intros H ->. destruct (N.land fl (N.lor fW fN) =? 0); auto. Qed.

(* ---------- the pending-exception register ---------- *)

Definition excd (run : mstate -> res) : Prop :=
  forall s, match run s with
            | Normal s' => exc s = false -> exc s' = false
            | Thrown s' => exc s' = true
            | Fault _ => True
            end.
Definition oexcd (o : option (mstate -> res)) : Prop := match o with Some r => excd r | None => True end.

Lemma unload_exc w b s : exc (unload w b s) = exc s.
Proof. unfold unload. destruct w; auto. destruct (exc s) eqn:E; simpl; auto. Qed.

Lemma try_of_excd rb rc rf : excd rb -> oexcd rc -> oexcd rf -> excd (try_of rb rc rf).
Proof.
  intros Hb Hc Hf s. unfold try_of. destruct (is_some rc || is_some rf); auto.
  assert (FIN : forall ne0 s0, (ne0 = true -> exc s0 = false) -> (ne0 = false -> exc s0 = true) ->
                 match fin_of rf ne0 s0 with Normal s' => exc s' = false | Thrown s' => exc s' = true | Fault _ => True end).
  { intros ne0 s0 A B. unfold fin_of. destruct rf as [run|].
    - specialize (Hf s0). destruct (run s0) as [s'|s'|s']; auto.
      destruct (exc s') eqn:E; auto. destruct ne0; auto.
    - destruct ne0; auto. }
  specialize (Hb s). destruct (rb s) as [s1|s1|s1]; auto.
  - destruct (exc s) eqn:E.
    + (* started with an exception pending: only Thrown needs an answer *)
      unfold fin_of. destruct rf as [run|]; [|intros; discriminate].
      specialize (Hf s1). destruct (run s1) as [s'|s'|s']; auto.
      destruct (exc s') eqn:E'; auto.
    + specialize (FIN true s1 (fun _ => Hb eq_refl)). 
      assert (B : true = false -> exc s1 = true) by discriminate. specialize (FIN B).
      destruct (fin_of rf true s1); auto.
  - destruct rc as [run|].
    + specialize (Hc (set_exc s1 false)). destruct (run (set_exc s1 false)) as [s2|s2|s2]; auto.
      * assert (A : exc s2 = false) by (apply Hc; reflexivity).
        specialize (FIN true s2 (fun _ => A)).
        assert (B : true = false -> exc s2 = true) by discriminate. specialize (FIN B).
        destruct (fin_of rf true s2); auto.
      * assert (A : false = true -> exc s2 = false) by discriminate.
        specialize (FIN false s2 A (fun _ => Hc)). destruct (fin_of rf false s2); auto.
    + assert (A : false = true -> exc s1 = false) by discriminate.
      specialize (FIN false s1 A (fun _ => Hb)). destruct (fin_of rf false s1); auto.
Qed.

Lemma exec_exc pol p : forall cid fl it, excd (exec pol p cid fl it).
Proof.
  induction p as [| | | | | |to amt cb IHcb| |p1 p2 IHp1 IHp2|c rf body IHbody|b c f IHb IHc IHf| |] using prog_ind';
    intros cid cf it s; simpl; auto; try (case_if; simpl; auto; fail).
  - (* Move *)
    case_if; auto. case_if. { simpl. rewrite unload_exc. destruct (wrapped it cf); auto. }
    case_if.
    + match goal with |- context [exec pol cb to fAll false ?s3] => specialize (IHcb to fAll false s3); set (S3 := s3) in * end.
      assert (X : exc S3 = exc s) by (subst S3; destruct (wrapped it cf); reflexivity).
      destruct (exec pol cb to fAll false S3) as [s4|s4|s4]; auto.
      destruct (exc s4) eqn:E; auto. simpl. rewrite unload_exc. auto.
    + simpl. rewrite unload_exc. destruct (wrapped it cf); auto.
  - (* SetFee *)
    case_if; auto. simpl. rewrite unload_exc. destruct (wrapped it cf); auto.
  - (* Seq *)
    specialize (IHp1 cid cf it s). destruct (exec pol p1 cid cf it s) as [s1|s1|s1]; auto.
    specialize (IHp2 cid cf it s1). destruct (exec pol p2 cid cf it s1); auto.
  - (* Call *)
    case_if; auto.
    specialize (IHbody c (N.land cf rf) false (enter (wrapped it (N.land cf rf)) s)).
    assert (X : exc (enter (wrapped it (N.land cf rf)) s) = exc s) by (destruct (wrapped it (N.land cf rf)); reflexivity).
    rewrite X in IHbody.
    destruct (exec pol body c (N.land cf rf) false _); simpl; rewrite ?unload_exc; auto.
  - (* Try *)
    apply try_of_excd; [apply IHb | destruct c; simpl in *; auto | destruct f; simpl in *; auto].
Qed.

(* ---------- read-only call flags: nothing changes ---------- *)

Definition pres (run : mstate -> res) : Prop :=
  forall s, match run s with
            | Normal s' | Thrown s' => lay s' = lay s /\ ntf s' = ntf s
            | Fault _ => True
            end.
Definition opres (o : option (mstate -> res)) : Prop := match o with Some r => pres r | None => True end.

Lemma try_of_pres rb rc rf : pres rb -> opres rc -> opres rf -> pres (try_of rb rc rf).
Proof.
  intros Hb Hc Hf s. unfold try_of. destruct (is_some rc || is_some rf); auto.
  assert (FIN : forall ne0 s0, lay s0 = lay s /\ ntf s0 = ntf s ->
                 match fin_of rf ne0 s0 with Normal s' | Thrown s' => lay s' = lay s /\ ntf s' = ntf s | Fault _ => True end).
  { intros ne0 s0 [A B]. unfold fin_of. destruct rf as [run|].
    - specialize (Hf s0). destruct (run s0) as [s'|s'|s']; auto.
      + destruct Hf as [X Y]. destruct (exc s'); [|destruct ne0]; auto; split; congruence.
      + destruct Hf as [X Y]. split; congruence.
    - destruct ne0; auto. }
  specialize (Hb s). destruct (rb s) as [s1|s1|s1]; auto.
  - apply FIN; auto.
  - destruct rc as [run|]; [|apply FIN; auto].
    specialize (Hc (set_exc s1 false)). simpl in Hc.
    destruct (run (set_exc s1 false)) as [s2|s2|s2]; auto; apply FIN; destruct Hb, Hc; split; congruence.
Qed.

Lemma exec_ro pol p : forall cid fl it, ro fl = true -> pres (exec pol p cid fl it).
Proof.
  induction p as [| | | | | |to amt cb IHcb| |p1 p2 IHp1 IHp2|c rf body IHbody|b c f IHb IHc IHf| |] using prog_ind';
    intros cid cf it R s; simpl; auto;
    try (rewrite ?(ro_W _ R), ?(ro_N _ R), ?(ro_All _ R), ?andb_false_r; simpl; auto; fail).
  - (* Seq *)
    specialize (IHp1 cid cf it R s). destruct (exec pol p1 cid cf it s) as [s1|s1|s1]; auto.
    specialize (IHp2 cid cf it R s1). destruct IHp1 as [A B].
    destruct (exec pol p2 cid cf it s1); auto; destruct IHp2; split; congruence.
  - (* Call *)
    case_if; auto.
    rewrite (wrapped_ro it _ (ro_land cf rf R)). simpl.
    specialize (IHbody c (N.land cf rf) false (ro_land cf rf R) s).
    destruct (exec pol body c (N.land cf rf) false s); auto.
  - (* Try *)
    apply try_of_pres; [apply IHb; auto | destruct c; simpl in *; auto | destruct f; simpl in *; auto].
Qed.

(* ---------- programs without contract calls: both semantics do the same ---------- *)

Definition sim_all (r : res) (ri : ires) : Prop :=
  match r, ri with
  | Normal s', INormal i' | Thrown s', IThrown i' => i' = abs s'
  | Fault _, IFault => True
  | _, _ => False
  end.
Definition rel (run : mstate -> res) (irun : istate -> ires) : Prop :=
  forall s, ne s -> sim_all (run s) (irun (abs s)).
Definition orel (o : option (mstate -> res)) (oi : option (istate -> ires)) : Prop :=
  match o, oi with
  | Some r, Some ri => rel r ri
  | None, None => True
  | _, _ => False
  end.

Lemma orel_some o oi : orel o oi -> is_some o = is_some oi.
Proof. destruct o, oi; simpl; tauto. Qed.

Lemma framed_ne run s : framed run -> ne s -> match run s with Normal s' | Thrown s' => ne s' | Fault _ => True end.
Proof.
  intros F H. destruct (ne_cons s H) as (t & r & E). specialize (F s t r E).
  destruct (run s); simpl in F; auto; eapply frameP_ne; eauto.
Qed.

Lemma fin_rel rf irf ne0 s0 :
  orel rf irf -> ne s0 -> sim_all (fin_of rf ne0 s0) (ifin_of irf ne0 (abs s0)).
Proof.
  intros Hf H. unfold fin_of, ifin_of. destruct rf as [run|], irf as [irun|]; simpl in Hf; try tauto.
  - specialize (Hf s0 H). destruct (run s0) as [s'|s'|s'], (irun (abs s0)) as [i'|i'|]; simpl in *; try tauto.
    subst i'. simpl. destruct (exc s'); simpl; auto. destruct ne0; simpl; auto.
  - destruct ne0; simpl; auto.
Qed.

Lemma try_rel rb rc rf irb irc irf :
  rel rb irb -> orel rc irc -> orel rf irf -> framed rb -> oframed rc ->
  rel (try_of rb rc rf) (itry_of irb irc irf).
Proof.
  intros Hb Hc Hf Fb Fc s H. unfold try_of, itry_of.
  rewrite <- (orel_some _ _ Hc), <- (orel_some _ _ Hf).
  destruct (is_some rc || is_some rf); simpl; auto.
  pose proof (Hb s H) as B. pose proof (framed_ne rb s Fb H) as N1.
  destruct (rb s) as [s1|s1|s1], (irb (abs s)) as [i1|i1|]; simpl in B; try tauto; subst.
  - apply fin_rel; auto.
  - destruct rc as [run|], irc as [irun|]; simpl in Hc; try tauto.
    + assert (N1' : ne (set_exc s1 false)) by exact N1.
      pose proof (Hc _ N1') as C. pose proof (framed_ne run _ Fc N1') as N2.
      rewrite abs_exc in C.
      destruct (run (set_exc s1 false)) as [s2|s2|s2], (irun (iset_exc (abs s1) false)) as [i2|i2|];
        simpl in C; try tauto; subst; apply fin_rel; auto.
    + apply fin_rel; auto.
Qed.

Lemma exec_nc pol p : nocalls p = true -> forall cid fl it, rel (exec pol p cid fl it) (iexec p cid fl).
Proof.
  induction p as [| | | | | |to amt cb IHcb| |p1 p2 IHp1 IHp2|c rf body IHbody|b c f IHb IHc IHf| |] using prog_ind';
    intros NC cid cf it s H; simpl in *; try discriminate.
  - reflexivity.
  - case_if; simpl; auto. rewrite abs_put; auto.
  - case_if; simpl; auto. rewrite abs_put; auto.
  - case_if; simpl; auto.
  - case_if; simpl; auto. rewrite lget_flat. reflexivity.
  - (* Seq *)
    apply andb_true_iff in NC. destruct NC as [N1 N2].
    pose proof (IHp1 N1 cid cf it s H) as B. pose proof (exec_ne pol p1 cid cf it s H) as E.
    destruct (exec pol p1 cid cf it s) as [s1|s1|s1], (iexec p1 cid cf (abs s)) as [i1|i1|]; simpl in B; try tauto; subst.
    apply IHp2; auto.
  - (* Try *)
    apply andb_true_iff in NC. destruct NC as [NC N3]. apply andb_true_iff in NC. destruct NC as [N1 N2].
    apply try_rel;
      [apply IHb; auto
      |destruct c; simpl in *; auto; apply IHc; auto
      |destruct f; simpl in *; auto; apply IHf; auto
      |apply exec_frame
      |destruct c; simpl; auto; apply exec_frame
      |exact H].
  - reflexivity.
  - simpl. auto.
Qed.

(* ---------- native state changes in the flat view ---------- *)

Lemma bal_abs s a : bal (lay s) a = ibal (abs s) a.
Proof. unfold bal, ibal. rewrite lget_flat. reflexivity. Qed.

Lemma abs_set_bal s a v : ne s -> abs (set_lay s (set_bal a v (lay s))) = iset_bal a v (abs s).
Proof. intros H. unfold set_bal, iset_bal. apply abs_put; auto. Qed.

Lemma abs_move cid to amt s : ne s -> abs (move_state cid to amt s) = imove cid to amt (abs s).
Proof.
  intros H. unfold move_state, imove. rewrite abs_ntf. f_equal.
  rewrite <- bal_abs. case_if.
  - destruct s; reflexivity.
  - set (s' := set_lay s (set_bal cid (bal (lay s) cid - amt) (lay s))).
    assert (A : abs s' = iset_bal cid (bal (lay s) cid - amt) (abs s)) by (apply abs_set_bal; auto).
    assert (N' : ne s').
    { destruct (ne_cons s H) as (t & r & E). unfold ne, s'. simpl. rewrite E. discriminate. }
    rewrite <- A, <- bal_abs.
    exact (abs_set_bal s' to (bal (lay s') to + amt) N').
Qed.

Lemma abs_setfee v s : ne s -> abs (setfee_state v s) = isetfee v (abs s).
Proof.
  intros H. destruct (ne_cons s H) as (t & r & E). unfold setfee_state, isetfee, abs. rewrite E. simpl.
  match goal with |- context [nc_set v (?tt :: ?rr)] =>
    destruct (nc_set_frame tt rr v) as (t' & rest' & N1 & N2 & N3);
    assert (G : nc_get (nc_set v (tt :: rr)) = Some v) end.
  { unfold nc_set. simpl. destruct (lnc t); simpl; auto. destruct (nc_rw r); reflexivity. }
  rewrite G. rewrite N1. pose proof (lower_eq_flat _ _ N3) as L. unfold flat in *. simpl. rewrite N2. simpl.
  rewrite <- L. reflexivity.
Qed.

(* ---------- the simulation ---------- *)

(* C: the flat views are still related when the program THROWS.  They are not when an un-layered callee has
   thrown (its writes are still in the caller's layer); C = "we are inside a try body of this contract
   invocation, or the program makes no call outside one". *)
Definition simP (C : bool) (run : mstate -> res) (irun : istate -> ires) : Prop :=
  forall s, ne s -> exc s = false ->
    match run s, irun (abs s) with
    | Normal s', INormal i' => i' = abs s'
    | Thrown s', IThrown i' => C = true -> i' = abs s'
    | Fault _, IFault => True
    | _, _ => False
    end.
Definition osimP (C : bool) (o : option (mstate -> res)) (oi : option (istate -> ires)) : Prop :=
  match o, oi with
  | Some r, Some ri => simP C r ri
  | None, None => True
  | _, _ => False
  end.

Lemma osimP_some C o oi : osimP C o oi -> is_some o = is_some oi.
Proof. destruct o, oi; simpl; tauto. Qed.

Lemma sim_all_weaken C r ri :
  sim_all r ri ->
  match r, ri with
  | Normal s', INormal i' => i' = abs s'
  | Thrown s', IThrown i' => C = true -> i' = abs s'
  | Fault _, IFault => True
  | _, _ => False
  end.
Proof. destruct r, ri; simpl; auto. Qed.

Lemma try_sim C Cc rb rc rf irb irc irf :
  simP true rb irb -> osimP Cc rc irc -> orel rf irf -> framed rb -> oframed rc ->
  (is_some rf = true -> Cc = true) -> (C = true -> Cc = true) ->
  simP C (try_of rb rc rf) (itry_of irb irc irf).
Proof.
  intros Hb Hc Hf Fb Fc G1 G2 s H X. unfold try_of, itry_of.
  rewrite <- (osimP_some _ _ _ Hc), <- (orel_some _ _ Hf).
  destruct (is_some rc || is_some rf); simpl; auto.
  pose proof (Hb s H X) as B. pose proof (framed_ne rb s Fb H) as N1.
  destruct (rb s) as [s1|s1|s1], (irb (abs s)) as [i1|i1|]; simpl in B; try tauto.
  - subst. apply sim_all_weaken, fin_rel; auto.
  - specialize (B eq_refl). subst.
    destruct rc as [run|], irc as [irun|]; simpl in Hc; try tauto.
    + assert (N1' : ne (set_exc s1 false)) by exact N1.
      pose proof (Hc _ N1' eq_refl) as CC. pose proof (framed_ne run _ Fc N1') as N2.
      rewrite abs_exc in CC.
      destruct (run (set_exc s1 false)) as [s2|s2|s2], (irun (iset_exc (abs s1) false)) as [i2|i2|];
        simpl in CC; try tauto.
      * subst. apply sim_all_weaken, fin_rel; auto.
      * destruct rf as [runf|] eqn:RF, irf as [irunf|]; simpl in Hf; try tauto.
        -- rewrite (CC (G1 eq_refl)). apply sim_all_weaken.
           apply (fin_rel (Some runf) (Some irunf)); auto.
        -- simpl. intros HC. apply CC, G2, HC.
    + apply sim_all_weaken, fin_rel; auto.
Qed.

Ltac split_guard G :=
  unfold guard in G; simpl in G;
  repeat (rewrite ?andb_true_iff in G).

Lemma guard_seq pol p q : guard pol (Seq p q) = true -> guard pol p = true /\ guard pol q = true.
Proof. unfold guard. simpl. destruct pol; rewrite ?andb_true_iff; tauto. Qed.
Lemma guard_call pol c f b : guard pol (Call c f b) = true -> guard pol b = true.
Proof. auto. Qed.
Lemma guard_move pol to amt cb : guard pol (Move to amt cb) = true -> guard pol cb = true.
Proof. auto. Qed.
Lemma guard_try pol b c f :
  guard pol (Try b c f) = true ->
  guard pol b = true /\ oall (guard pol) c = true /\ oall nocalls f = true /\
  (pol = Lazy -> match c, f with Some c', Some _ => bare_free c' = true | _, _ => True end).
Proof.
  unfold guard. simpl. destruct pol; intros H; repeat (apply andb_true_iff in H; destruct H as [H ?]).
  - repeat (match goal with X : _ && _ = true |- _ => apply andb_true_iff in X; destruct X end).
    split; [|split; [|split]]; auto.
    + apply andb_true_iff; auto.
    + destruct c; simpl in *; auto. apply andb_true_iff; auto.
    + intros _. destruct c, f; auto.
  - split; [|split; [|split]]; auto.
    + rewrite H. reflexivity.
    + destruct c; simpl in *; auto. rewrite andb_true_r. auto.
    + discriminate.
Qed.

Theorem exec_sim pol p :
  guard pol p = true -> forall cid fl it, simP (it || bare_free p) (exec pol p cid fl it) (iexec p cid fl).
Proof.
  induction p as [| | | | | |to amt cb IHcb| |p1 p2 IHp1 IHp2|c rf body IHbody|b c f IHb IHc IHf| |] using prog_ind';
    intros G cid cf it s H X; simpl exec; simpl iexec.
  - reflexivity.
  - case_if; simpl; auto. rewrite abs_put; auto.
  - case_if; simpl; auto. rewrite abs_put; auto.
  - case_if; simpl; auto.
  - case_if; simpl; auto. rewrite lget_flat. reflexivity.
  - case_if; simpl; auto.
  - (* Move *)
    case_if; simpl; auto.
    set (w := wrapped it cf). destruct (ne_cons s H) as (t & rest & E).
    destruct (enter_lay w s t rest E) as (E1 & E2 & E3).
    assert (N1 : ne (enter w s)) by (unfold ne; rewrite E1; discriminate).
    rewrite bal_abs, abs_enter.
    case_if.
    { simpl. rewrite unload_commit_abs with (t := t) (rest := rest); auto.
      - symmetry. apply abs_enter.
      - rewrite <- E2. apply frameP_refl; auto.
      - congruence. }
    pose proof (move_state_frame cid to amt _ _ _ E1) as F3. rewrite E2 in F3.
    pose proof (abs_move cid to amt _ N1) as A3. rewrite abs_enter in A3.
    assert (X3 : exc (move_state cid to amt (enter w s)) = false) by (simpl; congruence).
    case_if.
    + pose proof (IHcb (guard_move _ _ _ _ G) to fAll false _ (frameP_ne _ _ _ _ F3) X3) as B.
      rewrite A3 in B.
      pose proof (exec_exc pol cb to fAll false (move_state cid to amt (enter w s))) as XX.
      destruct F3 as (t3 & r3 & new3 & newn3 & G1 & G2 & G3 & G4).
      pose proof (exec_frame pol cb to fAll false _ _ _ G1) as FR.
      destruct (exec pol cb to fAll false (move_state cid to amt (enter w s))) as [s4|s4|s4],
               (iexec cb to fAll (imove cid to amt (abs s))) as [i4|i4|]; simpl in B; try tauto.
      subst i4. rewrite (XX X3). simpl.
      rewrite unload_commit_abs with (t := t) (rest := rest); auto.
      simpl in FR. eapply frameP_trans.
      { exists t3, r3, new3, newn3. repeat split; eauto. }
      intros t1 rest1 L1. rewrite G1 in L1. inv L1. exact FR.
    + simpl. rewrite unload_commit_abs with (t := t) (rest := rest); auto.
  - (* SetFee *)
    case_if; simpl; auto.
    set (w := wrapped it cf). destruct (ne_cons s H) as (t & rest & E).
    destruct (enter_lay w s t rest E) as (E1 & E2 & E3).
    assert (N1 : ne (enter w s)) by (unfold ne; rewrite E1; discriminate).
    rewrite unload_commit_abs with (t := t) (rest := rest); auto.
    + rewrite abs_setfee, abs_enter; auto.
    + rewrite <- E2. apply setfee_state_frame; auto.
    + simpl. congruence.
  - (* Seq *)
    apply guard_seq in G. destruct G as [Ga Gb].
    pose proof (IHp1 Ga cid cf it s H X) as B.
    pose proof (exec_ne pol p1 cid cf it s H) as N1.
    pose proof (exec_exc pol p1 cid cf it s) as X1.
    destruct (exec pol p1 cid cf it s) as [s1|s1|s1], (iexec p1 cid cf (abs s)) as [i1|i1|]; simpl in B; try tauto.
    + subst i1. pose proof (IHp2 Gb cid cf it s1 N1 (X1 X)) as B2.
      destruct (exec pol p2 cid cf it s1), (iexec p2 cid cf (abs s1)); simpl in B2; try tauto.
      intros HC. apply B2. simpl in HC. destruct it; simpl in *; auto.
      apply andb_true_iff in HC. tauto.
    + intros HC. apply B. simpl in HC. destruct it; simpl in *; auto.
      apply andb_true_iff in HC. tauto.
  - (* Call *)
    case_if; simpl; auto.
    set (fe := N.land cf rf). set (w := wrapped it fe). destruct (ne_cons s H) as (t & rest & E).
    destruct (enter_lay w s t rest E) as (E1 & E2 & E3).
    assert (N1 : ne (enter w s)) by (unfold ne; rewrite E1; discriminate).
    assert (X1 : exc (enter w s) = false) by congruence.
    pose proof (IHbody (guard_call _ _ _ _ G) c fe false _ N1 X1) as B. rewrite abs_enter in B.
    pose proof (exec_exc pol body c fe false (enter w s)) as XX.
    pose proof (exec_frame pol body c fe false _ _ _ E1) as FR. rewrite E2 in FR.
    pose proof (fun R => exec_ro pol body c fe false R (enter w s)) as PR.
    destruct (exec pol body c fe false (enter w s)) as [s2|s2|s2], (iexec body c fe (abs s)) as [i2|i2|];
      simpl in B; try tauto.
    + subst i2. simpl in FR. rewrite unload_commit_abs with (t := t) (rest := rest); auto.
    + simpl in FR. intros HC. rewrite orb_false_r in HC. subst it.
      destruct w eqn:W.
      * symmetry. apply unload_drop_abs with (t := t) (rest := rest); auto.
      * (* not layered although inside a try body: the effective flags are read-only *)
        destruct (PR (wrapped_false _ _ W eq_refl)) as [P1 P2].
        unfold unload, rollback, abs. simpl. rewrite P1, P2, XX. reflexivity.
  - (* Try *)
    destruct (guard_try _ _ _ _ G) as (Gb & Gc & Gf & Gl).
    apply (try_sim (it || bare_free (Try b c f)) (catch_it pol it (is_some f) || oall bare_free c));
      [ apply (IHb Gb cid cf true)
      | destruct c; simpl in *; auto; apply IHc; auto
      | destruct f; simpl in *; auto; apply exec_nc; auto
      | apply exec_frame
      | destruct c; simpl; auto; apply exec_frame
      | | | exact H | exact X ].
    + intros Hs. destruct f; simpl in Hs; try discriminate. simpl.
      destruct pol; simpl.
      * specialize (Gl eq_refl). destruct c; simpl in *; [rewrite Gl|]; apply orb_true_r.
      * destruct it; reflexivity.
    + simpl. intros HC. destruct it; simpl in *.
      * destruct pol; reflexivity.
      * apply andb_true_iff in HC. destruct HC as [HC _]. rewrite HC. apply orb_true_r.
  - (* Throw *)
    simpl. intros _. reflexivity.
  - (* Abort *)
    simpl. auto.
Qed.

(* ---------- transactions ---------- *)

Lemma abs_start base : abs (start base) = istart base.
Proof. unfold abs, start, istart, flat. simpl. rewrite app_nil_r. destruct (lnc base); reflexivity. Qed.

Lemma lower_eq_single base r : lower_eq [base] r -> r = [base].
Proof.
  intros H. inversion H as [|l l' r0 r' A B C]; subst. inversion B; subst. simpl in C.
  destruct base as [a x], l' as [b y]; simpl in *. subst.
  destruct x, y; congruence.
Qed.

(* a transaction that does not halt leaves the block-level layer exactly as it was: for ALL programs *)
Theorem run_tx_fault pol base p : halted (run_tx pol base p) = false -> after (run_tx pol base p) = base.
Proof.
  unfold run_tx. pose proof (exec_frame pol p ENTRY fAll false (start base) _ _ eq_refl) as F.
  destruct (exec pol p ENTRY fAll false (start base)) as [s'|s'|s']; simpl in *; try discriminate; intros _.
  - destruct F as (t' & r' & new & newn & H1 & _ & H3 & _). apply lower_eq_single in H3. subst.
    unfold bottom. rewrite H1. reflexivity.
  - destruct F as (pre & r' & H1 & H3). apply lower_eq_single in H3. subst.
    unfold bottom. rewrite H1. apply last_last.
Qed.

Definition tx_agree (m : txout) (i : iout) : Prop :=
  halted m = ihalted i /\
  (halted m = true ->
     lst (after m) = ist (iafter i) /\ dflt (lnc (after m)) = ifee (iafter i) /\ events m = intf (iafter i)).

Theorem run_tx_exact pol base p : guard pol p = true -> tx_agree (run_tx pol base p) (irun_tx base p).
Proof.
  intros G. unfold run_tx, irun_tx, tx_agree.
  assert (N0 : ne (start base)) by (unfold ne; simpl; discriminate).
  pose proof (exec_sim pol p G ENTRY fAll false (start base) N0 eq_refl) as S. rewrite abs_start in S.
  pose proof (exec_frame pol p ENTRY fAll false (start base) _ _ eq_refl) as F.
  destruct (exec pol p ENTRY fAll false (start base)) as [s'|s'|s'],
           (iexec p ENTRY fAll (istart base)) as [i'|i'|]; simpl in *; try tauto;
    try (split; [reflexivity|discriminate]).
  subst i'. split; auto. intros _.
  destruct F as (t' & r' & new & newn & H1 & _ & H3 & _). apply lower_eq_single in H3. subst.
  rewrite H1. simpl. unfold abs. rewrite H1. unfold flat. simpl. rewrite app_nil_r. repeat split; auto.
  destruct (lnc t'), (lnc base); reflexivity.
Qed.

(* ---------- a caught failing call leaves no trace: what comes before and after it is kept ---------- *)

Definition obs_eq (r r' : res) : Prop :=
  match r, r' with
  | Normal a, Normal b => abs a = abs b
  | Thrown _, Thrown _ => True
  | Fault _, Fault _ => True
  | _, _ => False
  end.

Definition caught (c f : N) (body : prog) : prog := Try (Call c f body) (Some Skip) None.

Theorem caught_call_no_trace pol pre post c f body cid fl it s :
  guard pol (Seq pre (Seq (caught c f body) post)) = true ->
  ne s -> exc s = false ->
  (forall s1, exec pol pre cid fl it s = Normal s1 -> exists s2, exec pol (Call c f body) cid fl true s1 = Thrown s2) ->
  obs_eq (exec pol (Seq pre (Seq (caught c f body) post)) cid fl it s) (exec pol (Seq pre post) cid fl it s).
Proof.
  intros G H X T.
  assert (GQ : guard pol (Seq pre post) = true).
  { apply guard_seq in G. destruct G as [G1 G2]. apply guard_seq in G2. destruct G2 as [_ G3].
    unfold guard in *. simpl. destruct pol; rewrite ?andb_true_iff in *; tauto. }
  pose proof (exec_sim pol _ G cid fl it s H X) as SP.
  pose proof (exec_sim pol _ GQ cid fl it s H X) as SQ.
  assert (EQ : iexec (Seq pre (Seq (caught c f body) post)) cid fl (abs s) = iexec (Seq pre post) cid fl (abs s)).
  { apply guard_seq in G. destruct G as [G1 G2]. apply guard_seq in G2. destruct G2 as [G2 _].
    pose proof (exec_sim pol pre G1 cid fl it s H X) as S1.
    pose proof (exec_ne pol pre cid fl it s H) as N1. pose proof (exec_exc pol pre cid fl it s) as X1.
    unfold caught. cbn [iexec].
    destruct (exec pol pre cid fl it s) as [s1|s1|s1] eqn:EP, (iexec pre cid fl (abs s)) as [i1|i1|] eqn:EI;
      simpl in S1; try tauto. subst i1.
    destruct (T s1 eq_refl) as (s2 & T2).
    assert (GC : guard pol (Call c f body) = true).
    { unfold guard, caught in *. simpl in G2. destruct pol; rewrite ?andb_true_iff in *; simpl; rewrite ?andb_true_iff; tauto. }
    pose proof (exec_sim pol _ GC cid fl true s1 N1 (X1 X)) as SC. rewrite T2 in SC.
    cbn [iexec] in SC. unfold itry_of. simpl.
    destruct (has fl fR && has fl fC && (f <=? fAll) && is_contract c); [|tauto].
    destruct (iexec body c (N.land fl f) (abs s1)); try tauto.
    simpl. unfold rollback, iset_exc. simpl.
    assert (A : {| ist := flat (lay s1); ifee := dflt (nc_get (lay s1)); intf := ntf s1; iexc := false |} = abs s1).
    { unfold abs. rewrite (X1 X). reflexivity. }
    rewrite A. reflexivity. }
  rewrite EQ in SP.
  destruct (exec pol (Seq pre (Seq (caught c f body) post)) cid fl it s),
           (exec pol (Seq pre post) cid fl it s),
           (iexec (Seq pre post) cid fl (abs s)); simpl in *; try tauto.
  congruence.
Qed.
