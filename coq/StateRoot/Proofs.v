(* C03: from a block's writes to the batch, and by induction over blocks to "content of the trie = storage". *)
From Coq Require Import Permutation.
From NG Require Import Common.Tactics StateRoot.Model StateRoot.Order.
Open Scope N_scope.

(* ---- a change list applied to storage, seen from one key ---- *)
Definition run1 (k : bytes) (acc : option val) (c : change) : option val := if beq k (fst c) then snd c else acc.
Definition runk (k : bytes) (cs : list change) (acc : option val) : option val := fold_left (run1 k) cs acc.

Lemma get_apply1 k s c : ssorted s -> sm_get k (sm_apply1 s c) = run1 k (sm_get k s) c.
Proof.
  intros S. unfold sm_apply1, run1. destruct c as [kc [v|]]; simpl.
  - rewrite get_set. reflexivity.
  - rewrite get_del by assumption. reflexivity.
Qed.
Lemma sorted_apply1 s c : ssorted s -> ssorted (sm_apply1 s c).
Proof. intros S. unfold sm_apply1. destruct (snd c); [apply sorted_set|apply sorted_del]; assumption. Qed.

Lemma sorted_map_apply : forall cs s, ssorted s -> ssorted (map_apply cs s).
Proof.
  unfold map_apply. induction cs as [|c r IH]; intros s S; simpl; [assumption|]. apply IH, sorted_apply1, S.
Qed.
Lemma get_map_apply : forall cs s k, ssorted s -> sm_get k (map_apply cs s) = runk k cs (sm_get k s).
Proof.
  unfold map_apply, runk. induction cs as [|c r IH]; intros s k S; simpl; [reflexivity|].
  rewrite IH by (apply sorted_apply1; assumption). rewrite get_apply1 by assumption. reflexivity.
Qed.

(* ---- the change map of a block: later write wins ---- *)
Definition lw1 (k : bytes) (acc : option (option val)) (c : change) : option (option val) :=
  if beq k (fst c) then Some (snd c) else acc.
Definition last_write (k : bytes) (ws : list change) (acc : option (option val)) : option (option val) :=
  fold_left (lw1 k) ws acc.
Definition eff (o : option (option val)) (base : option val) : option val :=
  match o with Some ov => ov | None => base end.

Lemma cm_fold_sorted : forall (ws m : list change), ssorted m -> ssorted (fold_left (fun m c => sm_set (fst c) (snd c) m) ws m).
Proof. induction ws as [|c r IH]; intros m S; simpl; [assumption|]. apply IH, sorted_set, S. Qed.
Lemma cm_sorted ws : ssorted (cm_of_writes ws).
Proof. apply cm_fold_sorted. exact I. Qed.

Lemma cm_fold_get k : forall (ws m : list change),
  sm_get k (fold_left (fun m c => sm_set (fst c) (snd c) m) ws m) = last_write k ws (sm_get k m).
Proof.
  unfold last_write. induction ws as [|c r IH]; intros m; simpl; [reflexivity|].
  rewrite IH, get_set. reflexivity.
Qed.
Lemma cm_get k ws : sm_get k (cm_of_writes ws) = last_write k ws None.
Proof. apply cm_fold_get. Qed.

Lemma runk_eff k : forall ws acc base, eff (last_write k ws acc) base = runk k ws (eff acc base).
Proof.
  unfold last_write, runk. induction ws as [|c r IH]; intros acc base; simpl; [reflexivity|].
  rewrite IH. f_equal. unfold lw1, run1. destruct (beq k (fst c)); reflexivity.
Qed.

(* on a list with distinct keys the outcome for a key is its binding, whatever the order *)
Lemma runk_nomatch k : forall cs acc, (forall c, In c cs -> fst c <> k) -> runk k cs acc = acc.
Proof.
  unfold runk. induction cs as [|c r IH]; intros acc H; simpl; [reflexivity|].
  rewrite IH by (intros; apply H; right; assumption). unfold run1.
  destruct (beq k (fst c)) eqn:E; [|reflexivity]. apply beq_true in E. exfalso. apply (H c); [left; reflexivity|auto].
Qed.
Lemma runk_sorted k : forall cs acc, ssorted cs -> runk k cs acc = eff (sm_get k cs) acc.
Proof.
  induction cs as [|[kc ov] r IH]; intros acc S; [reflexivity|]. destruct S as [L S].
  change (runk k ((kc, ov) :: r) acc) with (runk k r (run1 k acc (kc, ov))). simpl. unfold run1. simpl.
  destruct (beq k kc) eqn:E.
  - apply beq_true in E. subst kc. simpl. apply runk_nomatch. intros c HI E.
    unfold lb in L. rewrite Forall_forall in L. specialize (L c HI). rewrite E, bcmp_refl in L. discriminate.
  - apply IH. assumption.
Qed.

(* applying the block's change map = applying the block's writes one after another *)
Theorem map_apply_cm ws s : ssorted s -> map_apply (cm_of_writes ws) s = map_apply ws s.
Proof.
  intros S. apply sm_ext; try (apply sorted_map_apply; assumption).
  intros k. rewrite !get_map_apply by assumption.
  rewrite runk_sorted by apply cm_sorted. rewrite cm_get. apply runk_eff.
Qed.

(* ---- MapToMPTBatch ---- *)
Definition stripc (c : change) : change := (strip (fst c), snd c).

Lemma nib_change_cmp x y : bcmp (fst (nib_change x)) (fst (nib_change y)) = bcmp (fst x) (fst y).
Proof. apply nibbles_cmp. Qed.

Lemma to_batch_alt m : to_batch m = isort (map nib_change (map stripc m)).
Proof. unfold to_batch. rewrite map_map. reflexivity. Qed.

(* the batch is the same for every enumeration order of the map *)
Theorem batch_order_irrelevant m1 m2 :
  Permutation m1 m2 -> NoDup (map (fun c => to_nibbles (strip (fst c))) m1) -> to_batch m1 = to_batch m2.
Proof.
  intros P ND. unfold to_batch.
  set (f := fun c : change => (to_nibbles (strip (fst c)), snd c)).
  assert (ND1 : NoDup (map fst (map f m1))) by (rewrite map_map; exact ND).
  assert (ND2 : NoDup (map fst (map f m2))).
  { eapply Permutation_NoDup; [|exact ND1]. apply Permutation_map, Permutation_map. exact P. }
  apply sorted_perm_eq; try (apply isort_sorted; assumption).
  rewrite !isort_perm. apply Permutation_map. exact P.
Qed.

(* and it is the change map in key order, with nibble paths *)
Theorem to_batch_spec m cm :
  ssorted cm -> Permutation (map stripc m) cm -> to_batch m = map nib_change cm.
Proof.
  intros S P. rewrite to_batch_alt. apply sorted_perm_eq.
  - apply isort_sorted. eapply Permutation_NoDup.
    + apply Permutation_map, Permutation_map, Permutation_sym. exact P.
    + apply ssorted_nodup. apply (sorted_map nib_change nib_change_cmp). exact S.
  - apply (sorted_map nib_change nib_change_cmp). exact S.
  - rewrite isort_perm. apply Permutation_map. exact P.
Qed.

(* ---- the range of the specification is the one C09 proves for every store (Store/Spec.v in_range):
        forwards  prefix++start <= key;  backwards  key <= prefix++start  or  key extends prefix++start ---- *)
Definition ble (a b : bytes) : bool := match bcmp a b with Gt => false | _ => true end.

Lemma prefix_le : forall p k, is_prefix p k = true -> ble p k = true.
Proof.
  unfold ble. induction p as [|x p IH]; intros [|y k]; simpl; try reflexivity; try discriminate.
  intros H. apply andb_true_iff in H. destruct H as [E H]. apply N.eqb_eq in E. subst. rewrite N.compare_refl. auto.
Qed.

Theorem in_range_c09_form P S bw k :
  in_range P S bw k =
  is_prefix P k && (if bw then ble k (P ++ S) || is_prefix (P ++ S) k else ble (P ++ S) k).
Proof.
  unfold in_range. destruct (is_prefix P k) eqn:HP; [|reflexivity]. simpl.
  destruct S as [|s0 S'].
  - rewrite app_nil_r. destruct bw; [rewrite HP, orb_true_r; reflexivity|]. symmetry. apply prefix_le. exact HP.
  - set (ps := P ++ s0 :: S'). unfold ble. destruct bw.
    + destruct (bcmp k ps); reflexivity.
    + rewrite (bcmp_opp k ps). destruct (bcmp k ps); reflexivity.
Qed.

(* ---- blocks ---- *)
Definition storage_after (s : smap) (blocks : list (list change)) : smap :=
  fold_left (fun s ws => map_apply ws s) blocks s.

Lemma storage_after_sorted : forall bs s, ssorted s -> ssorted (storage_after s bs).
Proof.
  unfold storage_after. induction bs as [|ws r IH]; intros s S; simpl; [assumption|].
  apply IH, sorted_map_apply, S.
Qed.

(* every binding of the change map is one of the block's writes *)
Lemma cm_fold_in : forall (ws m : list change) c,
  In c (fold_left (fun m c => sm_set (fst c) (snd c) m) ws m) -> In c ws \/ In c m.
Proof.
  induction ws as [|w r IH]; intros m c HI; simpl in *; [auto|].
  destruct (IH _ _ HI) as [H|H]; [auto|].
  assert (K : forall (m0 : list change) k v x, In x (sm_set k v m0) -> x = (k, v) \/ In x m0).
  { induction m0 as [|[k0 v0] t IHm]; simpl; intros k v x Hx; [destruct Hx as [<-|[]]; auto|].
    destruct (bcmp k k0); simpl in Hx.
    - destruct Hx as [<-|Hx]; auto.
    - destruct Hx as [<-|Hx]; auto.
    - destruct Hx as [<-|Hx]; [auto|]. destruct (IHm _ _ _ Hx); auto. }
  destruct (K _ _ _ _ H) as [->|H']; [left; left; destruct w; reflexivity|auto].
Qed.
Lemma cm_forall (P : change -> Prop) ws : Forall P ws -> Forall P (cm_of_writes ws).
Proof.
  intros F. apply Forall_forall. intros c HI. destruct (cm_fold_in _ _ _ HI) as [H|[]].
  rewrite Forall_forall in F. auto.
Qed.

Section Interface.
  (* the abstract trie: what C03 needs from a model of pkg/core/mpt; instantiated by the concrete model of C10
     (coq/Trie) in StateRoot/Concrete.v, where every hypothesis below is proved from the C10 theorems *)
  Variable trie : Type.
  Variable hashT : Type.                                 (* state roots *)
  Variable empty_trie : trie.
  Variable content : trie -> smap.                       (* the key/value pairs a trie holds, in key order *)
  Variable apply_batch : trie -> list change -> trie.    (* Trie.PutBatch on a batch of (nibble path, value-or-delete) *)
  Variable root : trie -> hashT.                         (* Trie.StateRoot *)
  Variable get_proof : trie -> bytes -> option (list bytes).
  Variable verify_proof : hashT -> bytes -> list bytes -> option val.
  Variable Collision : Prop.                             (* two distinct byte strings with the same double SHA-256 are exhibited *)
  Variable tinv : trie -> Prop.                          (* invariant of the tries a node builds (normal form, ...) *)
  Variable ok : change -> Prop.                          (* admissible write (key is a byte string within the limits, ...) *)

  Hypothesis inv_empty : tinv empty_trie.
  Hypothesis content_empty : content empty_trie = [].
  (* C10 batch_content: PutBatch of a sorted duplicate-free batch changes the content as the batch says *)
  Hypothesis batch_content : forall t b, tinv t -> ssorted b -> Forall ok b -> ssorted (content t) ->
    tinv (apply_batch t (map nib_change b)) /\
    content (apply_batch t (map nib_change b)) = map_apply b (content t).

  (* one block: admissible writes [ws] in execution order; [m] is the order in which Go happened to enumerate the map *)
  Inductive trie_run : trie -> list (list change) -> trie -> Prop :=
  | run_nil t : trie_run t [] t
  | run_cons t ws m bs t' :
      Forall ok ws ->
      Permutation (map stripc m) (cm_of_writes ws) ->
      trie_run (apply_batch t (to_batch m)) bs t' ->
      trie_run t (ws :: bs) t'.
  Definition reachable (t : trie) : Prop := exists bs, trie_run empty_trie bs t.

  Theorem root_commits_from : forall bs t t',
    tinv t -> ssorted (content t) -> trie_run t bs t' -> tinv t' /\ content t' = storage_after (content t) bs.
  Proof.
    induction bs as [|ws r IH]; intros t t' T S R;
      [inversion R; subst; auto|inversion R as [|? ? m ? ? Hok Hperm Hrun]; subst].
    assert (E : tinv (apply_batch t (to_batch m)) /\ content (apply_batch t (to_batch m)) = map_apply ws (content t)).
    { rewrite (to_batch_spec m (cm_of_writes ws) (cm_sorted ws) Hperm).
      destruct (batch_content t (cm_of_writes ws) T (cm_sorted ws) (cm_forall ok ws Hok) S) as [T1 E1].
      split; [exact T1|]. rewrite E1. apply map_apply_cm. assumption. }
    destruct E as [T1 E].
    destruct (IH _ _ T1 (eq_ind_r ssorted (sorted_map_apply ws _ S) E) Hrun) as [T2 E2].
    split; [exact T2|]. rewrite E2, E. reflexivity.
  Qed.

  (* root_commits: after any history of blocks the trie holds exactly contract storage *)
  Theorem root_commits bs t : trie_run empty_trie bs t -> content t = storage_after [] bs.
  Proof.
    intros R. rewrite <- content_empty.
    apply (root_commits_from bs empty_trie t inv_empty); [rewrite content_empty; exact I|exact R].
  Qed.
  Lemma reachable_inv t : reachable t -> tinv t.
  Proof.
    intros [bs R]. apply (root_commits_from bs empty_trie t inv_empty); [rewrite content_empty; exact I|exact R].
  Qed.

  (* historic_read_eq_live: point reads and ordered range reads on the trie's content are those on storage *)
  Theorem historic_read_eq_live bs t :
    trie_run empty_trie bs t ->
    (forall k, sm_get k (content t) = sm_get k (storage_after [] bs)) /\
    (forall prefix start bw, sm_range prefix start bw (content t) = sm_range prefix start bw (storage_after [] bs)).
  Proof. intros R. rewrite (root_commits bs t R). auto. Qed.

  (* C10 NF_unique + NF preservation: tries reached by batches with equal content have equal roots *)
  Hypothesis root_canonical : forall t1 t2, reachable t1 -> reachable t2 -> content t1 = content t2 -> root t1 = root t2.

  (* the root is a function of contract storage alone *)
  Theorem root_function_of_storage bs1 bs2 t1 t2 :
    trie_run empty_trie bs1 t1 -> trie_run empty_trie bs2 t2 ->
    storage_after [] bs1 = storage_after [] bs2 -> root t1 = root t2.
  Proof.
    intros R1 R2 E. apply root_canonical; [exists bs1; exact R1|exists bs2; exact R2|].
    rewrite (root_commits _ _ R1), (root_commits _ _ R2). exact E.
  Qed.

  (* C10 proof_complete / proof_sound: both up to an exhibited collision *)
  Hypothesis proof_complete : forall t k v, reachable t -> sm_get k (content t) = Some v ->
    exists p, get_proof t k = Some p /\ (verify_proof (root t) k p = Some v \/ Collision).
  Hypothesis proof_sound : forall t k p v, reachable t -> verify_proof (root t) k p = Some v ->
    sm_get k (content t) = Some v \/ Collision.

  Theorem proof_at_height_complete bs t k v :
    trie_run empty_trie bs t -> sm_get k (storage_after [] bs) = Some v ->
    exists p, get_proof t k = Some p /\ (verify_proof (root t) k p = Some v \/ Collision).
  Proof. intros R G. apply proof_complete; [exists bs; exact R|]. rewrite (root_commits _ _ R). exact G. Qed.

  Theorem proof_at_height_sound bs t k p v :
    trie_run empty_trie bs t -> verify_proof (root t) k p = Some v ->
    sm_get k (storage_after [] bs) = Some v \/ Collision.
  Proof.
    intros R V. destruct (proof_sound t k p v (ex_intro _ bs R) V) as [G|C]; [left|right; exact C].
    rewrite <- (root_commits _ _ R). exact G.
  Qed.

  (* no proof verifies for an absent key or to another value, short of a hash collision *)
  Corollary no_proof_for_absent_or_other bs t k p v :
    trie_run empty_trie bs t -> sm_get k (storage_after [] bs) <> Some v ->
    verify_proof (root t) k p = Some v -> Collision.
  Proof. intros R N V. destruct (proof_at_height_sound bs t k p v R V) as [G|C]; [contradiction|exact C]. Qed.

  (* C10 C10_seek_spec (TrieStore.Seek = range query on the trie's entries, both directions, any prefix and start) *)
  Variable seek : trie -> bytes -> bytes -> bool -> smap.
  Hypothesis seek_spec : forall t P S bw, reachable t -> seek t P S bw = sm_range P S bw (content t).

  (* a range search at root_h returns what the same range search on the contract storage of height h returns *)
  Theorem seek_at_height bs t P S bw :
    trie_run empty_trie bs t -> seek t P S bw = sm_range P S bw (storage_after [] bs).
  Proof. intros R. rewrite (seek_spec t P S bw (ex_intro _ bs R)), (root_commits _ _ R). reflexivity. Qed.
End Interface.

(* the premises of the abstract theorems, named (Properties/C03.v) *)
Definition iface_batch {trie : Type} (content : trie -> smap) (apply_batch : trie -> list change -> trie)
  (tinv : trie -> Prop) (ok : change -> Prop) : Prop :=
  forall t b, tinv t -> ssorted b -> Forall ok b -> ssorted (content t) ->
    tinv (apply_batch t (map nib_change b)) /\ content (apply_batch t (map nib_change b)) = map_apply b (content t).
Definition iface_base {trie : Type} (empty_trie : trie) (content : trie -> smap) (apply_batch : trie -> list change -> trie)
  (tinv : trie -> Prop) (ok : change -> Prop) : Prop :=
  tinv empty_trie /\ content empty_trie = [] /\ iface_batch content apply_batch tinv ok.

Section AbstractStatements.
  Context {trie hashT : Type} (empty_trie : trie) (content : trie -> smap) (apply_batch : trie -> list change -> trie)
          (root : trie -> hashT) (tinv : trie -> Prop) (ok : change -> Prop).
  Hypothesis base : iface_base empty_trie content apply_batch tinv ok.
  Let run := trie_run trie apply_batch ok empty_trie.
  Let reach := reachable trie empty_trie apply_batch ok.

  Lemma abs_root_commits bs t : run bs t -> content t = storage_after [] bs.
  Proof. destruct base as [A [B C]]. apply (root_commits trie empty_trie content apply_batch tinv ok A B C). Qed.

  Lemma abs_historic_read_eq_live bs t : run bs t ->
    (forall k, sm_get k (content t) = sm_get k (storage_after [] bs)) /\
    (forall prefix start bw, sm_range prefix start bw (content t) = sm_range prefix start bw (storage_after [] bs)).
  Proof. destruct base as [A [B C]]. apply (historic_read_eq_live trie empty_trie content apply_batch tinv ok A B C). Qed.

  Lemma abs_root_function_of_storage :
    (forall t1 t2, reach t1 -> reach t2 -> content t1 = content t2 -> root t1 = root t2) ->
    forall bs1 bs2 t1 t2, run bs1 t1 -> run bs2 t2 -> storage_after [] bs1 = storage_after [] bs2 -> root t1 = root t2.
  Proof.
    destruct base as [A [B C]].
    apply (root_function_of_storage trie hashT empty_trie content apply_batch root tinv ok A B C).
  Qed.

  Lemma abs_seek_at_height (seek : trie -> bytes -> bytes -> bool -> smap) :
    (forall t P S bw, reach t -> seek t P S bw = sm_range P S bw (content t)) ->
    forall bs t P S bw, run bs t -> seek t P S bw = sm_range P S bw (storage_after [] bs).
  Proof. destruct base as [A [B C]]. apply (seek_at_height trie empty_trie content apply_batch tinv ok A B C). Qed.

  Lemma abs_proof_complete (get_proof : trie -> bytes -> option (list bytes))
        (verify_proof : hashT -> bytes -> list bytes -> option val) (Collision : Prop) :
    (forall t k v, reach t -> sm_get k (content t) = Some v ->
       exists p, get_proof t k = Some p /\ (verify_proof (root t) k p = Some v \/ Collision)) ->
    forall bs t k v, run bs t -> sm_get k (storage_after [] bs) = Some v ->
      exists p, get_proof t k = Some p /\ (verify_proof (root t) k p = Some v \/ Collision).
  Proof.
    destruct base as [A [B C]].
    apply (proof_at_height_complete trie hashT empty_trie content apply_batch root get_proof verify_proof Collision tinv ok A B C).
  Qed.

  Lemma abs_proof_sound (verify_proof : hashT -> bytes -> list bytes -> option val) (Collision : Prop) :
    (forall t k p v, reach t -> verify_proof (root t) k p = Some v -> sm_get k (content t) = Some v \/ Collision) ->
    forall bs t k p v, run bs t -> sm_get k (storage_after [] bs) <> Some v ->
      verify_proof (root t) k p = Some v -> Collision.
  Proof.
    destruct base as [A [B C]].
    apply (no_proof_for_absent_or_other trie hashT empty_trie content apply_batch root verify_proof Collision tinv ok A B C).
  Qed.
End AbstractStatements.

(* ---- the interface is satisfiable: the trie whose state IS its content (degenerate proofs: the "proof" carries
        the value and [Collision] is [True]); shows the hypotheses of the Interface section are consistent ---- *)
Fixpoint from_nibbles (p : bytes) : bytes :=
  match p with
  | hi :: lo :: r => hi * 16 + lo :: from_nibbles r
  | _ => []
  end.
Lemma from_to_nibbles k : from_nibbles (to_nibbles k) = k.
Proof.
  induction k as [|x k IH]; [reflexivity|]. rewrite to_nibbles_cons. cbn [from_nibbles]. rewrite IH. f_equal. lia.
Qed.
Definition unnib_change (c : change) : change := (from_nibbles (fst c), snd c).
Lemma unnib_nib b : map unnib_change (map nib_change b) = b.
Proof.
  induction b as [|[k v] r IH]; simpl; [reflexivity|]. rewrite IH. unfold unnib_change, nib_change. simpl.
  rewrite from_to_nibbles. reflexivity.
Qed.

Lemma interface_inhabited :
  let trie := smap in
  let content := fun t : smap => t in
  let apply_batch := fun (t : smap) (b : list change) => map_apply (map unnib_change b) t in
  let root := fun t : smap => N.of_nat (length t) in
  let get_proof := fun (t : smap) (k : bytes) => match sm_get k t with Some v => Some [v] | None => None end in
  let verify_proof := fun (r : N) (k : bytes) (p : list bytes) => match p with [v] => Some v | _ => None end in
  content [] = [] /\
  (forall t b, ssorted b -> ssorted (content t) -> content (apply_batch t (map nib_change b)) = map_apply b (content t)) /\
  (forall t1 t2 : trie, content t1 = content t2 -> root t1 = root t2) /\
  (forall t k v, sm_get k (content t) = Some v -> exists p, get_proof t k = Some p /\ verify_proof (root t) k p = Some v) /\
  (forall t k p v, verify_proof (root t) k p = Some v -> sm_get k (content t) = Some v \/ True).
Proof.
  cbv zeta. repeat split; auto.
  - intros t b _ _. rewrite unnib_nib. reflexivity.
  - intros t1 t2 ->. reflexivity.
  - intros t k v G. rewrite G. eauto.
Qed.

(* non-vacuity of the block hypotheses: writes with overwrite, delete-and-recreate and a delete of an absent key *)
Definition ex_writes : list change :=
  [ ([97; 98], Some [1]); ([97], Some [2]); ([97; 98], None); ([97; 98], Some [3]); ([255], None); ([97], Some [2]) ].
Definition ex_enum : list change :=   (* one enumeration of the resulting map, keys with the 0x70 prefix *)
  [ ([112; 255], None); ([112; 97; 98], Some [3]); ([112; 97], Some [2]) ].
Lemma ex_cm : cm_of_writes ex_writes = [ ([97], Some [2]); ([97; 98], Some [3]); ([255], None) ].
Proof. vm_compute. reflexivity. Qed.
Lemma ex_perm : Permutation (map stripc ex_enum) (cm_of_writes ex_writes).
Proof.
  rewrite ex_cm. simpl. unfold stripc. simpl.
  eapply perm_trans; [apply perm_swap|]. eapply perm_trans; [apply perm_skip, perm_swap|].
  eapply perm_trans; [apply perm_swap|]. reflexivity.
Qed.
Lemma ex_batch : to_batch ex_enum = [ ([6; 1], Some [2]); ([6; 1; 6; 2], Some [3]); ([15; 15], None) ] /\
                 map_apply ex_writes [([97; 98; 99], [9])] = [([97], [2]); ([97; 98], [3]); ([97; 98; 99], [9])].
Proof. split; vm_compute; reflexivity. Qed.
