(* C03 — the state root of every height commits exactly to contract storage: executable model.

   What is transcribed:
     storage.MemCachedStore.stor of the block's private cache (GetStorageChanges, memcached_store.go:161-168):
         a Go map key -> value-or-nil, later write wins              -> [cm_of_writes] (canonical form of that map)
     mpt.MapToMPTBatch (batch.go:20-34): range over the map in ANY order, strip the one-byte storage prefix,
         bytes -> nibbles, sort by path                               -> [to_batch] on any enumeration of the map
     stateroot.Module.AddMPTBatch (module.go:336-350): PutBatch on the trie  -> [apply_batch] (abstract, see Interface)
     blockchain.go storeBlock:2091-2092: batch := MapToMPTBatch(cache.Store.GetStorageChanges())  -> [block_step]
   Contract storage itself is a strictly sorted association list (the "single ordered map" specification). *)
From NG Require Import Common.Tactics.
Open Scope N_scope.

Definition bytes := list N.

(* bytes.Compare *)
Fixpoint bcmp (a b : bytes) : comparison :=
  match a, b with
  | [], [] => Eq
  | [], _ :: _ => Lt
  | _ :: _, [] => Gt
  | x :: a', y :: b' => match N.compare x y with Eq => bcmp a' b' | c => c end
  end.
Definition beq (a b : bytes) : bool := match bcmp a b with Eq => true | _ => false end.

(* toNibbles / strToNibbles *)
Definition to_nibbles (k : bytes) : bytes := flat_map (fun b => [b / 16; b mod 16]) k.
Definition strip (k : bytes) : bytes := tl k.             (* strToNibbles skips the storage prefix byte *)

Section Maps.
  Context {A : Type}.
  Definition kv := (bytes * A)%type.

  (* insertion sort by key: what slices.SortFunc(bytes.Compare on keys) yields when keys are distinct *)
  Fixpoint ins (x : kv) (l : list kv) : list kv :=
    match l with
    | [] => [x]
    | y :: t => match bcmp (fst x) (fst y) with Gt => y :: ins x t | _ => x :: y :: t end
    end.
  Definition isort (l : list kv) : list kv := fold_right ins [] l.

  (* the single ordered map: strictly sorted association list *)
  Fixpoint sm_get (k : bytes) (s : list kv) : option A :=
    match s with
    | [] => None
    | (k', v) :: t => if beq k k' then Some v else sm_get k t
    end.
  Fixpoint sm_set (k : bytes) (v : A) (s : list kv) : list kv :=
    match s with
    | [] => [(k, v)]
    | (k', v') :: t =>
        match bcmp k k' with
        | Lt => (k, v) :: s
        | Eq => (k, v) :: t
        | Gt => (k', v') :: sm_set k v t
        end
    end.
  Fixpoint sm_del (k : bytes) (s : list kv) : list kv :=
    match s with
    | [] => []
    | (k', v') :: t =>
        match bcmp k k' with
        | Lt => s
        | Eq => t
        | Gt => (k', v') :: sm_del k t
        end
    end.
End Maps.

Definition val := bytes.
Definition change := (bytes * option val)%type.      (* None: the key is deleted *)
Definition smap := list (bytes * val).

Definition sm_apply1 (s : smap) (c : change) : smap :=
  match snd c with Some v => sm_set (fst c) v s | None => sm_del (fst c) s end.
(* a change set applied to storage *)
Definition map_apply (b : list change) (s : smap) : smap := fold_left sm_apply1 b s.

(* the private cache's map after the block's writes in execution order (later write wins), in canonical form *)
Definition cm_of_writes (ws : list change) : list change :=
  fold_left (fun m c => sm_set (fst c) (snd c) m) ws [].

(* MapToMPTBatch on an enumeration [m] of the map (keys with the storage prefix byte) *)
Definition nib_change (c : change) : change := (to_nibbles (fst c), snd c).
Definition to_batch (m : list change) : list change :=
  isort (map (fun c => (to_nibbles (strip (fst c)), snd c)) m).

(* range queries of the specification: keys with the prefix, from the start point, in the direction asked;
   backwards follows the disk back-ends and TrieStore (keys <= prefix++start or extending it) *)
Fixpoint is_prefix (p k : bytes) : bool :=
  match p, k with
  | [], _ => true
  | x :: p', y :: k' => N.eqb x y && is_prefix p' k'
  | _ :: _, [] => false
  end.
Definition in_range (prefix start : bytes) (bw : bool) (k : bytes) : bool :=
  is_prefix prefix k &&
  match start with
  | [] => true
  | _ =>
      let ps := prefix ++ start in
      if bw then match bcmp k ps with Gt => is_prefix ps k | _ => true end
      else match bcmp k ps with Lt => false | _ => true end
  end.
Definition sm_range (prefix start : bytes) (bw : bool) (s : smap) : smap :=
  let l := filter (fun p => in_range prefix start bw (fst p)) s in
  if bw then rev l else l.
