(* C03 — blocks REFUSED after their MPT batch was applied (Blockchain.storeBlock's error returns after AddMPTBatch),
   followed by other blocks.  stateroot.Module.AddMPTBatch (module.go) works on a struct copy of the module's trie that
   shares the in-memory nodes with it; a refused block leaves the module's trie object denoting something else ([leak])
   while the store still holds the accepted trie.  The module as it stands keeps a flag (mptPending, set by AddMPTBatch,
   cleared by UpdateCurrentLocal) and re-opens the trie from the stored root when the previous batch was never finalised.

   Model: the module is (stored trie, what the in-memory trie object denotes, what StateRoot() of that object returns —
   cached hashes included —, the flag).  [leak] and [seen] are ARBITRARY functions in the general theorem: whatever a
   refused batch does to the shared nodes, with the flag policy the stored trie commits to the storage made by the
   ACCEPTED blocks alone.  The policy "re-open only if the object's root hash differs from the accepted root" is refuted
   on the concrete trie of C10 for an extension-rooted trie (putBatchIntoExtension mutates below the root extension, whose
   cached hash stays: [cseen]). *)
From Coq Require Import Permutation.
From NG Require Import Common.Tactics StateRoot.Model StateRoot.Order StateRoot.Proofs StateRoot.Concrete.
From NG Require Trie.Model Trie.Merkle.
Open Scope N_scope.

Inductive policy := PFlag | PHash.

Inductive mevent :=
| MAcc (ws m : list change)      (* block accepted: writes in execution order, enumeration of the change map *)
| MRej (ws m : list change)      (* block executed up to and including AddMPTBatch, then refused *)
| MRestart.                      (* module re-initialised from the store *)

Definition accepted (evs : list mevent) : list (list change) :=
  flat_map (fun e => match e with MAcc ws _ => [ws] | _ => [] end) evs.

Section Drops.
  Variable trie : Type.
  Variable hashT : Type.
  Variable empty_trie : trie.
  Variable content : trie -> smap.
  Variable apply_batch : trie -> list change -> trie.
  Variable root : trie -> hashT.
  Variable hash_eqb : hashT -> hashT -> bool.
  Variable tinv : trie -> Prop.
  Variable ok : change -> Prop.
  Variable leak : trie -> list change -> trie.       (* what the module's trie object denotes after a refused batch *)
  Variable seen : trie -> list change -> hashT.      (* what its StateRoot() returns then *)

  Record mst := mkM { m_stored : trie; m_mem : trie; m_root : hashT; m_pending : bool }.
  Definition minit : mst := mkM empty_trie empty_trie (root empty_trie) false.

  (* the trie AddMPTBatch starts from *)
  Definition base (p : policy) (s : mst) : trie :=
    match p with
    | PFlag => if m_pending s then m_stored s else m_mem s
    | PHash => if hash_eqb (m_root s) (root (m_stored s)) then m_mem s else m_stored s
    end.

  Definition mstep (p : policy) (s : mst) (e : mevent) : mst :=
    match e with
    | MAcc _ m => let t' := apply_batch (base p s) (to_batch m) in mkM t' t' (root t') false
    | MRej _ m => let b := base p s in mkM (m_stored s) (leak b (to_batch m)) (seen b (to_batch m)) true
    | MRestart => mkM (m_stored s) (m_stored s) (root (m_stored s)) false
    end.
  Definition mrun (p : policy) (s : mst) (evs : list mevent) : mst := fold_left (mstep p) evs s.

  Definition mev_ok (e : mevent) : Prop :=
    match e with
    | MAcc ws m | MRej ws m => Forall ok ws /\ Permutation (map stripc m) (cm_of_writes ws)
    | MRestart => True
    end.

  Hypothesis ibase : iface_base empty_trie content apply_batch tinv ok.

  Lemma one_block t ws m :
    tinv t -> ssorted (content t) -> Forall ok ws -> Permutation (map stripc m) (cm_of_writes ws) ->
    tinv (apply_batch t (to_batch m)) /\ content (apply_batch t (to_batch m)) = map_apply ws (content t).
  Proof.
    intros T S Hok Hperm. destruct ibase as [_ [_ BC]].
    rewrite (to_batch_spec m (cm_of_writes ws) (cm_sorted ws) Hperm).
    destruct (BC t (cm_of_writes ws) T (cm_sorted ws) (cm_forall ok ws Hok) S) as [T1 E1].
    split; [exact T1|]. rewrite E1. apply map_apply_cm. assumption.
  Qed.

  (* the invariant of the module under the flag policy *)
  Definition minv (st : smap) (s : mst) : Prop :=
    tinv (m_stored s) /\ content (m_stored s) = st /\ ssorted st /\ (m_pending s = false -> m_mem s = m_stored s).

  Lemma base_flag st s : minv st s -> base PFlag s = m_stored s.
  Proof. intros [_ [_ [_ M]]]. unfold base. destruct (m_pending s); [reflexivity|]. apply M. reflexivity. Qed.

  Lemma mstep_inv st s e : minv st s -> mev_ok e ->
    minv (match e with MAcc ws _ => map_apply ws st | _ => st end) (mstep PFlag s e).
  Proof.
    intros I K. pose proof (base_flag st s I) as B. destruct I as [T [C [S M]]]. destruct e as [ws m|ws m|]; simpl in K.
    - destruct K as [Hok Hperm].
      destruct (one_block (m_stored s) ws m T (eq_ind_r ssorted S C) Hok Hperm) as [T1 E1].
      unfold mstep, minv. cbv zeta. cbn [m_stored m_mem m_pending]. rewrite B.
      split; [exact T1|]. split; [rewrite E1, C; reflexivity|]. split; [apply sorted_map_apply, S|reflexivity].
    - unfold mstep, minv. cbv zeta. cbn [m_stored m_mem m_pending]. split; [exact T|]. split; [exact C|]. split; [exact S|discriminate].
    - unfold mstep, minv. cbn [m_stored m_mem m_pending]. auto.
  Qed.

  (* root_commits over histories with refused blocks: only the accepted blocks make the content of the stored trie *)
  Theorem root_commits_with_drops : forall evs s st,
    minv st s -> Forall mev_ok evs ->
    minv (storage_after st (accepted evs)) (mrun PFlag s evs).
  Proof.
    induction evs as [|e r IH]; intros s st I F; [exact I|]. inv F. cbn [mrun fold_left].
    pose proof (mstep_inv st s e I H1) as I1. specialize (IH _ _ I1 H2). fold (mrun PFlag (mstep PFlag s e) r).
    destruct e; cbn [accepted flat_map app] in *; exact IH.
  Qed.

  Corollary root_commits_with_drops_init evs :
    Forall mev_ok evs ->
    content (m_stored (mrun PFlag minit evs)) = storage_after [] (accepted evs) /\ tinv (m_stored (mrun PFlag minit evs)).
  Proof.
    intros F. destruct ibase as [T0 [C0 _]].
    destruct (root_commits_with_drops evs minit [] (conj T0 (conj C0 (conj I (fun _ => eq_refl)))) F) as [T [C _]]. auto.
  Qed.

  (* ---------- reads while a batch is pending ----------
     Module.GetState / FindStates / GetStateProof open a NEW trie from the hash of the requested root over the store
     (module.go): whatever they compute is a function [q] of the stored trie.  A batch that is applied and not
     finalised (the window between AddMPTBatch and UpdateCurrentLocal, or a refused block until the next one) changes
     [m_mem] and [m_root] only: every read answers as before it, i.e. from the storage of the accepted blocks. *)
  Definition read_committed {A} (q : trie -> A) (s : mst) : A := q (m_stored s).
  Definition read_shared {A} (q : trie -> A) (s : mst) : A := q (m_mem s).     (* the "optimisation": shallow copy of s.mpt *)

  Lemma pending_keeps_stored p s ws m : m_stored (mstep p s (MRej ws m)) = m_stored s.
  Proof. reflexivity. Qed.

  Theorem reads_ignore_pending_batch : forall A (q : trie -> A) p evs s st ws m,
    p = PFlag -> minv st s -> Forall mev_ok evs ->
    let s1 := mrun p s evs in
    read_committed q (mstep p s1 (MRej ws m)) = read_committed q s1 /\
    read_committed content (mstep p s1 (MRej ws m)) = storage_after st (accepted evs).
  Proof.
    intros A q p evs s st ws m -> I F s1. split; [reflexivity|].
    unfold read_committed. rewrite pending_keeps_stored.
    destruct (root_commits_with_drops evs s st I F) as [_ [C _]]. exact C.
  Qed.
End Drops.

(* ---------- over the concrete trie of C10 ---------- *)
Module T := NG.Trie.Model.

(* the in-place effect of a refused batch, as far as the property needs it: the shared nodes end up denoting the trie
   with the batch applied; the root OBJECT is rebuilt (cached hash invalidated) when it is a branch — addToBranch changes
   it in place — but an extension root is left untouched, PutBatch descends into its child and builds a NEW extension for
   the copy: the module's root keeps its cached hash *)
Definition cleak (t : T.node) (b : list change) : T.node := capply t b.
Definition cseen (H : T.bytes -> T.bytes) (t : T.node) (b : list change) : T.bytes :=
  match t with
  | T.Ext _ _ => croot H t
  | _ => croot H (capply t b)
  end.

Definition cmrun (H : T.bytes -> T.bytes) (p : policy) :=
  mrun T.node T.bytes capply (croot H) T.bytes_eqb cleak (cseen H) p (minit T.node T.bytes T.Empty (croot H)).

(* the flag policy, premise-free *)
Theorem root_commits_with_drops_concrete (H : T.bytes -> T.bytes) evs :
  Forall (mev_ok cok) evs ->
  ccontent (m_stored T.node T.bytes (cmrun H PFlag evs)) = storage_after [] (accepted evs).
Proof.
  intros F.
  apply (root_commits_with_drops_init T.node T.bytes T.Empty ccontent capply (croot H) T.bytes_eqb cinv cok cleak (cseen H)
           (conj cinv_empty (conj eq_refl capply_spec)) evs F).
Qed.

(* "re-open only if the root hash changed": false.  Witness (keys F1, F2 accepted: the root is an extension over the
   shared nibble F; a refused block writes F3; the next accepted block writes F4): the stored trie then holds F3 *)
Definition hash_compare_statement (H : T.bytes -> T.bytes) : Prop :=
  forall evs, Forall (mev_ok cok) evs ->
    ccontent (m_stored T.node T.bytes (cmrun H PHash evs)) = storage_after [] (accepted evs).

Definition dw_evs : list mevent :=
  [ MAcc [([241], Some [1]); ([242], Some [2])] [([112; 242], Some [2]); ([112; 241], Some [1])];
    MRej [([243], Some [3])] [([112; 243], Some [3])];
    MAcc [([244], Some [4])] [([112; 244], Some [4])] ].

Lemma dw_ok : Forall (mev_ok cok) dw_evs.
Proof.
  assert (K : forall k v, (k < 256) -> cok ([k], Some [v])).
  { intros k v L. unfold cok, bok. cbn [fst snd length]. split; [repeat constructor; exact L|]. split; [cbn; lia|unfold T.max_value_len; cbn; lia]. }
  unfold dw_evs. repeat (apply Forall_cons || apply Forall_nil); cbn [mev_ok]; (split; [repeat (apply Forall_cons || apply Forall_nil); apply K; lia|]).
  - vm_compute. apply perm_swap.
  - vm_compute. reflexivity.
  - vm_compute. reflexivity.
Qed.

Definition dH (x : T.bytes) : T.bytes := firstn 32 (map (fun b => (b + 1)%N) x ++ repeat 0%N 32).

Theorem hash_compare_refuted : ~ hash_compare_statement dH.
Proof.
  intros S. specialize (S dw_evs dw_ok). vm_compute in S. discriminate.
Qed.

(* the same history under the flag policy ends in the right trie, and the root of the witness is an extension *)
Lemma dw_flag :
  ccontent (m_stored T.node T.bytes (cmrun dH PFlag dw_evs)) = [([241], [1]); ([242], [2]); ([244], [4])] /\
  match m_stored T.node T.bytes (cmrun dH PFlag (firstn 1 dw_evs)) with T.Ext [15%nat] (T.Branch _ _) => True | _ => False end.
Proof. split; vm_compute; auto. Qed.

(* ---------- reads inside the window, over the concrete trie ---------- *)
Theorem reads_ignore_pending_batch_concrete (H : T.bytes -> T.bytes) evs ws m :
  Forall (mev_ok cok) evs ->
  ccontent (m_stored T.node T.bytes (cmrun H PFlag (evs ++ [MRej ws m]))) = storage_after [] (accepted evs).
Proof.
  intros F. unfold cmrun, mrun. rewrite fold_left_app. cbn [fold_left].
  rewrite pending_keeps_stored. apply (root_commits_with_drops_concrete H evs F).
Qed.

(* reading the latest root through the module's in-memory trie object (a shallow copy shares its nodes with the copy
   AddMPTBatch works on): false.  Witness: F1, F2 accepted, F3 pending — the read sees F3 *)
Definition shared_read_statement (H : T.bytes -> T.bytes) : Prop :=
  forall evs ws m, Forall (mev_ok cok) (evs ++ [MRej ws m]) ->
    read_shared T.node T.bytes ccontent (cmrun H PFlag (evs ++ [MRej ws m])) = storage_after [] (accepted evs).

Theorem shared_read_refuted : ~ shared_read_statement dH.
Proof.
  intros S.
  specialize (S (firstn 1 dw_evs) [([243], Some [3])] [([112; 243], Some [3])]).
  assert (F : Forall (mev_ok cok) (firstn 1 dw_evs ++ [MRej [([243], Some [3])] [([112; 243], Some [3])]])).
  { pose proof dw_ok as K. unfold dw_evs in K. cbn [firstn app].
    constructor; [exact (Forall_inv K)|]. constructor; [exact (Forall_inv (Forall_inv_tail K))|constructor]. }
  specialize (S F). vm_compute in S. discriminate.
Qed.
