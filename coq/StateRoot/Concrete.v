(* C03 — the abstract trie interface of StateRoot/Proofs.v instantiated by the concrete trie model of C10
   (coq/Trie/Model.v: node, put_batch, entries, seek, root, get_proof, verify_proof over an arbitrary hash function H),
   every interface hypothesis PROVED from the C10 theorems, and the C03 theorems restated without premises.

   Bridges between the two developments (all on this side):
   - keys: contract storage keys are byte strings (list N, every element < 256); the trie's keys are nibble paths
     (list nat).  [nk] = Trie.Model.to_nibbles; it preserves order ([nk_cmp]), prefixes ([nk_prefix]), concatenation;
   - batches: the C03 batch is [map nib_change cm] (N-valued nibbles, strictly sorted association list [ssorted]);
     C10's PutBatch wants [kv_ok]: StronglySorted by path + nibbles < 16 ([kvs_of_ok]);
   - content: C03's ordered map is a sorted association list on byte keys, C10's is a function on paths plus the
     sorted listing [entries]; [ccontent t] converts the listing; [ccontent_get] relates lookups;
   - tries: C10's theorems are about tries in normal form; proofs additionally need node sizes within the decoder's
     limits.  The invariant [cinv] (NF, every key is the image of a byte string, sizes within limits) is preserved by
     every admissible block ([cok]: key a byte string of at most 68 bytes, value at most 65539 bytes — what Trie.Put
     accepts and what contract storage can hold);
   - proofs: C10 states completeness and soundness up to an exhibited collision of H o H, and treats the empty trie
     separately (nothing verifies under the all-zero root without a preimage of it); the disjunct here is
     [ccollision H] = collision \/ a preimage of the zero root is exhibited. *)
From Coq Require Import Permutation Sorted.
From NG Require Import Common.Tactics StateRoot.Model StateRoot.Order StateRoot.Proofs.
From NG Require Trie.Model Trie.Lemmas Trie.PutDelete Trie.Unique Trie.Batch Trie.History Trie.Range Trie.Merkle.
Open Scope N_scope.

Module T := NG.Trie.Model.

(* ---------- keys ---------- *)

Definition nk (k : bytes) : T.path := T.to_nibbles k.
Definition bok (k : bytes) : Prop := Forall (fun b => b < 256) k.
Definition bokb (k : bytes) : bool := forallb (fun b => b <? 256) k.

Lemma bokb_spec k : bokb k = true <-> bok k.
Proof.
  unfold bokb, bok. rewrite forallb_forall, Forall_forall. split; intros H x Hx; specialize (H x Hx); lia.
Qed.

Lemma nk_cons x k : nk (x :: k) = N.to_nat (x / 16) :: N.to_nat (x mod 16) :: nk k.
Proof. reflexivity. Qed.
Lemma nk_app a b : nk (a ++ b) = nk a ++ nk b.
Proof. unfold nk, T.to_nibbles. apply flat_map_app. Qed.

(* the N-valued nibbles of StateRoot.Model and the nat-valued ones of Trie.Model *)
Lemma nk_to_nibbles k : map N.to_nat (to_nibbles k) = nk k.
Proof. induction k as [|x k IH]; [reflexivity|]. rewrite to_nibbles_cons, nk_cons. simpl. rewrite IH. reflexivity. Qed.

Lemma nat_cmp_N a b : Nat.compare (N.to_nat a) (N.to_nat b) = N.compare a b.
Proof. symmetry. apply N2Nat.inj_compare. Qed.

(* order is preserved *)
Lemma nk_cmp : forall a b, T.lex_cmp (nk a) (nk b) = bcmp a b.
Proof.
  induction a as [|x a IH]; intros [|y b]; try reflexivity.
  rewrite !nk_cons. cbn [T.lex_cmp bcmp]. rewrite !nat_cmp_N, <- (nib_cmp x y).
  destruct (x / 16 ?= y / 16); try reflexivity.
  destruct (x mod 16 ?= y mod 16); try reflexivity. apply IH.
Qed.

Lemma nk_inj a b : nk a = nk b -> a = b.
Proof. intros E. apply bcmp_eq. rewrite <- nk_cmp, E. apply Trie.Range.lex_cmp_refl. Qed.

Lemma nk_eqb a b : T.path_eqb (nk a) (nk b) = beq a b.
Proof.
  destruct (beq a b) eqn:E.
  - apply beq_true in E. subst. apply Trie.Lemmas.path_eqb_refl.
  - apply Trie.Lemmas.path_eqb_false. intros H. apply nk_inj in H. apply beq_false in E. contradiction.
Qed.

(* prefixes are preserved *)
Lemma nk_prefix : forall a b, T.is_prefix (nk a) (nk b) = is_prefix a b.
Proof.
  unfold T.is_prefix. induction a as [|x a IH]; intros b; [reflexivity|].
  destruct b as [|y b]; [reflexivity|]. rewrite !nk_cons. cbn [T.strip is_prefix].
  destruct (N.eqb_spec x y) as [->|NE].
  - rewrite !Nat.eqb_refl. simpl. apply IH.
  - simpl. destruct (Nat.eqb_spec (N.to_nat (x / 16)) (N.to_nat (y / 16))) as [E1|]; [|reflexivity].
    destruct (Nat.eqb_spec (N.to_nat (x mod 16)) (N.to_nat (y mod 16))) as [E2|]; [|reflexivity].
    exfalso. apply NE. apply N2Nat.inj in E1. apply N2Nat.inj in E2. lia.
Qed.

Lemma is_prefix_split : forall p k, is_prefix p k = true -> exists r, k = p ++ r.
Proof.
  induction p as [|x p IH]; intros k H; [exists k; reflexivity|].
  destruct k as [|y k]; [discriminate|]. simpl in H. apply andb_true_iff in H. destruct H as [E H].
  apply N.eqb_eq in E. subst. destruct (IH _ H) as [r ->]. exists r. reflexivity.
Qed.
Lemma is_prefix_app_same p a b : is_prefix (p ++ a) (p ++ b) = is_prefix a b.
Proof. induction p as [|x p IH]; simpl; [reflexivity|]. rewrite N.eqb_refl. exact IH. Qed.
Lemma bcmp_app_same p a b : bcmp (p ++ a) (p ++ b) = bcmp a b.
Proof. induction p as [|x p IH]; simpl; [reflexivity|]. rewrite N.compare_refl. exact IH. Qed.

Lemma bok_app a b : bok (a ++ b) <-> bok a /\ bok b.
Proof. unfold bok. apply Forall_app. Qed.

(* ---------- content ---------- *)

Definition conv (e : T.path * T.bytes) : bytes * val := (T.from_nibbles (fst e), snd e).
Definition ccontent (t : T.node) : smap := map conv (T.entries t).

(* every key the trie holds is the image of a byte string *)
Definition keyed (t : T.node) : Prop := forall p v, T.content t p = Some v -> exists k, bok k /\ p = nk k.

Definition cinv (t : T.node) : Prop := T.NF t /\ keyed t /\ Trie.Merkle.content_bounded t.

Lemma conv_nk k v : bok k -> conv (nk k, v) = (k, v).
Proof. intros B. unfold conv, nk. simpl. rewrite Trie.Lemmas.from_to_nibbles by exact B. reflexivity. Qed.

Lemma entries_keyed t : T.NF t -> keyed t -> forall e, In e (T.entries t) -> exists k, bok k /\ e = (nk k, snd e).
Proof.
  intros NF K [p v] HI. apply (Trie.Range.entries_content t NF) in HI. destruct (K _ _ HI) as [k [B ->]].
  exists k. auto.
Qed.

(* a listing sorted by path, all of whose paths are images of byte strings, converts to a sorted map *)
Lemma conv_sorted : forall es,
  StronglySorted Trie.Range.lt_entry es -> (forall e, In e es -> exists k, bok k /\ e = (nk k, snd e)) ->
  ssorted (map conv es).
Proof.
  induction es as [|[p v] es IH]; intros S K; [exact I|]. inv S.
  destruct (K (p, v) (or_introl eq_refl)) as [k [B E]]. simpl in E. inv E.
  change (map conv ((nk k, v) :: es)) with (conv (nk k, v) :: map conv es). rewrite conv_nk by assumption. split.
  - unfold lb. rewrite Forall_map, Forall_forall. intros [p' v'] HI.
    rewrite Forall_forall in H2. specialize (H2 _ HI). unfold Trie.Range.lt_entry in H2. simpl in H2.
    destruct (K _ (or_intror HI)) as [k' [B' E']]. simpl in E'. inv E'.
    rewrite conv_nk by assumption. simpl. rewrite <- nk_cmp. exact H2.
  - apply IH; [assumption|]. intros e' HI. apply K. right. exact HI.
Qed.

Lemma ccontent_sorted t : T.NF t -> keyed t -> ssorted (ccontent t).
Proof.
  intros NF K. apply conv_sorted; [apply Trie.Range.entries_sorted; exact NF|apply entries_keyed; assumption].
Qed.

(* lookups in a sorted association list *)
Lemma sm_get_in : forall (s : smap) k v, ssorted s -> (sm_get k s = Some v <-> In (k, v) s).
Proof.
  induction s as [|[k0 v0] s IH]; intros k v S; simpl; [split; [discriminate|tauto]|].
  destruct S as [L S]. destruct (beq k k0) eqn:E.
  - apply beq_true in E. subst k0. split.
    + intros H. inv H. auto.
    + intros [H|H]; [inv H; reflexivity|]. exfalso. unfold lb in L. rewrite Forall_forall in L.
      specialize (L _ H). simpl in L. rewrite bcmp_refl in L. discriminate.
  - rewrite IH by assumption. split; [auto|]. intros [H|H]; [|exact H]. inv H. rewrite beq_refl in E. discriminate.
Qed.

Lemma option_eq_some {A} (a b : option A) : (forall v, a = Some v <-> b = Some v) -> a = b.
Proof.
  intros H. destruct a as [x|], b as [y|]; try reflexivity.
  - symmetry. apply (proj1 (H x) eq_refl).
  - pose proof (proj1 (H x) eq_refl). discriminate.
  - pose proof (proj2 (H y) eq_refl). discriminate.
Qed.

Lemma ccontent_get t k : T.NF t -> keyed t -> bok k -> sm_get k (ccontent t) = T.content t (nk k).
Proof.
  intros NF K B. apply option_eq_some. intros v.
  rewrite (sm_get_in _ _ _ (ccontent_sorted t NF K)). unfold ccontent. rewrite in_map_iff. split.
  - intros [[p w] [E HI]]. destruct (entries_keyed t NF K _ HI) as [k' [B' E']]. simpl in E'. inv E'.
    rewrite conv_nk in E by assumption. inv E. apply (Trie.Range.entries_content t NF). exact HI.
  - intros C. exists (nk k, v). split; [apply conv_nk; exact B|]. apply (Trie.Range.entries_content t NF). exact C.
Qed.

Lemma ccontent_get_nok t k : T.NF t -> keyed t -> ~ bok k -> sm_get k (ccontent t) = None.
Proof.
  intros NF K NB. destruct (sm_get k (ccontent t)) as [v|] eqn:G; [|reflexivity]. exfalso.
  apply (sm_get_in _ _ _ (ccontent_sorted t NF K)) in G. unfold ccontent in G. apply in_map_iff in G.
  destruct G as [[p w] [E HI]]. destruct (entries_keyed t NF K _ HI) as [k' [B' E']]. simpl in E'. inv E'.
  rewrite conv_nk in E by assumption. inv E. contradiction.
Qed.

(* ---------- batches ---------- *)

(* admissible write: what Trie.Put accepts / contract storage can hold *)
Definition cok (c : change) : Prop :=
  bok (fst c) /\ N.of_nat (length (fst c)) <= 68 /\
  match snd c with Some v => N.of_nat (length v) <= T.max_value_len | None => True end.

Definition kvs_of (b : list change) : T.kvs := map (fun c => (map N.to_nat (fst c), snd c)) b.
Definition capply (t : T.node) (b : list change) : T.node := T.put_batch t (kvs_of b).

Lemma kvs_of_nib b : kvs_of (map nib_change b) = map (fun c => (nk (fst c), snd c)) b.
Proof.
  unfold kvs_of. rewrite map_map. apply map_ext. intros [k ov]. unfold nib_change. simpl. rewrite nk_to_nibbles. reflexivity.
Qed.

Lemma kvs_of_ok b : ssorted b -> Forall (fun c => bok (fst c)) b -> Trie.Batch.kv_ok (map (fun c : change => (nk (fst c), snd c)) b).
Proof.
  intros S B. split.
  - induction b as [|c b IH]; simpl; [constructor|]. destruct S as [L S]. inv B. constructor; [auto|].
    rewrite Forall_map. unfold lb in L. eapply Forall_impl; [|exact L]. intros c' H. unfold Trie.Batch.kv_lt. simpl.
    rewrite nk_cmp. exact H.
  - rewrite Forall_map. eapply Forall_impl; [|exact B]. intros c H. simpl. apply Trie.Lemmas.to_nibbles_path_ok. exact H.
Qed.

(* C10's specification of a batch, seen from one byte key, is the C03 one *)
Lemma fbatch_runk k : forall (b : list change) (m : T.fmap) a,
  m (nk k) = a -> T.fbatch m (map (fun c : change => (nk (fst c), snd c)) b) (nk k) = runk k b a.
Proof.
  unfold T.fbatch, runk. induction b as [|[kc ov] b IH]; intros m a E; simpl; [exact E|].
  apply IH. unfold run1. simpl. destruct ov as [v|]; unfold T.fput, T.fdel; rewrite nk_eqb; destruct (beq k kc); auto.
Qed.

Lemma fbatch_some : forall (kv : T.kvs) (m : T.fmap) p v,
  T.fbatch m kv p = Some v -> (exists e, In e kv /\ fst e = p /\ snd e = Some v) \/ m p = Some v.
Proof.
  unfold T.fbatch. induction kv as [|[k ov] kv IH]; intros m p v H; simpl in H; [auto|].
  destruct (IH _ _ _ H) as [[e [HI E]]|H']; [left; exists e; simpl; auto|].
  destruct ov as [w|]; unfold T.fput, T.fdel in H'; simpl in H'.
  - destruct (T.path_eqb p k) eqn:E; [|auto]. apply Trie.Lemmas.path_eqb_eq in E. subst. left.
    exists (k, Some w). simpl. split; [auto|]. split; [reflexivity|exact H'].
  - destruct (T.path_eqb p k); [discriminate|auto].
Qed.

Lemma nk_length k : length (nk k) = (2 * length k)%nat.
Proof. induction k as [|x k IH]; [reflexivity|]. rewrite nk_cons. simpl. rewrite IH. lia. Qed.

Theorem capply_spec t b :
  cinv t -> ssorted b -> Forall cok b -> ssorted (ccontent t) ->
  cinv (capply t (map nib_change b)) /\ ccontent (capply t (map nib_change b)) = map_apply b (ccontent t).
Proof.
  intros [NF [K CB]] S OK _. unfold capply. rewrite kvs_of_nib.
  assert (BK : Forall (fun c : change => bok (fst c)) b) by (eapply Forall_impl; [|exact OK]; intros c H; apply H).
  destruct (Trie.Batch.put_batch_spec t _ NF (kvs_of_ok b S BK)) as [NF' C'].
  set (t' := T.put_batch t (map (fun c : change => (nk (fst c), snd c)) b)) in *.
  assert (SRC : forall p v, T.content t' p = Some v ->
                (exists c, In c b /\ p = nk (fst c) /\ snd c = Some v) \/ T.content t p = Some v).
  { intros p v H. rewrite C' in H. destruct (fbatch_some _ _ _ _ H) as [[e [HI [E1 E2]]]|H']; [left|right; exact H'].
    apply in_map_iff in HI. destruct HI as [c [<- HI]]. exists c. simpl in *. auto. }
  assert (K' : keyed t').
  { intros p v H. destruct (SRC _ _ H) as [[c [HI [-> _]]]|H']; [|apply (K _ _ H')].
    exists (fst c). split; [|reflexivity]. rewrite Forall_forall in BK. apply BK. exact HI. }
  assert (CB' : Trie.Merkle.content_bounded t').
  { intros p v H. destruct (SRC _ _ H) as [[c [HI [-> E]]]|H']; [|apply (CB _ _ H')].
    rewrite Forall_forall in OK. destruct (OK _ HI) as [_ [L1 L2]]. rewrite E in L2.
    split; [|exact L2]. rewrite nk_length. unfold T.max_path_len. lia. }
  split; [split; [exact NF'|split; assumption]|].
  apply sm_ext; [apply ccontent_sorted; assumption|apply sorted_map_apply, ccontent_sorted; assumption|].
  intros k. rewrite get_map_apply by (apply ccontent_sorted; assumption).
  destruct (bokb k) eqn:E.
  - apply bokb_spec in E. rewrite !ccontent_get by assumption. rewrite C'. apply fbatch_runk. reflexivity.
  - assert (NB : ~ bok k) by (intros B; apply bokb_spec in B; congruence).
    rewrite !ccontent_get_nok by assumption. symmetry. apply runk_nomatch.
    intros c HI EQ. apply NB. rewrite <- EQ. rewrite Forall_forall in BK. apply BK. exact HI.
Qed.

Lemma cinv_empty : cinv T.Empty.
Proof. split; [left; reflexivity|]. split; intros p v H; discriminate. Qed.

(* ---------- the instantiated development ---------- *)

Section Concrete.
  Variable H : T.bytes -> T.bytes.
  Hypothesis H_len : forall x, length (H x) = 32%nat.

  Definition croot (t : T.node) : T.bytes := T.root H t.
  Definition cget_proof (t : T.node) (k : bytes) : option (list bytes) := T.get_proof H t (nk k).
  Definition cverify (r : T.bytes) (k : bytes) (pr : list bytes) : option val := T.verify_proof H r (nk k) pr.
  Definition cseek (t : T.node) (P S : bytes) (bw : bool) : smap := map conv (T.seek t (nk P) (nk S) bw).
  (* C10's disjunct: a collision of H o H, or (under the all-zero root of the empty trie) a preimage of that root *)
  Definition ccollision : Prop := Trie.Merkle.collision H \/ exists a, H (H a) = repeat 0 32.

  Definition crun := trie_run T.node capply cok.
  Definition creachable := reachable T.node T.Empty capply cok.

  Lemma creachable_inv t : creachable t -> cinv t.
  Proof. apply (reachable_inv T.node T.Empty ccontent capply cinv cok cinv_empty eq_refl capply_spec). Qed.

  (* C03_root_commits, premise-free *)
  Theorem root_commits_concrete bs t : crun T.Empty bs t -> ccontent t = storage_after [] bs.
  Proof. apply (root_commits T.node T.Empty ccontent capply cinv cok cinv_empty eq_refl capply_spec). Qed.

  Theorem historic_read_eq_live_concrete bs t :
    crun T.Empty bs t ->
    (forall k, sm_get k (ccontent t) = sm_get k (storage_after [] bs)) /\
    (forall prefix start bw, sm_range prefix start bw (ccontent t) = sm_range prefix start bw (storage_after [] bs)).
  Proof. apply (historic_read_eq_live T.node T.Empty ccontent capply cinv cok cinv_empty eq_refl capply_spec). Qed.

  (* the trie's own point read (Trie.Get) agrees too *)
  Theorem get_at_height_concrete bs t k :
    crun T.Empty bs t -> bok k -> T.get t (nk k) = sm_get k (storage_after [] bs).
  Proof.
    intros R B. destruct (creachable_inv t (ex_intro _ bs R)) as [NF [K _]].
    rewrite Trie.Range.get_spec, <- (root_commits_concrete bs t R). symmetry. apply ccontent_get; assumption.
  Qed.

  (* premise root_canonical, from C10_NF_unique *)
  Lemma croot_canonical t1 t2 : creachable t1 -> creachable t2 -> ccontent t1 = ccontent t2 -> croot t1 = croot t2.
  Proof.
    intros R1 R2 E. destruct (creachable_inv _ R1) as [NF1 [K1 _]]. destruct (creachable_inv _ R2) as [NF2 [K2 _]].
    assert (D : forall ta tb, T.NF ta -> keyed ta -> T.NF tb -> keyed tb -> ccontent ta = ccontent tb ->
                forall p v, T.content ta p = Some v -> T.content tb p = Some v).
    { intros ta tb NFa Ka NFb Kb Eab p v C. destruct (Ka _ _ C) as [k [B ->]].
      rewrite <- (ccontent_get tb k NFb Kb B), <- Eab, (ccontent_get ta k NFa Ka B). exact C. }
    assert (t1 = t2); [|subst; reflexivity].
    apply Trie.Unique.NF_unique; try assumption. intros p. apply option_eq_some. intros v. split.
    - apply D; assumption.
    - apply D; auto.
  Qed.

  Theorem root_function_of_storage_concrete bs1 bs2 t1 t2 :
    crun T.Empty bs1 t1 -> crun T.Empty bs2 t2 ->
    storage_after [] bs1 = storage_after [] bs2 -> croot t1 = croot t2.
  Proof.
    apply (root_function_of_storage T.node T.bytes T.Empty ccontent capply croot cinv cok cinv_empty eq_refl capply_spec
             croot_canonical).
  Qed.

  (* ---- range search: premise seek_spec from C10_seek_spec ---- *)
  Lemma range_pred k P S bw : bok k ->
    match T.strip (nk P) (nk k) with Some rel => T.in_range (nk S) bw rel | None => false end = in_range P S bw k.
  Proof.
    intros B. rewrite in_range_c09_form. destruct (is_prefix P k) eqn:E.
    - destruct (is_prefix_split _ _ E) as [r ->]. rewrite nk_app, Trie.Lemmas.strip_app. simpl.
      unfold T.in_range, T.lex_le, ble. rewrite bcmp_app_same, is_prefix_app_same.
      rewrite (bcmp_app_same P S r), !nk_cmp, nk_prefix. reflexivity.
    - simpl. destruct (T.strip (nk P) (nk k)) as [rel|] eqn:E1; [|reflexivity]. exfalso.
      rewrite <- nk_prefix in E. unfold T.is_prefix in E. rewrite E1 in E. discriminate.
  Qed.

  Lemma cseek_spec_inv t P S bw : cinv t -> cseek t P S bw = sm_range P S bw (ccontent t).
  Proof.
    intros [NF [K _]]. unfold cseek. rewrite (Trie.Range.seek_spec t (nk P) (nk S) bw NF).
    unfold T.range_query, sm_range, ccontent. cbv zeta.
    assert (E : map conv (filter (fun e : T.path * T.bytes =>
                  match T.strip (nk P) (fst e) with Some rel => T.in_range (nk S) bw rel | None => false end) (T.entries t)) =
                filter (fun p : bytes * val => in_range P S bw (fst p)) (map conv (T.entries t))).
    { rewrite Trie.Range.filter_map_comm. f_equal. apply Trie.Range.filter_ext'. intros e HI.
      destruct (entries_keyed t NF K e HI) as [k [B ->]]. rewrite conv_nk by assumption. simpl. apply range_pred. exact B. }
    destruct bw; [rewrite map_rev|]; rewrite E; reflexivity.
  Qed.

  Lemma cseek_spec t P S bw : creachable t -> cseek t P S bw = sm_range P S bw (ccontent t).
  Proof. intros R. apply cseek_spec_inv, creachable_inv, R. Qed.

  Theorem seek_at_height_concrete bs t P S bw :
    crun T.Empty bs t -> cseek t P S bw = sm_range P S bw (storage_after [] bs).
  Proof.
    intros R. rewrite (cseek_spec t P S bw (ex_intro _ bs R)), (root_commits_concrete bs t R). reflexivity.
  Qed.

  (* ---- Merkle proofs: premises proof_complete / proof_sound from C10_proof_complete / C10_proof_sound(_empty) ---- *)
  Lemma cproof_complete t k v : creachable t -> sm_get k (ccontent t) = Some v ->
    exists p, cget_proof t k = Some p /\ (cverify (croot t) k p = Some v \/ ccollision).
  Proof.
    intros R G. destruct (creachable_inv t R) as [NF [K CB]].
    destruct (bokb k) eqn:E.
    2:{ rewrite ccontent_get_nok in G; [discriminate|assumption|assumption|].
        intros B. apply bokb_spec in B. congruence. }
    apply bokb_spec in E. rewrite ccontent_get in G by assumption.
    destruct NF as [->|NE]; [discriminate|].
    destruct (Trie.Merkle.proof_complete H H_len t (nk k) v NE
                (Trie.Merkle.content_bounded_bounded t (or_intror NE) CB) G) as [pr [E1 [E2|E2]]];
      exists pr; (split; [exact E1|]); [left; exact E2|right; left; exact E2].
  Qed.

  Lemma cproof_sound t k p v : creachable t -> cverify (croot t) k p = Some v ->
    sm_get k (ccontent t) = Some v \/ ccollision.
  Proof.
    intros R V. destruct (creachable_inv t R) as [NF [K CB]]. unfold cverify, croot in V.
    destruct NF as [->|NE].
    - right. right. apply (Trie.Merkle.proof_sound_empty H (nk k) p v V).
    - destruct (Trie.Merkle.proof_sound H H_len t (nk k) p v NE
                  (Trie.Merkle.content_bounded_bounded t (or_intror NE) CB) V) as [C|C]; [left|right; left; exact C].
      destruct (K _ _ C) as [k' [B E]]. apply nk_inj in E. subst k'.
      rewrite ccontent_get; [exact C|right; exact NE|exact K|exact B].
  Qed.

  Theorem proof_complete_at_height_concrete bs t k v :
    crun T.Empty bs t -> sm_get k (storage_after [] bs) = Some v ->
    exists p, cget_proof t k = Some p /\ (cverify (croot t) k p = Some v \/ ccollision).
  Proof.
    apply (proof_at_height_complete T.node T.bytes T.Empty ccontent capply croot cget_proof cverify ccollision cinv cok
             cinv_empty eq_refl capply_spec cproof_complete).
  Qed.

  Theorem proof_sound_at_height_concrete bs t k p v :
    crun T.Empty bs t -> cverify (croot t) k p = Some v ->
    sm_get k (storage_after [] bs) = Some v \/ ccollision.
  Proof.
    apply (proof_at_height_sound T.node T.bytes T.Empty ccontent capply croot cverify ccollision cinv cok
             cinv_empty eq_refl capply_spec cproof_sound).
  Qed.
End Concrete.

Theorem interface_discharged :
  iface_base T.Empty ccontent capply cinv cok /\
  (forall (H : T.bytes -> T.bytes) t1 t2, creachable t1 -> creachable t2 -> ccontent t1 = ccontent t2 -> croot H t1 = croot H t2) /\
  (forall t P S bw, creachable t -> cseek t P S bw = sm_range P S bw (ccontent t)) /\
  (forall (H : T.bytes -> T.bytes), (forall x, length (H x) = 32%nat) ->
     (forall t k v, creachable t -> sm_get k (ccontent t) = Some v ->
        exists p, cget_proof H t k = Some p /\ (cverify H (croot H t) k p = Some v \/ ccollision H)) /\
     (forall t k p v, creachable t -> cverify H (croot H t) k p = Some v -> sm_get k (ccontent t) = Some v \/ ccollision H)).
Proof.
  split; [split; [exact cinv_empty|split; [reflexivity|exact capply_spec]]|].
  split; [exact croot_canonical|]. split; [exact cseek_spec|].
  intros H HL. split; [exact (cproof_complete H HL)|exact (cproof_sound H HL)].
Qed.

(* ---------- non-vacuity: two blocks through the concrete trie (an overwrite, a delete-and-recreate, a delete of an
              absent key, keys that are prefixes of one another), enumeration orders as Go might pick them ---------- *)
Definition cex_ws1 : list change := [ ([1;0;0;0;97;98], Some [1]); ([1;0;0;0;97], Some [2]); ([1;0;0;0;97;98], None);
                                      ([1;0;0;0;97;98], Some [3]); ([1;0;0;0;255], None) ].
Definition cex_m1 : list change := [ ([112;1;0;0;0;255], None); ([112;1;0;0;0;97;98], Some [3]); ([112;1;0;0;0;97], Some [2]) ].
Definition cex_ws2 : list change := [ ([1;0;0;0;97], None); ([2;0;0;0], Some []) ].
Definition cex_m2 : list change := [ ([112;2;0;0;0], Some []); ([112;1;0;0;0;97], None) ].
Definition cex_t : T.node := capply (capply T.Empty (to_batch cex_m1)) (to_batch cex_m2).

Lemma cex_cok : Forall cok cex_ws1 /\ Forall cok cex_ws2.
Proof.
  split; repeat (apply Forall_cons || apply Forall_nil); unfold cok, bok; cbn [fst snd length];
    (split; [repeat (apply Forall_cons; [lia|]); apply Forall_nil|]); (split; [cbn; lia|]);
    try exact I; unfold T.max_value_len; cbn; lia.
Qed.

Lemma cex_run : crun T.Empty [cex_ws1; cex_ws2] cex_t.
Proof.
  destruct cex_cok as [O1 O2]. unfold crun, cex_t.
  eapply run_cons with (m := cex_m1); [exact O1| |].
  - vm_compute. eapply perm_trans; [apply perm_swap|]. eapply perm_trans; [apply perm_skip, perm_swap|].
    eapply perm_trans; [apply perm_swap|]. reflexivity.
  - eapply run_cons with (m := cex_m2); [exact O2| |apply run_nil].
    vm_compute. apply perm_swap.
Qed.

Lemma cex_values :
  ccontent cex_t = [([1;0;0;0;97;98], [3]); ([2;0;0;0], [])] /\
  storage_after [] [cex_ws1; cex_ws2] = [([1;0;0;0;97;98], [3]); ([2;0;0;0], [])] /\
  T.NFb cex_t = true.
Proof. repeat split; vm_compute; reflexivity. Qed.
