(* C03: byte-string order, nibbles, sorting, the ordered map — basic facts. *)
From Coq Require Import Permutation.
From NG Require Import Common.Tactics StateRoot.Model.
Open Scope N_scope.

Lemma bcmp_refl a : bcmp a a = Eq.
Proof. induction a as [|x a IH]; simpl; [reflexivity|]. rewrite N.compare_refl. exact IH. Qed.

Lemma bcmp_eq : forall a b, bcmp a b = Eq -> a = b.
Proof.
  induction a as [|x a IH]; intros [|y b]; simpl; try discriminate; [reflexivity|].
  destruct (x ?= y) eqn:E; try discriminate. apply N.compare_eq_iff in E. subst. intros H. f_equal. auto.
Qed.

Lemma bcmp_opp : forall a b, bcmp b a = CompOpp (bcmp a b).
Proof.
  induction a as [|x a IH]; intros [|y b]; simpl; try reflexivity.
  rewrite (N.compare_antisym x y). destruct (x ?= y); simpl; auto.
Qed.

Lemma bcmp_lt_trans : forall a b c, bcmp a b = Lt -> bcmp b c = Lt -> bcmp a c = Lt.
Proof.
  induction a as [|x a IH]; intros [|y b] [|z c]; simpl; try discriminate; auto.
  destruct (x ?= y) eqn:E1; try discriminate; destruct (y ?= z) eqn:E2; try discriminate; intros H1 H2.
  - apply N.compare_eq_iff in E1. apply N.compare_eq_iff in E2. subst. rewrite N.compare_refl. eauto.
  - apply N.compare_eq_iff in E1. subst. rewrite E2. reflexivity.
  - apply N.compare_eq_iff in E2. subst. rewrite E1. reflexivity.
  - pose proof (proj1 (N.compare_lt_iff x y) E1) as L1. pose proof (proj1 (N.compare_lt_iff y z) E2) as L2.
    assert (E : (x ?= z) = Lt) by (apply N.compare_lt_iff; lia). rewrite E. reflexivity.
Qed.

Lemma beq_true a b : beq a b = true <-> a = b.
Proof.
  unfold beq. split.
  - destruct (bcmp a b) eqn:E; try discriminate. intros _. apply bcmp_eq. exact E.
  - intros ->. rewrite bcmp_refl. reflexivity.
Qed.
Lemma beq_refl a : beq a a = true.
Proof. apply beq_true. reflexivity. Qed.
Lemma beq_false a b : beq a b = false <-> a <> b.
Proof.
  split.
  - intros H E. apply beq_true in E. congruence.
  - intros H. destruct (beq a b) eqn:E; [apply beq_true in E; contradiction|reflexivity].
Qed.
Lemma beq_sym a b : beq a b = beq b a.
Proof.
  destruct (beq a b) eqn:E.
  - apply beq_true in E. subst. symmetry. apply beq_refl.
  - symmetry. apply beq_false. apply beq_false in E. congruence.
Qed.
Lemma bcmp_lt_neq a b : bcmp a b = Lt -> a <> b.
Proof. intros H ->. rewrite bcmp_refl in H. discriminate. Qed.
Lemma bcmp_gt_lt a b : bcmp a b = Gt -> bcmp b a = Lt.
Proof. intros H. rewrite bcmp_opp, H. reflexivity. Qed.

(* nibbles preserve the order (for any numbers, not only bytes < 256) *)
Lemma nib_cmp x y :
  match (x / 16 ?= y / 16) with Eq => (x mod 16 ?= y mod 16) | c => c end = (x ?= y).
Proof.
  destruct (N.compare_spec (x / 16) (y / 16)) as [E|E|E].
  - destruct (N.compare_spec (x mod 16) (y mod 16)) as [F|F|F]; symmetry.
    + apply N.compare_eq_iff. lia.
    + apply N.compare_lt_iff. lia.
    + apply N.compare_gt_iff. lia.
  - symmetry. apply N.compare_lt_iff. lia.
  - symmetry. apply N.compare_gt_iff. lia.
Qed.

Lemma to_nibbles_cons x a : to_nibbles (x :: a) = x / 16 :: x mod 16 :: to_nibbles a.
Proof. reflexivity. Qed.

Lemma nibbles_cmp : forall a b, bcmp (to_nibbles a) (to_nibbles b) = bcmp a b.
Proof.
  induction a as [|x a IH]; intros [|y b]; try reflexivity.
  rewrite !to_nibbles_cons. cbn [bcmp]. rewrite <- (nib_cmp x y).
  destruct (x / 16 ?= y / 16); try reflexivity.
  destruct (x mod 16 ?= y mod 16); try reflexivity. apply IH.
Qed.

Section Sorted.
  Context {A : Type}.
  Notation kv := (bytes * A)%type.
  Implicit Types s l : list kv.

  Definition lb (k : bytes) (s : list kv) : Prop := Forall (fun p => bcmp k (fst p) = Lt) s.
  Fixpoint ssorted (s : list kv) : Prop :=
    match s with
    | [] => True
    | x :: t => lb (fst x) t /\ ssorted t
    end.

  Lemma lb_trans k k' s : bcmp k k' = Lt -> lb k' s -> lb k s.
  Proof. intros H F. unfold lb in *. rewrite Forall_forall in *. intros p HI. eapply bcmp_lt_trans; eauto. Qed.

  Lemma ssorted_nodup s : ssorted s -> NoDup (map fst s).
  Proof.
    induction s as [|x t IH]; simpl; [constructor|]. intros [L S]. constructor; auto.
    intros HI. apply in_map_iff in HI. destruct HI as [p [E HI]].
    unfold lb in L. rewrite Forall_forall in L. specialize (L p HI). rewrite E, bcmp_refl in L. discriminate.
  Qed.

  (* sorting *)
  Lemma ins_perm x l : Permutation (ins x l) (x :: l).
  Proof.
    induction l as [|y t IH]; simpl; [reflexivity|].
    destruct (bcmp (fst x) (fst y)); try reflexivity.
    rewrite IH. apply perm_swap.
  Qed.
  Lemma isort_perm l : Permutation (isort l) l.
  Proof. induction l as [|x t IH]; simpl; [reflexivity|]. rewrite ins_perm. constructor. exact IH. Qed.

  Lemma ins_sorted x l : ssorted l -> (forall p, In p l -> fst p <> fst x) -> ssorted (ins x l).
  Proof.
    induction l as [|y t IH]; simpl; intros S ND.
    - split; [constructor|exact I].
    - destruct S as [L S]. destruct (bcmp (fst x) (fst y)) eqn:E.
      + apply bcmp_eq in E. exfalso. apply (ND y); auto.
      + simpl. split; [|split; assumption]. constructor; [assumption|]. eapply lb_trans; eassumption.
      + simpl. split.
        * unfold lb. rewrite Forall_forall. intros p HI.
          apply (Permutation_in _ (ins_perm x t)) in HI. destruct HI as [<-|HI].
          -- apply bcmp_gt_lt. assumption.
          -- unfold lb in L. rewrite Forall_forall in L. auto.
        * apply IH; auto.
  Qed.

  Lemma isort_sorted l : NoDup (map fst l) -> ssorted (isort l).
  Proof.
    induction l as [|x t IH]; simpl; intros ND; [exact I|]. inv ND.
    apply ins_sorted; auto. intros p HI E. apply H1.
    apply (Permutation_in _ (isort_perm t)) in HI. rewrite <- E. apply in_map. exact HI.
  Qed.

  Lemma sorted_perm_eq : forall l1 l2, ssorted l1 -> ssorted l2 -> Permutation l1 l2 -> l1 = l2.
  Proof.
    induction l1 as [|x t1 IH]; intros l2 S1 S2 P.
    - apply Permutation_nil in P. auto.
    - destruct l2 as [|y t2]; [apply Permutation_sym, Permutation_nil in P; discriminate|].
      simpl in S1, S2. destruct S1 as [L1 S1], S2 as [L2 S2].
      assert (x = y).
      { assert (I1 : In x (y :: t2)) by (eapply Permutation_in; [exact P|left; reflexivity]).
        assert (I2 : In y (x :: t1)) by (eapply Permutation_in; [apply Permutation_sym; exact P|left; reflexivity]).
        destruct I1 as [->|I1]; [reflexivity|]. destruct I2 as [->|I2]; [reflexivity|].
        unfold lb in *. rewrite Forall_forall in L1, L2. specialize (L1 _ I2). specialize (L2 _ I1).
        pose proof (bcmp_lt_trans _ _ _ L1 L2) as C. rewrite bcmp_refl in C. discriminate. }
      subst y. f_equal. apply IH; auto. eapply Permutation_cons_inv. exact P.
  Qed.

  (* the ordered map through [sm_get] *)
  Lemma get_set k v s k' : sm_get k' (sm_set k v s) = if beq k' k then Some v else sm_get k' s.
  Proof.
    induction s as [|[k0 v0] t IH]; simpl; [reflexivity|].
    destruct (bcmp k k0) eqn:E; simpl.
    - apply bcmp_eq in E. subst k0. destruct (beq k' k); reflexivity.
    - reflexivity.
    - rewrite IH. destruct (beq k' k0) eqn:E1; [|reflexivity].
      apply beq_true in E1. subst k'. destruct (beq k0 k) eqn:E2; [|reflexivity].
      apply beq_true in E2. subst. rewrite bcmp_refl in E. discriminate.
  Qed.

  Lemma get_lb k s k' : lb k s -> (k' = k \/ bcmp k' k = Lt) -> sm_get k' s = None.
  Proof.
    induction s as [|[k0 v0] t IH]; simpl; intros L H; [reflexivity|]. inv L. simpl in H2.
    assert (C : bcmp k' k0 = Lt) by (destruct H as [->|H]; [assumption|eapply bcmp_lt_trans; eassumption]).
    destruct (beq k' k0) eqn:E; [apply beq_true in E; subst; rewrite bcmp_refl in C; discriminate|]. auto.
  Qed.

  Lemma get_del k s k' : ssorted s -> sm_get k' (sm_del k s) = if beq k' k then None else sm_get k' s.
  Proof.
    induction s as [|[k0 v0] t IH]; simpl; intros S.
    - destruct (beq k' k); reflexivity.
    - destruct S as [L S]. simpl in L. destruct (bcmp k k0) eqn:E; simpl.
      + apply bcmp_eq in E. subst k0. destruct (beq k' k) eqn:E1; [|reflexivity].
        apply beq_true in E1. subst. apply (get_lb k t k L). auto.
      + destruct (beq k' k) eqn:E1; [|reflexivity]. apply beq_true in E1. subst k'.
        destruct (beq k k0) eqn:E2; [apply beq_true in E2; subst; rewrite bcmp_refl in E; discriminate|].
        apply (get_lb k0 t k L). auto.
      + rewrite IH by assumption. destruct (beq k' k0) eqn:E1; [|reflexivity].
        apply beq_true in E1. subst k'. destruct (beq k0 k) eqn:E2; [|reflexivity].
        apply beq_true in E2. subst. rewrite bcmp_refl in E. discriminate.
  Qed.

  Lemma lb_set k0 k v s : lb k0 s -> bcmp k0 k = Lt -> lb k0 (sm_set k v s).
  Proof.
    induction s as [|[k1 v1] t IH]; simpl; intros L C.
    - constructor; [exact C|constructor].
    - inv L. destruct (bcmp k k1).
      + constructor; assumption.
      + constructor; [assumption|]. constructor; assumption.
      + constructor; [assumption|]. apply IH; assumption.
  Qed.
  Lemma lb_del k0 k s : lb k0 s -> lb k0 (sm_del k s).
  Proof.
    induction s as [|[k1 v1] t IH]; simpl; intros L; [constructor|].
    inv L. destruct (bcmp k k1).
    - assumption.
    - constructor; assumption.
    - constructor; [assumption|]. apply IH; assumption.
  Qed.

  Lemma sorted_set k v s : ssorted s -> ssorted (sm_set k v s).
  Proof.
    induction s as [|[k0 v0] t IH]; simpl; intros S; [split; [constructor|exact I]|].
    destruct S as [L S]. simpl in L. destruct (bcmp k k0) eqn:E; simpl.
    - apply bcmp_eq in E. subst. auto.
    - split; [|split; assumption]. constructor; [exact E|]. eapply lb_trans; eassumption.
    - split; [|auto]. apply lb_set; [assumption|]. apply bcmp_gt_lt. assumption.
  Qed.
  Lemma sorted_del k s : ssorted s -> ssorted (sm_del k s).
  Proof.
    induction s as [|[k0 v0] t IH]; simpl; intros S; [exact I|].
    destruct S as [L S]. simpl in L. destruct (bcmp k k0) eqn:E; simpl; auto.
    split; [apply lb_del; assumption|auto].
  Qed.

  (* a strictly sorted association list is determined by its lookups *)
  Lemma sm_ext : forall s1 s2, ssorted s1 -> ssorted s2 -> (forall k, sm_get k s1 = sm_get k s2) -> s1 = s2.
  Proof.
    induction s1 as [|[k1 v1] t1 IH]; intros [|[k2 v2] t2] S1 S2 G; try reflexivity.
    - specialize (G k2). simpl in G. rewrite beq_refl in G. discriminate.
    - specialize (G k1). simpl in G. rewrite beq_refl in G. discriminate.
    - simpl in S1, S2. destruct S1 as [L1 S1], S2 as [L2 S2].
      assert (k1 = k2).
      { destruct (bcmp k1 k2) eqn:E; [apply bcmp_eq; assumption| |].
        - pose proof (G k1) as G1. simpl in G1. rewrite beq_refl in G1.
          destruct (beq k1 k2) eqn:E1; [apply beq_true in E1; assumption|].
          rewrite (get_lb k2 t2 k1 L2) in G1 by auto. discriminate.
        - apply bcmp_gt_lt in E. pose proof (G k2) as G2. simpl in G2. rewrite beq_refl in G2.
          destruct (beq k2 k1) eqn:E1; [apply beq_true in E1; auto|].
          rewrite (get_lb k1 t1 k2 L1) in G2 by auto. discriminate. }
      subst k2. pose proof (G k1) as G1. simpl in G1. rewrite beq_refl in G1. inv G1. f_equal.
      apply IH; auto. intros k. specialize (G k). simpl in G.
      destruct (beq k k1) eqn:E; [|exact G]. apply beq_true in E. subst.
      rewrite (get_lb k1 t1 k1 L1), (get_lb k1 t2 k1 L2); auto.
  Qed.
End Sorted.

(* sorting commutes with a map that preserves the order of keys *)
Section SortMap.
  Context {A B : Type}.
  Variable f : bytes * A -> bytes * B.
  Hypothesis f_cmp : forall x y, bcmp (fst (f x)) (fst (f y)) = bcmp (fst x) (fst y).

  Lemma ins_map x l : ins (f x) (map f l) = map f (ins x l).
  Proof.
    induction l as [|y t IH]; simpl; [reflexivity|]. rewrite f_cmp.
    destruct (bcmp (fst x) (fst y)); simpl; try reflexivity. rewrite IH. reflexivity.
  Qed.
  Lemma isort_map l : isort (map f l) = map f (isort l).
  Proof. induction l as [|x t IH]; simpl; [reflexivity|]. rewrite IH. apply ins_map. Qed.
  Lemma sorted_map l : ssorted l -> ssorted (map f l).
  Proof.
    induction l as [|x t IH]; simpl; [auto|]. intros [L S]. split; [|auto].
    unfold lb in *. rewrite Forall_forall in *. intros p HI. apply in_map_iff in HI.
    destruct HI as [q [<- HI]]. rewrite f_cmp. auto.
  Qed.
End SortMap.
