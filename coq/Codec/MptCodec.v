(* Byte-level model of the MPT node encodings of pkg/core/mpt (node.go, base.go, branch.go, extension.go, leaf.go,
   hash.go, empty.go): encodeNodeWithType / DecodeNodeWithType.
   A node is written with its type byte; the CHILDREN of a branch or extension node are always written through
   encodeBinaryAsChild, i.e. as a hash reference (type 3 + 32 bytes) or as the empty node (type 4) — never inline.
   The decoder (DecodeNodeWithType, recursive with a depth limit of maxPathLength) ACCEPTS inline children; such an
   input is not canonical: re-encoding replaces the inline child by its hash (finding F8 was settled that way:
   canonical = children as hash/empty only; state sync compares with the canonical encoding).
   The node hash is a Section variable (Go: DoubleSha256 of the encoding with type). *)
From NG Require Import Common.Tactics Codec.Bigint Codec.Wire.
Open Scope Z_scope.

Inductive mnode :=
| MEmpty
| MHash (h : list Z)                     (* 32 bytes *)
| MLeaf (v : list Z)
| MExt (k : list Z) (next : mnode)       (* key: one nibble per byte *)
| MBranch (cs : list mnode).             (* 17 children: 16 nibbles + the value child *)

Definition max_path_length : Z := 136.       (* maxPathLength = (MaxStorageKeyLen + 4) * 2 *)
Definition max_value_length : Z := 65539.    (* MaxValueLength = 3 + MaxStorageValueLen + 1 *)
Definition children_count : nat := 17.

Section MptHash.
  Variable H : list Z -> list Z.             (* hash of an encoded node, 32 bytes *)

  Fixpoint write_node (n : mnode) : list Z :=
    match n with
    | MEmpty => [4]
    | MHash h => 3 :: h
    | MLeaf v => 2 :: write_varbytes v
    | MExt k next =>
        1 :: write_varbytes k ++
        match next with MEmpty => [4] | MHash h => 3 :: h | _ => 3 :: H (write_node next) end
    | MBranch cs =>
        0 :: (fix wl (l : list mnode) : list Z :=
                match l with
                | [] => []
                | c :: t => match c with MEmpty => [4] | MHash h => 3 :: h | _ => 3 :: H (write_node c) end ++ wl t
                end) cs
    end.

  (* Node.Hash(): a hash node carries its hash, every other node hashes its encoding *)
  Definition node_hash (n : mnode) : list Z := match n with MHash h => h | _ => H (write_node n) end.
  (* encodeBinaryAsChild *)
  Definition child_ref (c : mnode) : list Z := match c with MEmpty => [4] | _ => 3 :: node_hash c end.
  (* the value a canonical decoder sees for a child: its reference *)
  Definition as_ref (c : mnode) : mnode := match c with MEmpty => MEmpty | _ => MHash (node_hash c) end.
  (* a node with its children replaced by references: what decode (write_node n) returns *)
  Definition collapse1 (n : mnode) : mnode :=
    match n with
    | MExt k next => MExt k (as_ref next)
    | MBranch cs => MBranch (map as_ref cs)
    | _ => n
    end.
End MptHash.

(* DecodeNodeWithType(r, depth): fuel = structural bound (one unit per nested node) *)
Fixpoint read_node (fuel : nat) (depth : Z) : dec mnode :=
  match fuel with
  | O => fail
  | S f =>
      if max_path_length <? depth then fail else
      t <- read_b ;;
      if t =? 0 then cs <- read_n (read_node f (depth + 1)) children_count ;; ret (MBranch cs)
      else if t =? 1 then
        sz <- read_varuint ;;
        if max_path_length <? sz then fail else
        k <- read_bytes (Z.to_nat sz) ;; nx <- read_node f (depth + 1) ;; ret (MExt k nx)
      else if t =? 2 then
        sz <- read_varuint ;;
        if max_value_length <? sz then fail else
        v <- read_bytes (Z.to_nat sz) ;; ret (MLeaf v)
      else if t =? 3 then h <- read_bytes 32 ;; ret (MHash h)
      else if t =? 4 then ret MEmpty
      else fail
  end.

(* NodeObject.DecodeBinary: depth 0; every nested node consumes a byte, so S (length bs) units of fuel suffice *)
Definition decode_node (bs : list Z) : option (mnode * list Z) := read_node (S (length bs)) 0 bs.

(* Size() methods (without the type byte): BranchNode.Size, ExtensionNode.Size, LeafNode.Size; hash 32, empty 0 *)
Definition is_mempty (n : mnode) : bool := match n with MEmpty => true | _ => false end.
Definition node_size (n : mnode) : Z :=
  match n with
  | MEmpty => 0
  | MHash _ => 32
  | MLeaf v => varbytes_size v
  | MExt k _ => varuint_size (Z.of_nat (length k)) + Z.of_nat (length k) + 1 + 32
  | MBranch cs => Z.of_nat children_count + 32 * Z.of_nat (length (filter (fun c => negb (is_mempty c)) cs))
  end.
