(* Model of pkg/vm/stackitem/serialization.go: Serialize / Deserialize of stack items with the item-count
   limit (MaxSerialized = MaxDeserialized = 2048), the size limit (MaxSize) and the per-field maxima.
   Items are trees: Go's pointer identity ([seen] map: sharing shortcut and ErrRecursive for cycles) is not
   modelled — a shared sub-item serialises to the same bytes as its copy.
   Correct behaviour is modelled where the unchanged tree panics: an Integer whose length prefix exceeds 32
   is an error (F11; an element count >= 2^63 likewise, F28), a Map key that is not Boolean/Integer/ByteString<=64 is an error (F17).
   PROTECTED mode ([prot = true]: EncodeBinaryProtected / DecodeBinaryProtected / SerializationContext.Serialize(item, true),
   used for the stacks of application execution results): interop items (type only), pointers (position only) and the
   nil item are representable; in normal mode they are refused by both directions. *)
From NG Require Import Common.Tactics Codec.Bigint Codec.Wire.
Open Scope Z_scope.

Inductive item :=
| IAny
| IBool (b : bool)
| IInt (z : Z)
| IBytes (b : list Z)
| IBuffer (b : list Z)
| IArray (l : list item)
| IStruct (l : list item)
| IMap (l : list (item * item))
| IInterop                      (* protected mode only: the value is not serialised *)
| IPointer (pos : Z)            (* protected mode only: position as a var-uint, script hash lost *)
| IInvalid.                     (* protected mode only: Go's nil item *)

Definition max_items : nat := 2048.
Definition max_size : Z := 131070.        (* stackitem.MaxSize = math.MaxUint16 * 2 *)
Definition max_key_size : nat := 64.
Definition max_int_bytes : Z := 32.

(* ---- pure encoding ---- *)
Fixpoint enc_item (i : item) : list Z :=
  match i with
  | IAny => [0]
  | IBool b => 32 :: write_bool b
  | IInt z => let d := to_bytes z in 33 :: Z.of_nat (length d) :: d
  | IBytes b => 40 :: write_varbytes b
  | IBuffer b => 48 :: write_varbytes b
  | IArray l => 64 :: write_varuint (Z.of_nat (length l)) ++ (fix el (l : list item) := match l with [] => [] | x :: t => enc_item x ++ el t end) l
  | IStruct l => 65 :: write_varuint (Z.of_nat (length l)) ++ (fix el (l : list item) := match l with [] => [] | x :: t => enc_item x ++ el t end) l
  | IMap l => 72 :: write_varuint (Z.of_nat (length l)) ++ (fix el (l : list (item * item)) := match l with [] => [] | (k, v) :: t => enc_item k ++ enc_item v ++ el t end) l
  | IInterop => [96]
  | IPointer pos => 16 :: write_varuint pos
  | IInvalid => [255]
  end.

(* number of items including the item itself *)
Fixpoint count_item (i : item) : nat :=
  match i with
  | IArray l | IStruct l => S ((fix cl (l : list item) := match l with [] => O | x :: t => (count_item x + cl t)%nat end) l)
  | IMap l => S ((fix cl (l : list (item * item)) := match l with [] => O | (k, v) :: t => (count_item k + count_item v + cl t)%nat end) l)
  | _ => 1%nat
  end.

(* ---- Serialize: the mechanism threads the output buffer and the remaining item budget ---- *)
(* state = (data written so far, remaining limit) ; None = error *)
Fixpoint ser (prot : bool) (i : item) (st : list Z * nat) : option (list Z * nat) :=
  let '(data, lim) := st in
  match lim with
  | O => None                                             (* w.limit-- ; if w.limit < 0 *)
  | S lim' =>
      let after (r : option (list Z * nat)) :=
        match r with
        | Some (d, l) => if max_size <? Z.of_nat (length d) then None else Some (d, l)
        | None => None
        end in
      match i with
      | IAny => after (Some (data ++ [0], lim'))
      | IBool b => after (Some (data ++ 32 :: write_bool b, lim'))
      | IInt z => let d := to_bytes z in after (Some (data ++ 33 :: Z.of_nat (length d) :: d, lim'))
      | IBytes b => after (Some (data ++ 40 :: write_varbytes b, lim'))
      | IBuffer b => after (Some (data ++ 48 :: write_varbytes b, lim'))
      | IArray l =>
          after ((fix sl (l : list item) (st : list Z * nat) : option (list Z * nat) :=
                    match l with [] => Some st | x :: t => match ser prot x st with Some st' => sl t st' | None => None end end)
                   l (data ++ 64 :: write_varuint (Z.of_nat (length l)), lim'))
      | IStruct l =>
          after ((fix sl (l : list item) (st : list Z * nat) : option (list Z * nat) :=
                    match l with [] => Some st | x :: t => match ser prot x st with Some st' => sl t st' | None => None end end)
                   l (data ++ 65 :: write_varuint (Z.of_nat (length l)), lim'))
      | IMap l =>
          after ((fix sl (l : list (item * item)) (st : list Z * nat) : option (list Z * nat) :=
                    match l with
                    | [] => Some st
                    | (k, v) :: t => match ser prot k st with
                                     | Some st' => match ser prot v st' with Some st'' => sl t st'' | None => None end
                                     | None => None
                                     end
                    end)
                   l (data ++ 72 :: write_varuint (Z.of_nat (length l)), lim'))
      | IInterop => if prot then after (Some (data ++ [96], lim')) else None
      | IPointer pos => if prot then after (Some (data ++ 16 :: write_varuint pos, lim')) else None
      | IInvalid => if prot then after (Some (data ++ [255], lim')) else None
      end
  end.
Definition serialize_gen (prot : bool) (i : item) : option (list Z) :=
  match ser prot i ([], max_items) with Some (d, _) => Some d | None => None end.
Definition serialize (i : item) : option (list Z) := serialize_gen false i.
(* SerializationContext.Serialize(item, true) / EncodeBinaryProtected: any failure is replaced by the Invalid marker *)
Definition serialize_prot (i : item) : list Z := match serialize_gen true i with Some d => d | None => [255] end.

(* ---- map keys (IsValidMapKey, Map.Add with hashCode = type byte ++ bytes) ---- *)
Definition valid_key (k : item) : bool :=
  match k with
  | IBool _ | IInt _ => true
  | IBytes b => (length b <=? max_key_size)%nat
  | _ => false
  end.
Definition key_eqb (a b : item) : bool :=
  match a, b with
  | IBool x, IBool y => Bool.eqb x y
  | IInt x, IInt y => x =? y
  | IBytes x, IBytes y => byte_eqb x y
  | _, _ => false
  end.
(* Map.Add: an existing key keeps its position and gets the new value *)
Fixpoint map_add (m : list (item * item)) (k v : item) : list (item * item) :=
  match m with
  | [] => [(k, v)]
  | (k', v') :: t => if key_eqb k' k then (k', v) :: t else (k', v') :: map_add t k v
  end.

(* ---- Deserialize: threads the remaining item budget; fuel = structural bound on nesting ---- *)
Definition rdec (A : Type) := nat -> list Z -> option (A * nat * list Z).

Fixpoint read_items (rd : rdec item) (n : nat) (lim : nat) (bs : list Z) : option (list item * nat * list Z) :=
  match n with
  | O => Some ([], lim, bs)
  | S n' => match rd lim bs with
            | Some (x, lim', r) => match read_items rd n' lim' r with
                                   | Some (l, lim'', r') => Some (x :: l, lim'', r')
                                   | None => None
                                   end
            | None => None
            end
  end.
Fixpoint read_pairs (rd : rdec item) (n : nat) (acc : list (item * item)) (lim : nat) (bs : list Z)
  : option (list (item * item) * nat * list Z) :=
  match n with
  | O => Some (acc, lim, bs)
  | S n' => match rd lim bs with
            | Some (k, lim', r) =>
                match rd lim' r with
                | Some (v, lim'', r') => if valid_key k then read_pairs rd n' (map_add acc k v) lim'' r' else None
                | None => None
                end
            | None => None
            end
  end.

Fixpoint read_item (prot : bool) (fuel : nat) : rdec item :=
  fun lim bs =>
  match fuel with
  | O => None
  | S f =>
      match bs with
      | [] => None
      | t :: r =>
          match lim with
          | O => None                                     (* r.limit-- ; if r.limit < 0 *)
          | S lim' =>
              if t =? 0 then Some (IAny, lim', r)
              else if t =? 32 then match read_bool_lax r with Some (b, r') => Some (IBool b, lim', r') | None => None end
              else if t =? 33 then match read_varbytes max_int_bytes r with Some (d, r') => Some (IInt (from_bytes d), lim', r') | None => None end
              else if t =? 40 then match read_varbytes max_size r with Some (d, r') => Some (IBytes d, lim', r') | None => None end
              else if t =? 48 then match read_varbytes max_size r with Some (d, r') => Some (IBuffer d, lim', r') | None => None end
              else if (t =? 64) || (t =? 65) then
                match read_varuint r with
                | Some (n, r') =>
                    if Z.of_nat lim' <? n then None else
                    match read_items (read_item prot f) (Z.to_nat n) lim' r' with
                    | Some (l, lim'', r'') => Some ((if t =? 64 then IArray l else IStruct l), lim'', r'')
                    | None => None
                    end
                | None => None
                end
              else if t =? 72 then
                match read_varuint r with
                | Some (n, r') =>
                    if Z.of_nat (lim' / 2) <? n then None else
                    match read_pairs (read_item prot f) (Z.to_nat n) [] lim' r' with
                    | Some (l, lim'', r'') => Some (IMap l, lim'', r'')
                    | None => None
                    end
                | None => None
                end
              else if prot && (t =? 96) then Some (IInterop, lim', r)
              else if prot && (t =? 16) then match read_varuint r with Some (p, r') => Some (IPointer p, lim', r') | None => None end
              else if prot && (t =? 255) then Some (IInvalid, lim', r)
              else None
          end
      end
  end.

(* Deserialize(data): fuel = length of the input (every nesting level consumes a byte); trailing bytes are ignored
   by the Go function as well *)
Definition deserialize_gen (prot : bool) (bs : list Z) : option item :=
  match read_item prot (S (length bs)) max_items bs with Some (i, _, _) => Some i | None => None end.
Definition deserialize (bs : list Z) : option item := deserialize_gen false bs.
(* one item from a stream (stackitem.DecodeBinary / DecodeBinaryProtected on a reader): a fresh budget, the rest is returned *)
Definition read_item_dec (prot : bool) : dec item :=
  fun bs => match read_item prot (S (length bs)) max_items bs with Some (i, _, r) => Some (i, r) | None => None end.
