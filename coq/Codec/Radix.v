(* Positional numerals shared by Codec/Base58.v (radix 58 and 256) and Codec/Fixed.v (radix 10).
   Definitions only; everything computes under vm_compute. Proofs are in RadixProofs.v.
   Digits are Z in [0,base). The little-endian functions are the ones proofs go by; the big-endian
   forms used by the codecs are their reversals. *)
From NG Require Import Common.Tactics.
Open Scope Z_scope.

(* least-significant-first digits of n; no digits at all for n <= 0 (explicit fuel) *)
Fixpoint digits_le (base : Z) (fuel : nat) (n : Z) : list Z :=
  match fuel with
  | O => []
  | S f => if n <=? 0 then [] else (n mod base) :: digits_le base f (n / base)
  end.

(* enough fuel for every base >= 2: n < 2 ^ digit_fuel n *)
Definition digit_fuel (n : Z) : nat := S (Z.to_nat (Z.log2 n)).

(* most-significant-first digits of n, none when n = 0 *)
Definition digits_be (base n : Z) : list Z := rev (digits_le base (digit_fuel n) n).

Fixpoint value_le (base : Z) (l : list Z) : Z :=
  match l with
  | [] => 0
  | d :: t => d + base * value_le base t
  end.

Definition value_be (base : Z) (l : list Z) : Z := value_le base (rev l).

(* leading run of z *)
Fixpoint count_leading (z : Z) (l : list Z) : nat :=
  match l with
  | x :: t => if x =? z then S (count_leading z t) else O
  | [] => O
  end.

Fixpoint strip_leading (z : Z) (l : list Z) : list Z :=
  match l with
  | x :: t => if x =? z then strip_leading z t else l
  | [] => []
  end.

(* all-or-nothing map *)
Fixpoint map_option {A B} (f : A -> option B) (l : list A) : option (list B) :=
  match l with
  | [] => Some []
  | x :: t =>
      match f x with
      | None => None
      | Some y =>
          match map_option f t with
          | None => None
          | Some t' => Some (y :: t')
          end
      end
  end.

(* a well-formed big-endian numeral: digits in range, no leading zero digit (the empty numeral is 0) *)
Definition digits_okb (base : Z) (l : list Z) : bool := forallb (fun d => (0 <=? d) && (d <? base)) l.
