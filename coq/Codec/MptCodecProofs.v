(* Proofs about Codec/MptCodec.v (the byte-level model of pkg/core/mpt node encodings).
     mnode_wf / mnode_depth / mnode_canonical   what the decoder returns, nesting, "children are references"
     node_decode_collapse    decode (encode n) = collapse1 n   for every well-formed n (children -> references)
     node_decode_encode      decode (encode n) = n             for canonical n
     collapse1_canonical, collapse1_idem, write_node_collapse1, node_hash_collapse1
     node_decode_wf          accepted => wf, bytes, consumed >= 1 byte, depth n + d <= 137
     node_decode_canonical   re-encoding an accepted node decodes to its collapse
     node_reencoding_bound / node_reencoding_not_longer / growth Example (finding F8 remark)
     node_decode_total       fuel independence; node_consumes
     node_size_eq, node_alloc_bounded
   All statements are for every hash function H; H_len / H_ok are the only Section hypotheses. *)
From NG Require Import Common.Tactics Codec.Bigint Codec.BigintProofs Codec.Wire Codec.WireProofs Codec.MptCodec.
Open Scope Z_scope.

(* ================= induction principle for the nested inductive ================= *)
Section mnode_ind2.
  Variable P : mnode -> Prop.
  Hypothesis HE : P MEmpty.
  Hypothesis HH : forall h, P (MHash h).
  Hypothesis HL : forall v, P (MLeaf v).
  Hypothesis HX : forall k n, P n -> P (MExt k n).
  Hypothesis HB : forall cs, Forall P cs -> P (MBranch cs).
  Fixpoint mnode_ind2 (n : mnode) : P n :=
    match n with
    | MEmpty => HE
    | MHash h => HH h
    | MLeaf v => HL v
    | MExt k nx => HX k nx (mnode_ind2 nx)
    | MBranch cs =>
        HB cs ((fix go (l : list mnode) : Forall P l :=
                  match l with [] => Forall_nil _ | c :: t => Forall_cons _ (mnode_ind2 c) (go t) end) cs)
    end.
End mnode_ind2.

(* ================= well-formedness, depth, canonical form ================= *)
Definition all_true (l : list Prop) : Prop := fold_right and True l.
Lemma all_true_map {A} (P : A -> Prop) l : all_true (map P l) <-> Forall P l.
Proof.
  induction l as [|x t IH]; cbn [map all_true fold_right].
  - split; [constructor|exact (fun _ => I)].
  - fold (all_true (map P t)). rewrite IH. split; [intros [? ?]; constructor; assumption|intros HF; inv HF; auto].
Qed.

(* what the decoder can return *)
Fixpoint mnode_wf (n : mnode) : Prop :=
  match n with
  | MEmpty => True
  | MHash h => length h = 32%nat /\ bytes_ok h
  | MLeaf v => bytes_ok v /\ Z.of_nat (length v) <= max_value_length
  | MExt k nx => bytes_ok k /\ Z.of_nat (length k) <= max_path_length /\ mnode_wf nx
  | MBranch cs => length cs = children_count /\ all_true (map mnode_wf cs)
  end.
Lemma mnode_wf_branch cs : mnode_wf (MBranch cs) <-> length cs = children_count /\ Forall mnode_wf cs.
Proof. cbn [mnode_wf]. rewrite all_true_map. reflexivity. Qed.

(* boolean version, for computing (Examples, harness) *)
Fixpoint mnode_wfb (n : mnode) : bool :=
  match n with
  | MEmpty => true
  | MHash h => (length h =? 32)%nat && bytes_okb h
  | MLeaf v => bytes_okb v && (Z.of_nat (length v) <=? max_value_length)
  | MExt k nx => bytes_okb k && (Z.of_nat (length k) <=? max_path_length) && mnode_wfb nx
  | MBranch cs => (length cs =? children_count)%nat && forallb mnode_wfb cs
  end.
Lemma mbytes_okb_sound l : bytes_okb l = true -> bytes_ok l.
Proof.
  unfold bytes_okb, bytes_ok. intros Hb. apply Forall_forall. intros b Hin.
  pose proof (proj1 (forallb_forall _ _) Hb b Hin). lia.
Qed.
Lemma mnode_wfb_sound n : mnode_wfb n = true -> mnode_wf n.
Proof.
  induction n as [|h|v|k nx IH|cs IH] using mnode_ind2; intros Hb.
  - exact I.
  - cbn [mnode_wfb] in Hb. apply andb_true_iff in Hb as [H1 H2]. split; [now apply Nat.eqb_eq|now apply mbytes_okb_sound].
  - cbn [mnode_wfb] in Hb. apply andb_true_iff in Hb as [H1 H2]. split; [now apply mbytes_okb_sound|lia].
  - cbn [mnode_wfb] in Hb. apply andb_true_iff in Hb as [Hb H3]. apply andb_true_iff in Hb as [H1 H2].
    cbn [mnode_wf]. split; [now apply mbytes_okb_sound|]. split; [lia|auto].
  - cbn [mnode_wfb] in Hb. apply andb_true_iff in Hb as [H1 H2]. apply mnode_wf_branch.
    split; [now apply Nat.eqb_eq|]. rewrite Forall_forall in *. intros c Hin. apply IH; [exact Hin|].
    exact (proj1 (forallb_forall _ _) H2 c Hin).
Qed.

(* nesting: a node without children counts 1 *)
Fixpoint mnode_depth (n : mnode) : nat :=
  match n with
  | MExt _ nx => S (mnode_depth nx)
  | MBranch cs => S (list_max (map mnode_depth cs))
  | _ => 1
  end.

(* a reference: what encodeBinaryAsChild writes *)
Definition is_refb (c : mnode) : bool := match c with MEmpty | MHash _ => true | _ => false end.
Definition is_ref (c : mnode) : Prop := is_refb c = true.
(* the children are references (one level: that is all the encoder ever writes) *)
Definition mnode_canonical (n : mnode) : Prop :=
  match n with
  | MExt _ nx => is_ref nx
  | MBranch cs => Forall is_ref cs
  | _ => True
  end.
(* number of children written inline *)
Definition inline_count (n : mnode) : nat :=
  match n with
  | MExt _ nx => if is_refb nx then 0 else 1
  | MBranch cs => length (filter (fun c => negb (is_refb c)) cs)
  | _ => 0
  end.
(* nesting of an encoding: the node itself and, for an extension or a branch, its references *)
Definition node_levels (n : mnode) : Z := match n with MExt _ _ | MBranch _ => 2 | _ => 1 end.

Lemma list_max_bound (l : list nat) (m : Z) :
  0 <= m -> Forall (fun k => Z.of_nat k <= m) l -> Z.of_nat (list_max l) <= m.
Proof.
  intros Hm HF. induction HF as [|x t Hx Ht IH]; [simpl; lia|].
  change (list_max (x :: t)) with (Nat.max x (list_max t)). lia.
Qed.
Lemma list_max_ge (l : list nat) x : In x l -> (x <= list_max l)%nat.
Proof.
  induction l as [|y t IH]; [intros []|]. change (list_max (y :: t)) with (Nat.max y (list_max t)).
  intros [->|Hin]; [lia|]. specialize (IH Hin). lia.
Qed.

Lemma canonical_inline_count n : mnode_canonical n -> inline_count n = 0%nat.
Proof.
  destruct n as [|h|v|k nx|cs]; cbn [mnode_canonical inline_count]; try reflexivity.
  - unfold is_ref. now intros ->.
  - intros HF. induction HF as [|c t Hc Ht IH]; [reflexivity|]. cbn [filter]. unfold is_ref in Hc. rewrite Hc. exact IH.
Qed.
Lemma canonical_depth n : mnode_wf n -> mnode_canonical n -> Z.of_nat (mnode_depth n) <= node_levels n.
Proof.
  destruct n as [|h|v|k nx|cs]; cbn [mnode_canonical mnode_depth node_levels]; try lia.
  - intros _ Hr. destruct nx; try discriminate Hr; cbn [mnode_depth]; lia.
  - intros _ HF. assert (Z.of_nat (list_max (map mnode_depth cs)) <= 1); [|lia].
    apply list_max_bound; [lia|]. rewrite Forall_map. eapply Forall_impl; [|exact HF].
    intros c Hr. destruct c; try discriminate Hr; cbn [mnode_depth]; lia.
Qed.

(* ================= decoder: unfolding, inversion ================= *)
Lemma bytes_ok_cons_inv t r : bytes_ok (t :: r) -> 0 <= t < 256 /\ bytes_ok r.
Proof. intros Hb. inv Hb. auto. Qed.
Lemma mret_some {A} (a v : A) r rest : ret a r = Some (v, rest) -> v = a /\ rest = r.
Proof. intros E. inv E. auto. Qed.
Ltac minv_ret H := apply mret_some in H as [-> ->].
Ltac mstep tac := erewrite bind_ok by tac; cbv beta.

Lemma bind_ext {A B} (d : dec A) (f g : A -> dec B) bs :
  (forall a r, d bs = Some (a, r) -> f a r = g a r) -> bind d f bs = bind d g bs.
Proof. unfold bind. destruct (d bs) as [[a r]|]; auto. Qed.

Lemma read_node_S f d bs :
  read_node (S f) d bs =
  (if max_path_length <? d then fail else
   t <- read_b ;;
   if t =? 0 then cs <- read_n (read_node f (d + 1)) children_count ;; ret (MBranch cs)
   else if t =? 1 then
     sz <- read_varuint ;;
     if max_path_length <? sz then fail else
     k <- read_bytes (Z.to_nat sz) ;; nx <- read_node f (d + 1) ;; ret (MExt k nx)
   else if t =? 2 then
     sz <- read_varuint ;;
     if max_value_length <? sz then fail else
     v <- read_bytes (Z.to_nat sz) ;; ret (MLeaf v)
   else if t =? 3 then h <- read_bytes 32 ;; ret (MHash h)
   else if t =? 4 then ret MEmpty
   else fail) bs.
Proof. reflexivity. Qed.

Lemma read_node_0 f d r : d <= max_path_length ->
  read_node (S f) d (0 :: r) = (cs <- read_n (read_node f (d + 1)) children_count ;; ret (MBranch cs)) r.
Proof. intros Hd. rewrite read_node_S. replace (max_path_length <? d) with false by lia. reflexivity. Qed.
Lemma read_node_1 f d r : d <= max_path_length ->
  read_node (S f) d (1 :: r) =
  (sz <- read_varuint ;; if max_path_length <? sz then fail else
   k <- read_bytes (Z.to_nat sz) ;; nx <- read_node f (d + 1) ;; ret (MExt k nx)) r.
Proof. intros Hd. rewrite read_node_S. replace (max_path_length <? d) with false by lia. reflexivity. Qed.
Lemma read_node_2 f d r : d <= max_path_length ->
  read_node (S f) d (2 :: r) =
  (sz <- read_varuint ;; if max_value_length <? sz then fail else v <- read_bytes (Z.to_nat sz) ;; ret (MLeaf v)) r.
Proof. intros Hd. rewrite read_node_S. replace (max_path_length <? d) with false by lia. reflexivity. Qed.
Lemma read_node_3 f d r : d <= max_path_length ->
  read_node (S f) d (3 :: r) = (h <- read_bytes 32 ;; ret (MHash h)) r.
Proof. intros Hd. rewrite read_node_S. replace (max_path_length <? d) with false by lia. reflexivity. Qed.
Lemma read_node_4 f d r : d <= max_path_length -> read_node (S f) d (4 :: r) = Some (MEmpty, r).
Proof. intros Hd. rewrite read_node_S. replace (max_path_length <? d) with false by lia. reflexivity. Qed.
(* errTooManyNodes *)
Lemma read_node_too_deep f d bs : max_path_length < d -> read_node f d bs = None.
Proof. intros Hd. destruct f; [reflexivity|]. rewrite read_node_S. replace (max_path_length <? d) with true by lia. reflexivity. Qed.

(* the one inversion lemma everything below uses: how each constructor can come out of the decoder *)
Lemma read_node_inv f d bs n rest :
  read_node f d bs = Some (n, rest) ->
  exists f' t r, f = S f' /\ d <= max_path_length /\ bs = t :: r /\
    match n with
    | MBranch cs => t = 0 /\ read_n (read_node f' (d + 1)) children_count r = Some (cs, rest)
    | MExt k nx => t = 1 /\ exists sz r1 r2, read_varuint r = Some (sz, r1) /\ sz <= max_path_length /\
                     read_bytes (Z.to_nat sz) r1 = Some (k, r2) /\ read_node f' (d + 1) r2 = Some (nx, rest)
    | MLeaf v => t = 2 /\ exists sz r1, read_varuint r = Some (sz, r1) /\ sz <= max_value_length /\
                     read_bytes (Z.to_nat sz) r1 = Some (v, rest)
    | MHash h => t = 3 /\ read_bytes 32 r = Some (h, rest)
    | MEmpty => t = 4 /\ rest = r
    end.
Proof.
  intros Hd. destruct f as [|f']; [discriminate|]. rewrite read_node_S in Hd.
  destruct (max_path_length <? d) eqn:Ed; [discriminate|].
  apply bind_some in Hd as (t & r & Ht & Hd). apply read_b_some in Ht as ->.
  exists f', t, r. split; [reflexivity|]. split; [lia|]. split; [reflexivity|].
  destruct (t =? 0) eqn:E0.
  { apply bind_some in Hd as (cs & r1 & Hcs & Hd). minv_ret Hd. split; [lia|exact Hcs]. }
  destruct (t =? 1) eqn:E1.
  { apply bind_some in Hd as (sz & r1 & Hsz & Hd). destruct (max_path_length <? sz) eqn:Es; [discriminate|].
    apply bind_some in Hd as (k & r2 & Hk & Hd). apply bind_some in Hd as (nx & r3 & Hnx & Hd). minv_ret Hd.
    split; [lia|]. exists sz, r1, r2. repeat split; try assumption; lia. }
  destruct (t =? 2) eqn:E2.
  { apply bind_some in Hd as (sz & r1 & Hsz & Hd). destruct (max_value_length <? sz) eqn:Es; [discriminate|].
    apply bind_some in Hd as (v & r2 & Hv & Hd). minv_ret Hd.
    split; [lia|]. exists sz, r1. repeat split; try assumption; lia. }
  destruct (t =? 3) eqn:E3.
  { apply bind_some in Hd as (h & r1 & Hh & Hd). minv_ret Hd. split; [lia|exact Hh]. }
  destruct (t =? 4) eqn:E4; [|discriminate].
  minv_ret Hd. split; [lia|reflexivity].
Qed.

(* ================= 5. consumption and fuel independence ================= *)
Theorem node_consumes f : forall d, dec_consumes (read_node f d).
Proof.
  induction f as [|f IH]; intros d bs n rest Hd; [discriminate|].
  destruct (read_node_inv _ _ _ _ _ Hd) as (f' & t & r & Ef & Hdp & -> & Hn). inv Ef. cbn [length].
  destruct n as [|h|v|k nx|cs].
  - destruct Hn as [_ ->]. lia.
  - destruct Hn as [_ Hh]. apply read_bytes_shrinks in Hh. lia.
  - destruct Hn as (_ & sz & r1 & Hsz & _ & Hv). apply read_varuint_consumes in Hsz. apply read_bytes_shrinks in Hv. lia.
  - destruct Hn as (_ & sz & r1 & r2 & Hsz & _ & Hk & Hnx). apply read_varuint_consumes in Hsz.
    apply read_bytes_shrinks in Hk. apply IH in Hnx. lia.
  - destruct Hn as [_ Hcs]. apply (read_n_count _ (IH (d + 1))) in Hcs. lia.
Qed.
Lemma node_shrinks f d : dec_shrinks (read_node f d).
Proof. apply consumes_shrinks, node_consumes. Qed.

(* two element decoders that agree on every input not longer than m give the same sequence decoder there *)
Lemma read_n_ext {A} (d1 d2 : dec A) (m : nat) :
  (forall bs, (length bs <= m)%nat -> d1 bs = d2 bs) -> dec_shrinks d1 ->
  forall n bs, (length bs <= m)%nat -> read_n d1 n bs = read_n d2 n bs.
Proof.
  intros He Hs n. induction n as [|n IH]; intros bs Hl; [reflexivity|]. cbn [read_n].
  unfold bind. rewrite <- (He bs Hl). destruct (d1 bs) as [[x r]|] eqn:E; [|reflexivity].
  apply Hs in E. rewrite IH by lia. reflexivity.
Qed.

(* the result does not depend on the fuel once it exceeds the input length: every nested node consumes a byte.
   So a None of decode_node is a genuine rejection, never "out of fuel" *)
Theorem node_decode_total f : forall f' d bs, (length bs < f)%nat -> (length bs < f')%nat ->
  read_node f d bs = read_node f' d bs.
Proof.
  induction f as [|f IH]; intros f' d bs Hf Hf'; [lia|]. destruct f' as [|f']; [lia|].
  rewrite !read_node_S. destruct (max_path_length <? d); [reflexivity|].
  apply bind_ext. intros t r Ht. apply read_b_some in Ht as ->. cbn [length] in Hf, Hf'.
  destruct (t =? 0).
  { unfold bind. rewrite (read_n_ext (read_node f (d + 1)) (read_node f' (d + 1)) (length r)); auto.
    - intros bs Hl. apply IH; lia.
    - apply node_shrinks. }
  destruct (t =? 1); [|reflexivity].
  apply bind_ext. intros sz r1 Hsz. apply read_varuint_consumes in Hsz. destruct (max_path_length <? sz); [reflexivity|].
  apply bind_ext. intros k r2 Hk. apply read_bytes_shrinks in Hk.
  unfold bind. rewrite (IH f' (d + 1) r2) by lia. reflexivity.
Qed.
Corollary decode_node_fuel f bs : (length bs < f)%nat -> read_node f 0 bs = decode_node bs.
Proof. intros Hf. unfold decode_node. apply node_decode_total; lia. Qed.

(* ================= 3. what the decoder accepts ================= *)
Theorem node_decode_wf f : forall d bs n rest, bytes_ok bs -> read_node f d bs = Some (n, rest) ->
  mnode_wf n /\ bytes_ok rest /\ (length rest < length bs)%nat /\ Z.of_nat (mnode_depth n) + d <= 137.
Proof.
  induction f as [|f IH]; intros d bs n rest Hb Hd; [discriminate|].
  pose proof (node_consumes _ _ _ _ _ Hd) as Hc.
  destruct (read_node_inv _ _ _ _ _ Hd) as (f' & t & r & Ef & Hdp & -> & Hn). inv Ef.
  apply bytes_ok_cons_inv in Hb as [Ht Hr]. unfold max_path_length, max_value_length in *.
  destruct n as [|h|v|k nx|cs].
  - destruct Hn as [_ ->]. cbn [mnode_wf mnode_depth]. repeat split; auto; lia.
  - destruct Hn as [_ Hh]. destruct (read_bytes_wf _ _ _ _ Hr Hh) as [[Hl Hbh] Hrest].
    cbn [mnode_wf mnode_depth]. repeat split; auto; lia.
  - destruct Hn as (_ & sz & r1 & Hsz & Hm & Hv).
    destruct (read_varuint_some _ _ _ Hr Hsz) as ([Hs0 _] & Hr1 & _).
    destruct (read_bytes_wf _ _ _ _ Hr1 Hv) as [[Hl Hbv] Hrest].
    cbn [mnode_wf mnode_depth]. unfold max_value_length. repeat split; auto; lia.
  - destruct Hn as (_ & sz & r1 & r2 & Hsz & Hm & Hk & Hnx).
    destruct (read_varuint_some _ _ _ Hr Hsz) as ([Hs0 _] & Hr1 & _).
    destruct (read_bytes_wf _ _ _ _ Hr1 Hk) as [[Hl Hbk] Hr2].
    destruct (IH _ _ _ _ Hr2 Hnx) as (Hwn & Hrest & _ & Hdn).
    cbn [mnode_wf mnode_depth]. unfold max_path_length. repeat split; auto; lia.
  - destruct Hn as [_ Hcs].
    assert (Hw : dec_wf (fun c => mnode_wf c /\ Z.of_nat (mnode_depth c) + (d + 1) <= 137) (read_node f' (d + 1))).
    { intros bs0 c rest0 Hb0 H0. destruct (IH _ _ _ _ Hb0 H0) as (? & ? & ? & ?). auto. }
    destruct (read_n_some _ _ Hw _ _ _ _ Hr Hcs) as (HF & Hl & Hrest).
    split; [|split; [exact Hrest|split; [exact Hc|]]].
    + apply mnode_wf_branch. split; [exact Hl|]. eapply Forall_impl; [|exact HF]. intros c [? _]; assumption.
    + cbn [mnode_depth]. assert (Z.of_nat (list_max (map mnode_depth cs)) <= 136 - d); [|lia].
      apply list_max_bound; [lia|]. rewrite Forall_map. eapply Forall_impl; [|exact HF]. intros c [_ ?]. lia.
Qed.

(* 6b. alloc_bounded: the buffers the decoder allocates (make([]byte, sz) after the check of sz) *)
Corollary node_alloc_bounded f d bs n rest : bytes_ok bs -> read_node f d bs = Some (n, rest) ->
  match n with
  | MExt k _ => Z.of_nat (length k) <= max_path_length
  | MLeaf v => Z.of_nat (length v) <= max_value_length
  | MHash h => length h = 32%nat
  | MBranch cs => length cs = children_count
  | MEmpty => True
  end.
Proof.
  intros Hb Hd. destruct (node_decode_wf _ _ _ _ _ Hb Hd) as (Hw & _).
  destruct n; cbn [mnode_wf] in Hw; tauto.
Qed.
(* the length prefix is refused BEFORE anything is allocated or read *)
Lemma node_rejects_long_key f d r sz r1 : read_varuint r = Some (sz, r1) -> max_path_length < sz ->
  read_node f d (1 :: r) = None.
Proof.
  intros Hsz Hm. destruct f; [reflexivity|]. rewrite read_node_S. destruct (max_path_length <? d); [reflexivity|].
  change (bind read_b ?k (1 :: r)) with (k 1 r). cbv beta. change (1 =? 0) with false. change (1 =? 1) with true. cbv iota.
  rewrite (bind_ok _ _ _ _ _ Hsz). now replace (max_path_length <? sz) with true by lia.
Qed.
Lemma node_rejects_long_value f d r sz r1 : read_varuint r = Some (sz, r1) -> max_value_length < sz ->
  read_node f d (2 :: r) = None.
Proof.
  intros Hsz Hm. destruct f; [reflexivity|]. rewrite read_node_S. destruct (max_path_length <? d); [reflexivity|].
  change (bind read_b ?k (2 :: r)) with (k 2 r). cbv beta.
  change (2 =? 0) with false. change (2 =? 1) with false. change (2 =? 2) with true. cbv iota.
  rewrite (bind_ok _ _ _ _ _ Hsz). now replace (max_value_length <? sz) with true by lia.
Qed.

(* ================= the encoder ================= *)
Section WithHash.
  Variable H : list Z -> list Z.

  Lemma child_ref_eq c :
    match c with MEmpty => [4] | MHash h => 3 :: h | _ => 3 :: H (write_node H c) end = child_ref H c.
  Proof. destruct c; reflexivity. Qed.
  Lemma write_node_ext k nx : write_node H (MExt k nx) = 1 :: write_varbytes k ++ child_ref H nx.
  Proof. cbn [write_node]. rewrite child_ref_eq. reflexivity. Qed.
  Lemma write_node_branch cs : write_node H (MBranch cs) = 0 :: flat_map (child_ref H) cs.
  Proof.
    cbn [write_node]. f_equal. induction cs as [|c t IH]; [reflexivity|].
    cbn [flat_map]. rewrite <- IH, <- child_ref_eq. reflexivity.
  Qed.

  Lemma as_ref_is_ref c : is_ref (as_ref H c).
  Proof. destruct c; reflexivity. Qed.
  Lemma as_ref_of_ref c : is_ref c -> as_ref H c = c.
  Proof. destruct c; intros Hr; try discriminate Hr; reflexivity. Qed.
  Lemma as_ref_idem c : as_ref H (as_ref H c) = as_ref H c.
  Proof. apply as_ref_of_ref, as_ref_is_ref. Qed.
  Lemma child_ref_as_ref c : child_ref H (as_ref H c) = child_ref H c.
  Proof. destruct c; reflexivity. Qed.
  Lemma node_hash_as_ref c : node_hash H (as_ref H c) = node_hash H c.
  Proof. destruct c; reflexivity. Qed.

  (* 2b. collapse1: children replaced by their references *)
  Theorem collapse1_canonical n : mnode_canonical (collapse1 H n).
  Proof.
    destruct n as [|h|v|k nx|cs]; cbn [collapse1 mnode_canonical]; auto.
    - apply as_ref_is_ref.
    - rewrite Forall_map. apply Forall_forall. intros c _. apply as_ref_is_ref.
  Qed.
  Theorem collapse1_of_canonical n : mnode_canonical n -> collapse1 H n = n.
  Proof.
    destruct n as [|h|v|k nx|cs]; cbn [collapse1 mnode_canonical]; auto.
    - intros Hr. now rewrite as_ref_of_ref.
    - intros HF. f_equal. induction HF as [|c t Hc Ht IH]; [reflexivity|]. cbn [map]. now rewrite IH, as_ref_of_ref.
  Qed.
  Theorem collapse1_idem n : collapse1 H (collapse1 H n) = collapse1 H n.
  Proof. apply collapse1_of_canonical, collapse1_canonical. Qed.
  Theorem write_node_collapse1 n : write_node H (collapse1 H n) = write_node H n.
  Proof.
    destruct n as [|h|v|k nx|cs]; cbn [collapse1]; try reflexivity.
    - rewrite !write_node_ext, child_ref_as_ref. reflexivity.
    - rewrite !write_node_branch. f_equal. induction cs as [|c t IH]; [reflexivity|].
      cbn [map flat_map]. now rewrite IH, child_ref_as_ref.
  Qed.
  (* the node hash depends on the content only, not on whether the children are expanded *)
  Theorem node_hash_collapse1 n : node_hash H (collapse1 H n) = node_hash H n.
  Proof.
    destruct n as [|h|v|k nx|cs]; try reflexivity; cbn [collapse1 node_hash].
    - f_equal. apply (write_node_collapse1 (MExt k nx)).
    - f_equal. apply (write_node_collapse1 (MBranch cs)).
  Qed.
  Lemma node_levels_collapse1 n : node_levels (collapse1 H n) = node_levels n.
  Proof. destruct n; reflexivity. Qed.

  (* ---------- statements that need the hash to be 32 bytes ---------- *)
  Hypothesis H_len : forall b, length (H b) = 32%nat.

  Lemma node_hash_length c : mnode_wf c -> length (node_hash H c) = 32%nat.
  Proof. destruct c; cbn [node_hash mnode_wf]; intros Hw; try apply H_len. tauto. Qed.
  Lemma child_ref_length c : mnode_wf c ->
    length (child_ref H c) = (if is_mempty c then 1 else 33)%nat.
  Proof.
    intros Hw. destruct c; cbn [child_ref is_mempty length]; try reflexivity; f_equal;
      first [apply H_len | apply (node_hash_length (MHash _) Hw)].
  Qed.

  (* 2a. decoding an encoding *)
  Lemma read_child_ref f d c rest : d <= max_path_length -> mnode_wf c ->
    read_node (S f) d (child_ref H c ++ rest) = Some (as_ref H c, rest).
  Proof.
    intros Hd Hw. pose proof (node_hash_length c Hw) as Hl.
    destruct c; cbn [child_ref as_ref app]; try (apply read_node_4; exact Hd);
      rewrite read_node_3 by exact Hd; mstep ltac:(apply read_bytes_app; exact Hl); reflexivity.
  Qed.
  Lemma read_children_refs f d cs rest : d <= max_path_length -> Forall mnode_wf cs ->
    read_n (read_node (S f) d) (length cs) (flat_map (child_ref H) cs ++ rest) = Some (map (as_ref H) cs, rest).
  Proof.
    intros Hd HF. induction HF as [|c t Hc Ht IH]; [reflexivity|].
    cbn [length read_n flat_map map]. rewrite <- app_assoc.
    mstep ltac:(apply read_child_ref; assumption). mstep ltac:(exact IH). reflexivity.
  Qed.

  (* for EVERY well-formed node: decoding the encoding returns the node with its children replaced by references.
     Fuel 2 suffices (the node and its references); an extension or a branch needs one more level of depth *)
  Theorem node_decode_collapse n f d rest :
    mnode_wf n -> (2 <= f)%nat -> d + node_levels n <= 137 ->
    read_node f d (write_node H n ++ rest) = Some (collapse1 H n, rest).
  Proof.
    intros Hw Hf Hd. destruct f as [|[|f]]; try lia. unfold max_path_length, max_value_length in *.
    destruct n as [|h|v|k nx|cs]; cbn [node_levels] in Hd; cbn [collapse1].
    - cbn [write_node app]. apply read_node_4. unfold max_path_length. lia.
    - cbn [write_node app]. rewrite read_node_3 by (unfold max_path_length; lia).
      mstep ltac:(apply read_bytes_app; apply Hw). reflexivity.
    - destruct Hw as [Hb Hl]. cbn [write_node app]. rewrite read_node_2 by (unfold max_path_length; lia).
      unfold write_varbytes. rewrite <- app_assoc.
      mstep ltac:(apply varuint_roundtrip; unfold u64_ok, max_value_length in *; lia).
      replace (max_value_length <? Z.of_nat (length v)) with false by lia. rewrite Nat2Z.id.
      mstep ltac:(apply read_bytes_app; reflexivity). reflexivity.
    - destruct Hw as (Hb & Hl & Hnx). rewrite write_node_ext. cbn [app]. rewrite read_node_1 by (unfold max_path_length; lia).
      unfold write_varbytes. rewrite <- !app_assoc.
      mstep ltac:(apply varuint_roundtrip; unfold u64_ok, max_path_length in *; lia).
      replace (max_path_length <? Z.of_nat (length k)) with false by lia. rewrite Nat2Z.id.
      mstep ltac:(apply read_bytes_app; reflexivity).
      mstep ltac:(apply read_child_ref; [unfold max_path_length; lia|exact Hnx]). reflexivity.
    - apply mnode_wf_branch in Hw as [Hl HF]. rewrite write_node_branch. cbn [app].
      rewrite read_node_0 by (unfold max_path_length; lia). rewrite <- Hl.
      mstep ltac:(apply read_children_refs; [unfold max_path_length; lia|exact HF]). reflexivity.
  Qed.

  (* canonical nodes (what the encoder is ever asked to write at the byte level) round-trip exactly:
     d <= 135 for an extension or a branch, d <= 136 for the others *)
  Theorem node_decode_encode n f d rest :
    mnode_wf n -> mnode_canonical n -> (2 <= f)%nat -> d + node_levels n <= 137 ->
    read_node f d (write_node H n ++ rest) = Some (n, rest).
  Proof. intros Hw Hc Hf Hd. rewrite node_decode_collapse by assumption. now rewrite collapse1_of_canonical. Qed.
  Corollary decode_node_encode n rest : mnode_wf n -> mnode_canonical n ->
    decode_node (write_node H n ++ rest) = Some (n, rest).
  Proof.
    intros Hw Hc. unfold decode_node. apply node_decode_encode; auto.
    - destruct n; cbn [write_node app length]; lia.
    - destruct n; cbn [node_levels]; lia.
  Qed.

  (* 4a. canonical re-encoding: whatever was accepted, its encoding decodes to its collapse *)
  Theorem node_decode_canonical bs n rest rest' : bytes_ok bs -> decode_node bs = Some (n, rest) ->
    decode_node (write_node H n ++ rest') = Some (collapse1 H n, rest').
  Proof.
    intros Hb Hd. unfold decode_node in *. destruct (node_decode_wf _ _ _ _ _ Hb Hd) as (Hw & _).
    apply node_decode_collapse; auto.
    - destruct n; cbn [write_node app length]; lia.
    - destruct n; cbn [node_levels]; lia.
  Qed.
  Theorem node_decode_canonical_d f d bs n rest rest' : bytes_ok bs -> read_node f d bs = Some (n, rest) ->
    d + node_levels n <= 137 -> read_node (S (S f)) d (write_node H n ++ rest') = Some (collapse1 H n, rest').
  Proof.
    intros Hb Hd Hl. destruct (node_decode_wf _ _ _ _ _ Hb Hd) as (Hw & _). apply node_decode_collapse; auto. lia.
  Qed.

  (* 4b. length of the re-encoding.  A reference takes exactly the bytes it was read from; an INLINE child
     (accepted by the decoder, never written by the encoder) took at least 1 byte and is re-encoded in 33. *)
  Lemma reencode_child f d bs c rest : bytes_ok bs -> read_node f d bs = Some (c, rest) ->
    (length (child_ref H c) + length rest <= length bs + (if is_refb c then 0 else 32))%nat.
  Proof.
    intros Hb Hd. pose proof (node_consumes _ _ _ _ _ Hd) as Hc.
    destruct (node_decode_wf _ _ _ _ _ Hb Hd) as (Hw & _). pose proof (child_ref_length c Hw) as Hl.
    destruct (read_node_inv _ _ _ _ _ Hd) as (f' & t & r & _ & _ & -> & Hn).
    destruct c as [|h|v|k nx|cs]; cbn [is_mempty is_refb] in *; try lia.
    destruct Hn as [_ Hh]. apply read_bytes_some in Hh as [-> Hlh]. cbn [length]. rewrite app_length. lia.
  Qed.
  Lemma reencode_children f d : forall k bs cs rest, bytes_ok bs -> read_n (read_node f d) k bs = Some (cs, rest) ->
    (length (flat_map (child_ref H) cs) + length rest
     <= length bs + 32 * length (filter (fun c => negb (is_refb c)) cs))%nat.
  Proof.
    induction k as [|k IH]; intros bs cs rest Hb Hd; cbn [read_n] in Hd.
    - minv_ret Hd. cbn [flat_map filter length]. lia.
    - apply bind_some in Hd as (c & r & Hc & Hd). apply bind_some in Hd as (t & r' & Ht & Hd). minv_ret Hd.
      destruct (node_decode_wf _ _ _ _ _ Hb Hc) as (_ & Hr & _).
      pose proof (reencode_child _ _ _ _ _ Hb Hc) as H1. pose proof (IH _ _ _ Hr Ht) as H2.
      cbn [flat_map filter]. rewrite app_length. destruct (is_refb c); cbn [negb length]; lia.
  Qed.

  Theorem node_reencoding_bound f d bs n rest : bytes_ok bs -> read_node f d bs = Some (n, rest) ->
    (length (write_node H n) + length rest <= length bs + 32 * inline_count n)%nat.
  Proof.
    intros Hb Hd. destruct (read_node_inv _ _ _ _ _ Hd) as (f' & t & r & _ & _ & -> & Hn).
    apply bytes_ok_cons_inv in Hb as [Ht Hr]. cbn [length].
    destruct n as [|h|v|k nx|cs]; cbn [inline_count].
    - destruct Hn as [_ ->]. cbn [write_node length]. lia.
    - destruct Hn as [_ Hh]. apply read_bytes_some in Hh as [-> Hlh]. cbn [write_node length]. rewrite app_length. lia.
    - destruct Hn as (_ & sz & r1 & Hsz & Hm & Hv).
      pose proof (varuint_minimal _ _ _ Hr Hsz) as Hmin.
      destruct (read_varuint_some _ _ _ Hr Hsz) as ([Hs0 _] & _ & _).
      apply read_bytes_some in Hv as [-> Hlv]. rewrite app_length in Hmin.
      cbn [write_node length]. unfold write_varbytes. rewrite app_length, Hlv, Z2Nat.id by lia. lia.
    - destruct Hn as (_ & sz & r1 & r2 & Hsz & Hm & Hk & Hnx).
      pose proof (varuint_minimal _ _ _ Hr Hsz) as Hmin.
      destruct (read_varuint_some _ _ _ Hr Hsz) as ([Hs0 _] & Hr1 & _).
      destruct (read_bytes_wf _ _ _ _ Hr1 Hk) as [_ Hr2].
      apply read_bytes_some in Hk as [-> Hlk]. rewrite app_length in Hmin.
      pose proof (reencode_child _ _ _ _ _ Hr2 Hnx) as Hch.
      rewrite write_node_ext. cbn [length]. unfold write_varbytes. rewrite !app_length, Hlk, Z2Nat.id by lia.
      destruct (is_refb nx); lia.
    - destruct Hn as [_ Hcs]. pose proof (reencode_children _ _ _ _ _ _ Hr Hcs) as Hch.
      rewrite write_node_branch. cbn [length]. lia.
  Qed.
  (* the true "not longer" statement: for an input whose children are already references *)
  Theorem node_reencoding_not_longer bs n rest : bytes_ok bs -> decode_node bs = Some (n, rest) ->
    mnode_canonical n -> (length (write_node H n) + length rest <= length bs)%nat.
  Proof.
    intros Hb Hd Hc. pose proof (node_reencoding_bound _ _ _ _ _ Hb Hd) as Hbd.
    rewrite (canonical_inline_count n Hc) in Hbd. lia.
  Qed.

  (* 6a. Size(): BranchNode.Size / ExtensionNode.Size / LeafNode.Size / 32 / 0, without the type byte.
     ExtensionNode.Size assumes a non-empty next (comment in the Go source) *)
  Lemma children_size cs : Forall mnode_wf cs ->
    Z.of_nat (length (flat_map (child_ref H) cs)) =
    Z.of_nat (length cs) + 32 * Z.of_nat (length (filter (fun c => negb (is_mempty c)) cs)).
  Proof.
    induction 1 as [|c t Hc Ht IH]; [reflexivity|]. cbn [flat_map filter]. rewrite app_length, child_ref_length by exact Hc.
    destruct (is_mempty c); cbn [negb length]; lia.
  Qed.
  Theorem node_size_eq n : mnode_wf n -> (forall k nx, n = MExt k nx -> nx <> MEmpty) ->
    node_size n + 1 = Z.of_nat (length (write_node H n)).
  Proof.
    intros Hw Hne. unfold max_path_length, max_value_length in *.
    destruct n as [|h|v|k nx|cs]; cbn [node_size].
    - reflexivity.
    - destruct Hw as [Hl _]. cbn [write_node length]. lia.
    - destruct Hw as [_ Hl]. cbn [write_node length]. rewrite varbytes_size_eq by (unfold max_value_length in Hl; lia). lia.
    - destruct Hw as (_ & Hl & Hnx). rewrite write_node_ext. cbn [length]. rewrite app_length.
      rewrite child_ref_length by exact Hnx. specialize (Hne k nx eq_refl).
      destruct nx; [now destruct Hne|..]; cbn [is_mempty];
        change (varuint_size (Z.of_nat (length k)) + Z.of_nat (length k)) with (varbytes_size k);
        rewrite varbytes_size_eq by (unfold max_path_length in Hl; lia); lia.
    - apply mnode_wf_branch in Hw as [Hl HF]. rewrite write_node_branch. cbn [length].
      rewrite Nat2Z.inj_succ, children_size by exact HF. rewrite Hl. lia.
  Qed.

  (* ---------- statements that also need the hash to consist of bytes ---------- *)
  Hypothesis H_ok : forall b, bytes_ok (H b).

  Lemma as_ref_wf c : mnode_wf c -> mnode_wf (as_ref H c).
  Proof. destruct c; cbn [as_ref node_hash mnode_wf]; auto. Qed.
  Theorem collapse1_wf n : mnode_wf n -> mnode_wf (collapse1 H n).
  Proof.
    destruct n as [|h|v|k nx|cs]; cbn [collapse1]; auto.
    - cbn [mnode_wf]. intros (? & ? & ?). auto using as_ref_wf.
    - rewrite !mnode_wf_branch, map_length, Forall_map. intros [Hl HF]. split; [exact Hl|].
      eapply Forall_impl; [|exact HF]. apply as_ref_wf.
  Qed.
  Theorem write_node_ok n : mnode_wf n -> bytes_ok (write_node H n).
  Proof.
    assert (Hcr : forall c, mnode_wf c -> bytes_ok (child_ref H c)).
    { intros c Hw. destruct c; cbn [child_ref node_hash]; constructor; try lia; try apply H_ok; try constructor.
      apply Hw. }
    destruct n as [|h|v|k nx|cs]; intros Hw.
    - constructor; [lia|constructor].
    - constructor; [lia|apply Hw].
    - constructor; [lia|]. apply write_varbytes_ok, Hw.
    - rewrite write_node_ext. constructor; [lia|]. apply bytes_ok_app. split; [apply write_varbytes_ok, Hw|apply Hcr, Hw].
    - apply mnode_wf_branch in Hw as [_ HF]. rewrite write_node_branch. constructor; [lia|].
      induction HF as [|c t Hc Ht IH]; [constructor|]. cbn [flat_map]. apply bytes_ok_app. split; auto.
  Qed.
  (* the re-encoding of an accepted node is accepted again and is a fixed point of decode-encode *)
  Corollary node_reencode_fixpoint bs n rest rest' : bytes_ok bs -> decode_node bs = Some (n, rest) ->
    exists n', decode_node (write_node H n ++ rest') = Some (n', rest') /\ mnode_wf n' /\ mnode_canonical n' /\
               write_node H n' = write_node H n.
  Proof.
    intros Hb Hd. exists (collapse1 H n). split; [eapply node_decode_canonical; eauto|].
    destruct (node_decode_wf _ _ _ _ _ Hb Hd) as (Hw & _).
    split; [apply collapse1_wf, Hw|]. split; [apply collapse1_canonical|apply write_node_collapse1].
  Qed.
End WithHash.

(* ================= 7. Examples (vm_compute, toy hash) ================= *)
Definition toyH (b : list Z) : list Z := repeat (Z.of_nat (length b) mod 256) 32.
Lemma toyH_len b : length (toyH b) = 32%nat.
Proof. apply repeat_length. Qed.
Lemma toyH_ok b : bytes_ok (toyH b).
Proof. unfold toyH, bytes_ok. apply Forall_forall. intros x Hx. apply repeat_spec in Hx. subst x. lia. Qed.

Definition ex_h1 : list Z := repeat 17 32.
Definition ex_h2 : list Z := repeat 34 32.
(* a branch with two hash children (nibbles 1 and 10) and a value child given as an inline leaf *)
Definition ex_branch : mnode :=
  MBranch ([MEmpty; MHash ex_h1] ++ repeat MEmpty 8 ++ [MHash ex_h2] ++ repeat MEmpty 5 ++ [MLeaf [7; 8; 9]]).
Definition ex_ext : mnode := MExt [1; 2; 3] (MHash ex_h1).
Definition ex_leaf : mnode := MLeaf [222; 173].

Example ex_leaf_roundtrip :
  write_node toyH ex_leaf = [2; 2; 222; 173] /\
  decode_node (write_node toyH ex_leaf ++ [99]) = Some (ex_leaf, [99]) /\
  node_size ex_leaf + 1 = 4.
Proof. repeat split; vm_compute; reflexivity. Qed.
Example ex_ext_roundtrip :
  write_node toyH ex_ext = [1; 3; 1; 2; 3; 3] ++ ex_h1 /\
  decode_node (write_node toyH ex_ext ++ [99]) = Some (ex_ext, [99]) /\
  node_size ex_ext + 1 = Z.of_nat (length (write_node toyH ex_ext)).
Proof. repeat split; vm_compute; reflexivity. Qed.
Example ex_branch_roundtrip :
  length (write_node toyH ex_branch) = 114%nat /\                      (* 1 + 14 + 3 * 33 *)
  decode_node (write_node toyH ex_branch ++ [99]) = Some (collapse1 toyH ex_branch, [99]) /\
  collapse1 toyH ex_branch <> ex_branch /\
  nth 16 (match collapse1 toyH ex_branch with MBranch cs => cs | _ => [] end) MEmpty = MHash (repeat 5 32) /\
  decode_node (write_node toyH (collapse1 toyH ex_branch)) = Some (collapse1 toyH ex_branch, []) /\
  node_size ex_branch + 1 = 114.
Proof. repeat split; try (vm_compute; reflexivity). vm_compute. discriminate. Qed.
(* the hypotheses of the theorems are satisfiable by these *)
Example ex_wf : mnode_wf ex_leaf /\ mnode_wf ex_ext /\ mnode_wf ex_branch /\ mnode_canonical ex_ext /\
  mnode_canonical (collapse1 toyH ex_branch) /\ ~ mnode_canonical ex_branch /\ inline_count ex_branch = 1%nat.
Proof.
  split; [|split; [|split; [|split; [|split; [|split]]]]].
  - apply mnode_wfb_sound. vm_compute. reflexivity.
  - apply mnode_wfb_sound. vm_compute. reflexivity.
  - apply mnode_wfb_sound. vm_compute. reflexivity.
  - reflexivity.
  - apply collapse1_canonical.
  - intros Hc. cbn in Hc. repeat match goal with Hf : Forall _ (_ :: _) |- _ => inv Hf end. discriminate.
  - reflexivity.
Qed.

(* 4c / F8 remark: an input with an INLINE child is accepted; its re-encoding is a different, canonical and here
   LONGER byte string (an inline empty leaf [02 00] is 2 bytes, its reference is 33) *)
Definition ex_inline_input : list Z := [1; 0; 2; 0].
Example ex_inline_child :
  decode_node ex_inline_input = Some (MExt [] (MLeaf []), []) /\
  write_node toyH (MExt [] (MLeaf [])) = [1; 0; 3] ++ repeat 2 32 /\
  write_node toyH (MExt [] (MLeaf [])) <> ex_inline_input /\
  (length ex_inline_input < length (write_node toyH (MExt [] (MLeaf []))))%nat /\
  decode_node (write_node toyH (MExt [] (MLeaf []))) = Some (MExt [] (MHash (repeat 2 32)), []) /\
  inline_count (MExt [] (MLeaf [])) = 1%nat /\
  (length (write_node toyH (MExt [] (MLeaf []))) <= length ex_inline_input + 32 * 1)%nat.
Proof. repeat split; try (vm_compute; reflexivity). - vm_compute. discriminate. - vm_compute. lia. - vm_compute. lia. Qed.
(* a non-minimal length prefix is accepted as well; the re-encoding is shorter *)
Example ex_nonminimal_len :
  decode_node [2; 253; 1; 0; 7] = Some (MLeaf [7], []) /\ write_node toyH (MLeaf [7]) = [2; 1; 7].
Proof. split; vm_compute; reflexivity. Qed.

(* 3b. the depth limit: [ext_chain k] = k nested extension nodes (empty key) ending in an empty node, i.e. k + 1
   nested nodes.  137 nested nodes (depths 0..136) are accepted, 138 are refused: mnode_depth n + d <= 137 is tight *)
Fixpoint ext_chain (k : nat) : list Z := match k with O => [4] | S k' => 1 :: 0 :: ext_chain k' end.
Fixpoint ext_chain_node (k : nat) : mnode := match k with O => MEmpty | S k' => MExt [] (ext_chain_node k') end.
Example ext_chain_limit :
  decode_node (ext_chain 136) = Some (ext_chain_node 136, []) /\ mnode_depth (ext_chain_node 136) = 137%nat /\
  decode_node (ext_chain 137) = None /\ mnode_depth (ext_chain_node 137) = 138%nat /\
  read_node 1000 1 (ext_chain 136) = None /\ read_node 1000 1 (ext_chain 135) = Some (ext_chain_node 135, []).
Proof. repeat split; vm_compute; reflexivity. Qed.

(* 6c. ExtensionNode.Size with an empty next is off by 32 (Go comment: "e.next is never empty") *)
Example ext_size_empty_next :
  node_size (MExt [] MEmpty) + 1 = 35 /\ write_node toyH (MExt [] MEmpty) = [1; 0; 4] /\
  node_size (MExt [] MEmpty) + 1 = Z.of_nat (length (write_node toyH (MExt [] MEmpty))) + 32.
Proof. repeat split; vm_compute; reflexivity. Qed.

(* 6d. the length checks: one byte over the limit is refused before the buffer is read *)
Example ex_alloc_limits :
  decode_node (1 :: 137 :: repeat 0 137 ++ [4]) = None /\
  decode_node (1 :: 136 :: repeat 0 136 ++ [4]) = Some (MExt (repeat 0 136) MEmpty, []) /\
  decode_node (2 :: 254 :: 4 :: 0 :: 1 :: 0 :: repeat 0 (Z.to_nat 65540)) = None /\
  match decode_node (2 :: 254 :: 3 :: 0 :: 1 :: 0 :: repeat 0 (Z.to_nat 65539)) with
  | Some (MLeaf v, []) => Z.of_nat (length v) =? 65539
  | _ => false
  end = true.
Proof. repeat split; vm_compute; reflexivity. Qed.

(* instances for the toy hash: the Section hypotheses are satisfiable *)
Example toy_instances :
  (forall n rest, mnode_wf n -> mnode_canonical n -> decode_node (write_node toyH n ++ rest) = Some (n, rest)) /\
  (forall bs n rest, bytes_ok bs -> decode_node bs = Some (n, rest) -> mnode_canonical n ->
     (length (write_node toyH n) + length rest <= length bs)%nat).
Proof.
  split.
  - intros. apply decode_node_encode; auto using toyH_len.
  - intros. eapply node_reencoding_not_longer; eauto using toyH_len.
Qed.

Print Assumptions node_decode_collapse.
Print Assumptions node_decode_wf.
Print Assumptions node_decode_total.
Print Assumptions node_reencoding_bound.
Print Assumptions node_size_eq.
