(* The consensus message family of pkg/consensus (payload.go, change_view.go, prepare_request.go, prepare_response.go,
   commit.go, recovery_request.go, recovery_message.go). Definitions only (proofs: ConsensusCodecProofs.v).

   The wire form depends on NETWORK CONFIGURATION: with StateRootInHeader a PrepareRequest ends with the 32 bytes of
   the state root. In the Go code the setting travels as the field [stateRootEnabled] of [message] and must be handed
   to every nested value a decoder creates:
       Payload.decodeData -> message.DecodeBinary -> prepareRequest (stateRootEnabled copied)
                                                  -> recoveryMessage (copied) -> the embedded PrepareRequest [message]
                                                     (created by recoveryMessage.DecodeBinary itself) -> prepareRequest
   Here the setting is the parameter [sr] of every writer and reader; [thread] is what a decoder hands to the message
   it creates for the embedded PrepareRequest: the identity for the code as it is, [fun _ => false] for a decoder that
   creates it with new(message). *)
From NG Require Export Common.Tactics Codec.Bigint Codec.Wire.
Open Scope Z_scope.

Definition zero32 : list Z := repeat 0 32.
Definition max_tx_per_block : Z := 65535.   (* block.MaxTransactionsPerBlock *)

(* prepareRequest; [q_root] is on the wire only with sr *)
Record preq := PReq { q_version : Z; q_prev : list Z; q_ts : Z; q_nonce : Z; q_hashes : list (list Z); q_root : list Z }.

Definition write_preq (sr : bool) (q : preq) : list Z :=
  le_bytes 4 (q_version q) ++ q_prev q ++ le_bytes 8 (q_ts q) ++ le_bytes 8 (q_nonce q)
  ++ write_array (fun h => h) (q_hashes q) ++ (if sr then q_root q else []).

Definition read_preq (sr : bool) : dec preq :=
  v <- read_u 4 ;; p <- read_bytes 32 ;; t <- read_u 8 ;; n <- read_u 8 ;;
  hs <- read_array (read_bytes 32) max_tx_per_block ;;
  root <- (if sr then read_bytes 32 else ret zero32) ;;
  ret (PReq v p t n hs root).

(* the compact forms inside a recovery message *)
Record cv_compact := CVC { cvc_validator : Z; cvc_view : Z; cvc_ts : Z; cvc_inv : list Z }.
Record commit_compact := CC { cc_view : Z; cc_validator : Z; cc_sig : list Z; cc_inv : list Z }.
Record prep_compact := PC { pc_validator : Z; pc_inv : list Z }.

Definition write_cvc (c : cv_compact) : list Z := [cvc_validator c; cvc_view c] ++ le_bytes 8 (cvc_ts c) ++ write_varbytes (cvc_inv c).
Definition read_cvc : dec cv_compact :=
  v <- read_b ;; w <- read_b ;; t <- read_u 8 ;; i <- read_varbytes 1024 ;; ret (CVC v w t i).
Definition write_cc (c : commit_compact) : list Z := [cc_view c; cc_validator c] ++ cc_sig c ++ write_varbytes (cc_inv c).
Definition read_cc : dec commit_compact :=
  w <- read_b ;; v <- read_b ;; s <- read_bytes 64 ;; i <- read_varbytes 1024 ;; ret (CC w v s i).
Definition write_pc (c : prep_compact) : list Z := [pc_validator c] ++ write_varbytes (pc_inv c).
Definition read_pc : dec prep_compact := v <- read_b ;; i <- read_varbytes 1024 ;; ret (PC v i).

(* the PrepareRequest [message] embedded in a recovery message: a complete message header (type 0x20) and the request *)
Record emb := Emb { e_index : Z; e_validator : Z; e_view : Z; e_req : preq }.

Definition write_head (typ idx validator view : Z) : list Z := [typ] ++ le_bytes 4 idx ++ [validator; view].

Definition write_emb (sr : bool) (e : emb) : list Z :=
  write_head 32 (e_index e) (e_validator e) (e_view e) ++ write_preq sr (e_req e).

(* [sr_emb]: the setting of the message the recovery decoder creates. Another message type inside is an error (after
   its body was read, in the Go code; an error either way) *)
Definition read_emb (sr_emb : bool) : dec emb :=
  t <- read_b ;; i <- read_u 4 ;; v <- read_b ;; w <- read_b ;;
  if t =? 32 then q <- read_preq sr_emb ;; ret (Emb i v w q) else fail.

Record recovery := Recovery { r_cvs : list cv_compact; r_req : option emb; r_hash : option (list Z);
                              r_preps : list prep_compact; r_commits : list commit_compact }.

Definition write_recovery (sr : bool) (r : recovery) : list Z :=
  write_array write_cvc (r_cvs r)
  ++ (match r_req r with
      | Some e => [1] ++ write_emb sr e
      | None => [0] ++ (match r_hash r with None => write_varuint 0 | Some h => write_varuint 32 ++ h end)
      end)
  ++ write_array write_pc (r_preps r) ++ write_array write_cc (r_commits r).

Definition read_recovery (sr_emb : bool) : dec recovery :=
  cvs <- read_array read_cvc max_array ;;
  has <- read_bool_lax ;;
  rh <- (if has then e <- read_emb sr_emb ;; ret (Some e, None)
         else l <- read_varuint ;;
              if l =? 0 then ret (None, None)
              else if l =? 32 then h <- read_bytes 32 ;; ret (None, Some h) else fail) ;;
  ps <- read_array read_pc max_array ;;
  cs <- read_array read_cc max_array ;;
  ret (Recovery cvs (fst rh) (snd rh) ps cs).

Inductive body :=
| BChangeView (ts reason : Z) (rejected : list (list Z))   (* rejected hashes are on the wire for reasons 3 and 4 only *)
| BPrepareRequest (q : preq)
| BPrepareResponse (h : list Z)
| BCommit (sig : list Z)
| BRecoveryRequest (ts : Z)
| BRecovery (r : recovery).

Record cmessage := CMessage { g_index : Z; g_validator : Z; g_view : Z; g_body : body }.

Definition body_type (b : body) : Z :=
  match b with
  | BChangeView _ _ _ => 0 | BPrepareRequest _ => 32 | BPrepareResponse _ => 33
  | BCommit _ => 48 | BRecoveryRequest _ => 64 | BRecovery _ => 65
  end.

Definition carries_hashes (reason : Z) : bool := (reason =? 3) || (reason =? 4).

Definition write_body (sr : bool) (b : body) : list Z :=
  match b with
  | BChangeView ts reason rej => le_bytes 8 ts ++ [reason] ++ (if carries_hashes reason then write_array (fun h => h) rej else [])
  | BPrepareRequest q => write_preq sr q
  | BPrepareResponse h => h
  | BCommit s => s
  | BRecoveryRequest ts => le_bytes 8 ts
  | BRecovery r => write_recovery sr r
  end.

Definition write_cmessage (sr : bool) (m : cmessage) : list Z :=
  write_head (body_type (g_body m)) (g_index m) (g_validator m) (g_view m) ++ write_body sr (g_body m).

Definition read_body (thread : bool -> bool) (sr : bool) (typ : Z) : dec body :=
  if typ =? 0 then
    ts <- read_u 8 ;; reason <- read_b ;;
    rej <- (if carries_hashes reason then read_array (read_bytes 32) max_array else ret []) ;;
    ret (BChangeView ts reason rej)
  else if typ =? 32 then q <- read_preq sr ;; ret (BPrepareRequest q)
  else if typ =? 33 then h <- read_bytes 32 ;; ret (BPrepareResponse h)
  else if typ =? 48 then s <- read_bytes 64 ;; ret (BCommit s)
  else if typ =? 64 then ts <- read_u 8 ;; ret (BRecoveryRequest ts)
  else if typ =? 65 then r <- read_recovery (thread sr) ;; ret (BRecovery r)
  else fail.

Definition read_cmessage_gen (thread : bool -> bool) (sr : bool) : dec cmessage :=
  t <- read_b ;; i <- read_u 4 ;; v <- read_b ;; w <- read_b ;;
  b <- read_body thread sr t ;; ret (CMessage i v w b).

(* the code as it is: the setting is handed down *)
Definition read_cmessage (sr : bool) : dec cmessage := read_cmessage_gen (fun s => s) sr.
(* a recovery decoder that creates the embedded message with new(message): the default setting *)
Definition read_cmessage_default_nested (sr : bool) : dec cmessage := read_cmessage_gen (fun _ => false) sr.
