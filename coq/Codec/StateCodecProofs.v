(* Proofs about Codec/StateCodec.v.
   A. state.MPTRoot (pkg/core/state/mpt_root.go): the same six statements as for every wire type of
      TxCodecProofs.v (wf, decode_encode, good, consumes, canonical, write_ok), whole-buffer forms, the size
      formula, and: the hashed part is a function of (version, index, root) only, and is the literal 37-byte
      prefix of every accepted input, while the witness part has non-canonical accepted forms.
   B. NEF (pkg/smartcontract/nef): method tokens, the zero-trimmed compiler field (both before the Section:
      they do not mention the checksum), and the file with its checksum (a Section variable with its range as
      the only hypothesis; only nef_decode_encode, nef_canonical and nef_from_bytes_roundtrip depend on it).  The decoder verifies the checksum
      of the RE-ENCODED body, so everything accepted re-encodes to bytes that decode to the same file. *)
From NG Require Import Common.Tactics Codec.Bigint Codec.BigintProofs Codec.Wire Codec.WireProofs
  Codec.TxCodec Codec.TxCodecProofs Codec.StateCodec.
Open Scope Z_scope.

Lemma app_inj_length {A} (a a' b b' : list A) :
  length a = length a' -> a ++ b = a' ++ b' -> a = a' /\ b = b'.
Proof.
  revert a'. induction a as [|x a IH]; intros [|y a'] Hl E; cbn [length app] in *; try discriminate; auto.
  injection E as -> E. destruct (IH a' ltac:(lia) E) as [-> ->]. auto.
Qed.
Lemma bytes_ok_repeat0 k : bytes_ok (repeat 0 k).
Proof. apply Forall_forall. intros b Hin. apply repeat_spec in Hin. lia. Qed.

(* ================= A. state.MPTRoot ================= *)
Definition mptroot_wf (r : mptroot) : Prop :=
  0 <= rversion r < 256 /\ 0 <= rindex r < 2 ^ 32 /\ hash_wf 32 (rroot r)
  /\ (length (rwitness r) <= 1)%nat /\ Forall witness_wf (rwitness r).

Theorem mptroot_decode_encode : codec_ok mptroot_wf write_mptroot read_mptroot.
Proof.
  intros [v i h ws] rest (Hv & Hi & [Hl Hh] & Hn & Hw). cbn [rversion rindex rroot rwitness] in *.
  unfold write_mptroot, write_mptroot_unsigned, read_mptroot. cbn [rversion rindex rroot rwitness].
  rewrite <- !app_assoc. cbn [app].
  bstep reflexivity. bstep ltac:(apply (read_u_write 4); exact Hi).
  bstep ltac:(apply read_bytes_app; exact Hl).
  bstep ltac:(apply (array_roundtrip witness_wf); [exact witness_decode_encode|exact Hw|lia|lia]).
  reflexivity.
Qed.
Lemma mptroot_good : dec_good mptroot_wf write_mptroot read_mptroot.
Proof.
  intros bs r rest Hb H. unfold read_mptroot in H.
  apply bind_some in H as (v & r1 & Hv & H). apply bind_some in H as (i & r2 & Hi & H).
  apply bind_some in H as (h & r3 & Hh & H). apply bind_some in H as (ws & r4 & Hws & H). inv_ret H.
  destruct (read_b_good _ _ _ Hb Hv) as (Hv1 & Hr1 & Hlen1).
  destruct (read_u_good _ _ _ _ Hr1 Hi) as (Hi1 & Hr2 & Hlen2).
  destruct (read_bytes_good _ _ _ _ Hr2 Hh) as (Hl & Hhb & Hr3 & Hlen3).
  destruct (read_array_good _ _ _ _ witness_good _ _ _ Hr3 Hws) as (Hf & Hn & Hr4 & Hlen4).
  unfold mptroot_wf, write_mptroot, write_mptroot_unsigned, hash_wf. cbn [rversion rindex rroot rwitness].
  rewrite !app_length, le_bytes_length. cbn [length].
  change (2 ^ (8 * Z.of_nat 4)) with (2 ^ 32) in Hi1.
  repeat split; auto; lia.
Qed.
Theorem mptroot_decode_wf : dec_wf mptroot_wf read_mptroot.
Proof. exact (good_wf _ _ _ mptroot_good). Qed.
Theorem mptroot_minimal : dec_min write_mptroot read_mptroot.
Proof. exact (good_min _ _ _ mptroot_good). Qed.
Theorem mptroot_consumes : dec_consumes read_mptroot.
Proof. unfold read_mptroot. apply consumes_bind; [apply read_b_consumes|intros ?; shr]. Qed.
Theorem mptroot_canonical bs r rest rest' :
  bytes_ok bs -> read_mptroot bs = Some (r, rest) -> read_mptroot (write_mptroot r ++ rest') = Some (r, rest').
Proof. apply (canonical_of mptroot_wf); [exact mptroot_decode_encode|exact mptroot_decode_wf]. Qed.
Theorem write_mptroot_ok r : mptroot_wf r -> bytes_ok (write_mptroot r).
Proof.
  intros (Hv & _ & [_ Hh] & _ & Hw). unfold write_mptroot, write_mptroot_unsigned.
  apply bytes_ok_app. split.
  - cbn [app]. apply bytes_ok_cons; [exact Hv|]. apply bytes_ok_app. split; [apply le_bytes_ok|exact Hh].
  - apply (write_array_ok witness_wf); [exact write_witness_ok|exact Hw].
Qed.

(* whole-buffer forms *)
Theorem mptroot_roundtrip r : mptroot_wf r -> decode_all read_mptroot (write_mptroot r) = Some r.
Proof. exact (decode_all_roundtrip _ _ _ mptroot_decode_encode r). Qed.
Theorem mptroot_whole_canonical bs r : bytes_ok bs -> decode_all read_mptroot bs = Some r ->
  decode_all read_mptroot (write_mptroot r) = Some r /\ mptroot_wf r
  /\ (length (write_mptroot r) <= length bs)%nat.
Proof. exact (decode_all_canonical _ _ _ mptroot_decode_encode mptroot_good bs r). Qed.

(* GetVarSize of the parts: 1 + 4 + 32 + GetVarSize(Witness) *)
Theorem mptroot_size_eq r : mptroot_wf r ->
  Z.of_nat (length (write_mptroot r)) = 37 + array_size witness_size (rwitness r).
Proof.
  intros (_ & _ & [Hl _] & Hn & Hw). unfold write_mptroot, write_mptroot_unsigned.
  rewrite (array_size_eq write_witness witness_size)
    by (first [lia | eapply Forall_impl; [|exact Hw]; exact witness_size_eq]).
  rewrite !app_length, le_bytes_length, Hl. cbn [length]. lia.
Qed.

(* --- what is hashed --- *)
Lemma write_mptroot_unsigned_fields r1 r2 :
  rversion r1 = rversion r2 -> rindex r1 = rindex r2 -> rroot r1 = rroot r2 ->
  write_mptroot_unsigned r1 = write_mptroot_unsigned r2.
Proof. unfold write_mptroot_unsigned. intros E1 E2 E3. rewrite E1, E2, E3. reflexivity. Qed.
(* two accepted byte strings whose roots agree on version / index / root hash have the same hashed bytes,
   whatever their witness parts (and whatever form the witness count took) *)
Theorem mptroot_hash_content_only bs1 bs2 r1 r2 rest1 rest2 :
  read_mptroot bs1 = Some (r1, rest1) -> read_mptroot bs2 = Some (r2, rest2) ->
  rversion r1 = rversion r2 -> rindex r1 = rindex r2 -> rroot r1 = rroot r2 ->
  write_mptroot_unsigned r1 = write_mptroot_unsigned r2.
Proof. intros _ _. apply write_mptroot_unsigned_fields. Qed.
(* conversely the hashed bytes determine the three fields *)
Theorem mptroot_unsigned_inj r1 r2 : mptroot_wf r1 -> mptroot_wf r2 ->
  write_mptroot_unsigned r1 = write_mptroot_unsigned r2 ->
  rversion r1 = rversion r2 /\ rindex r1 = rindex r2 /\ rroot r1 = rroot r2.
Proof.
  intros (_ & Hi1 & _) (_ & Hi2 & _) E. unfold write_mptroot_unsigned in E.
  apply app_inj_length in E as [Ev E]; [|reflexivity].
  apply app_inj_length in E as [Ei Er]; [|now rewrite !le_bytes_length].
  split; [congruence|]. split; [|exact Er].
  apply (f_equal from_le) in Ei. rewrite !from_le_le_bytes in Ei.
  change (2 ^ (8 * Z.of_nat 4)) with (2 ^ 32) in Ei. rewrite !Z.mod_small in Ei by assumption. exact Ei.
Qed.
(* the hashed bytes are literally the first 37 bytes that were received; only the witness part is re-encoded *)
Theorem mptroot_unsigned_prefix bs r rest : bytes_ok bs -> read_mptroot bs = Some (r, rest) ->
  exists tail, bs = write_mptroot_unsigned r ++ tail /\ length (write_mptroot_unsigned r) = 37%nat
               /\ read_array read_witness 1 tail = Some (rwitness r, rest).
Proof.
  intros Hb H. unfold read_mptroot in H.
  apply bind_some in H as (v & r1 & Hv & H). apply bind_some in H as (i & r2 & Hi & H).
  apply bind_some in H as (h & r3 & Hh & H). apply bind_some in H as (ws & r4 & Hws & H). inv_ret H.
  apply read_b_some in Hv as ->. inv Hb. rename H2 into Hr1.
  destruct (read_u_some _ _ _ _ Hr1 Hi) as (_ & -> & _).
  apply read_bytes_some in Hh as [-> Hl].
  exists r3. unfold write_mptroot_unsigned. cbn [rversion rindex rroot rwitness].
  split; [cbn [app]; rewrite <- app_assoc; reflexivity|]. split; [|exact Hws].
  cbn [app length]. rewrite app_length, le_bytes_length, Hl. reflexivity.
Qed.

(* non-vacuity; two different accepted byte strings (witness count 1 as one byte / as 253,1,0), one value *)
Definition ex_root : mptroot := MptRoot 0 5 (repeat 7 32) [Witness [12; 64] [65]].
Definition ex_root_bs (count : list Z) : list Z := [0] ++ [5; 0; 0; 0] ++ repeat 7 32 ++ count ++ [2; 12; 64; 1; 65].
Example mptroot_two_encodings :
  ex_root_bs [1] <> ex_root_bs [253; 1; 0]
  /\ bytes_ok (ex_root_bs [1]) /\ bytes_ok (ex_root_bs [253; 1; 0])
  /\ decode_all read_mptroot (ex_root_bs [1]) = Some ex_root
  /\ decode_all read_mptroot (ex_root_bs [253; 1; 0]) = Some ex_root
  /\ write_mptroot ex_root = ex_root_bs [1]
  /\ write_mptroot_unsigned ex_root = firstn 37 (ex_root_bs [253; 1; 0])
  /\ mptroot_wf ex_root /\ mptroot_wf (MptRoot 0 5 (repeat 7 32) [])
  /\ Z.of_nat (length (write_mptroot ex_root)) = 43.
Proof.
  split; [intros E; apply (f_equal (@length Z)) in E; vm_compute in E; discriminate E|].
  split; [apply bytes_okb_sound; vm_compute; reflexivity|].
  split; [apply bytes_okb_sound; vm_compute; reflexivity|].
  repeat (split; [vm_compute; reflexivity|]).
  split; [apply (wf_by_decoding _ _ _ _ mptroot_good); vm_compute; reflexivity|].
  split; [apply (wf_by_decoding _ _ _ _ mptroot_good); vm_compute; reflexivity|].
  vm_compute; reflexivity.
Qed.
(* a second witness is refused before anything is allocated for it *)
Example mptroot_two_witnesses_refused :
  read_mptroot ([0] ++ [5; 0; 0; 0] ++ repeat 7 32 ++ [2] ++ [0; 0] ++ [0; 0]) = None.
Proof. vm_compute. reflexivity. Qed.

(* ================= B. NEF ================= *)
(* ---------- method token ---------- *)
Definition token_wf (t : token) : Prop :=
  hash_wf 20 (khash t) /\ Z.of_nat (length (kmethod t)) <= 32 /\ bytes_ok (kmethod t)
  /\ hd 0 (kmethod t) <> 95 /\ 0 <= kparams t < 2 ^ 16 /\ 0 <= kflags t < 256 /\ Z.land (kflags t) 240 = 0.

Theorem token_decode_encode : codec_ok token_wf write_token read_token.
Proof.
  intros [h m p r f] rest ([Hhl _] & Hml & _ & Hm & Hp & _ & Hf). cbn [khash kmethod kparams kreturn kflags] in *.
  unfold write_token, read_token. cbn [khash kmethod kparams kreturn kflags]. rewrite <- !app_assoc.
  bstep ltac:(apply read_bytes_app; exact Hhl).
  bstep ltac:(apply varbytes_roundtrip; unfold max_method_length; lia).
  assert (match m with c :: _ => c =? 95 | [] => false end = false) as E
    by (destruct m; cbn [hd] in Hm; [reflexivity|lia]).
  rewrite E. bstep ltac:(apply (read_u_write 2); exact Hp).
  bstep ltac:(apply read_bool_lax_write). cbn [app]. bstep reflexivity.
  rewrite Hf. change (negb (0 =? 0)) with false. reflexivity.
Qed.
Lemma token_good : dec_good token_wf write_token read_token.
Proof.
  intros bs t rest Hb H. unfold read_token in H.
  apply bind_some in H as (h & r1 & Hh & H). apply bind_some in H as (m & r2 & Hm & H).
  destruct (read_bytes_good _ _ _ _ Hb Hh) as (Hhl & Hhb & Hr1 & Hlen1).
  destruct (read_varbytes_good _ _ _ _ Hr1 Hm) as (Hml & Hmb & Hr2 & Hlen2).
  case_if_in H; [discriminate|]. rename Heqb into Hus.
  apply bind_some in H as (p & r3 & Hp & H). apply bind_some in H as (r & r4 & Hrt & H).
  apply bind_some in H as (f & r5 & Hf & H).
  destruct (read_u_good _ _ _ _ Hr2 Hp) as (Hp1 & Hr3 & Hlen3).
  unfold read_bool_lax in Hrt. apply bind_some in Hrt as (b & r4' & Hbt & Hrt). inv_ret Hrt.
  destruct (read_b_good _ _ _ Hr3 Hbt) as (_ & Hr4 & Hlen4).
  destruct (read_b_good _ _ _ Hr4 Hf) as (Hf1 & Hr5 & Hlen5).
  case_if_in H; [discriminate|]. inv_ret H.
  unfold token_wf, write_token, hash_wf, max_method_length in *. cbn [khash kmethod kparams kreturn kflags].
  rewrite !app_length, le_bytes_length. cbn [length write_bool].
  change (2 ^ (8 * Z.of_nat 2)) with (2 ^ 16) in Hp1.
  repeat split; auto; try lia.
  destruct m; cbn [hd]; lia.
Qed.
Theorem token_decode_wf : dec_wf token_wf read_token.
Proof. exact (good_wf _ _ _ token_good). Qed.
Theorem token_minimal : dec_min write_token read_token.
Proof. exact (good_min _ _ _ token_good). Qed.
Theorem token_consumes : dec_consumes read_token.
Proof.
  unfold read_token, read_bool_lax. apply consumes_bind; [apply read_bytes_consumes; lia|intros ?; shr].
Qed.
Lemma token_shrinks : dec_shrinks read_token.
Proof. apply consumes_shrinks, token_consumes. Qed.
Theorem token_canonical bs t rest rest' :
  bytes_ok bs -> read_token bs = Some (t, rest) -> read_token (write_token t ++ rest') = Some (t, rest').
Proof. apply (canonical_of token_wf); [exact token_decode_encode|exact token_decode_wf]. Qed.
Theorem write_token_ok t : token_wf t -> bytes_ok (write_token t).
Proof.
  intros ([_ Hh] & _ & Hm & _ & _ & Hf & _). unfold write_token.
  apply bytes_ok_app; split; [exact Hh|]. apply bytes_ok_app; split; [apply write_varbytes_ok, Hm|].
  apply bytes_ok_app; split; [apply le_bytes_ok|]. apply bytes_ok_app; split.
  - destruct (kreturn t); repeat constructor; lia.
  - repeat constructor; lia.
Qed.
(* alloc bound of ReadString(maxMethodLength) *)
Corollary token_method_bounded bs t rest :
  bytes_ok bs -> read_token bs = Some (t, rest) -> Z.of_nat (length (kmethod t)) <= 32.
Proof. intros Hb H. apply token_decode_wf in H; [|exact Hb]. apply H. Qed.

Definition ex_token : token := Token (repeat 9 20) [116; 114; 97; 110; 115; 102; 101; 114] 4 true 15.
Definition ex_token_bs (method : list Z) (ret flags : Z) : list Z :=
  repeat 9 20 ++ [Z.of_nat (length method)] ++ method ++ [4; 0] ++ [ret] ++ [flags].
Example token_ex :
  let m := [116; 114; 97; 110; 115; 102; 101; 114] in
  token_wf ex_token /\ write_token ex_token = ex_token_bs m 1 15
  /\ read_token (ex_token_bs m 1 15) = Some (ex_token, [])
  (* BinReader.ReadBool: return flag 2 is accepted and re-encoded as 1, same length *)
  /\ read_token (ex_token_bs m 2 15) = Some (ex_token, [])
  /\ ex_token_bs m 2 15 <> write_token ex_token /\ length (ex_token_bs m 2 15) = length (write_token ex_token)
  (* method "_x"; call flags 0x10 *)
  /\ read_token (ex_token_bs [95; 120] 1 15) = None /\ read_token (ex_token_bs [120; 95] 1 15) <> None
  /\ read_token (ex_token_bs m 1 16) = None
  (* 33-byte method name *)
  /\ read_token (ex_token_bs (repeat 120 33) 1 15) = None /\ read_token (ex_token_bs (repeat 120 32) 1 15) <> None.
Proof.
  cbv zeta. split; [apply (wf_by_decoding _ _ _ _ token_good); vm_compute; reflexivity|].
  repeat (split; [vm_compute; first [reflexivity | discriminate]|]). vm_compute; discriminate.
Qed.

(* ---------- the compiler field: bytes.TrimRightFunc(buf, r == 0) ---------- *)
Lemma trim_zeros_cons x t :
  trim_zeros (x :: t) = match trim_zeros t with [] => if x =? 0 then [] else [x] | t' => x :: t' end.
Proof. reflexivity. Qed.
Lemma trim_zeros_repeat k : trim_zeros (repeat 0 k) = [].
Proof. induction k as [|k IH]; [reflexivity|]. cbn [repeat]. rewrite trim_zeros_cons, IH. reflexivity. Qed.
Lemma trim_zeros_app_zeros l k : trim_zeros (l ++ repeat 0 k) = trim_zeros l.
Proof.
  induction l as [|x t IH]; [apply trim_zeros_repeat|]. cbn [app]. rewrite !trim_zeros_cons, IH. reflexivity.
Qed.
(* padding a trimmed field with zeros and trimming gives it back *)
Lemma trim_zeros_pad c k : trim_zeros c = c -> trim_zeros (c ++ repeat 0 k) = c.
Proof. intros H. now rewrite trim_zeros_app_zeros. Qed.
Lemma trim_zeros_length l : (length (trim_zeros l) <= length l)%nat.
Proof.
  induction l as [|x t IH]; [cbn [trim_zeros length]; lia|]. rewrite trim_zeros_cons.
  destruct (trim_zeros t) as [|y t']; [destruct (x =? 0)|]; cbn [length] in *; lia.
Qed.
Lemma trim_zeros_ok l : bytes_ok l -> bytes_ok (trim_zeros l).
Proof.
  unfold bytes_ok. induction 1 as [|x t Hx Ht IH]; [constructor|]. rewrite trim_zeros_cons.
  destruct (trim_zeros t) as [|y t']; [|apply Forall_cons; assumption].
  destruct (x =? 0); [apply Forall_nil|apply Forall_cons; [exact Hx|apply Forall_nil]].
Qed.
(* the result is trimmed *)
Lemma trim_zeros_idem l : trim_zeros (trim_zeros l) = trim_zeros l.
Proof.
  induction l as [|x t IH]; [reflexivity|]. rewrite trim_zeros_cons.
  destruct (trim_zeros t) as [|y t'] eqn:E.
  - destruct (x =? 0) eqn:Ex; [reflexivity|]. cbn [trim_zeros]. rewrite Ex. reflexivity.
  - rewrite trim_zeros_cons, IH. reflexivity.
Qed.
(* ... that is: it does not end in a zero byte *)
Lemma trim_zeros_no_trailing_zero l t : trim_zeros l <> t ++ [0].
Proof.
  revert t. induction l as [|x l IH]; intros t; [cbn [trim_zeros]; apply app_cons_not_nil|].
  rewrite trim_zeros_cons. destruct (trim_zeros l) as [|y t'] eqn:E.
  - destruct (x =? 0) eqn:Ex; [apply app_cons_not_nil|].
    destruct t as [|a [|b t]]; cbn [app]; intros H; inv H. lia.
  - destruct t as [|a t]; cbn [app]; intros H; [inv H|]. injection H as _ H. exact (IH t H).
Qed.
Lemma trimmed_iff l : trim_zeros l = l <-> forall t, l <> t ++ [0].
Proof.
  split; [intros <-; apply trim_zeros_no_trailing_zero|].
  induction l as [|x l IH]; intros H; [reflexivity|]. rewrite trim_zeros_cons.
  rewrite IH.
  - destruct l as [|y l']; [|reflexivity]. destruct (x =? 0) eqn:Ex; [|reflexivity].
    exfalso. apply (H []). cbn [app]. f_equal. lia.
  - intros t E. apply (H (x :: t)). cbn [app]. now rewrite E.
Qed.
(* only zeros are dropped: the 64 bytes that were read are the trimmed field followed by zeros, i.e. exactly
   what Header.EncodeBinary writes back; the compiler field is never a source of non-canonical encodings *)
Lemma trim_zeros_decomp l : l = trim_zeros l ++ repeat 0 (length l - length (trim_zeros l)).
Proof.
  induction l as [|x t IH]; [reflexivity|]. rewrite trim_zeros_cons.
  pose proof (trim_zeros_length t) as Hlen.
  destruct (trim_zeros t) as [|y t'] eqn:E.
  - cbn [app length] in IH. rewrite Nat.sub_0_r in IH.
    destruct (x =? 0) eqn:Ex; cbn [app length].
    + rewrite Nat.sub_0_r. cbn [repeat]. rewrite <- IH. f_equal. lia.
    + rewrite Nat.sub_succ, Nat.sub_0_r, <- IH. reflexivity.
  - cbn [length] in *. rewrite Nat.sub_succ. cbn [app] in *. f_equal. exact IH.
Qed.

(* ---------- the file ---------- *)
(* everything but the checksum *)
Definition nef_shape (f : nef) : Prop :=
  Z.of_nat (length (ncompiler f)) <= 64 /\ bytes_ok (ncompiler f) /\ trim_zeros (ncompiler f) = ncompiler f
  /\ Z.of_nat (length (nsource f)) <= 256 /\ bytes_ok (nsource f)
  /\ Forall token_wf (ntokens f) /\ Z.of_nat (length (ntokens f)) <= max_array
  /\ 1 <= Z.of_nat (length (nscript f)) <= max_nef_size /\ bytes_ok (nscript f).

Lemma read_u2_zero X : read_u 2 (0 :: 0 :: X) = Some (0, X).
Proof. reflexivity. Qed.
Lemma write_nef_length f : Z.of_nat (length (ncompiler f)) <= 64 ->
  length (write_nef f) =
  (4 + 64 + length (write_varbytes (nsource f)) + 1 + length (write_array write_token (ntokens f)) + 2
   + length (write_varbytes (nscript f)) + 4)%nat.
Proof.
  intros H. unfold write_nef, write_nef_body, compiler_field.
  rewrite !app_length, !le_bytes_length, repeat_length. cbn [length]. lia.
Qed.
Lemma write_nef_body_ok f : nef_shape f -> bytes_ok (write_nef_body f).
Proof.
  intros (_ & Hc & _ & _ & Hs & Ht & _ & _ & Hsc). unfold write_nef_body.
  apply bytes_ok_app; split; [apply le_bytes_ok|]. apply bytes_ok_app; split; [exact Hc|].
  apply bytes_ok_app; split; [apply bytes_ok_repeat0|].
  apply bytes_ok_app; split; [apply write_varbytes_ok, Hs|].
  apply bytes_ok_app; split; [repeat constructor; lia|].
  apply bytes_ok_app; split; [apply (write_array_ok token_wf); [exact write_token_ok|exact Ht]|].
  apply bytes_ok_app; split; [repeat constructor; lia|apply write_varbytes_ok, Hsc].
Qed.

Section NefChecksum.
  Variable checksum : list Z -> Z.
  Hypothesis checksum_range : forall b, 0 <= checksum b < 2 ^ 32.

  Definition nef_wf (f : nef) : Prop := nef_shape f /\ nchecksum f = checksum (write_nef_body f).

  (* the decoder on an encoding: everything is read back and the outcome is the checksum comparison *)
  Lemma read_nef_write f rest : nef_shape f -> 0 <= nchecksum f < 2 ^ 32 ->
    read_nef checksum (write_nef f ++ rest)
    = if checksum (write_nef_body f) =? nchecksum f then Some (f, rest) else None.
  Proof. clear checksum_range.
    intros (Hcl & _ & Hct & Hsl & _ & Htf & Htn & Hscl & _) Hck. destruct f as [c s ts sc ck].
    cbn [ncompiler nsource ntokens nscript nchecksum] in *.
    unfold write_nef. remember (checksum (write_nef_body (Nef c s ts sc ck))) as K eqn:HK.
    unfold read_nef, write_nef_body. cbn [ncompiler nsource ntokens nscript nchecksum].
    rewrite <- !app_assoc.
    bstep ltac:(apply (read_u_write 4); unfold nef_magic; change (2 ^ (8 * Z.of_nat 4)) with 4294967296; lia).
    rewrite Z.eqb_refl. cbn [negb].
    rewrite (app_assoc c (repeat 0 _)).
    bstep ltac:(apply read_bytes_app; rewrite app_length, repeat_length; unfold compiler_field; lia).
    bstep ltac:(apply varbytes_roundtrip; unfold max_source_length; lia).
    cbn [app]. bstep reflexivity. change (negb (0 =? 0)) with false. cbv iota.
    bstep ltac:(apply (array_roundtrip token_wf);
                [exact token_decode_encode|exact Htf|exact Htn|unfold max_array in Htn; lia]).
    bstep ltac:(apply read_u2_zero). change (negb (0 =? 0)) with false. cbv iota.
    bstep ltac:(apply varbytes_roundtrip; unfold max_nef_size in *; lia).
    replace (length sc =? 0)%nat with false by lia.
    bstep ltac:(apply (read_u_write 4); exact Hck).
    cbv zeta. rewrite trim_zeros_app_zeros, Hct. subst K. unfold write_nef_body.
    cbn [app ncompiler nsource ntokens nscript nchecksum]. case_if; reflexivity.
  Qed.

  Theorem nef_decode_encode f rest : nef_wf f -> read_nef checksum (write_nef f ++ rest) = Some (f, rest).
  Proof.
    intros [Hs Hck]. rewrite read_nef_write; [|exact Hs|rewrite Hck; apply checksum_range].
    rewrite Hck, Z.eqb_refl. reflexivity.
  Qed.
  (* an encoding whose checksum field is not the checksum of its body is refused *)
  Theorem nef_wrong_checksum_refused f rest : nef_shape f -> 0 <= nchecksum f < 2 ^ 32 ->
    nchecksum f <> checksum (write_nef_body f) -> read_nef checksum (write_nef f ++ rest) = None.
  Proof. clear checksum_range.
    intros Hs Hr Hne. rewrite read_nef_write by assumption.
    replace (checksum (write_nef_body f) =? nchecksum f) with false by lia. reflexivity.
  Qed.

  Lemma nef_good : dec_good nef_wf write_nef (read_nef checksum).
  Proof. clear checksum_range.
    intros bs f rest Hb H. unfold read_nef in H.
    apply bind_some in H as (m & r1 & Hm & H).
    destruct (read_u_good _ _ _ _ Hb Hm) as (_ & Hr1 & Hlen1).
    case_if_in H; [discriminate|].
    apply bind_some in H as (c & r2 & Hc & H).
    destruct (read_bytes_good _ _ _ _ Hr1 Hc) as (Hcl & Hcb & Hr2 & Hlen2).
    apply bind_some in H as (s & r3 & Hs & H).
    destruct (read_varbytes_good _ _ _ _ Hr2 Hs) as (Hsl & Hsb & Hr3 & Hlen3).
    apply bind_some in H as (b1 & r4 & Hb1 & H).
    destruct (read_b_good _ _ _ Hr3 Hb1) as (_ & Hr4 & Hlen4).
    case_if_in H; [discriminate|].
    apply bind_some in H as (ts & r5 & Hts & H).
    destruct (read_array_good _ _ _ _ token_good _ _ _ Hr4 Hts) as (Htf & Htn & Hr5 & Hlen5).
    apply bind_some in H as (b2 & r6 & Hb2 & H).
    destruct (read_u_good _ _ _ _ Hr5 Hb2) as (_ & Hr6 & Hlen6).
    case_if_in H; [discriminate|].
    apply bind_some in H as (sc & r7 & Hsc & H).
    destruct (read_varbytes_good _ _ _ _ Hr6 Hsc) as (Hscl & Hscb & Hr7 & Hlen7).
    case_if_in H; [discriminate|]. rename Heqb2 into Hne.
    apply bind_some in H as (ck & r8 & Hck & H).
    destruct (read_u_good _ _ _ _ Hr7 Hck) as (_ & Hr8 & Hlen8).
    cbv zeta in H. case_if_in H; [|discriminate]. rename Heqb2 into Hsum. inv_ret H.
    pose proof (trim_zeros_length c) as Htl. unfold compiler_field, max_source_length in *.
    split; [split|split; [exact Hr8|]].
    - unfold nef_shape. cbn [ncompiler nsource ntokens nscript].
      repeat split; auto using trim_zeros_ok, trim_zeros_idem; lia.
    - cbn [nchecksum]. apply Z.eqb_eq in Hsum. symmetry. exact Hsum.
    - rewrite write_nef_length by (cbn [ncompiler]; lia). cbn [ncompiler nsource ntokens nscript]. lia.
  Qed.
  Theorem nef_decode_wf bs f rest :
    bytes_ok bs -> read_nef checksum bs = Some (f, rest) -> nef_wf f /\ bytes_ok rest.
  Proof. clear checksum_range. intros Hb H. destruct (nef_good _ _ _ Hb H) as (? & ? & _). auto. Qed.
  Theorem nef_minimal : dec_min write_nef (read_nef checksum).
  Proof. clear checksum_range. exact (good_min _ _ _ nef_good). Qed.

  (* the checksum the decoder verifies is that of the re-encoded body: whatever non-minimal var-int or lax
     boolean the input contained, what was accepted re-encodes to bytes that decode to the same file *)
  Theorem nef_canonical bs f rest rest' :
    bytes_ok bs -> read_nef checksum bs = Some (f, rest) -> read_nef checksum (write_nef f ++ rest') = Some (f, rest').
  Proof. intros Hb H. apply nef_decode_encode. apply (nef_decode_wf _ _ _ Hb H). Qed.

  Theorem nef_consumes : dec_consumes (read_nef checksum).
  Proof. clear checksum_range.
    pose proof token_shrinks. unfold read_nef.
    apply consumes_bind; [apply read_u_consumes; lia|intros ?; shr].
  Qed.

  Theorem write_nef_ok f : nef_wf f -> bytes_ok (write_nef f).
  Proof. clear checksum_range.
    intros [Hs _]. unfold write_nef. apply bytes_ok_app. split; [apply write_nef_body_ok, Hs|apply le_bytes_ok].
  Qed.

  (* FileFromBytes on Bytes() *)
  Theorem nef_from_bytes_roundtrip f : nef_wf f -> Z.of_nat (length (write_nef f)) <= max_nef_size ->
    nef_from_bytes checksum (write_nef f) = Some f.
  Proof.
    intros Hwf Hl. unfold nef_from_bytes. replace (max_nef_size <? Z.of_nat (length (write_nef f))) with false by lia.
    pose proof (nef_decode_encode f [] Hwf) as E. rewrite app_nil_r in E. rewrite E. reflexivity.
  Qed.
  Theorem nef_from_bytes_wf bs f : bytes_ok bs -> nef_from_bytes checksum bs = Some f ->
    nef_wf f /\ Z.of_nat (length bs) <= max_nef_size /\ (length (write_nef f) <= length bs)%nat.
  Proof. clear checksum_range.
    intros Hb H. unfold nef_from_bytes in H. case_if_in H; [discriminate|].
    destruct (read_nef checksum bs) as [[f' r]|] eqn:E; [|discriminate]. inv H.
    destruct (nef_good _ _ _ Hb E) as (Hwf & _ & Hlen). split; [exact Hwf|]. split; lia.
  Qed.

  (* alloc bounds *)
  Theorem nef_limits bs f rest : bytes_ok bs -> read_nef checksum bs = Some (f, rest) ->
    Z.of_nat (length (nscript f)) <= 131070 /\ Z.of_nat (length (nsource f)) <= 256
    /\ Forall (fun t => Z.of_nat (length (kmethod t)) <= 32) (ntokens f)
    /\ Z.of_nat (length (ncompiler f)) <= 64 /\ Z.of_nat (length (ntokens f)) <= 16777216.
  Proof. clear checksum_range.
    intros Hb H. destruct (nef_decode_wf _ _ _ Hb H) as [[(Hc & _ & _ & Hs & _ & Ht & Htn & Hsc & _) _] _].
    unfold max_nef_size, max_array in *. repeat split; try lia.
    eapply Forall_impl; [|exact Ht]. intros t Hwf. apply Hwf.
  Qed.

  (* no hypothesis on the input: whatever was accepted carries the checksum of its own re-encoded body *)
  Theorem nef_checksum_detects bs f rest :
    read_nef checksum bs = Some (f, rest) -> nchecksum f = checksum (write_nef_body f).
  Proof. clear checksum_range.
    intros H. unfold read_nef in H.
    repeat first [ apply bind_some in H as (? & ? & _ & H) | case_if_in H; [discriminate|] ].
    cbv zeta in H. case_if_in H; [|discriminate]. inv_ret H.
    cbn [nchecksum]. symmetry. apply Z.eqb_eq. assumption.
  Qed.
  (* ... and a non-empty script (also without any assumption on the input) *)
  Theorem nef_script_nonempty bs f rest : read_nef checksum bs = Some (f, rest) -> nscript f <> [].
  Proof. clear checksum_range.
    intros H. unfold read_nef in H.
    repeat first [ apply bind_some in H as (? & ? & _ & H) | case_if_in H; [discriminate|] ].
    cbv zeta in H. case_if_in H; [|discriminate]. inv_ret H.
    cbn [nscript]. intros ->. discriminate.
  Qed.
End NefChecksum.

(* ---------- examples with a toy checksum: the sum of the bytes mod 2^32 ---------- *)
Definition toy_checksum (b : list Z) : Z := fold_right Z.add 0 b mod 2 ^ 32.
Lemma toy_checksum_range b : 0 <= toy_checksum b < 2 ^ 32.
Proof. unfold toy_checksum. apply Z.mod_pos_bound. reflexivity. Qed.

Definition with_checksum (f : nef) : nef :=
  Nef (ncompiler f) (nsource f) (ntokens f) (nscript f) (toy_checksum (write_nef_body f)).
(* compiler "neo-go", no source, one token, script PUSH1 RET *)
Definition ex_nef : nef := with_checksum (Nef [110; 101; 111; 45; 103; 111] [] [ex_token] [17; 64] 0).

(* raw bytes with every field free *)
Definition raw_nef_body (magic : Z) (comp src : list Z) (r1 : Z) (toks : list Z) (r2 : list Z) (script : list Z) :=
  le_bytes 4 magic ++ comp ++ src ++ [r1] ++ toks ++ r2 ++ script.
Definition raw_nef (body : list Z) (ck : Z) : list Z := body ++ le_bytes 4 ck.
Definition ex_comp : list Z := [110; 101; 111; 45; 103; 111] ++ repeat 0 58.
Definition ex_toks (method : list Z) (flags : Z) : list Z := [1] ++ ex_token_bs method 1 flags.
Definition ex_method : list Z := [116; 114; 97; 110; 115; 102; 101; 114].
Definition toy_signed (body : list Z) : list Z := raw_nef body (toy_checksum body).

Example nef_ex_roundtrip :
  nef_wf toy_checksum ex_nef
  /\ write_nef ex_nef = toy_signed (raw_nef_body nef_magic ex_comp [0] 0 (ex_toks ex_method 15) [0; 0] [2; 17; 64])
  /\ read_nef toy_checksum (write_nef ex_nef ++ [9; 9]) = Some (ex_nef, [9; 9])
  /\ nef_from_bytes toy_checksum (write_nef ex_nef) = Some ex_nef
  /\ length (write_nef ex_nef) = 113%nat.
Proof.
  split; [apply (wf_by_decoding _ _ _ _ (nef_good toy_checksum)); vm_compute; reflexivity|].
  repeat split; vm_compute; reflexivity.
Qed.
Example nef_ex_roundtrip_by_theorem : nef_from_bytes toy_checksum (write_nef ex_nef) = Some ex_nef.
Proof.
  apply (nef_from_bytes_roundtrip _ toy_checksum_range); [apply nef_ex_roundtrip|vm_compute; discriminate].
Qed.
(* each of these differs from the accepted file above in the one place named *)
Example nef_ex_refused :
  (* wrong magic *)
  read_nef toy_checksum (toy_signed (raw_nef_body (nef_magic + 1) ex_comp [0] 0 (ex_toks ex_method 15) [0; 0] [2; 17; 64])) = None
  (* non-zero reserved byte; non-zero reserved u16 *)
  /\ read_nef toy_checksum (toy_signed (raw_nef_body nef_magic ex_comp [0] 1 (ex_toks ex_method 15) [0; 0] [2; 17; 64])) = None
  /\ read_nef toy_checksum (toy_signed (raw_nef_body nef_magic ex_comp [0] 0 (ex_toks ex_method 15) [0; 1] [2; 17; 64])) = None
  (* empty script *)
  /\ read_nef toy_checksum (toy_signed (raw_nef_body nef_magic ex_comp [0] 0 (ex_toks ex_method 15) [0; 0] [0])) = None
  (* wrong checksum *)
  /\ (let body := raw_nef_body nef_magic ex_comp [0] 0 (ex_toks ex_method 15) [0; 0] [2; 17; 64] in
      read_nef toy_checksum (raw_nef body (toy_checksum body + 1)) = None
      /\ read_nef toy_checksum (raw_nef body (toy_checksum body)) = Some (ex_nef, []))
  (* method "_x"; call flags 0x10 *)
  /\ read_nef toy_checksum (toy_signed (raw_nef_body nef_magic ex_comp [0] 0 (ex_toks [95; 120] 15) [0; 0] [2; 17; 64])) = None
  /\ read_nef toy_checksum (toy_signed (raw_nef_body nef_magic ex_comp [0] 0 (ex_toks ex_method 16) [0; 0] [2; 17; 64])) = None
  (* source of 257 bytes *)
  /\ read_nef toy_checksum (toy_signed (raw_nef_body nef_magic ex_comp ([253; 1; 1] ++ repeat 97 257) 0
                                                 (ex_toks ex_method 15) [0; 0] [2; 17; 64])) = None.
Proof. cbv zeta. repeat split; vm_compute; reflexivity. Qed.
Example nef_ex_wrong_checksum_by_theorem :
  read_nef toy_checksum (write_nef (Nef (ncompiler ex_nef) (nsource ex_nef) (ntokens ex_nef) (nscript ex_nef) 7)) = None.
Proof.
  rewrite <- (app_nil_r (write_nef _)). apply nef_wrong_checksum_refused.
  - exact (proj1 (proj1 nef_ex_roundtrip)).
  - cbn [nchecksum]. lia.
  - vm_compute. discriminate.
Qed.

(* a compiler field with an inner zero, "ab\0c", and a non-minimal script length (253,2,0): the file is accepted
   although the checksum of the bytes RECEIVED is not the one it carries; it carries the checksum of the
   canonical re-encoding, which is two bytes shorter and decodes to the same file *)
Definition nc_nef : nef := with_checksum (Nef [97; 98; 0; 99] [] [] [17; 64] 0).
Definition nc_body : list Z :=
  raw_nef_body nef_magic ([97; 98; 0; 99] ++ repeat 0 60) [0] 0 [0] [0; 0] [253; 2; 0; 17; 64].
Example nef_noncanonical_accepted :
  let bs := raw_nef nc_body (nchecksum nc_nef) in
  bytes_ok bs /\ read_nef toy_checksum bs = Some (nc_nef, [])
  /\ toy_checksum nc_body <> nchecksum nc_nef
  /\ write_nef nc_nef <> bs /\ (length (write_nef nc_nef) + 2 = length bs)%nat
  /\ read_nef toy_checksum (write_nef nc_nef) = Some (nc_nef, [])
  /\ nef_wf toy_checksum nc_nef /\ trim_zeros ([97; 98; 0; 99] ++ repeat 0 60) = [97; 98; 0; 99].
Proof.
  cbv zeta.
  assert (bytes_ok (raw_nef nc_body (nchecksum nc_nef))) as Hb by (apply bytes_okb_sound; vm_compute; reflexivity).
  assert (read_nef toy_checksum (raw_nef nc_body (nchecksum nc_nef)) = Some (nc_nef, [])) as Hd by (vm_compute; reflexivity).
  split; [exact Hb|]. split; [exact Hd|].
  split; [vm_compute; discriminate|].
  split; [intros E; apply (f_equal (@length Z)) in E; vm_compute in E; discriminate E|].
  split; [vm_compute; reflexivity|].
  split; [apply (nef_canonical _ toy_checksum_range _ _ _ [] Hb Hd)|].
  split; [apply (nef_decode_wf _ _ _ _ Hb Hd)|vm_compute; reflexivity].
Qed.

Print Assumptions mptroot_decode_encode.
Print Assumptions mptroot_good.
Print Assumptions nef_decode_encode.
Print Assumptions nef_good.
Print Assumptions nef_canonical.
