(* Decimal strings <-> scaled integers: pkg/encoding/fixedn (decimal.go: ToString / FromString with a
   precision; fixed8.go: Fixed8.String / Fixed8FromString). Definitions only (proofs: FixedProofs.v).

   The model follows the mechanism of the Go code:
   * FromString: strings.SplitN(s, ".", 2); big.Int.SetString(part, 10) for each part (one optional
     leading '+' or '-', then at least one decimal digit, nothing else; so the fraction part may carry
     a sign of its own, and its sign character counts in len(parts[1])); len(parts[1]) > precision is
     an error; the fraction is scaled by 10^(precision-len(parts[1])) and subtracted when the number
     is negative, added otherwise.
   * ToString: QuoRem by 10^precision, integer part, and for a non-zero remainder "." and the
     remainder with its trailing zeros divided away, zero-padded to precision-trimmed digits.
   * Fixed8.String: sign, val/10^8, and for val%10^8 > 0 "." then 8-len(str) zeros then
     strings.TrimRight(str, "0").
   It models the CORRECT behaviour for values in (-1,0) (known defect F14 is NOT modelled):
   the unchanged FromString takes "negative" from bi.Sign() of the parsed integer part, which is 0
   for "-0", so "-0.5" parses as +0.5; the unchanged ToString prints dp.String() = "0" for them, so
   -0.5 prints as "0.5". Here "negative" = the integer part's text starts with '-', and to_string
   prints '-' whenever v < 0. For every other input the model is the mechanism of the Go code.
   (ToString reads the remainder through Uint64(), so the Go code is only meaningful for
   precision <= 19; the model has no such bound.)

   Strings are lists of ASCII codes: '+' 43, '-' 45, '.' 46, '0' 48. *)
From NG Require Import Common.Tactics Codec.Radix.
Open Scope Z_scope.

Definition pow10 (n : nat) : Z := 10 ^ Z.of_nat n.

(* strconv.FormatInt(n, 10) / big.Int.String for n >= 0 *)
Definition dec_string (n : Z) : list Z :=
  if n <=? 0 then [48] else map (fun d => 48 + d) (digits_be 10 n).

Definition dec_digit (c : Z) : option Z :=
  if (48 <=? c) && (c <=? 57) then Some (c - 48) else None.

(* at least one digit, digits only *)
Definition parse_nat (s : list Z) : option Z :=
  match s with
  | [] => None
  | _ => option_map (value_be 10) (map_option dec_digit s)
  end.

(* new(big.Int).SetString(s, 10) *)
Definition parse_int (s : list Z) : option Z :=
  match s with
  | [] => None
  | c :: t =>
      if c =? 43 then parse_nat t
      else if c =? 45 then option_map Z.opp (parse_nat t)
      else parse_nat s
  end.

(* strings.SplitN(s, ".", 2): text before the first '.', and the text after it if there is one *)
Fixpoint split_dot (s : list Z) : list Z * option (list Z) :=
  match s with
  | [] => ([], None)
  | c :: t =>
      if c =? 46 then ([], Some t)
      else let (a, r) := split_dot t in (c :: a, r)
  end.

Definition starts_minus (s : list Z) : bool :=
  match s with
  | c :: _ => c =? 45
  | [] => false
  end.

(* fixedn.FromString *)
Definition from_string (s : list Z) (prec : nat) : option Z :=
  let (ip, fr) := split_dot s in
  match parse_int ip with
  | None => None
  | Some bi0 =>
      let bi := bi0 * pow10 prec in
      match fr with
      | None => Some bi
      | Some f =>
          if (prec <? length f)%nat then None
          else
            match parse_int f with
            | None => None
            | Some fp0 =>
                let fp := fp0 * pow10 (prec - length f) in
                if starts_minus ip then Some (bi - fp) else Some (bi + fp)
            end
      end
  end.

(* for ; frac%10 == 0; frac /= 10 { trimmed++ }   (fuel: frac < 10^fuel) *)
Fixpoint trim10 (fuel : nat) (f : Z) : Z * nat :=
  match fuel with
  | O => (f, O)
  | S k => if f mod 10 =? 0 then let (f', t) := trim10 k (f / 10) in (f', S t) else (f, O)
  end.

(* fmt.Sprintf("%0<precision-trimmed>d", frac) *)
Definition frac_string (fp : Z) (prec : nat) : list Z :=
  let (f, t) := trim10 prec fp in
  let ds := dec_string f in
  repeat 48 (prec - t - length ds) ++ ds.

(* fixedn.ToString *)
Definition to_string (v : Z) (prec : nat) : list Z :=
  let a := Z.abs v in
  let ip := a / pow10 prec in
  let fp := a mod pow10 prec in
  (if v <? 0 then [45] else []) ++ dec_string ip
  ++ (if fp =? 0 then [] else 46 :: frac_string fp prec).

(* strings.TrimRight(s, string(z)) *)
Definition trim_right (z : Z) (s : list Z) : list Z := rev (strip_leading z (rev s)).

(* Fixed8.String, for int64 values other than math.MinInt64 (whose negation overflows) *)
Definition fixed8_string (v : Z) : list Z :=
  let val := Z.abs v in
  let str := dec_string (val / 100000000) in
  let r := val mod 100000000 in
  (if v <? 0 then [45] else []) ++ str
  ++ (if 0 <? r
      then 46 :: (let s := dec_string r in repeat 48 (8 - length s) ++ trim_right 48 s)
      else []).

(* big.Int.Int64 (two's-complement wrap; the identity on int64 values) *)
Definition int64_wrap (z : Z) : Z := (z + 2 ^ 63) mod 2 ^ 64 - 2 ^ 63.

(* Fixed8FromString *)
Definition fixed8_from_string (s : list Z) : option Z := option_map int64_wrap (from_string s 8).
