(* Base58 / Base58Check / NEO addresses. Definitions only (proofs: Base58Proofs.v).

   Two levels:
   * b58_encode / b58_decode are a SPECIFICATION-LEVEL model of github.com/mr-tron/base58 v1.2.0
     Encode / Decode (BTC alphabet). The third-party limb arithmetic (uint32 carries in
     FastBase58EncodingAlphabet, the outi []uint32 accumulator and byte extraction in
     FastBase58DecodingAlphabet) is NOT followed: the model states what those loops compute
     (radix conversion of the big-endian number, leading zero bytes <-> leading '1's) and the
     correspondence harness compares it with the library on generated inputs.
   * check_encode / check_decode (pkg/encoding/base58/base58.go) and addr_encode / addr_decode
     (pkg/encoding/address/address.go: Uint160ToString / StringToUint160) follow the mechanism of
     neo-go's own wrappers, with the checksum function (first 4 bytes of double SHA-256) as a
     Section variable.
   addr_decode models the CORRECT behaviour: the payload must be exactly 21 bytes (prefix + 20).
   The unchanged Go code slices b[1:21] without checking len(b) (known defect F15); the defect is
   not modelled.

   Strings are lists of ASCII codes (Z), bytes are Z in [0,256). *)
From NG Require Import Common.Tactics Common.HarnessLib Codec.Bigint Codec.Radix.
Open Scope Z_scope.

(* "123456789ABCDEFGHJKLMNPQRSTUVWXYZabcdefghijkmnopqrstuvwxyz" *)
Definition alphabet : list Z :=
  [49;50;51;52;53;54;55;56;57;
   65;66;67;68;69;70;71;72;74;75;76;77;78;80;81;82;83;84;85;86;87;88;89;90;
   97;98;99;100;101;102;103;104;105;106;107;109;110;111;112;113;114;115;116;117;118;119;120;121;122].

Fixpoint index_of (c : Z) (l : list Z) (i : Z) : option Z :=
  match l with
  | [] => None
  | x :: t => if x =? c then Some i else index_of c t (i + 1)
  end.

(* alphabet.decode[r]; None also for every code outside the table (r > 127 in Go) *)
Definition digit_of_char (c : Z) : option Z := index_of c alphabet 0.

(* alphabet.encode[d] *)
Definition char_of_digit (d : Z) : Z := nth (Z.to_nat d) alphabet 49.

(* Encode: one '1' per leading zero byte, then the base-58 digits of the rest (none for 0) *)
Definition b58_encode (bs : list Z) : list Z :=
  repeat 49 (count_leading 0 bs)
  ++ map char_of_digit (digits_be 58 (value_be 256 (strip_leading 0 bs))).

(* Decode: error for "" and for any character outside the alphabet; one zero byte per leading '1'
   (digit 0), then the minimal big-endian bytes of the rest (none for 0) *)
Definition b58_decode (s : list Z) : option (list Z) :=
  match s with
  | [] => None
  | _ =>
      match map_option digit_of_char s with
      | None => None
      | Some ds =>
          Some (repeat 0 (count_leading 0 ds)
                ++ digits_be 256 (value_be 58 (strip_leading 0 ds)))
      end
  end.

Section Check.
Variable checksum : list Z -> list Z.
Hypothesis checksum_len : forall b, length (checksum b) = 4%nat.
Hypothesis checksum_ok : forall b, bytes_ok (checksum b).

(* CheckEncode *)
Definition check_encode (b : list Z) : list Z := b58_encode (b ++ checksum b).

(* CheckDecode *)
Definition check_decode (s : list Z) : option (list Z) :=
  match b58_decode s with
  | None => None
  | Some b =>
      if (length b <? 5)%nat then None
      else
        let n := (length b - 4)%nat in
        if list_eqb Z.eqb (checksum (firstn n b)) (skipn n b) then Some (firstn n b) else None
  end.

(* address.Uint160ToString with Prefix = prefix; u = u.BytesBE() *)
Definition addr_encode (prefix : Z) (u : list Z) : list Z := check_encode (prefix :: u).

(* address.StringToUint160, with the length check the Go code lacks (F15) *)
Definition addr_decode (prefix : Z) (s : list Z) : option (list Z) :=
  match check_decode s with
  | None => None
  | Some [] => None
  | Some (p :: u) =>
      if negb (p =? prefix) then None
      else if (length u =? 20)%nat then Some u else None
  end.

End Check.
