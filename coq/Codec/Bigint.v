(* Model of pkg/encoding/bigint: VM integers <-> minimal two's-complement little-endian bytes.
   Bytes are Z in [0,256). The model follows the mechanism of the Go code:
   ToBytes works on the magnitude (of n, or of -n-1 for negative n) and inverts;
   FromBytes strips sign-extension bytes first, then builds the magnitude and inverts under a mask. *)
From NG Require Import Common.Tactics.
Open Scope Z_scope.

(* n little-endian bytes of z (floor division: also the two's-complement digits of a negative z) *)
Fixpoint le_bytes (n : nat) (z : Z) : list Z :=
  match n with
  | O => []
  | S n' => (z mod 256) :: le_bytes n' (z / 256)
  end.

(* unsigned little-endian value *)
Fixpoint from_le (l : list Z) : Z :=
  match l with
  | [] => 0
  | b :: t => b + 256 * from_le t
  end.

Definition bitlen (z : Z) : Z := if z =? 0 then 0 else Z.log2 z + 1.

(* ToBytes / ToPreallocatedBytes *)
Definition to_bytes (z : Z) : list Z :=
  if z =? 0 then []
  else if 0 <? z then le_bytes (Z.to_nat (bitlen z / 8 + 1)) z
  else
    let m := - z - 1 in                       (* bits[i]-- with borrow: magnitude minus one *)
    if m =? 0 then [255]
    else map (fun b => 255 - b) (le_bytes (Z.to_nat (bitlen m / 8 + 1)) m).

(* getEffectiveSize: drop trailing bytes equal to the sign filler *)
Fixpoint strip_trailing (b : Z) (l : list Z) : list Z :=
  match l with
  | [] => []
  | x :: t =>
      match strip_trailing b t with
      | [] => if x =? b then [] else [x]
      | t' => x :: t'
      end
  end.

Definition is_neg (l : list Z) : bool := 128 <=? last l 0.

(* FromBytes (nil input panics in Go: the callers guarantee non-nil; [] stands for the empty non-nil slice) *)
Definition from_bytes (l : list Z) : Z :=
  match l with
  | [] => 0
  | _ =>
      if is_neg l then
        let e := strip_trailing 255 l in
        match e with
        | [] => -1
        | _ => - (from_le (map (fun b => 255 - b) e)) - 1
        end
      else from_le (strip_trailing 0 l)
  end.

(* Specification: plain two's complement *)
Definition from_bytes_spec (l : list Z) : Z :=
  match l with
  | [] => 0
  | _ => if is_neg l then from_le l - 2 ^ (8 * Z.of_nat (length l)) else from_le l
  end.

Definition bytes_ok (l : list Z) : Prop := Forall (fun b => 0 <= b < 256) l.
Definition bytes_okb (l : list Z) : bool := forallb (fun b => (0 <=? b) && (b <? 256)) l.

(* VM range *)
Definition in_int256 (z : Z) : bool := (- 2 ^ 255 <=? z) && (z <? 2 ^ 255).
