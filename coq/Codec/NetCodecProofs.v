(* Proofs about Codec/NetCodec.v (P2P wire format).  Same scheme as TxCodecProofs.v: for every payload type T
     T_wf, T_decode_encode (codec_ok), T_good (dec_good: accepted values are T_wf, the rest is bytes, the canonical
     re-encoding is not longer) hence T_decode_wf / T_minimal, T_consumes, T_canonical, write_T_ok;
   then the frame (Section Compression: abstract compress/decompress with decompress (compress x) = Some x). *)
From NG Require Import Common.Tactics Codec.Bigint Codec.BigintProofs Codec.Wire Codec.WireProofs
  Codec.TxCodec Codec.TxCodecProofs Codec.NetCodec.
Open Scope Z_scope.

(* ================= generic ================= *)
Lemma canonical_of_good {A} (wf : A -> Prop) w (d : dec A) :
  codec_ok wf w d -> dec_good wf w d ->
  forall bs v rest rest', bytes_ok bs -> d bs = Some (v, rest) -> d (w v ++ rest') = Some (v, rest').
Proof. intros Hc G. apply (canonical_of wf); [exact Hc|exact (good_wf _ _ _ G)]. Qed.
(* a decoder that always consumes a byte has no value with an empty encoding *)
Lemma codec_nonempty {A} (wf : A -> Prop) w (d : dec A) :
  codec_ok wf w d -> dec_consumes d -> forall v, wf v -> (1 <= length (w v))%nat.
Proof.
  intros Hc Hs v Hv. specialize (Hc v [] Hv). apply Hs in Hc. rewrite app_nil_r in Hc. cbn [length] in Hc. lia.
Qed.
Lemma header_shrinks' sr : dec_shrinks (read_header sr).
Proof. apply consumes_shrinks, header_consumes. Qed.
Lemma block_shrinks sr : dec_shrinks (read_block sr).
Proof. apply consumes_shrinks, block_consumes. Qed.
Ltac shr_leaf ::= first [apply key_shrinks | apply witness_shrinks | apply attr_shrinks | apply cond_shrinks
                        | apply rule_shrinks | apply signer_shrinks | apply tx_shrinks
                        | apply header_shrinks' | apply block_shrinks].

(* ================= capabilities ================= *)
Definition capab_wf (c : capab) : Prop :=
  match c with
  | CapServer t p => (t = 1 \/ t = 2) /\ 0 <= p < 2 ^ 16
  | CapDisableCompression => True
  | CapFullNode s => 0 <= s < 2 ^ 32
  | CapArchival => True
  | CapUnknown t d => 0 <= t < 256 /\ known_cap t = false /\ Z.of_nat (length d) <= max_array /\ bytes_ok d
  end.

Lemma known_cap_false t : known_cap t = false <-> (t <> 1 /\ t <> 2 /\ t <> 3 /\ t <> 16 /\ t <> 17).
Proof. unfold known_cap. cbn [existsb]. lia. Qed.

Theorem capab_decode_encode : codec_ok capab_wf write_capab read_capab.
Proof.
  intros c rest Hwf. destruct c as [t p| |s| |t d]; cbn [capab_wf] in Hwf;
    unfold write_capab, read_capab; cbn [capab_type app]; bstep reflexivity.
  - destruct Hwf as [Ht Hp]. replace ((t =? 1) || (t =? 2)) with true by lia.
    bstep ltac:(apply (read_u_write 2); exact Hp). reflexivity.
  - change ((3 =? 1) || (3 =? 2)) with false. change (3 =? 3) with true. cbv iota.
    bstep reflexivity. reflexivity.
  - change ((16 =? 1) || (16 =? 2)) with false. change (16 =? 3) with false. change (16 =? 16) with true. cbv iota.
    bstep ltac:(apply (read_u_write 4); exact Hwf). reflexivity.
  - change ((17 =? 1) || (17 =? 2)) with false. change (17 =? 3) with false. change (17 =? 16) with false.
    change (17 =? 17) with true. cbv iota. bstep reflexivity. reflexivity.
  - destruct Hwf as (Ht & Hk & Hl & _). apply known_cap_false in Hk.
    replace ((t =? 1) || (t =? 2)) with false by lia. replace (t =? 3) with false by lia.
    replace (t =? 16) with false by lia. replace (t =? 17) with false by lia.
    bstep ltac:(apply varbytes_roundtrip; unfold max_array in *; lia). reflexivity.
Qed.
Lemma capab_good : dec_good capab_wf write_capab read_capab.
Proof.
  intros bs c rest Hb H. unfold read_capab in H.
  apply bind_some in H as (t & r & Ht & H). destruct (read_b_good _ _ _ Hb Ht) as (Ht1 & Hr & Hlen).
  case_if_in H.
  { apply bind_some in H as (p & r1 & Hp & H). inv_ret H. destruct (read_u_good _ _ _ _ Hr Hp) as (Hp1 & Hr1 & Hl1).
    change (8 * Z.of_nat 2) with 16 in Hp1. cbn [capab_wf write_capab capab_type length]. rewrite le_bytes_length.
    split; [split; [lia|exact Hp1]|]. split; [assumption|lia]. }
  case_if_in H.
  { apply bind_some in H as (z & r1 & Hz & H). destruct (read_b_good _ _ _ Hr Hz) as (_ & Hr1 & Hl1).
    case_if_in H; [|discriminate]. inv_ret H. cbn [capab_wf write_capab capab_type length].
    split; [exact I|]. split; [assumption|lia]. }
  case_if_in H.
  { apply bind_some in H as (s & r1 & Hs & H). inv_ret H. destruct (read_u_good _ _ _ _ Hr Hs) as (Hs1 & Hr1 & Hl1).
    change (8 * Z.of_nat 4) with 32 in Hs1. cbn [capab_wf write_capab capab_type length]. rewrite le_bytes_length.
    split; [exact Hs1|]. split; [assumption|lia]. }
  case_if_in H.
  { apply bind_some in H as (z & r1 & Hz & H). destruct (read_b_good _ _ _ Hr Hz) as (_ & Hr1 & Hl1).
    case_if_in H; [|discriminate]. inv_ret H. cbn [capab_wf write_capab capab_type length].
    split; [exact I|]. split; [assumption|lia]. }
  apply bind_some in H as (d & r1 & Hd & H). inv_ret H.
  destruct (read_varbytes_good _ _ _ _ Hr Hd) as (Hd1 & Hd2 & Hr1 & Hl1).
  cbn [capab_wf write_capab capab_type length].
  split; [|split; [assumption|lia]].
  split; [lia|]. split; [apply known_cap_false; lia|]. split; assumption.
Qed.
Theorem capab_decode_wf : dec_wf capab_wf read_capab.
Proof. exact (good_wf _ _ _ capab_good). Qed.
Theorem capab_minimal : dec_min write_capab read_capab.
Proof. exact (good_min _ _ _ capab_good). Qed.
Theorem capab_consumes : dec_consumes read_capab.
Proof. unfold read_capab. apply consumes_bind; [apply read_b_consumes|intros ?; shr]. Qed.
Lemma capab_shrinks : dec_shrinks read_capab.
Proof. apply consumes_shrinks, capab_consumes. Qed.
Theorem capab_canonical bs v rest rest' :
  bytes_ok bs -> read_capab bs = Some (v, rest) -> read_capab (write_capab v ++ rest') = Some (v, rest').
Proof. exact (canonical_of_good _ _ _ capab_decode_encode capab_good bs v rest rest'). Qed.
Theorem write_capab_ok c : capab_wf c -> bytes_ok (write_capab c).
Proof.
  intros Hwf. destruct c as [t p| |s| |t d]; cbn [capab_wf] in Hwf; unfold write_capab; cbn [capab_type];
    apply bytes_ok_cons; try lia.
  - apply le_bytes_ok.
  - repeat constructor; lia.
  - apply le_bytes_ok.
  - repeat constructor; lia.
  - apply write_varbytes_ok, Hwf.
Qed.

(* the list of capabilities: at most 32, the five known types at most once *)
Definition caps_wf (l : list capab) : Prop :=
  Z.of_nat (length l) <= 32 /\ Forall capab_wf l /\ caps_unique l = true.

Theorem caps_decode_encode : codec_ok caps_wf write_caps read_caps.
Proof.
  intros l rest (Hl & Hf & Hu). unfold write_caps, read_caps.
  bstep ltac:(apply (array_roundtrip capab_wf); [exact capab_decode_encode|exact Hf|unfold max_capabilities; lia|lia]).
  rewrite Hu. reflexivity.
Qed.
Lemma caps_good : dec_good caps_wf write_caps read_caps.
Proof.
  intros bs l rest Hb H. unfold read_caps in H. apply bind_some in H as (l0 & r & Hl & H).
  destruct (read_array_good _ _ _ _ capab_good _ _ _ Hb Hl) as (Hf & Hn & Hr & Hlen).
  case_if_in H; [|discriminate]. inv_ret H. unfold caps_wf, write_caps, max_capabilities in *.
  split; [split; [assumption|split; assumption]|]. split; [assumption|lia].
Qed.
Theorem caps_decode_wf : dec_wf caps_wf read_caps.
Proof. exact (good_wf _ _ _ caps_good). Qed.
Theorem caps_minimal : dec_min write_caps read_caps.
Proof. exact (good_min _ _ _ caps_good). Qed.
Theorem caps_consumes : dec_consumes read_caps.
Proof.
  unfold read_caps. apply consumes_bind; [apply read_array_consumes, capab_shrinks|intros ?; shr].
Qed.
Lemma caps_shrinks : dec_shrinks read_caps.
Proof. apply consumes_shrinks, caps_consumes. Qed.
Ltac shr_leaf ::= first [apply key_shrinks | apply witness_shrinks | apply attr_shrinks | apply cond_shrinks
                        | apply rule_shrinks | apply signer_shrinks | apply tx_shrinks
                        | apply header_shrinks' | apply block_shrinks | apply capab_shrinks | apply caps_shrinks].
Theorem caps_canonical bs v rest rest' :
  bytes_ok bs -> read_caps bs = Some (v, rest) -> read_caps (write_caps v ++ rest') = Some (v, rest').
Proof. exact (canonical_of_good _ _ _ caps_decode_encode caps_good bs v rest rest'). Qed.
Theorem write_caps_ok l : caps_wf l -> bytes_ok (write_caps l).
Proof. intros (_ & Hf & _). apply (write_array_ok capab_wf); [exact write_capab_ok|exact Hf]. Qed.
(* uniqueness is really checked: two TCP servers are rejected, two unknown capabilities of one type are not *)
Example caps_unique_ex :
  read_caps (write_caps [CapServer 1 10333; CapServer 1 10334]) = None
  /\ read_caps (write_caps [CapServer 1 10333; CapServer 2 10334; CapUnknown 240 [7]; CapUnknown 240 []])
     = Some ([CapServer 1 10333; CapServer 2 10334; CapUnknown 240 [7]; CapUnknown 240 []], []).
Proof. split; vm_compute; reflexivity. Qed.

(* ================= ping ================= *)
Definition ping_wf (p : ping) : Prop := 0 <= plast p < 2 ^ 32 /\ 0 <= ptime p < 2 ^ 32 /\ 0 <= pnonce p < 2 ^ 32.

Theorem ping_decode_encode : codec_ok ping_wf write_ping read_ping.
Proof.
  intros [a b c] rest (Ha & Hb & Hc). cbn [plast ptime pnonce] in *. unfold write_ping, read_ping.
  cbn [plast ptime pnonce]. rewrite <- !app_assoc.
  bstep ltac:(apply (read_u_write 4); exact Ha). bstep ltac:(apply (read_u_write 4); exact Hb).
  bstep ltac:(apply (read_u_write 4); exact Hc). reflexivity.
Qed.
Lemma ping_good : dec_good ping_wf write_ping read_ping.
Proof.
  intros bs p rest Hb H. unfold read_ping in H.
  apply bind_some in H as (a & r0 & Ha & H). apply bind_some in H as (b & r1 & Hb1 & H).
  apply bind_some in H as (c & r2 & Hc & H). inv_ret H.
  destruct (read_u_good _ _ _ _ Hb Ha) as (Ha1 & Hr0 & Hl0). change (8 * Z.of_nat 4) with 32 in Ha1.
  destruct (read_u_good _ _ _ _ Hr0 Hb1) as (Hb2 & Hr1 & Hl1). change (8 * Z.of_nat 4) with 32 in Hb2.
  destruct (read_u_good _ _ _ _ Hr1 Hc) as (Hc1 & Hr2 & Hl2). change (8 * Z.of_nat 4) with 32 in Hc1.
  unfold ping_wf, write_ping. cbn [plast ptime pnonce]. rewrite !app_length, !le_bytes_length.
  split; [split; [assumption|split; assumption]|]. split; [assumption|lia].
Qed.
Theorem ping_decode_wf : dec_wf ping_wf read_ping.
Proof. exact (good_wf _ _ _ ping_good). Qed.
Theorem ping_minimal : dec_min write_ping read_ping.
Proof. exact (good_min _ _ _ ping_good). Qed.
Theorem ping_consumes : dec_consumes read_ping.
Proof. unfold read_ping. apply consumes_bind; [apply read_u_consumes; lia|intros ?; shr]. Qed.
Theorem ping_canonical bs v rest rest' :
  bytes_ok bs -> read_ping bs = Some (v, rest) -> read_ping (write_ping v ++ rest') = Some (v, rest').
Proof. exact (canonical_of_good _ _ _ ping_decode_encode ping_good bs v rest rest'). Qed.
Theorem write_ping_ok p : ping_wf p -> bytes_ok (write_ping p).
Proof. intros _. unfold write_ping. repeat (apply bytes_ok_app; split; [apply le_bytes_ok|]). apply le_bytes_ok. Qed.

(* ================= getblocks ================= *)
Definition getblocks_wf (g : getblocks) : Prop :=
  hash_wf 32 (gstart g) /\ (gcount g = 65535 \/ 1 <= gcount g <= 32767).

Theorem getblocks_decode_encode : codec_ok getblocks_wf write_getblocks read_getblocks.
Proof.
  intros [h c] rest ([Hl _] & Hc). cbn [gstart gcount] in *. unfold write_getblocks, read_getblocks.
  cbn [gstart gcount]. rewrite <- app_assoc.
  bstep ltac:(apply read_bytes_app; exact Hl).
  bstep ltac:(apply (read_u_write 2); change (2 ^ (8 * Z.of_nat 2)) with 65536; lia).
  replace ((c =? 65535) || ((1 <=? c) && (c <=? 32767))) with true by lia. reflexivity.
Qed.
Lemma getblocks_good : dec_good getblocks_wf write_getblocks read_getblocks.
Proof.
  intros bs g rest Hb H. unfold read_getblocks in H.
  apply bind_some in H as (h & r0 & Hh & H). apply bind_some in H as (c & r1 & Hc & H).
  destruct (read_bytes_good _ _ _ _ Hb Hh) as (Hh1 & Hh2 & Hr0 & Hl0).
  destruct (read_u_good _ _ _ _ Hr0 Hc) as (Hc1 & Hr1 & Hl1).
  case_if_in H; [|discriminate]. inv_ret H.
  unfold getblocks_wf, write_getblocks, hash_wf. cbn [gstart gcount]. rewrite app_length, le_bytes_length.
  split; [split; [split; assumption|lia]|]. split; [assumption|lia].
Qed.
Theorem getblocks_decode_wf : dec_wf getblocks_wf read_getblocks.
Proof. exact (good_wf _ _ _ getblocks_good). Qed.
Theorem getblocks_minimal : dec_min write_getblocks read_getblocks.
Proof. exact (good_min _ _ _ getblocks_good). Qed.
Theorem getblocks_consumes : dec_consumes read_getblocks.
Proof. unfold read_getblocks. apply consumes_bind; [apply read_bytes_consumes; lia|intros ?; shr]. Qed.
Theorem getblocks_canonical bs v rest rest' :
  bytes_ok bs -> read_getblocks bs = Some (v, rest) -> read_getblocks (write_getblocks v ++ rest') = Some (v, rest').
Proof. exact (canonical_of_good _ _ _ getblocks_decode_encode getblocks_good bs v rest rest'). Qed.
Theorem write_getblocks_ok g : getblocks_wf g -> bytes_ok (write_getblocks g).
Proof. intros ([_ Hh] & _). unfold write_getblocks. apply bytes_ok_app; split; [exact Hh|apply le_bytes_ok]. Qed.

(* ================= getblockbyindex / getheaders ================= *)
Definition getbyindex_wf (g : getbyindex) : Prop :=
  0 <= bstart g < 2 ^ 32 /\ (bcount g = 65535 \/ 1 <= bcount g <= 2000).

Theorem getbyindex_decode_encode : codec_ok getbyindex_wf write_getbyindex read_getbyindex.
Proof.
  intros [s c] rest (Hs & Hc). cbn [bstart bcount] in *. unfold write_getbyindex, read_getbyindex.
  cbn [bstart bcount]. rewrite <- app_assoc.
  bstep ltac:(apply (read_u_write 4); exact Hs).
  bstep ltac:(apply (read_u_write 2); change (2 ^ (8 * Z.of_nat 2)) with 65536; lia).
  unfold max_headers. replace ((c =? 65535) || ((1 <=? c) && (c <=? 2000))) with true by lia. reflexivity.
Qed.
Lemma getbyindex_good : dec_good getbyindex_wf write_getbyindex read_getbyindex.
Proof.
  intros bs g rest Hb H. unfold read_getbyindex in H.
  apply bind_some in H as (s & r0 & Hs & H). apply bind_some in H as (c & r1 & Hc & H).
  destruct (read_u_good _ _ _ _ Hb Hs) as (Hs1 & Hr0 & Hl0). change (8 * Z.of_nat 4) with 32 in Hs1.
  destruct (read_u_good _ _ _ _ Hr0 Hc) as (Hc1 & Hr1 & Hl1).
  unfold max_headers in H. case_if_in H; [|discriminate]. inv_ret H.
  unfold getbyindex_wf, write_getbyindex. cbn [bstart bcount]. rewrite app_length, !le_bytes_length.
  split; [split; [assumption|lia]|]. split; [assumption|lia].
Qed.
Theorem getbyindex_decode_wf : dec_wf getbyindex_wf read_getbyindex.
Proof. exact (good_wf _ _ _ getbyindex_good). Qed.
Theorem getbyindex_minimal : dec_min write_getbyindex read_getbyindex.
Proof. exact (good_min _ _ _ getbyindex_good). Qed.
Theorem getbyindex_consumes : dec_consumes read_getbyindex.
Proof. unfold read_getbyindex. apply consumes_bind; [apply read_u_consumes; lia|intros ?; shr]. Qed.
Theorem getbyindex_canonical bs v rest rest' :
  bytes_ok bs -> read_getbyindex bs = Some (v, rest) -> read_getbyindex (write_getbyindex v ++ rest') = Some (v, rest').
Proof. exact (canonical_of_good _ _ _ getbyindex_decode_encode getbyindex_good bs v rest rest'). Qed.
Theorem write_getbyindex_ok g : getbyindex_wf g -> bytes_ok (write_getbyindex g).
Proof. intros _. unfold write_getbyindex. apply bytes_ok_app; split; apply le_bytes_ok. Qed.

(* ================= inventory ================= *)
Definition inventory_wf (i : inventory) : Prop :=
  0 <= itype i < 256 /\ Z.of_nat (length (ihashes i)) <= 500 /\ Forall (hash_wf 32) (ihashes i).

Theorem inventory_decode_encode : codec_ok inventory_wf write_inventory read_inventory.
Proof.
  intros [t hs] rest (Ht & Hl & Hf). cbn [itype ihashes] in *. unfold write_inventory, read_inventory.
  cbn [itype ihashes app]. bstep reflexivity.
  bstep ltac:(apply (array_roundtrip (hash_wf 32)); [apply hash_codec|exact Hf|unfold max_hashes; lia|lia]).
  reflexivity.
Qed.
Lemma inventory_good : dec_good inventory_wf write_inventory read_inventory.
Proof.
  intros bs i rest Hb H. unfold read_inventory in H.
  apply bind_some in H as (t & r0 & Ht & H). apply bind_some in H as (hs & r1 & Hhs & H). inv_ret H.
  destruct (read_b_good _ _ _ Hb Ht) as (Ht1 & Hr0 & Hl0).
  destruct (read_array_good _ _ _ _ (hash_good 32) _ _ _ Hr0 Hhs) as (Hf & Hn & Hr1 & Hl1).
  unfold inventory_wf, write_inventory, max_hashes in *. cbn [itype ihashes length].
  split; [split; [assumption|split; assumption]|]. split; [assumption|lia].
Qed.
Theorem inventory_decode_wf : dec_wf inventory_wf read_inventory.
Proof. exact (good_wf _ _ _ inventory_good). Qed.
Theorem inventory_minimal : dec_min write_inventory read_inventory.
Proof. exact (good_min _ _ _ inventory_good). Qed.
Theorem inventory_consumes : dec_consumes read_inventory.
Proof. unfold read_inventory. apply consumes_bind; [apply read_b_consumes|intros ?; shr]. Qed.
Theorem inventory_canonical bs v rest rest' :
  bytes_ok bs -> read_inventory bs = Some (v, rest) -> read_inventory (write_inventory v ++ rest') = Some (v, rest').
Proof. exact (canonical_of_good _ _ _ inventory_decode_encode inventory_good bs v rest rest'). Qed.
Theorem write_inventory_ok i : inventory_wf i -> bytes_ok (write_inventory i).
Proof.
  intros (Ht & _ & Hf). unfold write_inventory. apply bytes_ok_cons; [exact Ht|].
  apply (write_array_ok (hash_wf 32)); [intros x Hx; apply Hx|exact Hf].
Qed.

(* ================= MPT inventory ================= *)
Definition mptinv_wf (l : list (list Z)) : Prop := Z.of_nat (length l) <= 32 /\ Forall (hash_wf 32) l.

Theorem mptinv_decode_encode : codec_ok mptinv_wf write_mptinv read_mptinv.
Proof.
  intros l rest (Hl & Hf). unfold write_mptinv, read_mptinv.
  apply (array_roundtrip (hash_wf 32)); [apply hash_codec|exact Hf|unfold max_mpt_hashes; lia|lia].
Qed.
Lemma mptinv_good : dec_good mptinv_wf write_mptinv read_mptinv.
Proof.
  intros bs l rest Hb H. unfold read_mptinv in H.
  destruct (read_array_good _ _ _ _ (hash_good 32) _ _ _ Hb H) as (Hf & Hn & Hr & Hl).
  unfold mptinv_wf, write_mptinv, max_mpt_hashes in *. split; [split; assumption|]. split; assumption.
Qed.
Theorem mptinv_decode_wf : dec_wf mptinv_wf read_mptinv.
Proof. exact (good_wf _ _ _ mptinv_good). Qed.
Theorem mptinv_minimal : dec_min write_mptinv read_mptinv.
Proof. exact (good_min _ _ _ mptinv_good). Qed.
Theorem mptinv_consumes : dec_consumes read_mptinv.
Proof. unfold read_mptinv. apply read_array_consumes, read_bytes_shrinks. Qed.
Theorem mptinv_canonical bs v rest rest' :
  bytes_ok bs -> read_mptinv bs = Some (v, rest) -> read_mptinv (write_mptinv v ++ rest') = Some (v, rest').
Proof. exact (canonical_of_good _ _ _ mptinv_decode_encode mptinv_good bs v rest rest'). Qed.
Theorem write_mptinv_ok l : mptinv_wf l -> bytes_ok (write_mptinv l).
Proof. intros (_ & Hf). apply (write_array_ok (hash_wf 32)); [intros x Hx; apply Hx|exact Hf]. Qed.

(* ================= MPT data ================= *)
Definition node_wf (b : list Z) : Prop := Z.of_nat (length b) <= max_array /\ bytes_ok b.
(* non-empty; the count is whatever a var-uint can carry *)
Definition mptdata_wf (l : list (list Z)) : Prop :=
  (1 <= length l)%nat /\ Z.of_nat (length l) < 2 ^ 64 /\ Forall node_wf l.

Lemma node_codec : codec_ok node_wf write_varbytes (read_varbytes max_array).
Proof. intros b rest [Hl _]. apply varbytes_roundtrip; unfold max_array in *; lia. Qed.

Theorem mptdata_decode_encode : codec_ok mptdata_wf write_mptdata read_mptdata.
Proof.
  intros l rest (H1 & H64 & Hf). unfold write_mptdata, read_mptdata, write_array. rewrite <- app_assoc.
  bstep ltac:(apply varuint_roundtrip; unfold u64_ok; lia).
  replace (Z.of_nat (length l) =? 0) with false by lia. rewrite Nat2Z.id.
  apply (read_n_write node_wf); [exact node_codec|exact Hf].
Qed.
Lemma mptdata_good : dec_good mptdata_wf write_mptdata read_mptdata.
Proof.
  intros bs l rest Hb H. unfold read_mptdata in H. apply bind_some in H as (n & r & Hn & H).
  destruct (read_varuint_good _ _ _ Hb Hn) as (Hn1 & Hr & Hmin). case_if_in H; [discriminate|].
  destruct (read_n_good _ _ _ (varbytes_good max_array) _ _ _ _ Hr H) as (Hf & Hl & Hr1 & Hl1).
  assert (Z.of_nat (length l) = n) as E by lia.
  unfold mptdata_wf, write_mptdata, write_array, node_wf. rewrite app_length, E.
  split; [split; [lia|split; [lia|exact Hf]]|]. split; [assumption|lia].
Qed.
Theorem mptdata_decode_wf : dec_wf mptdata_wf read_mptdata.
Proof. exact (good_wf _ _ _ mptdata_good). Qed.
Theorem mptdata_minimal : dec_min write_mptdata read_mptdata.
Proof. exact (good_min _ _ _ mptdata_good). Qed.
Theorem mptdata_consumes : dec_consumes read_mptdata.
Proof. unfold read_mptdata. apply consumes_bind; [apply read_varuint_consumes|intros ?; shr]. Qed.
Theorem mptdata_canonical bs v rest rest' :
  bytes_ok bs -> read_mptdata bs = Some (v, rest) -> read_mptdata (write_mptdata v ++ rest') = Some (v, rest').
Proof. exact (canonical_of_good _ _ _ mptdata_decode_encode mptdata_good bs v rest rest'). Qed.
Theorem write_mptdata_ok l : mptdata_wf l -> bytes_ok (write_mptdata l).
Proof.
  intros (_ & _ & Hf). apply (write_array_ok node_wf); [intros x Hx; apply write_varbytes_ok, Hx|exact Hf].
Qed.
(* the announced count has no maximum, but every element costs a byte: what is allocated is bounded by the input *)
Theorem mptdata_count_bounded bs l rest :
  read_mptdata bs = Some (l, rest) -> (length l + length rest < length bs)%nat.
Proof.
  intros H. unfold read_mptdata in H. apply bind_some in H as (n & r & Hn & H).
  apply read_varuint_consumes in Hn. case_if_in H; [discriminate|].
  pose proof (read_n_forall (fun _ => True) _ (fun _ _ _ _ => I) _ _ _ _ H) as [_ Hl].
  apply (read_n_count _ (read_varbytes_consumes max_array)) in H. lia.
Qed.

(* ================= version ================= *)
Definition version_wf (v : version) : Prop :=
  0 <= vmagic v < 2 ^ 32 /\ 0 <= vversion v < 2 ^ 32 /\ 0 <= vtime v < 2 ^ 32 /\ 0 <= vnonce v < 2 ^ 32
  /\ Z.of_nat (length (vagent v)) <= 1024 /\ bytes_ok (vagent v) /\ caps_wf (vcaps v).

Theorem version_decode_encode : codec_ok version_wf write_version read_version.
Proof.
  intros [m v t n a c] rest (Hm & Hv & Ht & Hn & Ha & _ & Hc). cbn [vmagic vversion vtime vnonce vagent vcaps] in *.
  unfold write_version, read_version. cbn [vmagic vversion vtime vnonce vagent vcaps]. rewrite <- !app_assoc.
  bstep ltac:(apply (read_u_write 4); exact Hm). bstep ltac:(apply (read_u_write 4); exact Hv).
  bstep ltac:(apply (read_u_write 4); exact Ht). bstep ltac:(apply (read_u_write 4); exact Hn).
  bstep ltac:(apply varbytes_roundtrip; lia). bstep ltac:(apply caps_decode_encode; exact Hc). reflexivity.
Qed.
Lemma version_good : dec_good version_wf write_version read_version.
Proof.
  intros bs x rest Hb H. unfold read_version in H.
  apply bind_some in H as (m & r0 & Hm & H). apply bind_some in H as (v & r1 & Hv & H).
  apply bind_some in H as (t & r2 & Ht & H). apply bind_some in H as (n & r3 & Hn & H).
  apply bind_some in H as (a & r4 & Ha & H). apply bind_some in H as (c & r5 & Hc & H). inv_ret H.
  destruct (read_u_good _ _ _ _ Hb Hm) as (Hm1 & Hr0 & Hl0). change (8 * Z.of_nat 4) with 32 in Hm1.
  destruct (read_u_good _ _ _ _ Hr0 Hv) as (Hv1 & Hr1 & Hl1). change (8 * Z.of_nat 4) with 32 in Hv1.
  destruct (read_u_good _ _ _ _ Hr1 Ht) as (Ht1 & Hr2 & Hl2). change (8 * Z.of_nat 4) with 32 in Ht1.
  destruct (read_u_good _ _ _ _ Hr2 Hn) as (Hn1 & Hr3 & Hl3). change (8 * Z.of_nat 4) with 32 in Hn1.
  destruct (read_varbytes_good _ _ _ _ Hr3 Ha) as (Ha1 & Ha2 & Hr4 & Hl4).
  destruct (caps_good _ _ _ Hr4 Hc) as (Hc1 & Hr5 & Hl5).
  unfold version_wf, write_version. cbn [vmagic vversion vtime vnonce vagent vcaps].
  rewrite !app_length, !le_bytes_length.
  split; [repeat (split; [assumption|]); assumption|]. split; [assumption|lia].
Qed.
Theorem version_decode_wf : dec_wf version_wf read_version.
Proof. exact (good_wf _ _ _ version_good). Qed.
Theorem version_minimal : dec_min write_version read_version.
Proof. exact (good_min _ _ _ version_good). Qed.
Theorem version_consumes : dec_consumes read_version.
Proof. unfold read_version. apply consumes_bind; [apply read_u_consumes; lia|intros ?; shr]. Qed.
Theorem version_canonical bs v rest rest' :
  bytes_ok bs -> read_version bs = Some (v, rest) -> read_version (write_version v ++ rest') = Some (v, rest').
Proof. exact (canonical_of_good _ _ _ version_decode_encode version_good bs v rest rest'). Qed.
Theorem write_version_ok v : version_wf v -> bytes_ok (write_version v).
Proof.
  intros (_ & _ & _ & _ & _ & Ha & Hc). unfold write_version.
  repeat (apply bytes_ok_app; split; [apply le_bytes_ok|]).
  apply bytes_ok_app; split; [apply write_varbytes_ok, Ha|apply write_caps_ok, Hc].
Qed.

(* ================= addresses ================= *)
Definition addr_wf (a : addr) : Prop := 0 <= atime a < 2 ^ 32 /\ hash_wf 16 (aip a) /\ caps_wf (acaps a).

Theorem addr_decode_encode : codec_ok addr_wf write_addr read_addr.
Proof.
  intros [t ip c] rest (Ht & [Hip _] & Hc). cbn [atime aip acaps] in *. unfold write_addr, read_addr.
  cbn [atime aip acaps]. rewrite <- !app_assoc.
  bstep ltac:(apply (read_u_write 4); exact Ht). bstep ltac:(apply read_bytes_app; exact Hip).
  bstep ltac:(apply caps_decode_encode; exact Hc). reflexivity.
Qed.
Lemma addr_good : dec_good addr_wf write_addr read_addr.
Proof.
  intros bs a rest Hb H. unfold read_addr in H.
  apply bind_some in H as (t & r0 & Ht & H). apply bind_some in H as (ip & r1 & Hip & H).
  apply bind_some in H as (c & r2 & Hc & H). inv_ret H.
  destruct (read_u_good _ _ _ _ Hb Ht) as (Ht1 & Hr0 & Hl0). change (8 * Z.of_nat 4) with 32 in Ht1.
  destruct (read_bytes_good _ _ _ _ Hr0 Hip) as (Hip1 & Hip2 & Hr1 & Hl1).
  destruct (caps_good _ _ _ Hr1 Hc) as (Hc1 & Hr2 & Hl2).
  unfold addr_wf, write_addr, hash_wf. cbn [atime aip acaps]. rewrite !app_length, le_bytes_length.
  split; [split; [assumption|split; [split; assumption|assumption]]|]. split; [assumption|lia].
Qed.
Theorem addr_decode_wf : dec_wf addr_wf read_addr.
Proof. exact (good_wf _ _ _ addr_good). Qed.
Theorem addr_minimal : dec_min write_addr read_addr.
Proof. exact (good_min _ _ _ addr_good). Qed.
Theorem addr_consumes : dec_consumes read_addr.
Proof. unfold read_addr. apply consumes_bind; [apply read_u_consumes; lia|intros ?; shr]. Qed.
Lemma addr_shrinks : dec_shrinks read_addr.
Proof. apply consumes_shrinks, addr_consumes. Qed.
Theorem addr_canonical bs v rest rest' :
  bytes_ok bs -> read_addr bs = Some (v, rest) -> read_addr (write_addr v ++ rest') = Some (v, rest').
Proof. exact (canonical_of_good _ _ _ addr_decode_encode addr_good bs v rest rest'). Qed.
Theorem write_addr_ok a : addr_wf a -> bytes_ok (write_addr a).
Proof.
  intros (_ & [_ Hip] & Hc). unfold write_addr. apply bytes_ok_app; split; [apply le_bytes_ok|].
  apply bytes_ok_app; split; [exact Hip|apply write_caps_ok, Hc].
Qed.

Definition addrlist_wf (l : list addr) : Prop := (1 <= length l <= 200)%nat /\ Forall addr_wf l.

Theorem addrlist_decode_encode : codec_ok addrlist_wf write_addrlist read_addrlist.
Proof.
  intros l rest (Hl & Hf). unfold write_addrlist, read_addrlist.
  bstep ltac:(apply (array_roundtrip addr_wf); [exact addr_decode_encode|exact Hf|unfold max_addrs; lia|lia]).
  replace (length l =? 0)%nat with false by lia. reflexivity.
Qed.
Lemma addrlist_good : dec_good addrlist_wf write_addrlist read_addrlist.
Proof.
  intros bs l rest Hb H. unfold read_addrlist in H. apply bind_some in H as (l0 & r & Hl & H).
  destruct (read_array_good _ _ _ _ addr_good _ _ _ Hb Hl) as (Hf & Hn & Hr & Hlen).
  case_if_in H; [discriminate|]. inv_ret H. unfold addrlist_wf, write_addrlist, max_addrs in *.
  split; [split; [lia|assumption]|]. split; [assumption|lia].
Qed.
Theorem addrlist_decode_wf : dec_wf addrlist_wf read_addrlist.
Proof. exact (good_wf _ _ _ addrlist_good). Qed.
Theorem addrlist_minimal : dec_min write_addrlist read_addrlist.
Proof. exact (good_min _ _ _ addrlist_good). Qed.
Theorem addrlist_consumes : dec_consumes read_addrlist.
Proof.
  unfold read_addrlist. apply consumes_bind; [apply read_array_consumes, addr_shrinks|intros ?; shr].
Qed.
Theorem addrlist_canonical bs v rest rest' :
  bytes_ok bs -> read_addrlist bs = Some (v, rest) -> read_addrlist (write_addrlist v ++ rest') = Some (v, rest').
Proof. exact (canonical_of_good _ _ _ addrlist_decode_encode addrlist_good bs v rest rest'). Qed.
Theorem write_addrlist_ok l : addrlist_wf l -> bytes_ok (write_addrlist l).
Proof. intros (_ & Hf). apply (write_array_ok addr_wf); [exact write_addr_ok|exact Hf]. Qed.

(* ================= headers ================= *)
Definition headers_wf (sr : bool) (l : list header) : Prop := (1 <= length l <= 2000)%nat /\ Forall (header_wf sr) l.

Theorem headers_decode_encode sr : codec_ok (headers_wf sr) (write_headers sr) (read_headers sr).
Proof.
  intros l rest (Hl & Hf). unfold write_headers, read_headers, write_array. rewrite <- app_assoc.
  bstep ltac:(apply varuint_roundtrip; unfold u64_ok; lia).
  replace (Z.of_nat (length l) =? 0) with false by lia.
  replace (max_headers <? Z.of_nat (length l)) with false by (unfold max_headers; lia).
  rewrite Nat2Z.id. apply (read_n_write (header_wf sr)); [exact (header_decode_encode sr)|exact Hf].
Qed.
Lemma headers_good sr : dec_good (headers_wf sr) (write_headers sr) (read_headers sr).
Proof.
  intros bs l rest Hb H. unfold read_headers in H. apply bind_some in H as (n & r & Hn & H).
  destruct (read_varuint_good _ _ _ Hb Hn) as (Hn1 & Hr & Hmin).
  case_if_in H; [discriminate|]. unfold max_headers in H. case_if_in H; [discriminate|].
  destruct (read_n_good _ _ _ (header_good sr) _ _ _ _ Hr H) as (Hf & Hl & Hr1 & Hl1).
  assert (Z.of_nat (length l) = n) as E by lia.
  unfold headers_wf, write_headers, write_array. rewrite app_length, E.
  split; [split; [lia|exact Hf]|]. split; [assumption|lia].
Qed.
Theorem headers_decode_wf sr : dec_wf (headers_wf sr) (read_headers sr).
Proof. exact (good_wf _ _ _ (headers_good sr)). Qed.
Theorem headers_minimal sr : dec_min (write_headers sr) (read_headers sr).
Proof. exact (good_min _ _ _ (headers_good sr)). Qed.
Theorem headers_consumes sr : dec_consumes (read_headers sr).
Proof. unfold read_headers. apply consumes_bind; [apply read_varuint_consumes|intros ?; shr]. Qed.
Theorem headers_canonical sr bs v rest rest' :
  bytes_ok bs -> read_headers sr bs = Some (v, rest) ->
  read_headers sr (write_headers sr v ++ rest') = Some (v, rest').
Proof. exact (canonical_of_good _ _ _ (headers_decode_encode sr) (headers_good sr) bs v rest rest'). Qed.
Theorem write_headers_ok sr l : headers_wf sr l -> bytes_ok (write_headers sr l).
Proof. intros (_ & Hf). apply (write_array_ok (header_wf sr)); [exact (write_header_ok sr)|exact Hf]. Qed.

(* ================= extensible ================= *)
Definition extensible_wf (e : extensible) : Prop :=
  Z.of_nat (length (ecategory e)) <= 32 /\ bytes_ok (ecategory e)
  /\ 0 <= estart e < 2 ^ 32 /\ 0 <= eend e < 2 ^ 32 /\ hash_wf 20 (esender e)
  /\ Z.of_nat (length (edata e)) <= max_payload_size /\ bytes_ok (edata e) /\ witness_wf (ewitness e).

Theorem extensible_decode_encode : codec_ok extensible_wf write_extensible read_extensible.
Proof.
  intros [c s en snd d w] rest (Hc & _ & Hs & Hen & [Hsnd _] & Hd & _ & Hw).
  cbn [ecategory estart eend esender edata ewitness] in *.
  unfold write_extensible, write_extensible_unsigned, read_extensible.
  cbn [ecategory estart eend esender edata ewitness]. rewrite <- !app_assoc. cbn [app].
  bstep ltac:(apply varbytes_roundtrip; lia).
  bstep ltac:(apply (read_u_write 4); exact Hs). bstep ltac:(apply (read_u_write 4); exact Hen).
  bstep ltac:(apply read_bytes_app; exact Hsnd).
  bstep ltac:(apply varbytes_roundtrip; unfold max_payload_size in *; lia).
  bstep reflexivity. change (negb (1 =? 1)) with false. cbv iota.
  bstep ltac:(apply witness_decode_encode; exact Hw). reflexivity.
Qed.
Lemma extensible_good : dec_good extensible_wf write_extensible read_extensible.
Proof.
  intros bs e rest Hb H. unfold read_extensible in H.
  apply bind_some in H as (c & r0 & Hc & H). apply bind_some in H as (s & r1 & Hs & H).
  apply bind_some in H as (en & r2 & Hen & H). apply bind_some in H as (snd & r3 & Hsnd & H).
  apply bind_some in H as (d & r4 & Hd & H). apply bind_some in H as (one & r5 & Hone & H).
  destruct (read_varbytes_good _ _ _ _ Hb Hc) as (Hc1 & Hc2 & Hr0 & Hl0).
  destruct (read_u_good _ _ _ _ Hr0 Hs) as (Hs1 & Hr1 & Hl1). change (8 * Z.of_nat 4) with 32 in Hs1.
  destruct (read_u_good _ _ _ _ Hr1 Hen) as (Hen1 & Hr2 & Hl2). change (8 * Z.of_nat 4) with 32 in Hen1.
  destruct (read_bytes_good _ _ _ _ Hr2 Hsnd) as (Hsnd1 & Hsnd2 & Hr3 & Hl3).
  destruct (read_varbytes_good _ _ _ _ Hr3 Hd) as (Hd1 & Hd2 & Hr4 & Hl4).
  destruct (read_b_good _ _ _ Hr4 Hone) as (_ & Hr5 & Hl5).
  case_if_in H; [discriminate|]. apply bind_some in H as (w & r6 & Hw & H). inv_ret H.
  destruct (witness_good _ _ _ Hr5 Hw) as (Hw1 & Hr6 & Hl6).
  unfold extensible_wf, write_extensible, write_extensible_unsigned, hash_wf.
  cbn [ecategory estart eend esender edata ewitness]. rewrite !app_length, !le_bytes_length. cbn [length].
  split; [|split; [assumption|lia]].
  split; [assumption|]. split; [assumption|]. split; [assumption|]. split; [assumption|].
  split; [split; assumption|]. split; [assumption|]. split; assumption.
Qed.
Theorem extensible_decode_wf : dec_wf extensible_wf read_extensible.
Proof. exact (good_wf _ _ _ extensible_good). Qed.
Theorem extensible_minimal : dec_min write_extensible read_extensible.
Proof. exact (good_min _ _ _ extensible_good). Qed.
Theorem extensible_consumes : dec_consumes read_extensible.
Proof. unfold read_extensible. apply consumes_bind; [apply read_varbytes_consumes|intros ?; shr]. Qed.
Theorem extensible_canonical bs v rest rest' :
  bytes_ok bs -> read_extensible bs = Some (v, rest) ->
  read_extensible (write_extensible v ++ rest') = Some (v, rest').
Proof. exact (canonical_of_good _ _ _ extensible_decode_encode extensible_good bs v rest rest'). Qed.
Theorem write_extensible_ok e : extensible_wf e -> bytes_ok (write_extensible e).
Proof.
  intros (_ & Hc & _ & _ & [_ Hsnd] & _ & Hd & Hw). unfold write_extensible, write_extensible_unsigned.
  apply bytes_ok_app; split.
  - apply bytes_ok_app; split; [apply write_varbytes_ok, Hc|].
    repeat (apply bytes_ok_app; split; [apply le_bytes_ok|]).
    apply bytes_ok_app; split; [exact Hsnd|apply write_varbytes_ok, Hd].
  - apply bytes_ok_app; split; [repeat constructor; lia|apply write_witness_ok, Hw].
Qed.
(* identity remark: the hash of an extensible payload is taken over [write_extensible_unsigned] of the decoded
   value, so it depends on the value only, whatever bytes it was decoded from *)
Lemma extensible_hash_content_only bs1 bs2 e1 e2 r1 r2 :
  read_extensible bs1 = Some (e1, r1) -> read_extensible bs2 = Some (e2, r2) -> e1 = e2 ->
  write_extensible_unsigned e1 = write_extensible_unsigned e2.
Proof. intros _ _ ->. reflexivity. Qed.
Definition ex_ext : extensible := Extensible [100; 66; 70; 84] 10 20 (repeat 5 20) [1; 2; 3] (Witness [12; 64] [65]).
(* ... and the bytes do differ: the category length 4 written as 253,4,0 is accepted *)
Example extensible_nonminimal_ex :
  let bs1 := write_extensible ex_ext in
  let bs2 := [253; 4; 0] ++ skipn 1 bs1 in
  bs1 <> bs2 /\ read_extensible bs1 = Some (ex_ext, []) /\ read_extensible bs2 = Some (ex_ext, [])
  /\ extensible_wf ex_ext.
Proof.
  cbv zeta. split; [intros E; apply (f_equal (@length Z)) in E; vm_compute in E; discriminate E|].
  split; [vm_compute; reflexivity|]. split; [vm_compute; reflexivity|].
  apply (wf_by_decoding _ _ _ _ extensible_good); vm_compute; reflexivity.
Qed.

(* ================= the frame ================= *)
Definition payload_wf (sr : bool) (p : payload) : Prop :=
  match p with
  | PNull => True
  | PVersion v => version_wf v
  | PAddr l => addrlist_wf l
  | PInv i => inventory_wf i
  | PGetBlocks g => getblocks_wf g
  | PGetByIndex g => getbyindex_wf g
  | PHeaders l => headers_wf sr l
  | PPing p => ping_wf p
  | PTx t => tx_wf t
  | PBlock b => block_wf sr b
  | PExtensible e => extensible_wf e
  | PMptInv l => mptinv_wf l
  | PMptData l => mptdata_wf l
  end.
(* the command byte selects the decoder that produces this constructor *)
Definition cmd_matches (cmd : Z) (p : payload) : Prop :=
  match p with
  | PNull => null_command cmd = true
  | PVersion _ => cmd = 0
  | PAddr _ => cmd = 17
  | PInv _ => cmd = 39 \/ cmd = 40 \/ cmd = 42
  | PGetBlocks _ => cmd = 36
  | PGetByIndex _ => cmd = 32 \/ cmd = 41
  | PHeaders _ => cmd = 33
  | PPing _ => cmd = 24 \/ cmd = 25
  | PTx _ => cmd = 43
  | PBlock _ => cmd = 44
  | PExtensible _ => cmd = 46
  | PMptInv _ => cmd = 81
  | PMptData _ => cmd = 82
  end.
Definition frame_wf (sr : bool) (f : frame) : Prop :=
  0 <= fflags f < 256 /\ 0 <= fcmd f < 256 /\ payload_wf sr (fpayload f) /\ cmd_matches (fcmd f) (fpayload f)
  /\ Z.of_nat (length (write_payload sr (fpayload f))) <= max_payload_size.

(* every payload decoder consumes at least a byte, so only the null payload has an empty encoding *)
Theorem payload_nonempty sr p : payload_wf sr p -> p <> PNull -> (1 <= length (write_payload sr p))%nat.
Proof.
  intros Hwf Hne. destruct p; cbn [payload_wf write_payload] in *.
  - congruence.
  - exact (codec_nonempty _ _ _ version_decode_encode version_consumes _ Hwf).
  - exact (codec_nonempty _ _ _ addrlist_decode_encode addrlist_consumes _ Hwf).
  - exact (codec_nonempty _ _ _ inventory_decode_encode inventory_consumes _ Hwf).
  - exact (codec_nonempty _ _ _ getblocks_decode_encode getblocks_consumes _ Hwf).
  - exact (codec_nonempty _ _ _ getbyindex_decode_encode getbyindex_consumes _ Hwf).
  - exact (codec_nonempty _ _ _ (headers_decode_encode sr) (headers_consumes sr) _ Hwf).
  - exact (codec_nonempty _ _ _ ping_decode_encode ping_consumes _ Hwf).
  - exact (codec_nonempty _ _ _ tx_decode_encode tx_consumes _ Hwf).
  - exact (codec_nonempty _ _ _ (block_decode_encode sr) (block_consumes sr) _ Hwf).
  - exact (codec_nonempty _ _ _ extensible_decode_encode extensible_consumes _ Hwf).
  - exact (codec_nonempty _ _ _ mptinv_decode_encode mptinv_consumes _ Hwf).
  - exact (codec_nonempty _ _ _ mptdata_decode_encode mptdata_consumes _ Hwf).
Qed.
Corollary payload_empty_is_null sr p : payload_wf sr p -> write_payload sr p = [] -> p = PNull.
Proof.
  intros Hwf He. destruct p; try reflexivity;
    (assert (1 <= length (@nil Z))%nat as Hc by (rewrite <- He; apply payload_nonempty; [exact Hwf|discriminate]);
     cbn [length] in Hc; lia).
Qed.
Theorem write_payload_ok sr p : payload_wf sr p -> bytes_ok (write_payload sr p).
Proof.
  intros Hwf. destruct p; cbn [payload_wf write_payload] in *.
  - constructor.
  - apply write_version_ok, Hwf.
  - apply write_addrlist_ok, Hwf.
  - apply write_inventory_ok, Hwf.
  - apply write_getblocks_ok, Hwf.
  - apply write_getbyindex_ok, Hwf.
  - apply write_headers_ok, Hwf.
  - apply write_ping_ok, Hwf.
  - apply write_tx_ok, Hwf.
  - apply write_block_ok, Hwf.
  - apply write_extensible_ok, Hwf.
  - apply write_mptinv_ok, Hwf.
  - apply write_mptdata_ok, Hwf.
Qed.

(* decodePayload as a function of command and buffer *)
Definition decode_payload (sr : bool) (cmd : Z) (buf : list Z) : option payload :=
  if cmd =? 43 then match tx_from_bytes buf with Some t => Some (PTx t) | None => None end
  else match payload_decoder sr cmd with
       | Some d => match d buf with Some (p, _) => Some p | None => None end
       | None => None
       end.
Lemma frame_tail_eq sr fl cmd buf (r : list Z) :
  (if cmd =? 43 then
     match tx_from_bytes buf with Some t => ret (Frame fl cmd (PTx t)) | None => fail end
   else match payload_decoder sr cmd with
        | Some d => match d buf with Some (p, _) => ret (Frame fl cmd p) | None => fail end
        | None => fail
        end) r
  = match decode_payload sr cmd buf with Some p => Some (Frame fl cmd p, r) | None => None end.
Proof.
  unfold decode_payload. destruct (cmd =? 43).
  - destruct (tx_from_bytes buf); reflexivity.
  - destruct (payload_decoder sr cmd) as [d|]; [|reflexivity]. destruct (d buf) as [[p r']|]; reflexivity.
Qed.

Lemma lift_encode {A} (wf : A -> Prop) w (d : dec A) (C : A -> payload) v :
  codec_ok wf w d -> wf v -> lift d C (w v) = Some (C v, []).
Proof.
  intros Hc Hv. unfold lift. rewrite <- (app_nil_r (w v)). bstep ltac:(apply Hc; exact Hv). reflexivity.
Qed.
Lemma lift_good {A} (wf : A -> Prop) w (d : dec A) (C : A -> payload) buf p :
  dec_good wf w d -> bytes_ok buf ->
  match lift d C buf with Some (p, _) => Some p | None => None end = Some p ->
  exists v, p = C v /\ wf v /\ (length (w v) <= length buf)%nat.
Proof.
  intros G Hb H. destruct (lift d C buf) as [[p' r]|] eqn:E; [|discriminate]. inv H.
  unfold lift in E. apply bind_some in E as (v & r' & Hv & E). inv_ret E.
  destruct (G _ _ _ Hb Hv) as (Hwf & _ & Hl). exists v. split; [reflexivity|]. split; [exact Hwf|lia].
Qed.

Theorem decode_payload_encode sr cmd p :
  payload_wf sr p -> cmd_matches cmd p -> p <> PNull -> decode_payload sr cmd (write_payload sr p) = Some p.
Proof.
  intros Hwf Hm Hne. unfold decode_payload.
  destruct p; cbn [payload_wf cmd_matches write_payload] in *; try congruence.
  - subst cmd. change (0 =? 43) with false. cbv iota.
    change (payload_decoder sr 0) with (Some (lift read_version PVersion)). cbv iota.
    now rewrite (lift_encode _ _ _ _ _ version_decode_encode Hwf).
  - subst cmd. change (17 =? 43) with false. cbv iota.
    change (payload_decoder sr 17) with (Some (lift read_addrlist PAddr)). cbv iota.
    now rewrite (lift_encode _ _ _ _ _ addrlist_decode_encode Hwf).
  - replace (cmd =? 43) with false by lia.
    assert (payload_decoder sr cmd = Some (lift read_inventory PInv)) as ->
      by (destruct Hm as [->|[->| ->]]; reflexivity).
    now rewrite (lift_encode _ _ _ _ _ inventory_decode_encode Hwf).
  - subst cmd. change (36 =? 43) with false. cbv iota.
    change (payload_decoder sr 36) with (Some (lift read_getblocks PGetBlocks)). cbv iota.
    now rewrite (lift_encode _ _ _ _ _ getblocks_decode_encode Hwf).
  - replace (cmd =? 43) with false by lia.
    assert (payload_decoder sr cmd = Some (lift read_getbyindex PGetByIndex)) as ->
      by (destruct Hm as [->| ->]; reflexivity).
    now rewrite (lift_encode _ _ _ _ _ getbyindex_decode_encode Hwf).
  - subst cmd. change (33 =? 43) with false. cbv iota.
    change (payload_decoder sr 33) with (Some (lift (read_headers sr) PHeaders)). cbv iota.
    now rewrite (lift_encode _ _ _ _ _ (headers_decode_encode sr) Hwf).
  - replace (cmd =? 43) with false by lia.
    assert (payload_decoder sr cmd = Some (lift read_ping PPing)) as ->
      by (destruct Hm as [->| ->]; reflexivity).
    now rewrite (lift_encode _ _ _ _ _ ping_decode_encode Hwf).
  - subst cmd. change (43 =? 43) with true. cbv iota. now rewrite (tx_roundtrip _ Hwf).
  - subst cmd. change (44 =? 43) with false. cbv iota.
    change (payload_decoder sr 44) with (Some (lift (read_block sr) PBlock)). cbv iota.
    now rewrite (lift_encode _ _ _ _ _ (block_decode_encode sr) Hwf).
  - subst cmd. change (46 =? 43) with false. cbv iota.
    change (payload_decoder sr 46) with (Some (lift read_extensible PExtensible)). cbv iota.
    now rewrite (lift_encode _ _ _ _ _ extensible_decode_encode Hwf).
  - subst cmd. change (81 =? 43) with false. cbv iota.
    change (payload_decoder sr 81) with (Some (lift read_mptinv PMptInv)). cbv iota.
    now rewrite (lift_encode _ _ _ _ _ mptinv_decode_encode Hwf).
  - subst cmd. change (82 =? 43) with false. cbv iota.
    change (payload_decoder sr 82) with (Some (lift read_mptdata PMptData)). cbv iota.
    now rewrite (lift_encode _ _ _ _ _ mptdata_decode_encode Hwf).
Qed.

Theorem decode_payload_good sr cmd buf p :
  bytes_ok buf -> decode_payload sr cmd buf = Some p ->
  payload_wf sr p /\ cmd_matches cmd p /\ p <> PNull /\ (length (write_payload sr p) <= length buf)%nat.
Proof.
  intros Hb H. unfold decode_payload in H. case_if_in H.
  { destruct (tx_from_bytes buf) as [t|] eqn:E; [|discriminate]. inv H.
    destruct (tx_canonical _ _ Hb E) as [_ Hwf]. pose proof (tx_reencoding_not_longer _ _ Hb E).
    cbn [payload_wf cmd_matches write_payload]. split; [exact Hwf|]. split; [lia|]. split; [discriminate|assumption]. }
  unfold payload_decoder in H.
  repeat case_if_in H; try discriminate;
    [ destruct (lift_good _ _ _ _ _ _ version_good Hb H) as (v & -> & Hwf & Hl)
    | destruct (lift_good _ _ _ _ _ _ inventory_good Hb H) as (v & -> & Hwf & Hl)
    | destruct (lift_good _ _ _ _ _ _ mptinv_good Hb H) as (v & -> & Hwf & Hl)
    | destruct (lift_good _ _ _ _ _ _ mptdata_good Hb H) as (v & -> & Hwf & Hl)
    | destruct (lift_good _ _ _ _ _ _ addrlist_good Hb H) as (v & -> & Hwf & Hl)
    | destruct (lift_good _ _ _ _ _ _ (block_good sr) Hb H) as (v & -> & Hwf & Hl)
    | destruct (lift_good _ _ _ _ _ _ extensible_good Hb H) as (v & -> & Hwf & Hl)
    | destruct (lift_good _ _ _ _ _ _ getblocks_good Hb H) as (v & -> & Hwf & Hl)
    | destruct (lift_good _ _ _ _ _ _ getbyindex_good Hb H) as (v & -> & Hwf & Hl)
    | destruct (lift_good _ _ _ _ _ _ (headers_good sr) Hb H) as (v & -> & Hwf & Hl)
    | destruct (lift_good _ _ _ _ _ _ ping_good Hb H) as (v & -> & Hwf & Hl) ];
    cbn [payload_wf cmd_matches write_payload];
    (split; [exact Hwf|]); (split; [lia|]); (split; [discriminate|exact Hl]).
Qed.

Lemma clear_compressed_odd fl : Z.odd (clear_compressed fl) = false.
Proof.
  unfold clear_compressed. replace (fl - fl mod 2) with (2 * (fl / 2)) by lia.
  rewrite Z.odd_mul. reflexivity.
Qed.
Lemma clear_compressed_even fl : Z.even fl = true -> clear_compressed fl = fl.
Proof. intros H. unfold clear_compressed. rewrite Zmod_even, H. lia. Qed.
Lemma clear_compressed_range fl : 0 <= fl < 256 -> 0 <= clear_compressed fl < 256.
Proof. unfold clear_compressed. lia. Qed.
Lemma clear_compressed_succ_odd fl : Z.odd (clear_compressed fl + 1) = true.
Proof.
  unfold clear_compressed. replace (fl - fl mod 2 + 1) with (1 + 2 * (fl / 2)) by lia.
  rewrite Z.odd_add_mul_2. reflexivity.
Qed.
Lemma payload_null_dec (p : payload) : {p = PNull} + {p <> PNull}.
Proof. destruct p; (left; reflexivity) || (right; discriminate). Qed.

Lemma write_varuint_length_mono a b :
  0 <= a <= b -> (length (write_varuint a) <= length (write_varuint b))%nat.
Proof. intros H. unfold write_varuint. repeat case_if; cbn [length]; rewrite ?le_bytes_length; lia. Qed.

(* the length announced in a frame header *)
Definition frame_length (bs : list Z) : option Z :=
  match (fl <- read_b ;; cmd <- read_b ;; read_varuint) bs with Some (l, _) => Some l | None => None end.

(* a decompressor is usable if it returns bytes and respects the 32 MB cap on the UNCOMPRESSED size (as the
   Go decompress does: the length prefix is checked against payload.MaxSize) *)
Definition decompress_sane (decompress : list Z -> option (list Z)) : Prop :=
  forall raw buf, decompress raw = Some buf -> bytes_ok raw -> Z.of_nat (length raw) <= max_payload_size ->
    bytes_ok buf /\ Z.of_nat (length buf) <= max_payload_size.

Section Compression.
  Variable compress : list Z -> list Z.
  Variable decompress : list Z -> option (list Z).
  Hypothesis decompress_compress : forall x, decompress (compress x) = Some x.

  (* inversion of a successful frame decode *)
  Lemma read_frame_inv sr bs f rest :
    read_frame decompress sr bs = Some (f, rest) ->
    exists fl cmd r0 l r,
      bs = fl :: cmd :: r0 /\ read_varuint r0 = Some (l, r) /\
      ((l = 0 /\ null_command cmd = true /\ f = Frame fl cmd PNull /\ rest = r) \/
       (l <> 0 /\ l <= max_payload_size /\
        exists raw buf p, read_bytes (Z.to_nat l) r = Some (raw, rest)
          /\ (if Z.odd fl then decompress raw else Some raw) = Some buf
          /\ decode_payload sr cmd buf = Some p /\ f = Frame fl cmd p)).
  Proof using decompress.
    clear decompress_compress compress.
    intros H. unfold read_frame in H.
    apply bind_some in H as (fl & r1 & Hfl & H). apply bind_some in H as (cmd & r0 & Hcmd & H).
    apply bind_some in H as (l & r & Hl & H).
    apply read_b_some in Hfl as ->. apply read_b_some in Hcmd as ->.
    exists fl, cmd, r0, l, r. split; [reflexivity|]. split; [exact Hl|].
    case_if_in H.
    { case_if_in H; [|discriminate]. inv_ret H. left. repeat split; auto; lia. }
    case_if_in H; [discriminate|]. apply bind_some in H as (raw & r2 & Hraw & H).
    destruct (if Z.odd fl then decompress raw else Some raw) as [buf|] eqn:Ebuf; [|discriminate].
    rewrite frame_tail_eq in H. destruct (decode_payload sr cmd buf) as [p|] eqn:Ep; [|discriminate]. inv H.
    right. split; [lia|]. split; [lia|]. exists raw, buf, p. auto.
  Qed.

  (* uncompressed round trip; the Compressed bit of the flags is cleared by the writer *)
  Theorem frame_decode_encode_norm sr f rest :
    frame_wf sr f ->
    read_frame decompress sr (write_frame sr f ++ rest)
    = Some (Frame (clear_compressed (fflags f)) (fcmd f) (fpayload f), rest).
  Proof using decompress.
    clear decompress_compress compress.
    destruct f as [fl cmd p]. unfold frame_wf. cbn [fflags fcmd fpayload].
    intros (Hfl & Hcmd & Hp & Hm & Hlen).
    unfold write_frame, read_frame, write_varbytes. cbn [fflags fcmd fpayload app].
    bstep reflexivity. bstep reflexivity. rewrite <- app_assoc.
    bstep ltac:(apply varuint_roundtrip; unfold u64_ok, max_payload_size in *; lia).
    destruct (payload_null_dec p) as [->|Hne].
    - cbn [write_payload length app cmd_matches] in *. change (Z.of_nat 0 =? 0) with true. cbv iota.
      rewrite Hm. reflexivity.
    - pose proof (payload_nonempty sr p Hp Hne) as H1.
      replace (Z.of_nat (length (write_payload sr p)) =? 0) with false by lia.
      replace (max_payload_size <? Z.of_nat (length (write_payload sr p))) with false by lia.
      rewrite Nat2Z.id. bstep ltac:(apply read_bytes_app; reflexivity).
      rewrite clear_compressed_odd. cbv iota. rewrite frame_tail_eq.
      rewrite (decode_payload_encode sr cmd p Hp Hm Hne). reflexivity.
  Qed.
  Theorem frame_decode_encode sr f rest :
    frame_wf sr f -> Z.even (fflags f) = true ->
    read_frame decompress sr (write_frame sr f ++ rest) = Some (f, rest).
  Proof using decompress.
    clear decompress_compress compress.
    intros Hwf He. rewrite (frame_decode_encode_norm sr f rest Hwf), (clear_compressed_even _ He).
    destruct f; reflexivity.
  Qed.

  (* compressed round trip: needs only decompress (compress x) = Some x.  The null payload is never compressed *)
  Theorem frame_decode_encode_compressed sr f rest :
    frame_wf sr f -> fpayload f <> PNull ->
    (1 <= length (compress (write_payload sr (fpayload f))))%nat ->
    Z.of_nat (length (compress (write_payload sr (fpayload f)))) <= max_payload_size ->
    read_frame decompress sr (write_frame_compressed compress sr f ++ rest)
    = Some (Frame (clear_compressed (fflags f) + 1) (fcmd f) (fpayload f), rest).
  Proof using decompress_compress.
    destruct f as [fl cmd p]. unfold frame_wf. cbn [fflags fcmd fpayload].
    intros (Hfl & Hcmd & Hp & Hm & Hlen) Hne Hc1 Hc2.
    unfold write_frame_compressed, read_frame, write_varbytes. cbn [fflags fcmd fpayload app].
    bstep reflexivity. bstep reflexivity. rewrite <- app_assoc.
    bstep ltac:(apply varuint_roundtrip; unfold u64_ok, max_payload_size in *; lia).
    replace (Z.of_nat (length (compress (write_payload sr p))) =? 0) with false by lia.
    replace (max_payload_size <? Z.of_nat (length (compress (write_payload sr p)))) with false by lia.
    rewrite Nat2Z.id. bstep ltac:(apply read_bytes_app; reflexivity).
    rewrite clear_compressed_succ_odd, decompress_compress. cbv iota. rewrite frame_tail_eq.
    rewrite (decode_payload_encode sr cmd p Hp Hm Hne). reflexivity.
  Qed.

  (* everything accepted is well-formed (the decompressor must respect the size cap and return bytes) *)
  Theorem frame_decode_wf sr bs f rest :
    bytes_ok bs -> decompress_sane decompress -> read_frame decompress sr bs = Some (f, rest) ->
    frame_wf sr f /\ bytes_ok rest.
  Proof using decompress.
    clear decompress_compress compress.
    intros Hb Hsane H. apply read_frame_inv in H as (fl & cmd & r0 & l & r & -> & Hl & Hcase).
    inv Hb. rename H1 into Hfl, H2 into Hb1. inv Hb1. rename H1 into Hcmd, H2 into Hb0.
    destruct (read_varuint_good _ _ _ Hb0 Hl) as (Hl1 & Hr & _).
    destruct Hcase as [(-> & Hn & -> & ->)|(Hl0 & Hlm & raw & buf & p & Hraw & Hbuf & Hp & ->)].
    - split; [|exact Hr]. unfold frame_wf. cbn [fflags fcmd fpayload payload_wf cmd_matches write_payload length].
      unfold max_payload_size. repeat split; try assumption; lia.
    - destruct (read_bytes_good _ _ _ _ Hr Hraw) as (Hraw1 & Hraw2 & Hrest & _). split; [|exact Hrest].
      assert (bytes_ok buf /\ Z.of_nat (length buf) <= max_payload_size) as [Hbb Hbl].
      { destruct (Z.odd fl); [apply (Hsane _ _ Hbuf Hraw2); lia|]. inv Hbuf. split; [assumption|lia]. }
      destruct (decode_payload_good _ _ _ _ Hbb Hp) as (Hwf & Hm & _ & Hlen).
      unfold frame_wf. cbn [fflags fcmd fpayload]. repeat split; try assumption; lia.
  Qed.

  (* whatever compressed or padded form was received, the uncompressed re-encoding decodes to the same command
     and payload *)
  Theorem frame_canonical sr bs f rest rest' :
    bytes_ok bs -> decompress_sane decompress -> read_frame decompress sr bs = Some (f, rest) ->
    frame_wf sr f /\
    read_frame decompress sr (write_frame sr f ++ rest')
    = Some (Frame (clear_compressed (fflags f)) (fcmd f) (fpayload f), rest').
  Proof using decompress.
    clear decompress_compress compress.
    intros Hb Hsane H. destruct (frame_decode_wf _ _ _ _ Hb Hsane H) as [Hwf _].
    split; [exact Hwf|]. now apply frame_decode_encode_norm.
  Qed.

  (* the buffer allocated for the payload: at most 32 MB and at most what the input holds *)
  Theorem frame_alloc_bounded sr bs f rest :
    read_frame decompress sr bs = Some (f, rest) ->
    exists l, frame_length bs = Some l /\ l <= max_payload_size /\ (Z.to_nat l + length rest + 3 <= length bs)%nat.
  Proof using decompress.
    clear decompress_compress compress.
    intros H. apply read_frame_inv in H as (fl & cmd & r0 & l & r & -> & Hl & Hcase).
    exists l. split; [unfold frame_length, bind; cbn [read_b]; now rewrite Hl|].
    pose proof (read_varuint_consumes _ _ _ Hl) as Hc. cbn [length].
    destruct Hcase as [(-> & _ & _ & ->)|(_ & Hlm & raw & _ & _ & Hraw & _)].
    - unfold max_payload_size. split; [lia|]. change (Z.to_nat 0) with 0%nat. lia.
    - split; [exact Hlm|]. apply read_bytes_some in Hraw as [-> Hlen]. rewrite app_length in Hc. lia.
  Qed.
  Theorem frame_rejects_oversize sr fl cmd r0 l r :
    read_varuint r0 = Some (l, r) -> max_payload_size < l -> read_frame decompress sr (fl :: cmd :: r0) = None.
  Proof using decompress.
    clear decompress_compress compress.
    intros Hl Hm. unfold read_frame. bstep reflexivity. bstep reflexivity. bstep ltac:(exact Hl).
    replace (l =? 0) with false by (unfold max_payload_size in *; lia).
    replace (max_payload_size <? l) with true by lia. reflexivity.
  Qed.

  Theorem frame_consumes sr : dec_consumes (read_frame decompress sr).
  Proof using decompress.
    clear decompress_compress compress.
    intros bs f rest H. apply (frame_alloc_bounded sr) in H as (l & _ & _ & H). lia.
  Qed.

  Theorem write_frame_ok sr f : frame_wf sr f -> bytes_ok (write_frame sr f).
  Proof using.
    intros (Hfl & Hcmd & Hp & _). unfold write_frame.
    apply bytes_ok_cons; [apply clear_compressed_range, Hfl|]. apply bytes_ok_cons; [exact Hcmd|].
    apply write_varbytes_ok, write_payload_ok, Hp.
  Qed.

  (* for a frame received uncompressed, the canonical re-encoding is not longer than what was consumed
     (a compressed frame is of course usually shorter than its uncompressed re-encoding) *)
  Theorem frame_minimal_uncompressed sr bs f rest :
    bytes_ok bs -> read_frame decompress sr bs = Some (f, rest) -> Z.odd (fflags f) = false ->
    (length (write_frame sr f) + length rest <= length bs)%nat.
  Proof using decompress.
    clear decompress_compress compress.
    intros Hb H Hodd. apply read_frame_inv in H as (fl & cmd & r0 & l & r & -> & Hl & Hcase).
    inv Hb. inv H2. rename H4 into Hb0.
    destruct (read_varuint_good _ _ _ Hb0 Hl) as (Hl1 & Hr & Hmin).
    unfold write_frame, write_varbytes. cbn [length]. rewrite app_length.
    destruct Hcase as [(-> & _ & -> & ->)|(Hl0 & Hlm & raw & buf & p & Hraw & Hbuf & Hp & ->)];
      cbn [fflags fcmd fpayload] in *.
    - cbn [write_payload length]. change (Z.of_nat 0) with 0. lia.
    - rewrite Hodd in Hbuf. inv Hbuf.
      destruct (read_bytes_good _ _ _ _ Hr Hraw) as (Hraw1 & Hraw2 & _ & Hlen).
      destruct (decode_payload_good _ _ _ _ Hraw2 Hp) as (_ & _ & _ & Hwl).
      pose proof (write_varuint_length_mono (Z.of_nat (length (write_payload sr p))) l ltac:(lia)). lia.
  Qed.
End Compression.

(* ================= compression is not assumed canonical: a toy pair ================= *)
(* compress x = 0 :: x; the decompressor accepts the prefix 1 as well: two "compressed" forms of every buffer,
   as with lz4 where one payload has many valid compressed forms *)
Definition toy_compress (x : list Z) : list Z := 0 :: x.
Definition toy_decompress (raw : list Z) : option (list Z) :=
  match raw with
  | b :: x => if (b =? 0) || (b =? 1) then Some x else None
  | [] => None
  end.
Lemma toy_decompress_compress x : toy_decompress (toy_compress x) = Some x.
Proof. reflexivity. Qed.
Lemma toy_sane : decompress_sane toy_decompress.
Proof.
  intros raw buf H Hb Hl. destruct raw as [|b x]; [discriminate|]. cbn [toy_decompress] in H.
  case_if_in H; [|discriminate]. inv H. inv Hb. cbn [length] in Hl. split; [assumption|lia].
Qed.

Definition ex_ping_frame : frame := Frame 0 24 (PPing (Ping 1 2 3)).
(* REMARK (no hypothesis): the theorems of Section Compression use decompress (compress x) = Some x only; they
   never need compress x to be the only preimage of x.  With the toy pair, which satisfies that hypothesis, two
   different byte strings decode to the same frame, so the identity of a message must be taken from the
   uncompressed canonical form, never from the bytes on the wire *)
Lemma compression_not_assumed_canonical :
  (forall x, toy_decompress (toy_compress x) = Some x) /\ decompress_sane toy_decompress /\
  exists bs1 bs2 f, bs1 <> bs2
    /\ bs1 = write_frame_compressed toy_compress false ex_ping_frame
    /\ read_frame toy_decompress false bs1 = Some (f, [])
    /\ read_frame toy_decompress false bs2 = Some (f, [])
    /\ read_frame toy_decompress false (write_frame false f) = Some (ex_ping_frame, []).
Proof.
  split; [exact toy_decompress_compress|]. split; [exact toy_sane|].
  exists (write_frame_compressed toy_compress false ex_ping_frame),
         ([1; 24; 13; 1] ++ write_ping (Ping 1 2 3)), (Frame 1 24 (PPing (Ping 1 2 3))).
  split; [intros E; vm_compute in E; discriminate E|].
  split; [reflexivity|]. repeat split; vm_compute; reflexivity.
Qed.

Definition ex_version : version :=
  Version 860833102 0 1700000000 42 [78; 69; 79; 45; 71; 79] [CapServer 1 10333; CapFullNode 100; CapArchival].
Definition ex_inv : inventory := Inventory 43 [repeat 1 32; repeat 2 32].

Example frame_examples :
  (* ping, version with three capabilities, inv, null verack: accepted, round trip *)
  read_frame toy_decompress false (write_frame false ex_ping_frame) = Some (ex_ping_frame, [])
  /\ read_frame toy_decompress false (write_frame false (Frame 0 0 (PVersion ex_version)))
     = Some (Frame 0 0 (PVersion ex_version), [])
  /\ read_frame toy_decompress false (write_frame_compressed toy_compress false (Frame 0 0 (PVersion ex_version)))
     = Some (Frame 1 0 (PVersion ex_version), [])
  /\ read_frame toy_decompress false (write_frame false (Frame 0 39 (PInv ex_inv))) = Some (Frame 0 39 (PInv ex_inv), [])
  /\ read_frame toy_decompress false [0; 1; 0] = Some (Frame 0 1 PNull, []) /\ write_frame false (Frame 0 1 PNull) = [0; 1; 0]
  (* a transaction frame must be consumed entirely; other payloads may leave bytes unread *)
  /\ read_frame toy_decompress false (write_frame false (Frame 0 43 (PTx id_tx))) = Some (Frame 0 43 (PTx id_tx), [])
  /\ read_frame toy_decompress false ([0; 43; 54] ++ write_tx id_tx ++ [0]) = None
  /\ read_frame toy_decompress false ([0; 24; 13] ++ write_ping (Ping 1 2 3) ++ [0]) = Some (ex_ping_frame, [])
  (* rejected: unknown command, empty payload with a non-null command, null command with a payload,
     announced length above 32 MB (33554433 = 254,1,0,0,2), duplicate capability in a version *)
  /\ read_frame toy_decompress false [0; 99; 1; 0] = None
  /\ read_frame toy_decompress false [0; 24; 0] = None
  /\ read_frame toy_decompress false [0; 1; 1; 0] = None
  /\ read_frame toy_decompress false [0; 24; 254; 1; 0; 0; 2] = None
  /\ frame_length [0; 24; 254; 1; 0; 0; 2] = Some (max_payload_size + 1)
  /\ read_frame toy_decompress false
       (write_frame false (Frame 0 0 (PVersion (Version 1 0 2 3 [] [CapArchival; CapArchival])))) = None.
Proof. repeat split; vm_compute; reflexivity. Qed.

Example frame_wf_ex :
  frame_wf false ex_ping_frame /\ frame_wf false (Frame 0 0 (PVersion ex_version))
  /\ frame_wf false (Frame 0 39 (PInv ex_inv)) /\ frame_wf false (Frame 0 1 PNull)
  /\ frame_wf true (Frame 0 44 (PBlock (ex_block true))) /\ frame_wf false (Frame 0 46 (PExtensible ex_ext)).
Proof.
  assert (forall sr f, bytes_okb (write_frame sr f) = true ->
            read_frame toy_decompress sr (write_frame sr f) = Some (f, []) -> frame_wf sr f) as W.
  { intros sr f Hb Hd. apply bytes_okb_sound in Hb. exact (proj1 (frame_decode_wf toy_decompress sr _ f [] Hb toy_sane Hd)). }
  repeat (split; [apply W; vm_compute; reflexivity|]). apply W; vm_compute; reflexivity.
Qed.
