(* Model of the binary codecs of pkg/core/transaction (signer, witness rules and conditions, attributes,
   witness, transaction) and pkg/core/block (header, block shape).  Mechanism as in the Go code: same field
   order, same limits, same validity checks at decode time (Transaction.isValid).  Public keys are 33 opaque
   bytes (prefix 2/3, or the uncompressed form 4 re-encoded compressed); curve membership is NOT modelled.
   Correct behaviour is modelled where the unchanged tree has a listed defect: ConditionBoolean accepts only
   0/1 (F16); a transaction's identity is the hash/size of its RE-ENCODING on every path (F9). *)
From NG Require Import Common.Tactics Codec.Bigint Codec.Wire.
Open Scope Z_scope.

(* ---- public key (keys.PublicKey.DecodeBinary / Bytes) ---- *)
Record key := Key { kpar : Z; kx : list Z }.
Definition read_key : dec key :=
  p <- read_b ;;
  if (p =? 2) || (p =? 3) then x <- read_bytes 32 ;; ret (Key p x)
  else if p =? 4 then x <- read_bytes 32 ;; y <- read_bytes 32 ;; ret (Key (2 + (last y 0) mod 2) x)
  else fail.
Definition write_key (k : key) : list Z := kpar k :: kx k.

(* ---- witness conditions ---- *)
Inductive cond :=
| CBool (b : bool)
| CNot (c : cond)
| CAnd (l : list cond)
| COr (l : list cond)
| CScriptHash (h : list Z)
| CGroup (k : key)
| CCalledByEntry
| CCalledByContract (h : list Z)
| CCalledByGroup (k : key).

Definition max_subitems : Z := 16.
Definition max_nesting : nat := 3.

Fixpoint write_cond (c : cond) : list Z :=
  match c with
  | CBool b => 0 :: write_bool b
  | CNot c' => 1 :: write_cond c'
  | CAnd l => 2 :: write_varuint (Z.of_nat (length l)) ++ (fix wl (l : list cond) := match l with [] => [] | x :: t => write_cond x ++ wl t end) l
  | COr l => 3 :: write_varuint (Z.of_nat (length l)) ++ (fix wl (l : list cond) := match l with [] => [] | x :: t => write_cond x ++ wl t end) l
  | CScriptHash h => 24 :: h
  | CGroup k => 25 :: write_key k
  | CCalledByEntry => [32]
  | CCalledByContract h => 40 :: h
  | CCalledByGroup k => 41 :: write_key k
  end.

(* readArrayOfConditions: 1..16 elements *)
Definition read_cond_array (d : dec cond) : dec (list cond) :=
  n <- read_varuint ;;
  if n =? 0 then fail else if max_subitems <? n then fail else read_n d (Z.to_nat n).

(* decodeBinaryCondition(r, maxDepth): structural recursion on maxDepth *)
Fixpoint read_cond (depth : nat) : dec cond :=
  match depth with
  | O => fail
  | S d =>
      t <- read_b ;;
      if t =? 0 then b <- read_bool ;; ret (CBool b)
      else if t =? 1 then c <- read_cond d ;; ret (CNot c)
      else if t =? 2 then l <- read_cond_array (read_cond d) ;; ret (CAnd l)
      else if t =? 3 then l <- read_cond_array (read_cond d) ;; ret (COr l)
      else if t =? 24 then h <- read_bytes 20 ;; ret (CScriptHash h)
      else if t =? 25 then k <- read_key ;; ret (CGroup k)
      else if t =? 32 then ret CCalledByEntry
      else if t =? 40 then h <- read_bytes 20 ;; ret (CCalledByContract h)
      else if t =? 41 then k <- read_key ;; ret (CCalledByGroup k)
      else fail
  end.

(* ---- witness rule ---- *)
Record rule := Rule { raction : Z; rcond : cond }.
Definition write_rule (r : rule) : list Z := raction r :: write_cond (rcond r).
Definition read_rule : dec rule :=
  a <- read_b ;; if (a =? 0) || (a =? 1) then c <- read_cond max_nesting ;; ret (Rule a c) else fail.

(* ---- signer ---- *)
Record signer := Signer { saccount : list Z; sscopes : Z; scontracts : list (list Z); sgroups : list key; srules : list rule }.
Definition has (scopes bit : Z) : bool := negb (Z.land scopes bit =? 0).
Definition write_signer (s : signer) : list Z :=
  saccount s ++ [sscopes s]
  ++ (if has (sscopes s) 16 then write_array (fun h => h) (scontracts s) else [])
  ++ (if has (sscopes s) 32 then write_array write_key (sgroups s) else [])
  ++ (if has (sscopes s) 64 then write_array write_rule (srules s) else []).
Definition scopes_ok (sc : Z) : bool :=
  (Z.land sc 14 =? 0) && (sc <? 256) && (0 <=? sc) && (negb (has sc 128) || (sc =? 128)).
Definition read_signer : dec signer :=
  a <- read_bytes 20 ;; sc <- read_b ;;
  if negb (scopes_ok sc) then fail else
  cs <- (if has sc 16 then read_array (read_bytes 20) max_subitems else ret []) ;;
  gs <- (if has sc 32 then read_array read_key max_subitems else ret []) ;;
  rs <- (if has sc 64 then read_array read_rule max_subitems else ret []) ;;
  ret (Signer a sc cs gs rs).

(* ---- attributes ---- *)
Inductive attr :=
| AHigh
| AOracle (id : Z) (code : Z) (result : list Z)
| ANotValidBefore (h : Z)
| AConflicts (h : list Z)
| ANotary (n : Z)
| AReserved (t : Z) (v : list Z).
Definition attr_type (a : attr) : Z :=
  match a with AHigh => 1 | AOracle _ _ _ => 17 | ANotValidBefore _ => 32 | AConflicts _ => 33 | ANotary _ => 34 | AReserved t _ => t end.
Definition oracle_code_ok (c : Z) : bool :=
  existsb (Z.eqb c) [0; 16; 18; 20; 22; 24; 26; 28; 31; 255].
Definition write_attr (a : attr) : list Z :=
  attr_type a ::
  match a with
  | AHigh => []
  | AOracle id code res => le_bytes 8 id ++ [code] ++ write_varbytes res
  | ANotValidBefore h => le_bytes 4 h
  | AConflicts h => h
  | ANotary n => [n]
  | AReserved _ v => write_varbytes v
  end.
Definition read_attr : dec attr :=
  t <- read_b ;;
  if t =? 1 then ret AHigh
  else if t =? 17 then
    id <- read_u 8 ;; code <- read_b ;;
    if negb (oracle_code_ok code) then fail else
    res <- read_varbytes 65535 ;;
    if negb (code =? 0) && negb (length res =? 0)%nat then fail else ret (AOracle id code res)
  else if t =? 32 then h <- read_u 4 ;; ret (ANotValidBefore h)
  else if t =? 33 then h <- read_bytes 32 ;; ret (AConflicts h)
  else if t =? 34 then n <- read_b ;; ret (ANotary n)
  else if (224 <=? t) && (t <=? 255) then v <- read_varbytes max_array ;; ret (AReserved t v)
  else fail.

(* ---- witness ---- *)
Record witness := Witness { winv : list Z; wver : list Z }.
Definition write_witness (w : witness) : list Z := write_varbytes (winv w) ++ write_varbytes (wver w).
Definition read_witness : dec witness := i <- read_varbytes 1024 ;; v <- read_varbytes 1024 ;; ret (Witness i v).
(* GetVarSize(&witness) through the counting writer is the encoding length by construction; the independent
   computation used by block-size estimates is varbytes_size + varbytes_size *)
Definition witness_size (w : witness) : Z := varbytes_size (winv w) + varbytes_size (wver w).

(* ---- transaction ---- *)
Record tx := Tx { tversion : Z; tnonce : Z; tsysfee : Z; tnetfee : Z; tvub : Z;
                  tsigners : list signer; tattrs : list attr; tscript : list Z; twitnesses : list witness }.
Definition max_attributes : Z := 16.

Definition write_tx_hashable (t : tx) : list Z :=
  [tversion t] ++ le_bytes 4 (tnonce t) ++ le_bytes 8 (tsysfee t) ++ le_bytes 8 (tnetfee t) ++ le_bytes 4 (tvub t)
  ++ write_array write_signer (tsigners t) ++ write_array write_attr (tattrs t) ++ write_varbytes (tscript t).
Definition write_tx (t : tx) : list Z := write_tx_hashable t ++ write_array write_witness (twitnesses t).

(* uniqueness of signer accounts / of single-instance attribute types (isValid) *)
Fixpoint distinct_by {A} (eqb : A -> A -> bool) (l : list A) : bool :=
  match l with [] => true | x :: t => negb (existsb (eqb x) t) && distinct_by eqb t end.
Definition attrs_valid (l : list attr) : bool :=
  distinct_by Z.eqb (filter (fun t => negb (t =? 33)) (map attr_type l)).
(* fees are int64 read from uint64: negative when >= 2^63; the sum must not wrap *)
Definition fees_valid (sys net : Z) : bool := (sys <? 2 ^ 63) && (net <? 2 ^ 63) && (sys + net <? 2 ^ 63).
Definition tx_valid (t : tx) : bool :=
  (tversion t =? 0) && fees_valid (tsysfee t) (tnetfee t)
  && negb (length (tsigners t) =? 0)%nat
  && distinct_by byte_eqb (map saccount (tsigners t))
  && attrs_valid (tattrs t) && negb (length (tscript t) =? 0)%nat.

Definition read_tx_hashable : dec tx :=
  v <- read_b ;; n <- read_u 4 ;; sf <- read_u 8 ;; nf <- read_u 8 ;; vub <- read_u 4 ;;
  ns <- read_varuint ;;
  if max_attributes <? ns then fail else if ns =? 0 then fail else
  ss <- read_n read_signer (Z.to_nat ns) ;;
  na <- read_varuint ;;
  if max_attributes - ns <? na then fail else
  ats <- read_n read_attr (Z.to_nat na) ;;
  sc <- read_varbytes 65535 ;;
  let t := Tx v n sf nf vub ss ats sc [] in
  if tx_valid t then ret t else fail.

Definition read_tx : dec tx :=
  t <- read_tx_hashable ;;
  nw <- read_varuint ;;
  if max_attributes <? nw then fail else
  if negb (nw =? Z.of_nat (length (tsigners t))) then fail else
  ws <- read_n read_witness (Z.to_nat nw) ;;
  ret (Tx (tversion t) (tnonce t) (tsysfee t) (tnetfee t) (tvub t) (tsigners t) (tattrs t) (tscript t) ws).

(* NewTransactionFromBytes: the whole buffer must be consumed *)
Definition tx_from_bytes (bs : list Z) : option tx := decode_all read_tx bs.

(* identity of a decoded transaction (correct behaviour): the bytes that are hashed and the size *)
Definition tx_hashed_bytes (t : tx) : list Z := write_tx_hashable t.
Definition tx_size (t : tx) : Z := Z.of_nat (length (write_tx t)).

(* ---- header and block shape (StateRootEnabled = sr) ---- *)
Record header := Header { hversion : Z; hprev : list Z; hmerkle : list Z; htime : Z; hnonce : Z; hindex : Z;
                          hprimary : Z; hnext : list Z; hprevstate : list Z; hscript : witness }.
Definition write_header_hashable (sr : bool) (h : header) : list Z :=
  le_bytes 4 (hversion h) ++ hprev h ++ hmerkle h ++ le_bytes 8 (htime h) ++ le_bytes 8 (hnonce h)
  ++ le_bytes 4 (hindex h) ++ [hprimary h] ++ hnext h ++ (if sr then hprevstate h else []).
Definition write_header (sr : bool) (h : header) : list Z :=
  write_header_hashable sr h ++ write_varuint 1 ++ write_witness (hscript h).
Definition read_header (sr : bool) : dec header :=
  v <- read_u 4 ;; p <- read_bytes 32 ;; m <- read_bytes 32 ;; t <- read_u 8 ;; n <- read_u 8 ;; i <- read_u 4 ;;
  pi <- read_b ;; nx <- read_bytes 20 ;; ps <- (if sr then read_bytes 32 else ret []) ;;
  wc <- read_varuint ;; if negb (wc =? 1) then fail else
  w <- read_witness ;; ret (Header v p m t n i pi nx ps w).

Record block := Block { bheader : header; btxs : list tx }.
Definition max_txs_per_block : Z := 65535.
Definition write_block (sr : bool) (b : block) : list Z := write_header sr (bheader b) ++ write_array write_tx (btxs b).
Definition read_block (sr : bool) : dec block :=
  h <- read_header sr ;; txs <- read_array read_tx max_txs_per_block ;; ret (Block h txs).
