(* Proofs about the reader/writer primitives of Codec/Wire.v. *)
From NG Require Import Common.Tactics Codec.Bigint Codec.BigintProofs Codec.Wire.
Open Scope Z_scope.

Ltac case_if_in H := match type of H with context [if ?b then _ else _] => destruct b eqn:? end.

(* ---------- generic notions ---------- *)
(* [w] and [d] form a codec on the values satisfying [wf]: decoding the encoding followed by anything
   gives the value back and leaves exactly the rest *)
Definition codec_ok {A} (wf : A -> Prop) (w : A -> list Z) (d : dec A) : Prop :=
  forall v rest, wf v -> d (w v ++ rest) = Some (v, rest).
(* everything the decoder accepts (from well-formed bytes) is well-formed *)
Definition dec_wf {A} (wf : A -> Prop) (d : dec A) : Prop :=
  forall bs v rest, bytes_ok bs -> d bs = Some (v, rest) -> wf v /\ bytes_ok rest.
(* a decoder never returns more than it was given; [strict]: it consumes at least one byte *)
Definition dec_shrinks {A} (d : dec A) : Prop :=
  forall bs v rest, d bs = Some (v, rest) -> (length rest <= length bs)%nat.
Definition dec_consumes {A} (d : dec A) : Prop :=
  forall bs v rest, d bs = Some (v, rest) -> (length rest < length bs)%nat.

Lemma bytes_ok_app a b : bytes_ok (a ++ b) <-> bytes_ok a /\ bytes_ok b.
Proof. unfold bytes_ok. apply Forall_app. Qed.
Lemma bytes_ok_firstn n l : bytes_ok l -> bytes_ok (firstn n l).
Proof. intros H. rewrite <- (firstn_skipn n l) in H. apply bytes_ok_app in H. tauto. Qed.
Lemma bytes_ok_skipn n l : bytes_ok l -> bytes_ok (skipn n l).
Proof. intros H. rewrite <- (firstn_skipn n l) in H. apply bytes_ok_app in H. tauto. Qed.

(* canonical re-encoding follows from the two halves *)
Lemma canonical_of {A} (wf : A -> Prop) w (d : dec A) :
  codec_ok wf w d -> dec_wf wf d ->
  forall bs v rest rest', bytes_ok bs -> d bs = Some (v, rest) -> d (w v ++ rest') = Some (v, rest').
Proof. intros Hc Hw bs v rest rest' Hb Hd. apply Hc. eapply Hw; eauto. Qed.

(* ---------- bind ---------- *)
Lemma bind_some {A B} (d : dec A) (f : A -> dec B) bs b r :
  bind d f bs = Some (b, r) <-> exists a r', d bs = Some (a, r') /\ f a r' = Some (b, r).
Proof.
  unfold bind. destruct (d bs) as [[a r']|]; split.
  - intros H. eauto.
  - intros (a0 & r0 & E & H). inv E. exact H.
  - discriminate.
  - intros (a0 & r0 & E & _). discriminate.
Qed.
Lemma bind_ok {A B} (d : dec A) (f : A -> dec B) bs a r :
  d bs = Some (a, r) -> bind d f bs = f a r.
Proof. unfold bind. now intros ->. Qed.

(* ---------- read_bytes ---------- *)
Lemma read_bytes_app n a rest : length a = n -> read_bytes n (a ++ rest) = Some (a, rest).
Proof.
  intros <-. unfold read_bytes. rewrite app_length.
  replace (length a <=? length a + length rest)%nat with true by lia.
  rewrite firstn_app, firstn_all, Nat.sub_diag, firstn_O, app_nil_r.
  rewrite skipn_app, skipn_all, Nat.sub_diag, skipn_O. reflexivity.
Qed.
Lemma read_bytes_some n bs a rest :
  read_bytes n bs = Some (a, rest) -> bs = a ++ rest /\ length a = n.
Proof.
  unfold read_bytes. case_if; [|discriminate]. intros E; inv E.
  split; [now rewrite firstn_skipn|]. rewrite firstn_length. lia.
Qed.
Lemma read_bytes_codec n : codec_ok (fun a => length a = n) (fun a => a) (read_bytes n).
Proof. intros a rest H. now apply read_bytes_app. Qed.
Lemma read_bytes_wf n : dec_wf (fun a => length a = n /\ bytes_ok a) (read_bytes n).
Proof.
  intros bs a rest Hb H. apply read_bytes_some in H as [-> Hl]. apply bytes_ok_app in Hb. tauto.
Qed.
Lemma read_bytes_shrinks n : dec_shrinks (read_bytes n).
Proof. intros bs a rest H. apply read_bytes_some in H as [-> _]. rewrite app_length. lia. Qed.
Lemma read_bytes_consumes n : (0 < n)%nat -> dec_consumes (read_bytes n).
Proof. intros Hn bs a rest H. apply read_bytes_some in H as [-> Hl]. rewrite app_length. lia. Qed.

(* ---------- fixed-width little-endian integers ---------- *)
Lemma read_u_write n v rest : 0 <= v < 2 ^ (8 * Z.of_nat n) -> read_u n (write_u n v ++ rest) = Some (v, rest).
Proof.
  intros Hv. unfold read_u, write_u. rewrite (bind_ok _ _ _ (le_bytes n v) rest) by (apply read_bytes_app, le_bytes_length).
  unfold ret. rewrite from_le_le_bytes. now rewrite Z.mod_small.
Qed.
Lemma read_u_some n bs v rest :
  bytes_ok bs -> read_u n bs = Some (v, rest) ->
  0 <= v < 2 ^ (8 * Z.of_nat n) /\ bs = le_bytes n v ++ rest /\ bytes_ok rest.
Proof.
  intros Hb H. unfold read_u in H. apply bind_some in H as (a & r & Ha & Hr). inv Hr.
  apply read_bytes_some in Ha as [-> Hl]. apply bytes_ok_app in Hb as [Ha Hr].
  pose proof (from_le_bounds a Ha) as Hbd. rewrite Hl in Hbd.
  split; [exact Hbd|]. split; [|exact Hr]. rewrite <- Hl, le_bytes_from_le; auto.
Qed.
Lemma read_u_codec n : codec_ok (fun v => 0 <= v < 2 ^ (8 * Z.of_nat n)) (write_u n) (read_u n).
Proof. intros v rest H. now apply read_u_write. Qed.
Lemma read_u_wf n : dec_wf (fun v => 0 <= v < 2 ^ (8 * Z.of_nat n)) (read_u n).
Proof. intros bs v rest Hb H. apply read_u_some in H; tauto. Qed.
Lemma read_u_consumes n : (0 < n)%nat -> dec_consumes (read_u n).
Proof.
  intros Hn bs v rest H. unfold read_u in H. apply bind_some in H as (a & r & Ha & Hr). inv Hr.
  eapply read_bytes_consumes; eauto.
Qed.
Lemma write_u_length n v : length (write_u n v) = n.
Proof. apply le_bytes_length. Qed.
Lemma write_u_ok n v : bytes_ok (write_u n v).
Proof. apply le_bytes_ok. Qed.

Lemma read_b_cons b rest : read_b (b :: rest) = Some (b, rest).
Proof. reflexivity. Qed.
Lemma read_b_some bs b rest : read_b bs = Some (b, rest) -> bs = b :: rest.
Proof. destruct bs; simpl; intros E; inv E; reflexivity. Qed.
Lemma read_b_consumes : dec_consumes read_b.
Proof. intros bs b rest H. apply read_b_some in H as ->. simpl. lia. Qed.

(* ---------- var-uint ---------- *)
Definition u64_ok (v : Z) : Prop := 0 <= v < 2 ^ 64.

Lemma write_varuint_ok v : 0 <= v -> bytes_ok (write_varuint v).
Proof.
  intros Hv. unfold write_varuint. repeat case_if; constructor; try lia; try apply le_bytes_ok. constructor.
Qed.

Theorem varuint_roundtrip v rest : u64_ok v -> read_varuint (write_varuint v ++ rest) = Some (v, rest).
Proof.
  intros [H0 H1]. unfold write_varuint.
  destruct (v <? 253) eqn:E1.
  { cbn [app read_varuint]. replace (v =? 253) with false by lia. replace (v =? 254) with false by lia.
    replace (v =? 255) with false by lia. reflexivity. }
  destruct (v <=? 65535) eqn:E2.
  { cbn [app read_varuint]. change (253 =? 253) with true. cbv iota.
    apply (read_u_write 2). change (2 ^ (8 * Z.of_nat 2)) with 65536. lia. }
  destruct (v <=? 4294967295) eqn:E3.
  { cbn [app read_varuint]. change (254 =? 253) with false. change (254 =? 254) with true. cbv iota.
    apply (read_u_write 4). change (2 ^ (8 * Z.of_nat 4)) with 4294967296. lia. }
  cbn [app read_varuint]. change (255 =? 253) with false. change (255 =? 254) with false. change (255 =? 255) with true. cbv iota.
  apply (read_u_write 8). change (8 * Z.of_nat 8) with 64. lia.
Qed.

(* the reader accepts every width for a value that fits it: non-minimal forms decode to the same value *)
Theorem varuint_nonminimal_accepted v rest :
  (0 <= v < 2 ^ 16 -> read_varuint (253 :: le_bytes 2 v ++ rest) = Some (v, rest)) /\
  (0 <= v < 2 ^ 32 -> read_varuint (254 :: le_bytes 4 v ++ rest) = Some (v, rest)) /\
  (0 <= v < 2 ^ 64 -> read_varuint (255 :: le_bytes 8 v ++ rest) = Some (v, rest)).
Proof.
  repeat split; intros Hv; cbn [read_varuint].
  - change (253 =? 253) with true. cbv iota. now apply (read_u_write 2).
  - change (254 =? 253) with false. change (254 =? 254) with true. cbv iota. now apply (read_u_write 4).
  - change (255 =? 253) with false. change (255 =? 254) with false. change (255 =? 255) with true. cbv iota.
    now apply (read_u_write 8).
Qed.

Lemma read_varuint_some bs v rest :
  bytes_ok bs -> read_varuint bs = Some (v, rest) ->
  u64_ok v /\ bytes_ok rest /\ (length rest < length bs)%nat.
Proof.
  intros Hb H. destruct bs as [|b t]; [discriminate|]. cbn [read_varuint] in H.
  inv Hb. rename H2 into Hb0, H3 into Ht. unfold u64_ok.
  repeat case_if_in H.
  - apply read_u_some in H as (Hv & -> & Hr); [|exact Ht]. change (2 ^ (8 * Z.of_nat 2)) with 65536 in Hv.
    split; [lia|]. split; [exact Hr|]. cbn [length]. rewrite app_length, le_bytes_length. lia.
  - apply read_u_some in H as (Hv & -> & Hr); [|exact Ht]. change (2 ^ (8 * Z.of_nat 4)) with 4294967296 in Hv.
    split; [lia|]. split; [exact Hr|]. cbn [length]. rewrite app_length, le_bytes_length. lia.
  - apply read_u_some in H as (Hv & -> & Hr); [|exact Ht]. change (8 * Z.of_nat 8) with 64 in Hv.
    split; [lia|]. split; [exact Hr|]. cbn [length]. rewrite app_length, le_bytes_length. lia.
  - inv H. split; [lia|]. split; [exact Ht|]. simpl. lia.
Qed.
Lemma read_varuint_consumes : dec_consumes read_varuint.
Proof.
  intros bs v rest H. destruct bs as [|b t]; [discriminate|]. cbn [read_varuint] in H.
  repeat case_if_in H.
  - apply (read_u_consumes 2) in H; [|lia]. simpl. lia.
  - apply (read_u_consumes 4) in H; [|lia]. simpl. lia.
  - apply (read_u_consumes 8) in H; [|lia]. simpl. lia.
  - inv H. simpl. lia.
Qed.
Lemma varuint_codec : codec_ok u64_ok write_varuint read_varuint.
Proof. intros v rest H. now apply varuint_roundtrip. Qed.
Lemma varuint_wf : dec_wf u64_ok read_varuint.
Proof. intros bs v rest Hb H. apply read_varuint_some in H; tauto. Qed.

(* decode_canonical for the var-uint: whatever form was read, the minimal form decodes to the same value *)
Theorem varuint_canonical bs v rest rest' :
  bytes_ok bs -> read_varuint bs = Some (v, rest) -> read_varuint (write_varuint v ++ rest') = Some (v, rest').
Proof. intros Hb H. apply varuint_roundtrip. apply read_varuint_some in H; tauto. Qed.

(* the minimal form is never longer than the form that was read *)
Theorem varuint_minimal bs v rest :
  bytes_ok bs -> read_varuint bs = Some (v, rest) ->
  (length (write_varuint v) + length rest <= length bs)%nat.
Proof.
  intros Hb H. destruct bs as [|b t]; [discriminate|]. cbn [read_varuint] in H. inv Hb.
  rename H2 into Hb0, H3 into Ht.
  repeat case_if_in H.
  - apply read_u_some in H as (Hv & -> & Hr); [|assumption]. change (2 ^ (8 * Z.of_nat 2)) with 65536 in Hv.
    cbn [length]. rewrite app_length, le_bytes_length.
    unfold write_varuint. repeat case_if; cbn [length]; rewrite ?le_bytes_length; lia.
  - apply read_u_some in H as (Hv & -> & Hr); [|assumption]. change (2 ^ (8 * Z.of_nat 4)) with 4294967296 in Hv.
    cbn [length]. rewrite app_length, le_bytes_length.
    unfold write_varuint. repeat case_if; cbn [length]; rewrite ?le_bytes_length; lia.
  - apply read_u_some in H as (Hv & -> & Hr); [|assumption].
    cbn [length]. rewrite app_length, le_bytes_length.
    unfold write_varuint. repeat case_if; cbn [length]; rewrite ?le_bytes_length; lia.
  - inv H. unfold write_varuint. replace (v <? 253) with true by lia. cbn [length]. lia.
Qed.

(* size_eq: io.getVarIntSize agrees with the writer wherever it is used (lengths below 2^32) *)
Theorem varuint_size_eq v : 0 <= v <= 4294967295 -> varuint_size v = Z.of_nat (length (write_varuint v)).
Proof.
  intros Hv. unfold varuint_size, write_varuint. repeat case_if; cbn [length]; rewrite ?le_bytes_length; lia.
Qed.
Lemma write_varuint_length v : (1 <= length (write_varuint v) <= 9)%nat.
Proof. unfold write_varuint. repeat case_if; cbn [length]; rewrite ?le_bytes_length; lia. Qed.

(* ---------- var-bytes ---------- *)
Theorem varbytes_roundtrip max b rest :
  Z.of_nat (length b) <= max -> Z.of_nat (length b) < 2 ^ 64 ->
  read_varbytes max (write_varbytes b ++ rest) = Some (b, rest).
Proof.
  intros Hm H64. unfold read_varbytes, write_varbytes. rewrite <- app_assoc.
  rewrite (bind_ok _ _ _ (Z.of_nat (length b)) (b ++ rest)) by (apply varuint_roundtrip; unfold u64_ok; lia).
  replace (max <? Z.of_nat (length b)) with false by lia. rewrite Nat2Z.id. now apply read_bytes_app.
Qed.
Lemma read_varbytes_some max bs b rest :
  bytes_ok bs -> read_varbytes max bs = Some (b, rest) ->
  Z.of_nat (length b) <= max /\ Z.of_nat (length b) < 2 ^ 64 /\ bytes_ok b /\ bytes_ok rest /\ (length rest < length bs)%nat.
Proof.
  intros Hb H. unfold read_varbytes in H. apply bind_some in H as (n & r & Hn & H).
  pose proof (read_varuint_some _ _ _ Hb Hn) as ([Hn0 Hn1] & Hr & Hlt).
  case_if_in H; [discriminate|]. pose proof (read_bytes_wf _ _ _ _ Hr H) as [[Hl Hbb] Hrest].
  pose proof (read_bytes_shrinks _ _ _ _ H). rewrite Hl, Z2Nat.id by lia. repeat split; try assumption; lia.
Qed.
(* alloc_bounded: the buffer ReadVarBytes allocates never exceeds the stated maximum *)
Theorem varbytes_alloc_bounded max bs b rest :
  bytes_ok bs -> read_varbytes max bs = Some (b, rest) -> Z.of_nat (length b) <= max.
Proof. intros Hb H. apply read_varbytes_some in H; tauto. Qed.
Theorem varbytes_rejects_over_max max bs n r :
  read_varuint bs = Some (n, r) -> max < n -> read_varbytes max bs = None.
Proof. intros Hn Hm. unfold read_varbytes. rewrite (bind_ok _ _ _ _ _ Hn). now replace (max <? n) with true by lia. Qed.
Theorem varbytes_canonical max bs b rest rest' :
  bytes_ok bs -> read_varbytes max bs = Some (b, rest) -> read_varbytes max (write_varbytes b ++ rest') = Some (b, rest').
Proof. intros Hb H. apply read_varbytes_some in H; [|assumption]. apply varbytes_roundtrip; tauto. Qed.
Theorem varbytes_size_eq b : Z.of_nat (length b) <= 4294967295 ->
  varbytes_size b = Z.of_nat (length (write_varbytes b)).
Proof.
  intros H. unfold varbytes_size, write_varbytes. rewrite app_length, varuint_size_eq by lia. lia.
Qed.
Lemma write_varbytes_ok b : bytes_ok b -> bytes_ok (write_varbytes b).
Proof. intros H. unfold write_varbytes. apply bytes_ok_app. split; [apply write_varuint_ok; lia|exact H]. Qed.
Lemma varbytes_codec max : max < 2 ^ 64 ->
  codec_ok (fun b => Z.of_nat (length b) <= max) write_varbytes (read_varbytes max).
Proof. intros Hm b rest H. apply varbytes_roundtrip; lia. Qed.
Lemma varbytes_wf max : dec_wf (fun b => Z.of_nat (length b) <= max /\ bytes_ok b) (read_varbytes max).
Proof. intros bs b rest Hb H. apply read_varbytes_some in H; tauto. Qed.
Lemma read_varbytes_consumes max : dec_consumes (read_varbytes max).
Proof.
  intros bs b rest H. unfold read_varbytes in H. apply bind_some in H as (n & r & Hn & H).
  apply read_varuint_consumes in Hn. case_if_in H; [discriminate|]. apply read_bytes_shrinks in H. lia.
Qed.

(* ---------- sequences ---------- *)
Lemma read_n_write {A} (wf : A -> Prop) w (d : dec A) :
  codec_ok wf w d -> forall l rest, Forall wf l -> read_n d (length l) (write_list w l ++ rest) = Some (l, rest).
Proof.
  intros Hc l. induction l as [|x t IH]; intros rest Hf; [reflexivity|]. inv Hf.
  cbn [length read_n write_list flat_map]. fold (write_list w t). rewrite <- app_assoc.
  rewrite (bind_ok _ _ _ x (write_list w t ++ rest)) by (apply Hc; assumption).
  rewrite (bind_ok _ _ _ t rest) by (apply IH; assumption). reflexivity.
Qed.
Lemma read_n_some {A} (wf : A -> Prop) (d : dec A) :
  dec_wf wf d -> forall n bs l rest, bytes_ok bs -> read_n d n bs = Some (l, rest) ->
  Forall wf l /\ length l = n /\ bytes_ok rest.
Proof.
  intros Hw n. induction n as [|n IH]; intros bs l rest Hb H; cbn [read_n] in H.
  - inv H. auto.
  - apply bind_some in H as (x & r & Hx & H). apply bind_some in H as (t & r' & Ht & H). inv H.
    destruct (Hw _ _ _ Hb Hx) as [Hwx Hr]. destruct (IH _ _ _ Hr Ht) as (Hf & Hl & Hr').
    split; [constructor; assumption|]. split; [simpl; lia|assumption].
Qed.
Lemma read_n_shrinks {A} (d : dec A) : dec_shrinks d -> forall n, dec_shrinks (read_n d n).
Proof.
  intros Hs n. induction n as [|n IH]; intros bs l rest H; cbn [read_n] in H.
  - inv H. lia.
  - apply bind_some in H as (x & r & Hx & H). apply bind_some in H as (t & r' & Ht & H). inv H.
    apply Hs in Hx. apply IH in Ht. lia.
Qed.
(* each accepted element consumed a byte: the count is bounded by the input length (no amplification) *)
Lemma read_n_count {A} (d : dec A) : dec_consumes d -> forall n bs l rest,
  read_n d n bs = Some (l, rest) -> (n + length rest <= length bs)%nat.
Proof.
  intros Hs n. induction n as [|n IH]; intros bs l rest H; cbn [read_n] in H.
  - inv H. lia.
  - apply bind_some in H as (x & r & Hx & H). apply bind_some in H as (t & r' & Ht & H). inv H.
    apply Hs in Hx. apply IH in Ht. lia.
Qed.

Theorem array_roundtrip {A} (wf : A -> Prop) w (d : dec A) max :
  codec_ok wf w d -> forall l rest, Forall wf l -> Z.of_nat (length l) <= max -> Z.of_nat (length l) < 2 ^ 64 ->
  read_array d max (write_array w l ++ rest) = Some (l, rest).
Proof.
  intros Hc l rest Hf Hm H64. unfold read_array, write_array. rewrite <- app_assoc.
  rewrite (bind_ok _ _ _ (Z.of_nat (length l)) (write_list w l ++ rest)) by (apply varuint_roundtrip; unfold u64_ok; lia).
  replace (max <? Z.of_nat (length l)) with false by lia. rewrite Nat2Z.id. eapply read_n_write; eauto.
Qed.
Lemma read_array_some {A} (wf : A -> Prop) (d : dec A) max :
  dec_wf wf d -> forall bs l rest, bytes_ok bs -> read_array d max bs = Some (l, rest) ->
  Forall wf l /\ Z.of_nat (length l) <= max /\ Z.of_nat (length l) < 2 ^ 64 /\ bytes_ok rest.
Proof.
  intros Hw bs l rest Hb H. unfold read_array in H. apply bind_some in H as (n & r & Hn & H).
  pose proof (read_varuint_some _ _ _ Hb Hn) as ([Hn0 Hn1] & Hr & _).
  case_if_in H; [discriminate|]. destruct (read_n_some wf d Hw _ _ _ _ Hr H) as (Hf & Hl & Hrest).
  rewrite Hl, Z2Nat.id by lia. repeat split; try assumption; lia.
Qed.
Lemma read_array_consumes {A} (d : dec A) max : dec_shrinks d -> dec_consumes (read_array d max).
Proof.
  intros Hs bs l rest H. unfold read_array in H. apply bind_some in H as (n & r & Hn & H).
  apply read_varuint_consumes in Hn. case_if_in H; [discriminate|]. apply (read_n_shrinks d Hs) in H. lia.
Qed.
Lemma consumes_shrinks {A} (d : dec A) : dec_consumes d -> dec_shrinks d.
Proof. intros H bs v rest E. apply H in E. lia. Qed.

Lemma write_list_ok {A} (w : A -> list Z) l : Forall (fun x => bytes_ok (w x)) l -> bytes_ok (write_list w l).
Proof.
  induction 1 as [|x t Hx Ht IH]; [constructor|]. cbn [write_list flat_map]. apply bytes_ok_app. split; assumption.
Qed.
Lemma write_list_length {A} (w : A -> list Z) l :
  Z.of_nat (length (write_list w l)) = fold_right (fun x acc => Z.of_nat (length (w x)) + acc) 0 l.
Proof. induction l as [|x t IH]; [reflexivity|]. cbn [write_list flat_map fold_right]. rewrite app_length. fold (write_list w t). lia. Qed.
(* size_eq for GetVarSize(slice of Serializable) *)
Theorem array_size_eq {A} (w : A -> list Z) (sz : A -> Z) l :
  Z.of_nat (length l) <= 4294967295 -> Forall (fun x => sz x = Z.of_nat (length (w x))) l ->
  array_size sz l = Z.of_nat (length (write_array w l)).
Proof.
  intros Hl Hf. unfold array_size, write_array. rewrite app_length, varuint_size_eq by lia.
  rewrite Nat2Z.inj_add, write_list_length. f_equal.
  induction Hf as [|x t Hx Ht IH]; [reflexivity|]. cbn [fold_right]. rewrite Hx, IH; [reflexivity|]. simpl in Hl. lia.
Qed.

(* ---------- booleans ---------- *)
Lemma read_bool_write b rest : read_bool (write_bool b ++ rest) = Some (b, rest).
Proof. destruct b; reflexivity. Qed.
Lemma read_bool_some bs b rest : read_bool bs = Some (b, rest) -> bs = write_bool b ++ rest.
Proof.
  unfold read_bool. intros H. apply bind_some in H as (x & r & Hx & H). apply read_b_some in Hx as ->.
  repeat case_if_in H; try discriminate; inv H; cbn [write_bool app]; f_equal; lia.
Qed.
(* BinReader.ReadBool accepts every non-zero byte: a second source of non-canonical encodings *)
Lemma read_bool_lax_nonminimal rest : read_bool_lax (2 :: rest) = Some (true, rest) /\ write_bool true = [1].
Proof. split; reflexivity. Qed.
Lemma read_bool_lax_write b rest : read_bool_lax (write_bool b ++ rest) = Some (b, rest).
Proof. destruct b; reflexivity. Qed.

(* ---------- byte_eqb ---------- *)
Lemma byte_eqb_eq a b : byte_eqb a b = true <-> a = b.
Proof.
  unfold byte_eqb. revert b. induction a as [|x a IH]; intros [|y b]; cbn; try (split; intros; try discriminate; try reflexivity; lia).
  specialize (IH b). rewrite !andb_true_iff in *. rewrite Nat.eqb_eq in *. rewrite Z.eqb_eq.
  split.
  - intros (Hl & Hxy & Hf). f_equal; [exact Hxy|]. apply IH. split; [lia|exact Hf].
  - intros E. inv E. destruct IH as [_ IH]. specialize (IH eq_refl) as [Hl Hf]. repeat split; auto.
Qed.

(* ---------- non-vacuity ---------- *)
Example varuint_ex :
  write_varuint 252 = [252] /\ write_varuint 253 = [253; 253; 0] /\ write_varuint 65535 = [253; 255; 255]
  /\ write_varuint 65536 = [254; 0; 0; 1; 0]
  /\ read_varuint [253; 1; 0; 7] = Some (1, [7]) /\ write_varuint 1 = [1]       (* non-minimal accepted, not produced *)
  /\ read_varbytes 2 [3; 1; 2; 3] = None /\ read_varbytes 3 [3; 1; 2; 3] = Some ([1; 2; 3], []).
Proof. repeat split; vm_compute; reflexivity. Qed.
